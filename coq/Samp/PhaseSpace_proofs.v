(* Samp/PhaseSpace_proofs.v — lemmas about Samp/PhaseSpace.v *)
From Coq Require Import Reals Lra List Lia Bool Permutation.
From TFV Require Import Base.RBase Kin.Boost Kin.Boost_proofs Kin.Angles Kin.Angles_proofs Samp.PhaseSpace.
Import ListNotations.
Open Scope R_scope.

(* ------------------------------------------------------------------ counts *)
Theorem generate_count {A : Type} (N : nat) (batches : list (list A)) :
  (N <= length (concat batches))%nat -> length (generate_out N batches) = N.
Proof. intros H. unfold generate_out. apply firstn_length_le. exact H. Qed.

Theorem generate_count_short {A : Type} (N : nat) (batches : list (list A)) :
  (length (concat batches) <= N)%nat -> generate_out N batches = concat batches.
Proof. intros H. unfold generate_out. apply firstn_all2. exact H. Qed.

(* ------------------------------------------------------------------ two-body step *)
Lemma get_p_prod_nonneg M a b : 0 <= a -> 0 <= b -> a + b <= M ->
  0 <= (M * M - (a + b) * (a + b)) * (M * M - (a - b) * (a - b)).
Proof. intros. apply Rmult_le_pos; nra. Qed.

Lemma get_p_sq M a b : 0 <= a -> 0 <= b -> a + b <= M -> 0 < M ->
  get_p M a b * get_p M a b = (M * M - (a + b) * (a + b)) * (M * M - (a - b) * (a - b)) / (4 * M * M).
Proof.
  intros Ha Hb HM H0. unfold get_p. pose proof (get_p_prod_nonneg M a b Ha Hb HM) as Hp.
  rewrite rmax_0_pos by assumption.
  set (X := (M * M - (a + b) * (a + b)) * (M * M - (a - b) * (a - b))) in *.
  replace (sqrt X / (2 * M) * (sqrt X / (2 * M))) with (sqrt X * sqrt X / (4 * M * M)) by (field; lra).
  rewrite sqrt_sqrt by assumption. reflexivity.
Qed.

Lemma get_p_nonneg M a b : 0 < M -> 0 <= get_p M a b.
Proof.
  intros. unfold get_p. apply Rmult_le_pos; [apply sqrt_pos|]. left. apply Rinv_0_lt_compat. lra.
Qed.

Lemma two_body_energy M a b : 0 <= a -> 0 <= b -> a + b <= M -> 0 < M ->
  let q := get_p M a b in
  sqrt (q * q + b * b) = (M * M + b * b - a * a) / (2 * M) /\ sqrt (q * q + a * a) = (M * M + a * a - b * b) / (2 * M).
Proof.
  intros Ha Hb HM H0 q. unfold q. rewrite get_p_sq by assumption. split.
  - replace ((M * M - (a + b) * (a + b)) * (M * M - (a - b) * (a - b)) / (4 * M * M) + b * b)
      with (((M * M + b * b - a * a) / (2 * M)) * ((M * M + b * b - a * a) / (2 * M))) by (field; lra).
    apply sqrt_square. apply Rmult_le_pos; [nra|]. left. apply Rinv_0_lt_compat. lra.
  - replace ((M * M - (a + b) * (a + b)) * (M * M - (a - b) * (a - b)) / (4 * M * M) + a * a)
      with (((M * M + a * a - b * b) / (2 * M)) * ((M * M + a * a - b * b) / (2 * M))) by (field; lra).
    apply sqrt_square. apply Rmult_le_pos; [nra|]. left. apply Rinv_0_lt_compat. lra.
Qed.

(* each of the two momenta is on its mass shell (any angle with |cos theta| <= 1) *)
Theorem two_body_on_shell M m1 m2 ct phi : -1 <= ct <= 1 ->
  mass2 (two_body_p M m1 m2 ct phi) = m2 * m2 /\ mass2 (neg4 (two_body_recoil M m1 m2 ct phi)) = m1 * m1.
Proof.
  intros Hc. unfold two_body_p, two_body_recoil, mass2, mink, neg4. cbv zeta. cbn [pt px py pz].
  set (q := get_p M m1 m2). set (st := sqrt (1 - ct * ct)).
  assert (Hst : st * st = 1 - ct * ct) by (apply sqrt_sqrt; nra).
  pose proof (sin2_cos2 phi) as Hf. unfold Rsqr in Hf.
  assert (E1 : forall m, sqrt (q * q + m * m) * sqrt (q * q + m * m) = q * q + m * m) by (intros; apply sqrt_sqrt; nra).
  split.
  - rewrite E1.
    replace (q * st * cos phi * (q * st * cos phi)) with (q * q * (st * st) * (cos phi * cos phi)) by ring.
    replace (q * st * sin phi * (q * st * sin phi)) with (q * q * (st * st) * (sin phi * sin phi)) by ring.
    rewrite Hst. replace (cos phi * cos phi) with (1 - sin phi * sin phi) by lra. ring.
  - rewrite E1.
    replace (- (q * st * cos phi) * - (q * st * cos phi)) with (q * q * (st * st) * (cos phi * cos phi)) by ring.
    replace (- (q * st * sin phi) * - (q * st * sin phi)) with (q * q * (st * st) * (sin phi * sin phi)) by ring.
    rewrite Hst. replace (cos phi * cos phi) with (1 - sin phi * sin phi) by lra. ring.
Qed.

(* and they add up to the parent at rest *)
Theorem two_body_sum_at_rest M m1 m2 ct phi : 0 <= m1 -> 0 <= m2 -> m1 + m2 <= M -> 0 < M ->
  add4 (two_body_p M m1 m2 ct phi) (neg4 (two_body_recoil M m1 m2 ct phi)) = V4 M 0 0 0.
Proof.
  intros H1 H2 HM H0. destruct (two_body_energy M m1 m2 H1 H2 HM H0) as [E2 E1]. cbv zeta in E1, E2.
  unfold two_body_p, two_body_recoil, add4, neg4. cbv zeta. cbn [pt px py pz].
  apply vec4_eq; cbn [pt px py pz]; try ring. rewrite E1, E2. field. lra.
Qed.


(* the particles generated earlier keep their masses when boosted into the new parent frame *)
Theorem step_preserves_mass R_ p : vel_ok (neg3 (boost_vector R_)) -> mass (rest_vector R_ p) = mass p.
Proof. intros H. unfold rest_vector. apply mass_boost. exact H. Qed.

(* get_p grows with the parent mass above threshold (squared form) *)
Lemma get_p_sq_mono M1 M2 a b : 0 <= a -> 0 <= b -> a + b <= M1 -> M1 <= M2 -> 0 < M1 ->
  get_p M1 a b * get_p M1 a b <= get_p M2 a b * get_p M2 a b.
Proof.
  intros Ha Hb H1 H12 H0. rewrite !get_p_sq by lra.
  set (s := (a + b) * (a + b)). set (d := (a - b) * (a - b)).
  assert (Hs : 0 <= s) by (unfold s; apply Rmult_le_pos; lra). assert (Hd : 0 <= d) by (unfold d; apply (Rle_0_sqr (a - b))).
  assert (Hds : d <= s). { unfold s, d. assert (0 <= 4 * (a * b)) by (apply Rmult_le_pos; [lra|apply Rmult_le_pos; lra]). lra. }
  assert (HsM : s <= M1 * M1). { unfold s. apply Rmult_le_compat; lra. }
  assert (H2 : M1 * M1 <= M2 * M2) by (apply Rmult_le_compat; lra).
  set (x := M1 * M1) in *. set (y := M2 * M2) in *.
  replace ((x - s) * (x - d) / (4 * M1 * M1)) with ((x - s) * (x - d) / (4 * x)) by (unfold x; f_equal; ring).
  replace ((y - s) * (y - d) / (4 * M2 * M2)) with ((y - s) * (y - d) / (4 * y)) by (unfold y; f_equal; ring).
  assert (Hx : 0 < x) by (unfold x; nra). assert (Hy : 0 < y) by lra.
  apply Rmult_le_reg_r with (4 * x * y); [nra|].
  replace ((x - s) * (x - d) / (4 * x) * (4 * x * y)) with ((x - s) * (x - d) * y) by (field; lra).
  replace ((y - s) * (y - d) / (4 * y) * (4 * x * y)) with ((y - s) * (y - d) * x) by (field; lra).
  (* (y-x) (x y - s d) >= 0 *)
  assert (Hsd : s * d <= x * y) by nra.
  assert (E : (y - s) * (y - d) * x - (x - s) * (x - d) * y = (y - x) * (x * y - s * d)) by ring.
  assert (0 <= (y - x) * (x * y - s * d)) by (apply Rmult_le_pos; lra).
  lra.
Qed.

(* ------------------------------------------------------------------ whole events *)


Lemma sum4_map_boost v l : sum4 (map (fun p => boost p v) l) = boost (sum4 l) v.
Proof.
  induction l as [|p l IH]; cbn [map sum4].
  - unfold boost, boost_g, zero4. apply vec4_eq; unfold mk4, add3, scale3, dot3, vect; cbn [pt px py pz vx vy vz]; ring.
  - rewrite IH, boost_add. reflexivity.
Qed.

Lemma two_body_vec_norm M m1 m2 ct phi : -1 <= ct <= 1 ->
  norm2_3 (vect (two_body_recoil M m1 m2 ct phi)) = get_p M m1 m2 * get_p M m1 m2.
Proof.
  intros Hc. unfold two_body_recoil, norm2_3, dot3, vect. cbv zeta. cbn [px py pz vx vy vz].
  set (q := get_p M m1 m2). set (st := sqrt (1 - ct * ct)).
  assert (Hst : st * st = 1 - ct * ct) by (apply sqrt_sqrt; nra).
  pose proof (sin2_cos2 phi) as Hf. unfold Rsqr in Hf.
  replace (q * st * cos phi * (q * st * cos phi) + q * st * sin phi * (q * st * sin phi) + q * ct * (q * ct))
    with (q * q * ((st * st) * (cos phi * cos phi + sin phi * sin phi) + ct * ct)) by ring.
  rewrite Hst. replace (cos phi * cos phi + sin phi * sin phi) with 1 by lra. ring.
Qed.

(* the recoil vector is (sqrt(m1^2 + |p|^2), p) *)
Lemma recoil_form M m1 m2 ct phi : -1 <= ct <= 1 ->
  let R_ := two_body_recoil M m1 m2 ct phi in
  R_ = mk4 (sqrt (m1 * m1 + norm2_3 (vect R_))) (vect R_).
Proof.
  intros Hc R_. unfold R_. rewrite (two_body_vec_norm M m1 m2 ct phi Hc).
  unfold two_body_recoil. cbv zeta. apply vec4_eq; unfold mk4, vect; cbn [pt px py pz vx vy vz]; try reflexivity.
  f_equal. ring.
Qed.

Lemma rest_vector_parent M m1 m2 ct phi : -1 <= ct <= 1 -> 0 < m1 ->
  rest_vector (two_body_recoil M m1 m2 ct phi) (V4 m1 0 0 0) = neg4 (two_body_recoil M m1 m2 ct phi).
Proof.
  intros Hc Hm. set (R_ := two_body_recoil M m1 m2 ct phi).
  pose proof (recoil_form M m1 m2 ct phi Hc) as HR. cbv zeta in HR. fold R_ in HR.
  unfold rest_vector.
  set (p3 := vect R_) in *.
  assert (E : neg3 (boost_vector R_) = boost_vector (mk4 (sqrt (m1 * m1 + norm2_3 (neg3 p3))) (neg3 p3))).
  { rewrite norm2_3_neg. rewrite HR at 1. apply vec3_eq; unfold boost_vector, mk4, neg3; cbn [pt px py pz vx vy vz]; unfold Rdiv; ring. }
  rewrite E, (boost_from_rest m1 (neg3 p3) Hm), norm2_3_neg. rewrite HR.
  apply vec4_eq; unfold neg4, mk4, neg3; cbn [pt px py pz vx vy vz]; reflexivity.
Qed.

Lemma recoil_vel_ok M m1 m2 ct phi : -1 <= ct <= 1 -> 0 < m1 ->
  eps < get_p M m1 m2 * get_p M m1 m2 / (get_p M m1 m2 * get_p M m1 m2 + m1 * m1) ->
  vel_ok (neg3 (boost_vector (two_body_recoil M m1 m2 ct phi))).
Proof.
  intros Hc Hm He. unfold vel_ok. rewrite norm2_3_neg.
  pose proof (two_body_vec_norm M m1 m2 ct phi Hc) as Hn.
  set (R_ := two_body_recoil M m1 m2 ct phi) in *.
  assert (Hpt : pt R_ = sqrt (get_p M m1 m2 * get_p M m1 m2 + m1 * m1)) by reflexivity.
  set (q2 := get_p M m1 m2 * get_p M m1 m2) in *.
  assert (Hq2 : 0 <= q2) by (unfold q2; apply Rle_0_sqr).
  assert (Hm2 : 0 < m1 * m1) by (apply Rmult_lt_0_compat; lra).
  assert (HE : 0 < pt R_) by (rewrite Hpt; apply sqrt_lt_R0; lra).
  rewrite boost_vector_norm2 by lra. rewrite Hn, Hpt, sqrt_sqrt by lra. split; [assumption|].
  apply Rmult_lt_reg_r with (q2 + m1 * m1); [lra|].
  unfold Rdiv. rewrite Rmult_assoc, Rinv_l by lra. lra.
Qed.

(* one later step of the ladder keeps "all on shell, sum = parent at rest" *)
Lemma gen_step_inv M prev a ct phi l masses :
  -1 <= ct <= 1 -> 0 <= a -> 0 < prev -> prev + a <= M ->
  eps < get_p M prev a * get_p M prev a / (get_p M prev a * get_p M prev a + prev * prev) ->
  l <> [] -> map mass2 l = map sq masses -> sum4 l = V4 prev 0 0 0 ->
  map mass2 (gen_step M prev a ct phi l) = map sq (a :: masses) /\ sum4 (gen_step M prev a ct phi l) = V4 M 0 0 0.
Proof.
  intros Hc Ha Hp HM He Hne Hmass Hsum.
  pose proof (recoil_vel_ok M prev a ct phi Hc Hp He) as Hv.
  destruct l as [|p0 l0]; [congruence|]. unfold gen_step.
  set (R_ := two_body_recoil M prev a ct phi) in *. set (l := p0 :: l0) in *.
  destruct (two_body_on_shell M prev a ct phi Hc) as [Hs1 _].
  split.
  - cbn [map]. rewrite Hs1. unfold sq at 1. f_equal. rewrite map_map, <- Hmass.
    apply map_ext. intros p. unfold rest_vector, mass2. apply mink_boost, Hv.
  - cbn [sum4]. unfold rest_vector. rewrite sum4_map_boost, Hsum.
    fold (rest_vector R_ (V4 prev 0 0 0)). unfold R_. rewrite rest_vector_parent by assumption.
    apply two_body_sum_at_rest; lra.
Qed.

Lemma last_cons_default (l : list R) : forall a d, last (a :: l) d = last l a.
Proof. induction l as [|b l IH]; intros a d; [reflexivity|]. change (last (a :: b :: l) d) with (last (b :: l) d). rewrite !IH. reflexivity. Qed.

Lemma gen_momentum_inv ladder : forall tl angles prev l masses,
  ladder_valid prev ladder tl -> boosts_ok prev ladder tl -> length angles = length tl ->
  (forall ct phi, In (ct, phi) angles -> -1 <= ct <= 1) ->
  l <> [] -> map mass2 l = map sq masses -> sum4 l = V4 prev 0 0 0 ->
  map mass2 (gen_momentum prev ladder tl angles l) = map sq (rev tl ++ masses) /\
  sum4 (gen_momentum prev ladder tl angles l) = V4 (last ladder prev) 0 0 0.
Proof.
  induction ladder as [|M ladder IH]; intros tl angles prev l masses Hval Hb Hlen Hang Hne Hmass Hsum.
  - destruct tl; cbn in Hval; [|contradiction]. cbn. split; assumption.
  - destruct tl as [|a tl]; cbn in Hval; [contradiction|]. destruct Hval as (Ha & HM & Hval).
    destruct angles as [|[ct phi] angles]; [cbn in Hlen; lia|].
    cbn [boosts_ok] in Hb. destruct Hb as (Hp & He & Hb).
    assert (Hc : -1 <= ct <= 1) by (apply (Hang ct phi); left; reflexivity).
    destruct (gen_step_inv M prev a ct phi l masses Hc Ha Hp HM He Hne Hmass Hsum) as [S1 S2].
    cbn [gen_momentum].
    destruct (IH tl angles M (gen_step M prev a ct phi l) (a :: masses) Hval Hb ltac:(cbn in Hlen; lia)
                ltac:(intros c f Hin; apply (Hang c f); right; exact Hin) ltac:(unfold gen_step; discriminate) S1 S2) as [R1 R2].
    split.
    + rewrite R1. cbn [rev]. rewrite <- app_assoc. reflexivity.
    + rewrite R2, last_cons_default. reflexivity.
Qed.

(* every event of the n-body generator (n >= 2): all particles on shell, momenta add up to (m0,0,0,0) *)
Theorem event_physical m0 a0 a1 tl Ms angles :
  0 <= a0 -> ladder_valid a0 (Ms ++ [m0]) (a1 :: tl) ->
  match Ms ++ [m0] with M1 :: ladder' => 0 < M1 /\ boosts_ok M1 ladder' tl | [] => True end ->
  length angles = S (length tl) -> (forall ct phi, In (ct, phi) angles -> -1 <= ct <= 1) ->
  map mass2 (event m0 a0 (a1 :: tl) Ms angles) = map sq (rev (a0 :: a1 :: tl)) /\
  sum4 (event m0 a0 (a1 :: tl) Ms angles) = V4 m0 0 0 0.
Proof.
  intros H0 Hval Hb Hlen Hang. unfold event.
  remember (Ms ++ [m0]) as ladder eqn:El.
  destruct ladder as [|M1 ladder']; [destruct Ms; discriminate|].
  cbn in Hval. destruct Hval as (Ha1 & HM1 & Hval). destruct Hb as [HM1pos Hb].
  destruct angles as [|[ct phi] angles]; [cbn in Hlen; lia|].
  assert (Hc : -1 <= ct <= 1) by (apply (Hang ct phi); left; reflexivity).
  cbn [gen_momentum]. change (gen_step M1 a0 a1 ct phi []) with [two_body_p M1 a0 a1 ct phi; neg4 (two_body_recoil M1 a0 a1 ct phi)].
  destruct (two_body_on_shell M1 a0 a1 ct phi Hc) as [Hs1 Hs2].
  pose proof (two_body_sum_at_rest M1 a0 a1 ct phi H0 Ha1 HM1 HM1pos) as Hsum.
  destruct (gen_momentum_inv ladder' tl angles M1 [two_body_p M1 a0 a1 ct phi; neg4 (two_body_recoil M1 a0 a1 ct phi)] [a1; a0]
             Hval Hb ltac:(cbn in Hlen; lia) ltac:(intros c f Hin; apply (Hang c f); right; exact Hin) ltac:(discriminate)) as [R1 R2].
  - cbn [map]. rewrite Hs1, Hs2. reflexivity.
  - cbn [sum4]. rewrite <- Hsum. apply vec4_eq; unfold add4, zero4; cbn [pt px py pz]; ring.
  - split.
    + rewrite R1. cbn [rev]. rewrite <- !app_assoc. reflexivity.
    + rewrite R2. f_equal.
      rewrite <- (last_cons_default ladder' M1 0), El. apply last_last.
Qed.

(* ------------------------------------------------------------------ weight bound *)
Lemma imp_aux_step first m0 m_n sm a1 a2 rest' M Ms' amin amax rng' :
  imp_aux first m0 m_n sm (a1 :: a2 :: rest') (M :: Ms') ((amin, amax) :: rng') =
  (if first then 1 else (m0 - sm - (m_n + a1)) / (m0 - sm - amin)) * imp_aux false m0 M (sm - a2) (a2 :: rest') Ms' rng'.
Proof. reflexivity. Qed.
Lemma sq_le_le x y : 0 <= x -> 0 <= y -> x * x <= y * y -> x <= y.
Proof. intros Hx Hy H. destruct (Rle_lt_dec x y) as [|Hlt]; [assumption|]. exfalso.
  assert (y * y < x * x) by (apply Rmult_le_0_lt_compat; lra). lra. Qed.

(* get_p falls with the mass of the first daughter *)
Lemma get_p_sq_anti M a a' b : 0 <= a -> a <= a' -> 0 <= b -> a' + b <= M -> 0 < M ->
  get_p M a' b * get_p M a' b <= get_p M a b * get_p M a b.
Proof.
  intros Ha Haa Hb HM H0. rewrite !get_p_sq by lra.
  apply Rmult_le_compat_r; [left; apply Rinv_0_lt_compat; apply Rmult_lt_0_compat; lra|].
  set (A := a * a). set (A' := a' * a'). set (B := b * b). set (X := M * M).
  assert (HA : A <= A') by (unfold A, A'; apply Rmult_le_compat; lra).
  assert (HA'X : A' <= X) by (unfold A', X; apply Rmult_le_compat; lra).
  assert (HB : 0 <= B) by (unfold B; apply Rle_0_sqr).
  assert (HA0 : 0 <= A) by (unfold A; apply Rle_0_sqr).
  assert (E : (X - (a + b) * (a + b)) * (X - (a - b) * (a - b)) - (X - (a' + b) * (a' + b)) * (X - (a' - b) * (a' - b))
              = (A' - A) * (2 * X + 2 * B - A - A')) by (unfold A, A', B, X; ring).
  assert (0 <= (A' - A) * (2 * X + 2 * B - A - A')) by (apply Rmult_le_pos; lra).
  lra.
Qed.

Lemma get_p_le M1 M2 a a' b : 0 <= a -> a <= a' -> 0 <= b -> a' + b <= M1 -> M1 <= M2 -> 0 < M1 ->
  get_p M1 a' b <= get_p M2 a b.
Proof.
  intros. apply sq_le_le; [apply get_p_nonneg; lra|apply get_p_nonneg; lra|].
  apply Rle_trans with (get_p M1 a b * get_p M1 a b); [apply get_p_sq_anti; lra|apply get_p_sq_mono; lra].
Qed.



Lemma rprod_le l1 : forall l2, Forall2 (fun x y => 0 <= x <= y) l1 l2 -> 0 <= rprod l1 <= rprod l2.
Proof.
  induction l1 as [|x l1 IH]; intros l2 H; inversion H; subst; cbn [rprod]; [lra|].
  specialize (IH _ H4). destruct H2. split; [apply Rmult_le_pos; lra|apply Rmult_le_compat; lra].
Qed.

Lemma q_le_wtmax tl : forall ladder prev emmin emmax prevA,
  ladder_valid prev ladder tl -> upper_ok emmax ladder tl -> 0 <= emmin + prevA -> emmin + prevA <= prev ->
  Forall (fun M => 0 < M) ladder ->
  Forall2 (fun x y => 0 <= x <= y) (q_list prev ladder tl) (wtmax_list emmin emmax prevA tl).
Proof.
  induction tl as [|a tl IH]; intros ladder prev emmin emmax prevA Hval Hup Hlo Hle Hpos.
  - destruct ladder; cbn; constructor.
  - destruct ladder as [|M ladder]; [cbn in Hval; contradiction|].
    cbn in Hval. destruct Hval as (Ha & HM & Hval). cbn in Hup. destruct Hup as (HMu & Hup).
    inversion Hpos as [|? ? HMpos Hpos']; subst.
    cbn [q_list wtmax_list]. constructor.
    + split; [apply get_p_nonneg; assumption|]. apply get_p_le; lra.
    + apply IH; try assumption; lra.
Qed.

Lemma ladder_valid_sum tl : forall ladder prev, ladder_valid prev ladder tl -> prev + rsum tl <= last ladder prev.
Proof.
  induction tl as [|a tl IH]; intros ladder prev H.
  - destruct ladder; cbn in *; [lra|contradiction].
  - destruct ladder as [|M ladder]; cbn in H; [contradiction|]. destruct H as (Ha & HM & H).
    specialize (IH _ _ H). cbn [rsum]. rewrite last_cons_default. lra.
Qed.

Lemma upper_ok_of_valid tl : forall ladder prev e, ladder_valid prev ladder tl -> last ladder prev = e + rsum tl ->
  upper_ok e ladder tl.
Proof.
  induction tl as [|a tl IH]; intros ladder prev e H Hl.
  - destruct ladder; cbn; exact I.
  - destruct ladder as [|M ladder]; cbn in H; [contradiction|]. destruct H as (Ha & HM & H).
    cbn [upper_ok]. rewrite last_cons_default in Hl. cbn [rsum] in Hl.
    pose proof (ladder_valid_sum _ _ _ H) as Hs. split; [lra|].
    apply (IH ladder M (e + a) H). lra.
Qed.

(* the product of break-up momenta never exceeds the stored bound *)
Theorem prod_q_le_wtmax m0 a0 tl Ms : 0 <= a0 -> ladder_valid a0 (Ms ++ [m0]) tl -> Forall (fun M => 0 < M) (Ms ++ [m0]) ->
  0 <= rprod (q_list a0 (Ms ++ [m0]) tl) <= wt_max m0 a0 tl.
Proof.
  intros H0 Hval Hpos. unfold wt_max. apply rprod_le. apply q_le_wtmax; try assumption; try lra.
  apply (upper_ok_of_valid tl (Ms ++ [m0]) a0); [assumption|].
  rewrite last_last. ring.
Qed.


Lemma ranges_aux_step m0 m_n sm a1 a2 rest :
  ranges_aux m0 m_n sm (a1 :: a2 :: rest) = (m_n + a1, m0 - sm) :: ranges_aux m0 (m_n + a1) (sm - a2) (a2 :: rest).
Proof. reflexivity. Qed.

Lemma imp_bounds m0 tl : forall first m_n mlow sm Ms, mlow <= m_n -> ranges_respected m0 m_n mlow sm tl Ms ->
  0 <= imp_aux first m0 m_n sm tl Ms (ranges_aux m0 mlow sm tl) <= 1.
Proof.
  induction tl as [|a1 rest IH]; intros first m_n mlow sm Ms Hlow Hr.
  - cbn. lra.
  - destruct rest as [|a2 rest'].
    + cbn. destruct Ms; cbn; lra.
    + destruct Ms as [|M Ms'].
      * cbn. lra.
      * rewrite ranges_aux_step, imp_aux_step. cbn [ranges_respected] in Hr. destruct Hr as (Hab & Hmin & HaM & Hr).
        specialize (IH false M (mlow + a1) (sm - a2) Ms' ltac:(lra) Hr).
        assert (Hf : 0 <= (if first then 1 else (m0 - sm - (m_n + a1)) / (m0 - sm - (mlow + a1))) <= 1).
        { destruct first; [lra|]. split.
          - apply Rmult_le_pos; [lra|]. left. apply Rinv_0_lt_compat. lra.
          - apply Rmult_le_reg_r with (m0 - sm - (mlow + a1)); [lra|]. unfold Rdiv. rewrite Rmult_assoc, Rinv_l by lra. lra. }
        split; [apply Rmult_le_pos; lra|].
        apply Rle_trans with (1 * 1); [apply Rmult_le_compat; lra|lra].
Qed.

Theorem weight_le_one m0 a0 tl Ms : 0 <= a0 -> ladder_valid a0 (Ms ++ [m0]) tl -> Forall (fun M => 0 < M) (Ms ++ [m0]) ->
  ranges_respected m0 a0 a0 (sm0 tl) tl Ms -> 0 < wt_max m0 a0 tl ->
  0 <= weight m0 a0 tl Ms <= 1.
Proof.
  intros H0 Hval Hpos Hr Hw. unfold weight, weight_w, weight_raw_w, importance, mass_ranges.
  pose proof (imp_bounds m0 tl true a0 a0 (sm0 tl) Ms ltac:(lra) Hr) as [I0 I1].
  pose proof (prod_q_le_wtmax m0 a0 tl Ms H0 Hval Hpos) as [P0 P1].
  assert (R0 : 0 <= rprod (q_list a0 (Ms ++ [m0]) tl) / wt_max m0 a0 tl <= 1).
  { split; [apply Rmult_le_pos; [assumption|left; apply Rinv_0_lt_compat; assumption]|].
    apply Rmult_le_reg_r with (wt_max m0 a0 tl); [assumption|]. unfold Rdiv. rewrite Rmult_assoc, Rinv_l by lra. lra. }
  split; [apply Rmult_le_pos; lra|]. apply Rle_trans with (1 * 1); [apply Rmult_le_compat; lra|lra].
Qed.

(* ------------------------------------------------------------------ LIPS flatness *)

Lemma density_step m0 m_n sm a1 a2 rest' M Ms' :
  density_aux m0 m_n sm (a1 :: a2 :: rest') (M :: Ms') = / (m0 - sm - (m_n + a1)) * density_aux m0 M (sm - a2) (a2 :: rest') Ms'.
Proof. reflexivity. Qed.
Lemma cprod_step m0 sm a1 a2 rest' amin amax rng' :
  cprod m0 sm (a1 :: a2 :: rest') ((amin, amax) :: rng') = / (m0 - sm - amin) * cprod m0 (sm - a2) (a2 :: rest') rng'.
Proof. reflexivity. Qed.

Lemma imp_density_false m0 tl : forall m_n sm Ms rng, length Ms = length rng ->
  ladder_inside m0 m_n sm tl Ms ->
  imp_aux false m0 m_n sm tl Ms rng * density_aux m0 m_n sm tl Ms = cprod m0 sm tl rng.
Proof.
  induction tl as [|a1 rest IH]; intros m_n sm Ms rng HL Hin.
  - cbn. destruct Ms, rng; cbn; ring.
  - destruct rest as [|a2 rest'].
    + cbn. destruct Ms, rng; cbn; try ring; try (destruct p; ring).
    + destruct Ms as [|M Ms']; destruct rng as [|[amin amax] rng']; cbn [length] in HL; try lia.
      * cbn. ring.
      * rewrite imp_aux_step, density_step, cprod_step. cbn [ladder_inside] in Hin. destruct Hin as [Hlt Hin].
        specialize (IH M (sm - a2) Ms' rng' ltac:(lia) Hin).
        transitivity ((m0 - sm - (m_n + a1)) / (m0 - sm - amin) * / (m0 - sm - (m_n + a1)) *
                      (imp_aux false m0 M (sm - a2) (a2 :: rest') Ms' rng' * density_aux m0 M (sm - a2) (a2 :: rest') Ms')); [ring|].
        rewrite IH. unfold Rdiv.
        replace ((m0 - sm - (m_n + a1)) * / (m0 - sm - amin) * / (m0 - sm - (m_n + a1)))
          with (/ (m0 - sm - amin) * ((m0 - sm - (m_n + a1)) * / (m0 - sm - (m_n + a1)))) by ring.
        rewrite Rinv_r by lra. ring.
Qed.


Theorem lips_flat m0 a0 tl Ms : length Ms = length (mass_ranges m0 a0 tl) ->
  ladder_inside m0 a0 (sm0 tl) tl Ms ->
  proposal_density m0 a0 tl Ms * weight m0 a0 tl Ms = lips_const m0 a0 tl * rprod (q_list a0 (Ms ++ [m0]) tl).
Proof.
  intros HL Hin. unfold proposal_density, weight, weight_w, weight_raw_w, importance, lips_const.
  destruct tl as [|a1 [|a2 rest']].
  - cbn. destruct Ms; cbn; unfold Rdiv; ring.
  - cbn. destruct Ms; cbn; unfold Rdiv; ring.
  - destruct Ms as [|M Ms']; [cbn in HL; discriminate|].
    remember (mass_ranges m0 a0 (a1 :: a2 :: rest')) as rng eqn:Er.
    destruct rng as [|[amin amax] rng']; [cbn in HL; discriminate|].
    rewrite imp_aux_step, density_step. cbn [ladder_inside] in Hin. destruct Hin as [Hlt Hin].
    cbn [length] in HL.
    pose proof (imp_density_false m0 (a2 :: rest') M (sm0 (a1 :: a2 :: rest') - a2) Ms' rng' ltac:(lia) Hin) as H.
    unfold Rdiv.
    transitivity (/ (m0 - sm0 (a1 :: a2 :: rest') - (a0 + a1)) *
      (imp_aux false m0 M (sm0 (a1 :: a2 :: rest') - a2) (a2 :: rest') Ms' rng' * density_aux m0 M (sm0 (a1 :: a2 :: rest') - a2) (a2 :: rest') Ms') *
      (rprod (q_list a0 ((M :: Ms') ++ [m0]) (a1 :: a2 :: rest')) * / wt_max m0 a0 (a1 :: a2 :: rest'))); [ring|].
    rewrite H. ring.
Qed.

(* ------------------------------------------------------------------ nested chains *)
(* nested chains (_restruct_pi / tree_boost): the momenta of a sub-decay, generated in the rest frame of the
   intermediate particle of mass m, are re-boosted with rest_vector(neg(p0)), p0 = momentum of the intermediate
   particle in the outer frame: they stay on shell and add up to p0 *)
Theorem nested_reboost m p3 l : 0 < m ->
  let p0 := mk4 (sqrt (m * m + norm2_3 p3)) p3 in
  vel_ok (boost_vector p0) ->
  sum4 l = V4 m 0 0 0 ->
  sum4 (map (rest_vector (neg4 p0)) l) = p0 /\ map mass2 (map (rest_vector (neg4 p0)) l) = map mass2 l.
Proof.
  intros Hm p0 Hv Hsum.
  assert (E : forall x, rest_vector (neg4 p0) x = boost x (boost_vector p0)).
  { intros x. unfold rest_vector. f_equal. apply vec3_eq; unfold neg3, boost_vector, neg4, p0, mk4; cbn [pt px py pz vx vy vz]; unfold Rdiv; ring. }
  split.
  - rewrite (map_ext _ (fun x => boost x (boost_vector p0)) E), sum4_map_boost, Hsum. apply boost_from_rest. assumption.
  - rewrite map_map. apply map_ext. intros x. rewrite E. unfold mass2. apply mink_boost. assumption.
Qed.

(* ------------------------------------------------------------------ cal_max_weight *)
Lemma rmax_ge_l a b : a <= rmax a b.
Proof. rewrite rmax_Rmax. apply Rmax_l. Qed.
Lemma rmax_ge_r a b : b <= rmax a b.
Proof. rewrite rmax_Rmax. apply Rmax_r. Qed.

Lemma rmaxl_ge l w : In w l -> w <= rmaxl l.
Proof.
  induction l as [|x l IH]; cbn [rmaxl In]; [tauto|]. intros [->|H].
  - apply rmax_ge_l.
  - eapply Rle_trans; [apply IH, H | apply rmax_ge_r].
Qed.

Lemma rmaxl_le l c : 0 <= c -> Forall (fun w => w <= c) l -> rmaxl l <= c.
Proof.
  intros Hc H. induction H as [|x l Hx _ IH]; cbn [rmaxl]; [exact Hc|].
  rewrite rmax_Rmax. apply Rmax_lub; assumption.
Qed.

(* every ladder whose relative weight is at most max(1, r) * w0 (in particular every scanned one, and the
   optimiser's own result r * w0) has an acceptance weight <= 1/1.001 under the new bound *)
Theorem cal_max_new_bound wt0 ws r w : 0 < wt0 -> 0 < rmaxl ws -> w <= rmax 1 r * rmaxl ws ->
  reweight wt0 (cal_max_new wt0 ws r) w <= 1000 / 1001.
Proof.
  intros H0 Hw Hle. unfold reweight, cal_max_new.
  assert (H1 : 1 <= rmax 1 r) by apply rmax_ge_l.
  set (c := rmax 1 r * rmaxl ws) in *.
  assert (Hc : 0 < c) by (unfold c; nra).
  replace (w * wt0 / (wt0 * (c * (1001 / 1000)))) with (w / c * (1000 / 1001)) by (field; lra).
  assert (w / c <= 1).
  { apply (Rmult_le_reg_r c); [exact Hc|]. unfold Rdiv. rewrite Rmult_assoc, Rinv_l by lra. lra. }
  lra.
Qed.

Theorem cal_max_new_scanned wt0 ws r w : 0 < wt0 -> 0 < rmaxl ws -> In w ws ->
  reweight wt0 (cal_max_new wt0 ws r) w <= 1000 / 1001.
Proof.
  intros H0 Hw Hin. apply cal_max_new_bound; try assumption.
  pose proof (rmaxl_ge ws w Hin). pose proof (rmax_ge_l 1 r). nra.
Qed.

Theorem cal_max_new_optimum wt0 ws r : 0 < wt0 -> 0 < rmaxl ws ->
  reweight wt0 (cal_max_new wt0 ws r) (r * rmaxl ws) <= 1000 / 1001.
Proof.
  intros H0 Hw. apply cal_max_new_bound; try assumption.
  pose proof (rmax_ge_r 1 r). nra.
Qed.

(* the new bound is positive and never above 1.001 x the analytic bound (when the weights under the analytic bound are <= 1:
   weight_le_one) *)
Theorem cal_max_new_range wt0 ws r : 0 < wt0 -> 0 < rmaxl ws -> Forall (fun w => w <= 1) ws -> r * rmaxl ws <= 1 ->
  0 < cal_max_new wt0 ws r <= wt0 * (1001 / 1000).
Proof.
  intros H0 Hw Hall Hr. unfold cal_max_new.
  assert (H1 : 1 <= rmax 1 r) by apply rmax_ge_l.
  assert (Hm : rmaxl ws <= 1) by (apply rmaxl_le; [lra|exact Hall]).
  assert (Hc : rmax 1 r * rmaxl ws <= 1).
  { rewrite rmax_Rmax. unfold Rmax. destruct (Rle_dec 1 r); lra. }
  split; [|nra]. apply Rmult_lt_0_compat; [lra|]. nra.
Qed.

(* the code before the repair: the optimiser may legitimately stop at a point of relative weight r < the weight w of
   another ladder; that ladder is then accepted with a weight above one *)
Theorem cal_max_old_refuted : exists wt0 r w, 0 < wt0 /\ 0 < r <= 1 /\ 0 <= w <= 1 /\ 1 < reweight wt0 (cal_max_old wt0 r) w.
Proof. exists 1, (1/2), 1. unfold reweight, cal_max_old. repeat split; lra. Qed.

(* ------------------------------------------------------------------ set_decay *)
Theorem set_decay_new_fresh st m0 mass : set_decay_new st m0 mass = init_state m0 mass.
Proof. reflexivity. Qed.

Theorem set_decay_new_idem st m0 mass m0' mass' :
  set_decay_new (set_decay_new st m0' mass') m0 mass = set_decay_new st m0 mass.
Proof. reflexivity. Qed.

Theorem set_decay_old_refuted : exists st m0 mass, set_decay_old st m0 mass <> init_state m0 mass.
Proof.
  exists (init_state 3 [1]), 2, [1]. unfold set_decay_old, init_state. cbn. intros H. inversion H.
Qed.

(* the old update is right exactly on the state __init__ prepares (empty m_mass) - as far as m_mass goes *)
Theorem set_decay_old_masses st m0 mass : g_mass st = [] -> g_mass (set_decay_old st m0 mass) = mass.
Proof. intros H. cbn. rewrite H. reflexivity. Qed.

(* ------------------------------------------------------------------ build_phsp_chain: nested nodes *)
Lemma same_mass_true m p : same_mass m p = true <-> snd p = m.
Proof. unfold same_mass. destruct (Req_EM_T (snd p) m); split; intros; congruence. Qed.

Theorem nest_node_spec parts m :
  nest_node parts = Some m <-> parts <> [] /\ Forall (fun p => p = (true, m)) parts.
Proof.
  unfold nest_node. destruct parts as [|[b0 m0] tl].
  - split; [discriminate | intros [H _]; congruence].
  - destruct (andb (forallb fst ((b0, m0) :: tl)) (forallb (same_mass m0) ((b0, m0) :: tl))) eqn:E.
    + apply andb_true_iff in E. destruct E as [E1 E2].
      rewrite forallb_forall in E1, E2.
      split.
      * intros H. inversion H; subst m0. split; [discriminate|].
        apply Forall_forall. intros [b x] Hin. specialize (E1 _ Hin). specialize (E2 _ Hin).
        apply same_mass_true in E2. cbn in E1, E2. subst. reflexivity.
      * intros [_ H]. inversion H as [|? ? Hh _]; subst. inversion Hh; subst. reflexivity.
    + split; [discriminate|]. intros [_ H]. exfalso.
      assert (andb (forallb fst ((b0, m0) :: tl)) (forallb (same_mass m0) ((b0, m0) :: tl)) = true); [|congruence].
      inversion H as [|? ? Hh Ht]; subst. inversion Hh; subst.
      apply andb_true_iff. split; apply forallb_forall; intros p Hin;
        rewrite Forall_forall in H; rewrite (H p Hin); [reflexivity | apply same_mass_true; reflexivity].
Qed.

(* the decision does not depend on the order in which the decay chains are listed *)
Theorem nest_node_perm parts parts' : Permutation.Permutation parts parts' -> nest_node parts = nest_node parts'.
Proof.
  intros HP.
  assert (K : forall l l' m, Permutation.Permutation l l' -> nest_node l = Some m -> nest_node l' = Some m).
  { intros l l' m HP' H. apply nest_node_spec in H. destruct H as [Hne Hall]. apply nest_node_spec. split.
    - intros ->. apply Permutation.Permutation_sym, Permutation.Permutation_nil in HP'. congruence.
    - eapply Permutation.Permutation_Forall; eassumption. }
  destruct (nest_node parts) as [m|] eqn:E.
  - symmetry. eapply K; eassumption.
  - destruct (nest_node parts') as [m'|] eqn:E'; [|reflexivity].
    apply (K parts' parts m' (Permutation.Permutation_sym HP)) in E'. congruence.
Qed.

Theorem nest_node_old_refuted : exists parts parts', Permutation.Permutation parts parts' /\ nest_node_old parts <> nest_node_old parts'.
Proof.
  exists [(true, 3); (false, 2)], [(false, 2); (true, 3)]. split; [apply Permutation.perm_swap|]. cbn. discriminate.
Qed.
