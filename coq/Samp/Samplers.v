(* C20 model, part 1: samplers.  Definitions only (lemmas: Samplers_proofs.v).

   Part A (exact rationals Q - every float is a dyadic rational, so the bookkeeping is
   evaluated exactly inside Coq by vm_compute):
     tf_pwa/generator/generator.py   GenTest.generate, multi_sampling, single_sampling2
   Part B (reals R, tied by Coq-Interval goals):
     tf_pwa/generator/linear_interpolation.py  LinearInterp.cal_coeffs/integral/solve/__call__
     tf_pwa/generator/breit_wigner.py          BWGenerator
     tf_pwa/generator/interp_nd.py             InterpND (corner tables, cell choice, per-axis
                                               sqrt transform, multilinear __call__)          *)
From Coq Require Import Reals QArith Qround Qabs ZArith List Bool.
From TFV Require Import Base.RBase.
Import ListNotations.

(* ------------------------------------------------------------------------------------ *)
(* Part A: acceptance-rejection bookkeeping over Q                                       *)
(* ------------------------------------------------------------------------------------ *)
Section Bookkeeping.
Local Open Scope Q_scope.

Definition Qltb (x y : Q) : bool := negb (Qle_bool y x).

(* single_sampling2:  cut = rnd * max_weight < weight *)
Definition accept (u w M : Q) : bool := Qltb (u * M) w.

(* tf.reduce_max over a non-empty batch (the empty batch is never requested: test_N >= 1) *)
Fixpoint qmax_from (m : Q) (l : list Q) : Q :=
  match l with [] => m | x :: t => qmax_from (if Qle_bool m x then x else m) t end.
Definition qmax_list (l : list Q) : Q := match l with [] => 0 | x :: t => qmax_from x t end.

Variable A : Type.   (* event identity *)

(* a proposed event: (id, weight, acceptance uniform);
   an accepted event: (id, weight, bound it was accepted with - bookkeeping of the model only) *)
Definition ev_id (e : A * Q * Q) : A := fst (fst e).
Definition ev_w (e : A * Q * Q) : Q := snd (fst e).
Definition ev_u (e : A * Q * Q) : Q := snd e.

(* "if max_weight is None or max_weight < new_max_weight: max_weight = new_max_weight * 1.01" *)
Definition bound_of (M : option Q) (ws : list Q) : Q :=
  let m := qmax_list ws in
  match M with
  | None => m * (101 # 100)
  | Some M0 => if Qltb M0 m then m * (101 # 100) else M0
  end.

Definition single_sampling2 (M : option Q) (evs : list (A * Q * Q)) : list (A * Q * Q) * Q :=
  let M' := bound_of M (map ev_w evs) in
  (map (fun e => (ev_id e, ev_w e, M')) (filter (fun e => accept (ev_u e) (ev_w e) M') evs), M').

(* one oracle batch: the proposals with their uniforms, and the uniforms drawn for the
   thinning of the earlier accepted events (used only when the bound grows) *)
Record batch := { b_evs : list (A * Q * Q); b_thin : list Q }.

(* multi_sampling / GenTest state.  ms_ngen is GenTest.N_gen (kept separately, as in the
   code, by set_gen / add_gen), ms_chunks is len(all_data). *)
Record ms_state := {
  ms_M : option Q; ms_all : list (A * Q * Q); ms_chunks : nat;
  ms_ngen : nat; ms_ntotal : nat; ms_eff : Q }.

(* cut = rnd * new_max_weight / max_weight < 1.0 *)
Definition thin_keep (r newM M1 : Q) : bool := Qltb (r * newM / M1) 1.

(* test_N = min(int((N - N_gen) / eff * 1.1), N_max) *)
Definition test_N_raw (N ngen : nat) (eff : Q) : Q :=
  inject_Z (Z.of_nat N - Z.of_nat ngen) / eff * (11 # 10).
Definition test_N (N ngen : nat) (eff : Q) (maxN : Z) : Z :=
  Z.min (Qfloor (test_N_raw N ngen eff)) maxN.

Definition eff_of (ngen ntotal : nat) : Q :=
  inject_Z (Z.of_nat ngen + 1) / inject_Z (Z.of_nat ntotal + 1).

Definition ms_step (st : ms_state) (b : batch) : ms_state :=
  let dn := single_sampling2 (ms_M st) (b_evs b) in
  let data := fst dn in
  let newM := snd dn in
  let M1 := match ms_M st with None => newM * (11 # 10) | Some m => m end in
  let ntot := (ms_ntotal st + length (b_evs b))%nat in
  if Qltb M1 newM && (0 <? ms_chunks st)%nat then
    let kept := map fst (filter (fun er => thin_keep (snd er) newM M1) (combine (ms_all st) (b_thin b))) in
    let ng := (length kept + length data)%nat in
    {| ms_M := Some (newM * (105 # 100)); ms_all := kept ++ data; ms_chunks := 2;
       ms_ngen := ng; ms_ntotal := ntot; ms_eff := eff_of ng ntot |}
  else
    let ng := (ms_ngen st + length data)%nat in
    {| ms_M := Some M1; ms_all := ms_all st ++ data; ms_chunks := S (ms_chunks st);
       ms_ngen := ng; ms_ntotal := ntot; ms_eff := eff_of ng ntot |}.

(* "while self.N_gen < N": batches are consumed from the oracle stream until enough events stand *)
Fixpoint ms_loop (N : nat) (st : ms_state) (bs : list batch) : ms_state :=
  match bs with
  | [] => st
  | b :: bs' => if (ms_ngen st <? N)%nat then ms_loop N (ms_step st b) bs' else st
  end.

Definition ms_init (M0 : option Q) : ms_state :=
  {| ms_M := M0; ms_all := []; ms_chunks := 0; ms_ngen := 0; ms_ntotal := 0; ms_eff := 9 # 10 |}.

(* ret = data_merge of all_data; if force: ret = ret[:N] *)
Definition multi_sampling (N : nat) (M0 : option Q) (force : bool) (bs : list batch)
  : list (A * Q * Q) * ms_state :=
  let st := ms_loop N (ms_init M0) bs in
  ((if force then firstn N (ms_all st) else ms_all st), st).

(* batch sizes GenTest asks for along the run (compared with what the code asked for) *)
Fixpoint ms_requests (N : nat) (st : ms_state) (bs : list batch) : list Q :=
  if (ms_ngen st <? N)%nat then
    test_N_raw N (ms_ngen st) (ms_eff st) ::
      match bs with [] => [] | b :: bs' => ms_requests N (ms_step st b) bs' end
  else [].

End Bookkeeping.

(* evaluation helpers for the correspondence (ids are nat) *)
Fixpoint nat_list_eqb (a b : list nat) : bool :=
  match a, b with
  | [], [] => true
  | x :: a', y :: b' => Nat.eqb x y && nat_list_eqb a' b'
  | _, _ => false
  end.
(* requested batch sizes: the code evaluates (N - N_gen) / eff * 1.1 in floating point before
   int(); the exact value may sit on an integer, so both neighbours within 1e-9 are accepted *)
Definition req_ok (maxN : Z) (raw : Q) (r : Z) : bool :=
  Z.eqb r (Z.min (Qfloor (raw + (1 # 1000000000))) maxN)
  || Z.eqb r (Z.min (Qfloor (raw - (1 # 1000000000))) maxN).
Fixpoint reqs_ok (maxN : Z) (raws : list Q) (rs : list Z) : bool :=
  match raws, rs with
  | [], [] => true
  | x :: raws', r :: rs' => req_ok maxN x r && reqs_ok maxN raws' rs'
  | _, _ => false
  end.
Definition Qclose (x y rtol : Q) : bool := Qle_bool (Qabs (x - y)) (rtol * Qabs y).
Definition optQ_close (x : option Q) (y rtol : Q) : bool :=
  match x with Some v => Qclose v y rtol | None => false end.
(* whole-run check: returned ids, final bound, requested batch sizes *)
Definition ms_case_ok (N : nat) (maxN : Z) (M0 : option Q) (force : bool) (bs : list (batch nat))
  (ids : list nat) (finalM : Q) (reqs : list Z) : bool :=
  let r := multi_sampling nat N M0 force bs in
  nat_list_eqb (map (ev_id nat) (fst r)) ids
  && optQ_close (ms_M nat (snd r)) finalM (1 # 1000000000000)
  && reqs_ok maxN (ms_requests nat N (ms_init nat M0) bs) reqs.

(* ------------------------------------------------------------------------------------ *)
(* Part B: inverse-transform samplers over R                                             *)
(* ------------------------------------------------------------------------------------ *)
Open Scope R_scope.

(* indicator of the acceptance step for a real uniform number u (measure statement) *)
Definition accept_ind (u w M : R) : R := if Rlt_dec (u * M) w then 1 else 0.

(* ---- LinearInterp.  A bin is (x0, x1, k, b): density k*x + b on [x0, x1). ---- *)
Definition lbin := (R * R * R * R)%type.
Definition lx0 (bn : lbin) : R := fst (fst (fst bn)).
Definition lx1 (bn : lbin) : R := snd (fst (fst bn)).
Definition lk (bn : lbin) : R := snd (fst bn).
Definition lb (bn : lbin) : R := snd bn.

(* self.k = np.where(np.abs(self.k) > self.epsilon, self.k, 0) *)
Definition clampk (eps k0 : R) : R := if Rlt_dec eps (Rabs k0) then k0 else 0.

(* cal_coeffs: k = dy/dx (clamped), b = y[:-1] - k * x[:-1] *)
Fixpoint cal_coeffs (eps : R) (xs ys : list R) : list lbin :=
  match xs, ys with
  | x0 :: ((x1 :: _) as xt), y0 :: ((y1 :: _) as yt) =>
      let k := clampk eps ((y1 - y0) / (x1 - x0)) in
      (x0, x1, k, y0 - k * x0) :: cal_coeffs eps xt yt
  | _, _ => []
  end.

(* int_x = 0.5 * k * (x1**2 - x0**2) + b * (x1 - x0) *)
Definition bin_int (bn : lbin) : R :=
  (1 / 2) * lk bn * (lx1 bn * lx1 bn - lx0 bn * lx0 bn) + lb bn * (lx1 bn - lx0 bn).
(* 0.5 * k * (x*x - x1*x1) + b * (x - x1)   (+ int_step[bin]) *)
Definition bin_cum (bn : lbin) (x : R) : R :=
  (1 / 2) * lk bn * (x * x - lx1 bn * lx1 bn) + lb bn * (x - lx1 bn).
(* y = sqrt(maximum(b**2 + k*(k*x1**2 + 2*b*x1 + 2*d), 0)) - b ; y2 = d + b*x1 ;
   where(k == 0, y2, y) / where(k == 0, b, k)          (np.maximum since commit 4bd73c9) *)
Definition bin_solve (bn : lbin) (d : R) : R :=
  if Rle_dec (Rabs (lk bn)) 0
  then (d + lb bn * lx1 bn) / lb bn
  else (sqrt (rmax 0 (lb bn * lb bn + lk bn * (lk bn * (lx1 bn * lx1 bn) + 2 * lb bn * lx1 bn + 2 * d))) - lb bn) / lk bn.

(* int_step = cumsum(int_x); int_all = int_step[-1] *)
Fixpoint li_int_step (acc : R) (bs : list lbin) : list R :=
  match bs with [] => [] | bn :: bs' => (acc + bin_int bn) :: li_int_step (acc + bin_int bn) bs' end.
Fixpoint li_total (acc : R) (bs : list lbin) : R :=
  match bs with [] => acc | bn :: bs' => li_total (acc + bin_int bn) bs' end.

(* integral(x): bin = digitize(x, self.x[1:-1]) - i.e. walk right while the right edge of a
   non-last bin is <= x - then  bin_cum + int_step[bin] *)
Fixpoint integral_from (acc : R) (bs : list lbin) (x : R) : R :=
  match bs with
  | [] => 0
  | bn :: bs' =>
      match bs' with
      | [] => bin_cum bn x + (acc + bin_int bn)
      | _ :: _ => if Rle_dec (lx1 bn) x then integral_from (acc + bin_int bn) bs' x
                  else bin_cum bn x + (acc + bin_int bn)
      end
  end.
(* solve: bin = digitize(t, int_step[:-1]);  d = t - int_step[bin] *)
Fixpoint solve_from (acc : R) (bs : list lbin) (t : R) : R :=
  match bs with
  | [] => 0
  | bn :: bs' =>
      match bs' with
      | [] => bin_solve bn (t - (acc + bin_int bn))
      | _ :: _ => if Rle_dec (acc + bin_int bn) t then solve_from (acc + bin_int bn) bs' t
                  else bin_solve bn (t - (acc + bin_int bn))
      end
  end.
(* __call__: k*x + b of the bin digitize(x, self.x[1:-1]) *)
Fixpoint call_from (bs : list lbin) (x : R) : R :=
  match bs with
  | [] => 0
  | bn :: bs' =>
      match bs' with
      | [] => lk bn * x + lb bn
      | _ :: _ => if Rle_dec (lx1 bn) x then call_from bs' x else lk bn * x + lb bn
      end
  end.

(* the same two functions reading the stored cumulative sums self.int_step (as the code does)
   instead of re-accumulating them: a list of (bin, int_step[bin]) *)
Fixpoint with_steps (acc : R) (bs : list lbin) : list (lbin * R) :=
  match bs with [] => [] | bn :: bs' => (bn, acc + bin_int bn) :: with_steps (acc + bin_int bn) bs' end.
Fixpoint integral_steps (bs : list (lbin * R)) (x : R) : R :=
  match bs with
  | [] => 0
  | bd :: bs' =>
      match bs' with
      | [] => bin_cum (fst bd) x + snd bd
      | _ :: _ => if Rle_dec (lx1 (fst bd)) x then integral_steps bs' x else bin_cum (fst bd) x + snd bd
      end
  end.
Fixpoint solve_steps (bs : list (lbin * R)) (t : R) : R :=
  match bs with
  | [] => 0
  | bd :: bs' =>
      match bs' with
      | [] => bin_solve (fst bd) (t - snd bd)
      | _ :: _ => if Rle_dec (snd bd) t then solve_steps bs' t else bin_solve (fst bd) (t - snd bd)
      end
  end.

Definition li_int_all (bs : list lbin) : R := li_total 0 bs.
Definition li_integral (bs : list lbin) (x : R) : R := integral_from 0 bs x.
Definition li_solve (bs : list lbin) (u : R) : R := solve_from 0 bs (u * li_int_all bs).
Definition li_call (bs : list lbin) (x : R) : R := call_from bs x.

(* well-formed chain of bins: increasing edges, shared edges, non-negative density at both ends *)
Definition bin_ok (bn : lbin) : Prop :=
  lx0 bn < lx1 bn /\ 0 <= lk bn * lx0 bn + lb bn /\ 0 <= lk bn * lx1 bn + lb bn.
Fixpoint chain_ok (bs : list lbin) : Prop :=
  match bs with
  | [] => True
  | bn :: bs' => bin_ok bn /\ match bs' with [] => True | bn' :: _ => lx1 bn = lx0 bn' end /\ chain_ok bs'
  end.
Definition first_x0 (bs : list lbin) : R := match bs with [] => 0 | bn :: _ => lx0 bn end.
Fixpoint last_x1 (bs : list lbin) : R :=
  match bs with [] => 0 | bn :: bs' => match bs' with [] => lx1 bn | _ :: _ => last_x1 bs' end end.
Fixpoint last_int (bs : list lbin) : R :=
  match bs with [] => 0 | bn :: bs' => match bs' with [] => bin_int bn | _ :: _ => last_int bs' end end.
(* strictly increasing grid, non-negative node values (the property's quantifier) *)
Fixpoint increasing (xs : list R) : Prop :=
  match xs with x0 :: ((x1 :: _) as t) => x0 < x1 /\ increasing t | _ => True end.
Definition nonneg (ys : list R) : Prop := Forall (fun y => 0 <= y) ys.

(* ---- BWGenerator ---- *)
Definition bw_call (m0 g x : R) : R := 1 / ((x - m0) * (x - m0) + g * g / 4).
(* k = 1/self.k;  k * arctan(k * (x - m0)) *)
Definition bw_integral (m0 g x : R) : R := (1 / (g / 2)) * atan ((1 / (g / 2)) * (x - m0)).
Definition bw_int_all (m0 g mmin mmax : R) : R := bw_integral m0 g mmax - bw_integral m0 g mmin.
Definition bw_kxmin (m0 g mmin : R) : R := atan ((mmin - m0) / (g / 2)).
(* y = self.k * tan(self.k * (x*int_all) + kxmin) + m0 *)
Definition bw_solve (m0 g mmin mmax u : R) : R :=
  (g / 2) * tan ((g / 2) * (u * bw_int_all m0 g mmin mmax) + bw_kxmin m0 g mmin) + m0.

(* ---- InterpND ---- *)
(* build_coeffs: corner bit 0 -> [1,-1], bit 1 -> [0,1];  y = c0 + c1*sqrt(u);  ret = y*(xmax-xmin)+xmin *)
Definition nd_coeff (bit : bool) : R * R := if bit then (0, 1) else (1, -1).
Definition nd_axis (bit : bool) (u xmin xmax : R) : R :=
  (fst (nd_coeff bit) + snd (nd_coeff bit) * sqrt u) * (xmax - xmin) + xmin.
(* corner tuples in itertools.product([0,1]*n) order (dimension 0 most significant): the order in
   which intgral_step stores the corner weights int_all[p] and build_coeffs visits the corners *)
Fixpoint product_bits (n : nat) : list (list bool) :=
  match n with
  | O => [[]]
  | S n' => map (cons false) (product_bits n') ++ map (cons true) (product_bits n')
  end.
Definition b2n (b : bool) : nat := if b then 1%nat else 0%nat.
(* build_coeffs: idx = sum_j idx_j * 2 ** (n_dim - 1 - j)   (since commit d23f395) *)
Fixpoint idx_coeff (bits : list bool) : nat :=
  match bits with [] => 0%nat | b :: t => (b2n b * 2 ^ length t + idx_coeff t)%nat end.
(* ... and the indexing before d23f395:  idx = sum_j idx_j * 2 ** j *)
Fixpoint idx_coeff_old (bits : list bool) : nat :=
  match bits with [] => 0%nat | b :: t => (b2n b + 2 * idx_coeff_old t)%nat end.
(* the table self.coeffs: entry p holds the transform of the corner written at index p *)
Definition coeff_lookup (idxf : list bool -> nat) (n p : nat) : option (list bool) :=
  find (fun bits => Nat.eqb (idxf bits) p) (rev (product_bits n)).
Definition bits_weight (n p : nat) : list bool := nth p (product_bits n) [].
Definition bits_coeff (n p : nat) : list bool :=
  match coeff_lookup idx_coeff n p with Some b => b | None => [] end.
(* density of the per-axis transform on the unit interval: 2y (bit 1) or 2(1-y) (bit 0) *)
Definition tri_density (bit : bool) (y : R) : R := if bit then 2 * y else 2 * (1 - y).
(* one term of the multilinear interpolation on the unit cell *)
Definition lin_weight (bit : bool) (y : R) : R := if bit then y else 1 - y.

Close Scope R_scope.

(* discrete part of InterpND over nat / Q (evaluated exactly) *)
Section InterpNDDiscrete.
Local Open Scope Q_scope.

(* np.digitize(x, edges) for increasing edges: number of leading edges <= x *)
Fixpoint qdigitize (x : Q) (es : list Q) : nat :=
  match es with [] => 0%nat | e :: es' => if Qle_bool e x then S (qdigitize x es') else 0%nat end.

(* C-order unravel of a flat index for the given shape (last dimension fastest):
   "idx = bin_index % n; bin_index = bin_index // n" from the last dimension down *)
Fixpoint unravel_rev (shape_rev : list nat) (flat : nat) : list nat :=
  match shape_rev with
  | [] => []
  | n :: r => (flat mod n)%nat :: unravel_rev r (flat / n)%nat
  end.
Definition unravel (shape : list nat) (flat : nat) : list nat := rev (unravel_rev (rev shape) flat).
Fixpoint ravel_from (acc : nat) (shape idx : list nat) : nat :=
  match shape, idx with
  | n :: s', i :: i' => ravel_from (acc * n + i)%nat s' i'
  | _, _ => acc
  end.
Definition ravel (shape idx : list nat) : nat := ravel_from 0 shape idx.

Definition pow2 (n : nat) : Q := inject_Z (2 ^ Z.of_nat n).

(* intgral_step: int_all[p][cell] = z[cell + corner_p] / 2**n, flattened (p major);
   nodes = node-grid shape, z = flattened node values *)
Definition cell_shape (nodes : list nat) : list nat := map (fun n => (n - 1)%nat) nodes.
Definition nbins (nodes : list nat) : nat := fold_left Nat.mul (cell_shape nodes) 1%nat.
Definition nd_int_all_at (nodes : list nat) (z : list Q) (p cell : nat) : Q :=
  let n := length nodes in
  let ci := unravel (cell_shape nodes) cell in
  let ni := map (fun ib => (fst ib + b2n (snd ib))%nat) (combine ci (bits_weight n p)) in
  nth (ravel nodes ni) z 0 / pow2 n.
Definition nd_int_all (nodes : list nat) (z : list Q) : list Q :=
  flat_map (fun p => map (nd_int_all_at nodes z p) (seq 0 (nbins nodes))) (seq 0 (2 ^ length nodes)).
(* since the repair of intgral_step (cell_volume): int_all[p][cell] = z[cell + corner_p] / 2**n * prod_j dx_j,
   the integral over the cell of the corner's term of the multilinear interpolant.  nd_int_all above is
   the code before the repair (no volume factor: right only on grids with equal cell volumes). *)
Definition nd_cell_vol (grids : list (list Q)) (ci : list nat) : Q :=
  fold_right Qmult 1
    (map (fun gi : list Q * nat => nth (S (snd gi)) (fst gi) 0 - nth (snd gi) (fst gi) 0) (combine grids ci)).
Definition nd_int_all_vol_at (grids : list (list Q)) (z : list Q) (p cell : nat) : Q :=
  let nodes := map (@length Q) grids in
  nd_int_all_at nodes z p cell * nd_cell_vol grids (unravel (cell_shape nodes) cell).
Definition nd_int_all_vol (grids : list (list Q)) (z : list Q) : list Q :=
  let nodes := map (@length Q) grids in
  flat_map (fun p => map (nd_int_all_vol_at grids z p) (seq 0 (nbins nodes))) (seq 0 (2 ^ length nodes)).
(* total weight of one cell (all corners) *)
Definition nd_cell_weight (w : list Q) (ncell cell ncorner : nat) : Q :=
  fold_right Qplus 0 (map (fun p => nth (p * ncell + cell) w 0) (seq 0 ncorner)).
(* InterpNDHist after the repair: int_step = cumsum(max corner value of the cell * cell volume) *)
Definition ndh_weights (grids : list (list Q)) (cellmax : list Q) : list Q :=
  let nodes := map (@length Q) grids in
  map (fun cell => nth cell cellmax 0 * nd_cell_vol grids (unravel (cell_shape nodes) cell)) (seq 0 (nbins nodes)).
Fixpoint qcumsum (acc : Q) (l : list Q) : list Q :=
  match l with [] => [] | x :: t => (acc + x) :: qcumsum (acc + x) t end.

(* generate, discrete part: v = random * int_step[-1]; bin = digitize(v, int_step[:-1]);
   p = bin // n_bins; cell = bin % n_bins; per-dimension (bit used for the transform, cell index) *)
Definition nd_select (nodes : list nat) (int_step : list Q) (v : Q) : nat * list (bool * nat) :=
  let n := length nodes in
  let bin := qdigitize v (removelast int_step) in
  let p := (bin / nbins nodes)%nat in
  let cell := (bin mod nbins nodes)%nat in
  (p, combine (bits_coeff n p) (unravel (cell_shape nodes) cell)).

(* __call__: multilinear interpolation; xs = per-dimension grids, pt = point *)
Definition nd_locate (grid : list Q) (x : Q) : nat * Q :=
  let i := qdigitize x (removelast (tl grid)) in
  (i, (x - nth i grid 0) / (nth (S i) grid 0 - nth i grid 0)).
Definition nd_call (grids : list (list Q)) (z : list Q) (pt : list Q) : Q :=
  let n := length grids in
  let nodes := map (@length Q) grids in
  let loc := map (fun gx => nd_locate (fst gx) (snd gx)) (combine grids pt) in
  fold_right Qplus 0
    (map (fun p =>
            let bits := bits_weight n p in
            let w := fold_right Qmult 1
                       (map (fun e : (nat * Q) * bool => if snd e then snd (fst e) else 1 - snd (fst e)) (combine loc bits)) in
            let ni := map (fun e : (nat * Q) * bool => (fst (fst e) + b2n (snd e))%nat) (combine loc bits) in
            w * nth (ravel nodes ni) z 0)
         (seq 0 (2 ^ n))).

Definition nd_select_eqb (a b : nat * list (bool * nat)) : bool :=
  Nat.eqb (fst a) (fst b) &&
  nat_list_eqb (map (fun x => (2 * snd x + b2n (fst x))%nat) (snd a))
               (map (fun x => (2 * snd x + b2n (fst x))%nat) (snd b)) &&
  Nat.eqb (length (snd a)) (length (snd b)).
Fixpoint qlist_close (a b : list Q) (atol : Q) : bool :=
  match a, b with
  | [], [] => true
  | x :: a', y :: b' => Qle_bool (Qabs (x - y)) atol && qlist_close a' b' atol
  | _, _ => false
  end.
End InterpNDDiscrete.
