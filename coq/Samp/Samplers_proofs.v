(* C20: lemmas about the sampler models (Samplers.v). *)
From Coq Require Import Reals QArith Qround Qabs ZArith List Bool Lia Lra Psatz.
From TFV Require Import Base.RBase Samp.Samplers.
Import ListNotations.

(* ==================================================================================== *)
(* Part B first (reals): LinearInterp, BWGenerator, InterpND axis transform              *)
(* ==================================================================================== *)
Section RealPart.
Local Open Scope R_scope.

Lemma bin_int_factor : forall bn,
  bin_int bn = (lx1 bn - lx0 bn) * ((lk bn * lx0 bn + lb bn) + (lk bn * lx1 bn + lb bn)) / 2.
Proof. intros [[[x0 x1] k] b]. unfold bin_int, lx0, lx1, lk, lb; cbn [fst snd]. field. Qed.

Lemma bin_int_nonneg : forall bn, bin_ok bn -> 0 <= bin_int bn.
Proof.
  intros bn (H1 & H2 & H3). rewrite bin_int_factor.
  apply Rmult_le_pos; [apply Rmult_le_pos|]; lra.
Qed.

Lemma bin_cum_at_x1 : forall bn, bin_cum bn (lx1 bn) = 0.
Proof. intros [[[x0 x1] k] b]. unfold bin_cum, lx1, lk, lb; cbn [fst snd]. ring. Qed.

Lemma sqrt_between : forall a D c, 0 <= a -> 0 <= c -> a * a <= D <= c * c -> a <= sqrt D <= c.
Proof.
  intros a D c Ha Hc [H1 H2]. split.
  - rewrite <- (sqrt_square a Ha). apply sqrt_le_1_alt. exact H1.
  - rewrite <- (sqrt_square c Hc). apply sqrt_le_1_alt. exact H2.
Qed.

(* single bin: the quadratic (k <> 0) and the linear (k = 0) branch invert the bin's own
   cumulative function and stay inside the bin *)
Lemma bin_solve_spec : forall bn d,
  bin_ok bn -> 0 < bin_int bn -> - bin_int bn <= d <= 0 ->
  lx0 bn <= bin_solve bn d <= lx1 bn /\ bin_cum bn (bin_solve bn d) = d.
Proof.
  intros bn d Hok Hpos Hd. pose proof (bin_int_factor bn) as HI.
  destruct Hok as (Hx & Hya & Hyb).
  destruct bn as [[[x0 x1] k] b]. unfold bin_solve, bin_cum, lx0, lx1, lk, lb in *; cbn [fst snd] in *.
  set (I := bin_int (x0, x1, k, b)) in *.
  destruct (Rle_dec (Rabs k) 0) as [Hk|Hk].
  - (* k = 0 *)
    assert (k = 0) by (pose proof (Rabs_pos k); destruct (Req_dec k 0); auto;
                       pose proof (Rabs_pos_lt k H0); lra).
    subst k.
    assert (Hb : 0 < b).
    { destruct (Rle_lt_dec b 0) as [Hb|Hb]; auto. assert (b = 0) by lra. subst b. rewrite HI in Hpos. lra. }
    assert (HI' : I = b * (x1 - x0)) by (rewrite HI; field).
    split.
    + split.
      * apply Rmult_le_reg_r with b; auto. unfold Rdiv. rewrite Rmult_assoc, Rinv_l by lra. nra.
      * apply Rmult_le_reg_r with b; auto. unfold Rdiv. rewrite Rmult_assoc, Rinv_l by lra. nra.
    + field. lra.
  - (* k <> 0 *)
    assert (Hk0 : k <> 0) by (intro; subst k; rewrite Rabs_R0 in Hk; lra).
    set (ya := k * x0 + b) in *. set (yb := k * x1 + b) in *.
    set (D := b * b + k * (k * (x1 * x1) + 2 * b * x1 + 2 * d)).
    assert (HD : D = yb * yb + 2 * k * d) by (unfold D, yb; ring).
    assert (H2kI : 2 * k * I = yb * yb - ya * ya) by (rewrite HI; unfold ya, yb; field).
    destruct (Rlt_le_dec 0 k) as [Hkp|Hkn].
    + (* k > 0 *)
      assert (Hbt : ya * ya <= D <= yb * yb) by (rewrite HD; split; nra).
      pose proof (sqrt_between ya D yb Hya Hyb Hbt) as [Hs1 Hs2].
      assert (HDpos : 0 <= D) by nra.
      rewrite (rmax_0_pos D HDpos).
      pose proof (sqrt_sqrt D HDpos) as Hss. set (s := sqrt D) in *.
      split.
      * split.
        -- apply Rmult_le_reg_r with k; auto. unfold Rdiv. rewrite Rmult_assoc, Rinv_l by lra. unfold ya in Hs1. lra.
        -- apply Rmult_le_reg_r with k; auto. unfold Rdiv. rewrite Rmult_assoc, Rinv_l by lra. unfold yb in Hs2. lra.
      * assert (Hd' : d = (s * s - b * b) / (2 * k) - (k * (x1 * x1) + 2 * b * x1) / 2)
          by (rewrite Hss; unfold D; field; auto).
        rewrite Hd'. field. auto.
    + (* k < 0 *)
      assert (Hkneg : k < 0) by lra.
      assert (Hbt : yb * yb <= D <= ya * ya) by (rewrite HD; split; nra).
      pose proof (sqrt_between yb D ya Hyb Hya Hbt) as [Hs1 Hs2].
      assert (HDpos : 0 <= D) by nra.
      rewrite (rmax_0_pos D HDpos).
      pose proof (sqrt_sqrt D HDpos) as Hss. set (s := sqrt D) in *.
      split.
      * assert (Hmk : 0 < - k) by lra.
        split.
        -- apply Rmult_le_reg_r with (- k); auto.
           replace ((s - b) / k * - k) with (b - s) by (field; auto). unfold ya in Hs2. lra.
        -- apply Rmult_le_reg_r with (- k); auto.
           replace ((s - b) / k * - k) with (b - s) by (field; auto). unfold yb in Hs1. lra.
      * assert (Hd' : d = (s * s - b * b) / (2 * k) - (k * (x1 * x1) + 2 * b * x1) / 2)
          by (rewrite Hss; unfold D; field; auto).
        rewrite Hd'. field. auto.
Qed.

Lemma li_total_ge : forall bs acc, chain_ok bs -> acc <= li_total acc bs.
Proof.
  induction bs as [|bn bs IH]; intros acc H; cbn [li_total]; [lra|].
  destruct H as (Hb & _ & Hc). pose proof (bin_int_nonneg bn Hb). specialize (IH (acc + bin_int bn) Hc). lra.
Qed.

Lemma chain_first_lt_last : forall bs, chain_ok bs -> bs <> [] -> first_x0 bs < last_x1 bs.
Proof.
  induction bs as [|bn bs IH]; intros H Hne; [congruence|].
  destruct H as (Hb & He & Hc). destruct bs as [|b2 bs'].
  - cbn. destruct Hb; lra.
  - assert (Hn : b2 :: bs' <> []) by discriminate. specialize (IH Hc Hn).
    cbn [first_x0 last_x1] in *. destruct Hb as (Hx & _). lra.
Qed.

(* the chain: digitize on the cumulative sums, then the bin's own inverse *)
Lemma chain_solve_inverts : forall bs acc t,
  chain_ok bs -> bs <> [] -> acc <= t <= li_total acc bs ->
  (t < li_total acc bs \/ 0 < last_int bs) ->
  first_x0 bs <= solve_from acc bs t <= last_x1 bs /\
  integral_from acc bs (solve_from acc bs t) = t.
Proof.
  induction bs as [|bn bs IH]; intros acc t Hc Hne Ht Hside; [congruence|].
  destruct Hc as (Hb & He & Hc). pose proof (bin_int_nonneg bn Hb) as HI.
  destruct bs as [|b2 bs'].
  - (* last bin *)
    cbn [li_total last_int first_x0 last_x1 solve_from integral_from] in *.
    assert (Hpos : 0 < bin_int bn) by (destruct Hside; lra).
    destruct (bin_solve_spec bn (t - (acc + bin_int bn)) Hb Hpos) as [Hr Hcum]; [lra|].
    split; [exact Hr|]. rewrite Hcum. ring.
  - assert (Hn : b2 :: bs' <> []) by discriminate.
    change (solve_from acc (bn :: b2 :: bs') t)
      with (if Rle_dec (acc + bin_int bn) t then solve_from (acc + bin_int bn) (b2 :: bs') t
            else bin_solve bn (t - (acc + bin_int bn))).
    change (li_total acc (bn :: b2 :: bs')) with (li_total (acc + bin_int bn) (b2 :: bs')) in *.
    change (last_int (bn :: b2 :: bs')) with (last_int (b2 :: bs')) in *.
    change (last_x1 (bn :: b2 :: bs')) with (last_x1 (b2 :: bs')).
    change (first_x0 (bn :: b2 :: bs')) with (lx0 bn).
    pose proof (chain_first_lt_last (b2 :: bs') Hc Hn) as Hfl. cbn [first_x0] in Hfl.
    destruct (Rle_dec (acc + bin_int bn) t) as [Hge|Hlt].
    + destruct (IH (acc + bin_int bn) t Hc Hn) as [Hr Hint]; [lra|exact Hside|].
      cbn [first_x0] in Hr. destruct Hb as (Hx & _).
      split; [lra|].
      set (x := solve_from (acc + bin_int bn) (b2 :: bs') t) in *.
      change (integral_from acc (bn :: b2 :: bs') x)
        with (if Rle_dec (lx1 bn) x then integral_from (acc + bin_int bn) (b2 :: bs') x
              else bin_cum bn x + (acc + bin_int bn)).
      destruct (Rle_dec (lx1 bn) x) as [|Hn']; [exact Hint|]. exfalso; apply Hn'. lra.
    + assert (Hpos : 0 < bin_int bn) by lra.
      destruct (bin_solve_spec bn (t - (acc + bin_int bn)) Hb Hpos) as [Hr Hcum]; [lra|].
      set (x := bin_solve bn (t - (acc + bin_int bn))) in *.
      split; [lra|].
      change (integral_from acc (bn :: b2 :: bs') x)
        with (if Rle_dec (lx1 bn) x then integral_from (acc + bin_int bn) (b2 :: bs') x
              else bin_cum bn x + (acc + bin_int bn)).
      destruct (Rle_dec (lx1 bn) x) as [Hx1|_].
      * exfalso. assert (x = lx1 bn) by lra. rewrite H, bin_cum_at_x1 in Hcum. lra.
      * rewrite Hcum. ring.
Qed.

Theorem linear_solve_inverts_chain : forall bs u,
  chain_ok bs -> bs <> [] -> 0 < li_int_all bs -> 0 <= u <= 1 -> (u < 1 \/ 0 < last_int bs) ->
  li_integral bs (li_solve bs u) = u * li_int_all bs /\
  first_x0 bs <= li_solve bs u <= last_x1 bs.
Proof.
  intros bs u Hc Hne Hpos Hu Hside. unfold li_integral, li_solve, li_int_all in *.
  destruct (chain_solve_inverts bs 0 (u * li_total 0 bs) Hc Hne) as [Hr Hi].
  - split; nra.
  - destruct Hside as [H|H]; [left; nra|right; exact H].
  - split; assumption.
Qed.

(* single-bin statement, spelled out *)
Corollary linear_solve_inverts_one_bin : forall bn u,
  bin_ok bn -> 0 < bin_int bn -> 0 <= u <= 1 ->
  li_integral [bn] (li_solve [bn] u) = u * li_int_all [bn] /\ lx0 bn <= li_solve [bn] u <= lx1 bn.
Proof.
  intros bn u Hb Hpos Hu.
  assert (Hc : chain_ok [bn]) by (cbn; auto).
  assert (Hi : li_int_all [bn] = bin_int bn) by (unfold li_int_all; cbn; ring).
  assert (Hs : u < 1 \/ 0 < last_int [bn]) by (right; cbn; exact Hpos).
  assert (Hp : 0 < li_int_all [bn]) by (rewrite Hi; exact Hpos).
  assert (Hn : [bn] <> []) by discriminate.
  exact (linear_solve_inverts_chain [bn] u Hc Hn Hp Hu Hs).
Qed.

(* cal_coeffs on an increasing grid with non-negative node values gives a well-formed chain *)
Lemma clampk_cases : forall eps k0, clampk eps k0 = k0 \/ clampk eps k0 = 0.
Proof. intros. unfold clampk. destruct (Rlt_dec eps (Rabs k0)); auto. Qed.

Lemma cal_coeffs_chain_ok : forall eps xs ys,
  increasing xs -> nonneg ys -> length xs = length ys -> chain_ok (cal_coeffs eps xs ys).
Proof.
  intros eps xs. induction xs as [|x0 xs IH]; intros ys Hinc Hnn Hlen; [cbn; auto|].
  destruct ys as [|y0 ys]; [discriminate|].
  destruct xs as [|x1 xt]; [cbn; auto|].
  destruct ys as [|y1 yt]; [discriminate|].
  destruct Hinc as [Hx Hinc]. inversion Hnn as [|? ? Hy0 Hnn']; subst. inversion Hnn' as [|? ? Hy1 _]; subst.
  assert (IH' := IH (y1 :: yt) Hinc Hnn' ltac:(cbn in *; lia)).
  change (cal_coeffs eps (x0 :: x1 :: xt) (y0 :: y1 :: yt))
    with ((x0, x1, clampk eps ((y1 - y0) / (x1 - x0)), y0 - clampk eps ((y1 - y0) / (x1 - x0)) * x0)
            :: cal_coeffs eps (x1 :: xt) (y1 :: yt)).
  set (k := clampk eps ((y1 - y0) / (x1 - x0))).
  split; [|split; [|exact IH']].
  - unfold bin_ok, lx0, lx1, lk, lb; cbn [fst snd]. split; [exact Hx|]. split; [lra|].
    destruct (clampk_cases eps ((y1 - y0) / (x1 - x0))) as [Hk|Hk]; fold k in Hk; rewrite Hk.
    + replace ((y1 - y0) / (x1 - x0) * x1 + (y0 - (y1 - y0) / (x1 - x0) * x0)) with y1 by (field; lra). exact Hy1.
    + lra.
  - destruct xt as [|x2 xt']; [cbn; auto|]. destruct yt as [|y2 yt']; [cbn; auto|].
    cbn. reflexivity.
Qed.

Lemma cal_coeffs_nonempty : forall eps xs ys,
  (2 <= length xs)%nat -> length xs = length ys -> cal_coeffs eps xs ys <> [].
Proof.
  intros eps [|x0 [|x1 xt]] [|y0 [|y1 yt]]; cbn; intros; try lia; try discriminate.
Qed.

Lemma cal_coeffs_first : forall eps xs ys,
  (2 <= length xs)%nat -> length xs = length ys -> first_x0 (cal_coeffs eps xs ys) = hd 0 xs.
Proof.
  intros eps [|x0 [|x1 xt]] [|y0 [|y1 yt]]; cbn; intros; try lia; try discriminate. reflexivity.
Qed.

Lemma cal_coeffs_last : forall eps xs ys,
  (2 <= length xs)%nat -> length xs = length ys -> last_x1 (cal_coeffs eps xs ys) = last xs 0.
Proof.
  intros eps xs. induction xs as [|x0 xs IH]; intros ys H2 Hlen; [cbn in H2; lia|].
  destruct ys as [|y0 ys]; [discriminate|].
  destruct xs as [|x1 xt]; [cbn in H2; lia|]. destruct ys as [|y1 yt]; [discriminate|].
  destruct xt as [|x2 xt'].
  - destruct yt; [|discriminate]. cbn. reflexivity.
  - destruct yt as [|y2 yt']; [discriminate|].
    specialize (IH (y1 :: y2 :: yt') ltac:(cbn; lia) ltac:(cbn in *; lia)).
    change (last (x0 :: x1 :: x2 :: xt') 0) with (last (x1 :: x2 :: xt') 0). rewrite <- IH.
    reflexivity.
Qed.

Theorem linear_solve_inverts : forall eps xs ys u,
  increasing xs -> nonneg ys -> length xs = length ys -> (2 <= length xs)%nat ->
  0 < li_int_all (cal_coeffs eps xs ys) -> 0 <= u <= 1 ->
  (u < 1 \/ 0 < last_int (cal_coeffs eps xs ys)) ->
  li_integral (cal_coeffs eps xs ys) (li_solve (cal_coeffs eps xs ys) u)
    = u * li_int_all (cal_coeffs eps xs ys) /\
  hd 0 xs <= li_solve (cal_coeffs eps xs ys) u <= last xs 0.
Proof.
  intros eps xs ys u Hinc Hnn Hlen H2 Hpos Hu Hside.
  rewrite <- (cal_coeffs_first eps xs ys H2 Hlen), <- (cal_coeffs_last eps xs ys H2 Hlen).
  apply linear_solve_inverts_chain; auto.
  - apply cal_coeffs_chain_ok; auto.
  - apply cal_coeffs_nonempty; auto.
Qed.

(* reading the stored cumulative sums is the same as re-accumulating them *)
Lemma solve_steps_eq : forall bs acc t, solve_steps (with_steps acc bs) t = solve_from acc bs t.
Proof.
  induction bs as [|bn bs IH]; intros acc t; [reflexivity|].
  destruct bs as [|b2 bs']; [reflexivity|].
  change (with_steps acc (bn :: b2 :: bs'))
    with ((bn, acc + bin_int bn) :: with_steps (acc + bin_int bn) (b2 :: bs')).
  change (solve_from acc (bn :: b2 :: bs') t)
    with (if Rle_dec (acc + bin_int bn) t then solve_from (acc + bin_int bn) (b2 :: bs') t
          else bin_solve bn (t - (acc + bin_int bn))).
  rewrite <- IH.
  change (with_steps (acc + bin_int bn) (b2 :: bs'))
    with ((b2, acc + bin_int bn + bin_int b2) :: with_steps (acc + bin_int bn + bin_int b2) bs').
  reflexivity.
Qed.

Lemma integral_steps_eq : forall bs acc x, integral_steps (with_steps acc bs) x = integral_from acc bs x.
Proof.
  induction bs as [|bn bs IH]; intros acc x; [reflexivity|].
  destruct bs as [|b2 bs']; [reflexivity|].
  change (with_steps acc (bn :: b2 :: bs'))
    with ((bn, acc + bin_int bn) :: with_steps (acc + bin_int bn) (b2 :: bs')).
  change (integral_from acc (bn :: b2 :: bs') x)
    with (if Rle_dec (lx1 bn) x then integral_from (acc + bin_int bn) (b2 :: bs') x
          else bin_cum bn x + (acc + bin_int bn)).
  rewrite <- IH.
  change (with_steps (acc + bin_int bn) (b2 :: bs'))
    with ((b2, acc + bin_int bn + bin_int b2) :: with_steps (acc + bin_int bn + bin_int b2) bs').
  reflexivity.
Qed.

(* the density that is integrated: integral' = __call__ inside a bin, and the total is the
   trapezoid sum of the node values (unclamped bins) *)
Lemma bin_int_trapezoid : forall x0 x1 y0 y1, x0 <> x1 ->
  bin_int (x0, x1, (y1 - y0) / (x1 - x0), y0 - (y1 - y0) / (x1 - x0) * x0) = (x1 - x0) * (y0 + y1) / 2.
Proof. intros. unfold bin_int, lx0, lx1, lk, lb; cbn [fst snd]. field. lra. Qed.

(* ---- BWGenerator ---- *)
Lemma atan_le : forall a b, a <= b -> atan a <= atan b.
Proof. intros a b [H|H]; [left; apply atan_increasing; exact H|subst; right; reflexivity]. Qed.

Lemma tan_le : forall x y, - (PI / 2) < x -> x <= y -> y < PI / 2 -> tan x <= tan y.
Proof. intros x y Hx [H|H] Hy; [left; apply tan_increasing; lra|subst; right; reflexivity]. Qed.

Theorem bw_solve_inverts : forall m0 g mmin mmax u,
  0 < g -> mmin <= mmax -> 0 <= u <= 1 ->
  bw_integral m0 g (bw_solve m0 g mmin mmax u) - bw_integral m0 g mmin
    = u * bw_int_all m0 g mmin mmax /\
  mmin <= bw_solve m0 g mmin mmax u <= mmax.
Proof.
  intros m0 g mmin mmax u Hg Hm Hu.
  unfold bw_solve, bw_int_all, bw_kxmin, bw_integral.
  set (k := g / 2). assert (Hk : 0 < k) by (unfold k; lra).
  set (A := (mmin - m0) / k). set (B := (mmax - m0) / k).
  replace (1 / k * (mmax - m0)) with B by (unfold B; field; lra).
  replace (1 / k * (mmin - m0)) with A by (unfold A; field; lra).
  assert (HAB : A <= B).
  { unfold A, B. apply Rmult_le_compat_r; [left; apply Rinv_0_lt_compat; exact Hk|lra]. }
  pose proof (atan_le A B HAB) as Hat.
  pose proof (atan_bound A) as [HA1 HA2]. pose proof (atan_bound B) as [HB1 HB2].
  set (th := k * (u * (1 / k * atan B - 1 / k * atan A)) + atan A).
  assert (Hth : th = atan A + u * (atan B - atan A)) by (unfold th; field; lra).
  assert (Hth1 : atan A <= th) by (rewrite Hth; nra).
  assert (Hth2 : th <= atan B) by (rewrite Hth; nra).
  assert (Hrng : - (PI / 2) < th < PI / 2) by lra.
  replace (1 / k * (k * tan th + m0 - m0)) with (tan th) by (field; lra).
  rewrite (atan_tan th Hrng).
  split.
  - rewrite Hth. field. lra.
  - assert (HtA : tan (atan A) <= tan th) by (apply tan_le; lra).
    assert (HtB : tan th <= tan (atan B)) by (apply tan_le; lra).
    rewrite tan_atan in HtA, HtB.
    assert (k * A + m0 = mmin) by (unfold A; field; lra).
    assert (k * B + m0 = mmax) by (unfold B; field; lra).
    split; nra.
Qed.

(* ---- InterpND: per-axis transform ---- *)
Lemma sqrt_unit : forall u, 0 <= u <= 1 -> 0 <= sqrt u <= 1.
Proof.
  intros u [H0 H1]. split; [apply sqrt_pos|]. rewrite <- sqrt_1. apply sqrt_le_1_alt. exact H1.
Qed.

(* y = c0 + c1 sqrt(u) inverts the cumulative function of the triangular density 2y (bit 1:
   F(y) = y^2) resp. 2(1-y) (bit 0: 1 - F(y) = (1-y)^2), stays in the unit interval, and the
   returned coordinate stays inside the cell *)
Theorem interp_nd_cell_inverse : forall bit u xmin xmax,
  0 <= u <= 1 -> xmin <= xmax ->
  let y := fst (nd_coeff bit) + snd (nd_coeff bit) * sqrt u in
  0 <= y <= 1 /\ (if bit then y * y = u else (1 - y) * (1 - y) = u) /\
  nd_axis bit u xmin xmax = y * (xmax - xmin) + xmin /\
  xmin <= nd_axis bit u xmin xmax <= xmax.
Proof.
  intros bit u xmin xmax Hu Hx. pose proof (sqrt_unit u Hu) as [Hs0 Hs1].
  assert (Hss : sqrt u * sqrt u = u) by (apply sqrt_sqrt; lra).
  unfold nd_axis. destruct bit; cbn [nd_coeff fst snd]; cbv zeta.
  - repeat split; try lra; try nra.
  - repeat split; try lra; try nra.
Qed.

(* mixture weights: the triangular densities times the corner weights sum to the multilinear
   interpolant (one axis) *)
Lemma tri_mixture_1d : forall z0 z1 y,
  z0 / 2 * tri_density false y + z1 / 2 * tri_density true y = z0 * lin_weight false y + z1 * lin_weight true y.
Proof. intros. unfold tri_density, lin_weight. field. Qed.

End RealPart.

(* ---- InterpND: corner weight p is paired with the transform of the same corner ---- *)
Lemma product_bits_length : forall n, length (product_bits n) = (2 ^ n)%nat.
Proof.
  induction n; [reflexivity|]. cbn [product_bits]. rewrite app_length, !map_length, IHn. cbn. lia.
Qed.

Lemma product_bits_elem_length : forall n bits, In bits (product_bits n) -> length bits = n.
Proof.
  induction n; intros bits H.
  - cbn in H. destruct H as [<-|[]]. reflexivity.
  - cbn [product_bits] in H. apply in_app_or in H. destruct H as [H|H];
      apply in_map_iff in H; destruct H as (t & <- & Ht); cbn; f_equal; auto.
Qed.

Lemma idx_coeff_lt : forall bits, (idx_coeff bits < 2 ^ length bits)%nat.
Proof.
  induction bits as [|b t IH]; [cbn; lia|]. cbn [idx_coeff length]. rewrite Nat.pow_succ_r'.
  destruct b; cbn [b2n]; lia.
Qed.

Theorem nd_corner_pairing : forall bits, nth (idx_coeff bits) (product_bits (length bits)) [] = bits.
Proof.
  induction bits as [|b t IH]; [reflexivity|].
  cbn [idx_coeff length product_bits]. pose proof (idx_coeff_lt t) as Hlt.
  pose proof (product_bits_length (length t)) as Hlen.
  destruct b; cbn [b2n].
  - rewrite app_nth2 by (rewrite map_length, Hlen; lia).
    rewrite map_length, Hlen.
    replace (1 * 2 ^ length t + idx_coeff t - 2 ^ length t)%nat with (idx_coeff t) by lia.
    rewrite (nth_indep _ [] (true :: [])) by (rewrite map_length, Hlen; exact Hlt).
    rewrite map_nth. f_equal. exact IH.
  - replace (0 * 2 ^ length t + idx_coeff t)%nat with (idx_coeff t) by lia.
    rewrite app_nth1 by (rewrite map_length, Hlen; exact Hlt).
    rewrite (nth_indep _ [] (false :: [])) by (rewrite map_length, Hlen; exact Hlt).
    rewrite map_nth. f_equal. exact IH.
Qed.

Lemma idx_coeff_nth : forall n p, (p < 2 ^ n)%nat -> idx_coeff (nth p (product_bits n) []) = p.
Proof.
  induction n; intros p Hp.
  - cbn in Hp. assert (p = 0)%nat by lia. subst. reflexivity.
  - cbn [product_bits]. pose proof (product_bits_length n) as Hlen.
    rewrite Nat.pow_succ_r' in Hp.
    destruct (Nat.lt_ge_cases p (2 ^ n)) as [Hlt|Hge].
    + rewrite app_nth1 by (rewrite map_length, Hlen; exact Hlt).
      rewrite (nth_indep _ [] (false :: [])) by (rewrite map_length, Hlen; exact Hlt).
      rewrite map_nth. cbn [idx_coeff b2n]. rewrite IHn by exact Hlt. lia.
    + rewrite app_nth2 by (rewrite map_length, Hlen; lia). rewrite map_length, Hlen.
      assert (Hq : (p - 2 ^ n < 2 ^ n)%nat) by lia.
      rewrite (nth_indep _ [] (true :: [])) by (rewrite map_length, Hlen; exact Hq).
      rewrite map_nth. cbn [idx_coeff b2n]. rewrite IHn by exact Hq.
      rewrite (product_bits_elem_length n) by (apply nth_In; rewrite Hlen; exact Hq). lia.
Qed.

(* the table entry read for corner p in generate() is the transform of the corner whose
   weight int_all[p] selected it - for every dimension n *)
Theorem nd_coeffs_match_weights : forall n p, (p < 2 ^ n)%nat -> bits_coeff n p = bits_weight n p.
Proof.
  intros n p Hp. unfold bits_coeff, coeff_lookup, bits_weight.
  pose proof (product_bits_length n) as Hlen.
  set (w := nth p (product_bits n) []).
  assert (Hw : In w (product_bits n)) by (apply nth_In; rewrite Hlen; exact Hp).
  destruct (find (fun bits => Nat.eqb (idx_coeff bits) p) (rev (product_bits n))) as [x|] eqn:Hf.
  - apply find_some in Hf. destruct Hf as [Hin Heq]. apply Nat.eqb_eq in Heq.
    apply in_rev in Hin. pose proof (product_bits_elem_length n x Hin) as Hl.
    pose proof (nd_corner_pairing x) as Hx. rewrite Hl, Heq in Hx. symmetry. exact Hx.
  - exfalso. pose proof (find_none _ _ Hf w) as Hn. cbv beta in Hn.
    assert (Hiw : idx_coeff w = p) by (apply idx_coeff_nth; exact Hp).
    rewrite Hiw, Nat.eqb_refl in Hn.
    assert (In w (rev (product_bits n))) by (apply in_rev; rewrite rev_involutive; exact Hw).
    specialize (Hn H). discriminate.
Qed.

(* ==================================================================================== *)
(* Part A (exact rationals): acceptance algebra and multi_sampling bookkeeping           *)
(* ==================================================================================== *)
Section QPart.
Local Open Scope Q_scope.

Lemma Qltb_lt : forall x y, Qltb x y = true <-> x < y.
Proof.
  intros x y. unfold Qltb. rewrite negb_true_iff. split.
  - intro H. apply Qnot_le_lt. intro Hle. apply Qle_bool_iff in Hle. congruence.
  - intro H. destruct (Qle_bool y x) eqn:E; auto. apply Qle_bool_iff in E. exfalso. apply (Qlt_not_le _ _ H E).
Qed.

(* the accepted region of the uniform number is the interval [0, w/M) *)
Theorem accept_region : forall u w M, 0 < M -> (accept u w M = true <-> u < w / M).
Proof.
  intros u w M HM. unfold accept. rewrite Qltb_lt. split; intro H.
  - apply Qlt_shift_div_l; assumption.
  - apply (Qmult_lt_r _ _ M HM) in H.
    setoid_replace (w / M * M) with w in H by (field; intro E; rewrite E in HM; discriminate). exact H.
Qed.

Theorem accept_ratio_unit : forall w M, 0 <= w -> w <= M -> 0 < M -> 0 <= w / M /\ w / M <= 1.
Proof.
  intros w M H0 H1 HM. split.
  - apply Qle_shift_div_l; auto. lra.
  - apply Qle_shift_div_r; auto. lra.
Qed.

Theorem thinning_consistent : forall w M M', ~ M == 0 -> ~ M' == 0 -> (w / M) * (M / M') == w / M'.
Proof. intros. field. split; assumption. Qed.

(* an earlier event survives the thinning iff its thinning uniform is below old/new *)
Theorem thin_region : forall r newM M1, 0 < M1 -> 0 < newM -> (thin_keep r newM M1 = true <-> r < M1 / newM).
Proof.
  intros r newM M1 H1 H2. unfold thin_keep. rewrite Qltb_lt.
  assert (E1 : ~ M1 == 0) by (intro E; rewrite E in H1; discriminate).
  assert (E2 : ~ newM == 0) by (intro E; rewrite E in H2; discriminate).
  split; intro H.
  - apply Qlt_shift_div_l; auto.
    apply (Qmult_lt_r _ _ M1 H1) in H.
    setoid_replace (r * newM / M1 * M1) with (r * newM) in H by (field; auto). lra.
  - apply Qlt_shift_div_r; auto.
    apply (Qmult_lt_r _ _ newM H2) in H.
    setoid_replace (M1 / newM * newM) with M1 in H by (field; auto). lra.
Qed.

(* ---- maxima ---- *)
Lemma qmax_from_ge_init : forall l m, m <= qmax_from m l.
Proof.
  induction l as [|x t IH]; intros m; cbn [qmax_from]; [lra|].
  destruct (Qle_bool m x) eqn:E.
  - apply Qle_bool_iff in E. specialize (IH x). lra.
  - apply IH.
Qed.

Lemma qmax_from_ge : forall l m x, In x l -> x <= qmax_from m l.
Proof.
  induction l as [|y t IH]; intros m x Hin; [destruct Hin|].
  cbn [qmax_from]. destruct Hin as [->|Hin]; [|apply IH; exact Hin].
  destruct (Qle_bool m x) eqn:E.
  - apply qmax_from_ge_init.
  - assert (x <= m).
    { destruct (Qlt_le_dec m x) as [H|H]; [|exact H]. exfalso.
      assert (Qle_bool m x = true) by (apply Qle_bool_iff; lra). congruence. }
    pose proof (qmax_from_ge_init t m). lra.
Qed.

Lemma qmax_list_ge : forall l x, In x l -> x <= qmax_list l.
Proof.
  intros [|y t] x Hin; [destruct Hin|]. cbn [qmax_list]. destruct Hin as [->|Hin].
  - apply qmax_from_ge_init.
  - apply qmax_from_ge. exact Hin.
Qed.

Variable A : Type.

(* no proposed event of a batch - accepted or not - has a weight above the bound used *)
Theorem bound_ge_weights : forall M ws w, 0 <= qmax_list ws -> In w ws -> w <= bound_of M ws.
Proof.
  intros M ws w Hpos Hin. pose proof (qmax_list_ge ws w Hin) as Hle. unfold bound_of.
  destruct M as [M0|].
  - destruct (Qltb M0 (qmax_list ws)) eqn:E.
    + nra.
    + assert (~ M0 < qmax_list ws) by (intro H; apply Qltb_lt in H; congruence).
      apply Qnot_lt_le in H. lra.
  - nra.
Qed.

Definition weight_le_bound (e : A * Q * Q) : Prop := ev_w A e <= ev_u A e.  (* third slot = bound *)
Definition nonneg_batch (b : batch A) : Prop := Forall (fun e => 0 <= ev_w A e) (b_evs A b).

Lemma nonneg_qmax : forall ws, Forall (fun w => 0 <= w) ws -> 0 <= qmax_list ws.
Proof.
  intros [|x t] H; [cbn; lra|]. inversion H; subst. cbn [qmax_list].
  pose proof (qmax_from_ge_init t x). lra.
Qed.

Theorem accepted_weight_le_bound : forall M evs,
  Forall (fun e => 0 <= ev_w A e) evs ->
  Forall weight_le_bound (fst (single_sampling2 A M evs)).
Proof.
  intros M evs Hnn. unfold single_sampling2; cbn [fst].
  apply Forall_forall. intros e Hin. apply in_map_iff in Hin. destruct Hin as (e0 & <- & Hin0).
  apply filter_In in Hin0. destruct Hin0 as [Hin0 _].
  unfold weight_le_bound, ev_w, ev_u; cbn [fst snd].
  apply bound_ge_weights.
  - apply nonneg_qmax. apply Forall_forall. intros w Hw. apply in_map_iff in Hw.
    destruct Hw as (e1 & <- & He1). rewrite Forall_forall in Hnn. apply Hnn. exact He1.
  - apply in_map_iff. exists e0. split; [reflexivity|exact Hin0].
Qed.

Lemma single_sampling2_sub : forall M evs e,
  In e (fst (single_sampling2 A M evs)) -> exists e0, In e0 evs /\ ev_id A e = ev_id A e0 /\ ev_w A e = ev_w A e0
     /\ accept (ev_u A e0) (ev_w A e0) (snd (single_sampling2 A M evs)) = true.
Proof.
  intros M evs e Hin. unfold single_sampling2 in *; cbn [fst snd] in *.
  apply in_map_iff in Hin. destruct Hin as (e0 & <- & Hin0). apply filter_In in Hin0. destruct Hin0 as [H1 H2].
  exists e0. repeat split; auto.
Qed.

(* invariants of one step: N_gen is the number of standing events; every standing event has
   weight <= the bound it was accepted with; standing events are proposed events *)
Definition ms_inv (st : ms_state A) : Prop :=
  ms_ngen A st = length (ms_all A st) /\ Forall weight_le_bound (ms_all A st).

Lemma ms_step_inv : forall st b, nonneg_batch b -> ms_inv st -> ms_inv (ms_step A st b).
Proof.
  intros st b Hnn [Hn Hall]. unfold ms_step.
  pose proof (accepted_weight_le_bound (ms_M A st) (b_evs A b) Hnn) as Hacc.
  set (dn := single_sampling2 A (ms_M A st) (b_evs A b)) in *.
  destruct (Qltb _ _ && _)%bool; unfold ms_inv; cbn [ms_ngen ms_all].
  - split; [rewrite app_length; reflexivity|].
    apply Forall_app. split; [|exact Hacc].
    apply Forall_forall. intros e Hin. apply in_map_iff in Hin. destruct Hin as ([e0 r] & <- & Hin).
    apply filter_In in Hin. destruct Hin as [Hin _]. apply in_combine_l in Hin.
    rewrite Forall_forall in Hall. apply Hall. exact Hin.
  - split; [rewrite app_length, Hn; reflexivity|].
    apply Forall_app. split; assumption.
Qed.

Lemma ms_loop_inv : forall N bs st, Forall nonneg_batch bs -> ms_inv st -> ms_inv (ms_loop A N st bs).
Proof.
  intros N bs. induction bs as [|b bs IH]; intros st Hnn Hinv; cbn [ms_loop]; [exact Hinv|].
  inversion Hnn; subst. destruct (ms_ngen A st <? N)%nat; [|exact Hinv].
  apply IH; [assumption|]. apply ms_step_inv; assumption.
Qed.

Lemma ms_init_inv : forall M0, ms_inv (ms_init A M0).
Proof. intros. unfold ms_inv, ms_init; cbn. split; [reflexivity|constructor]. Qed.

(* the loop stops as soon as enough events stand, and otherwise consumes the whole stream *)
Lemma ms_loop_done : forall N st bs, (N <= ms_ngen A st)%nat -> ms_loop A N st bs = st.
Proof.
  intros N st [|b bs] H; cbn [ms_loop]; [reflexivity|].
  destruct (Nat.ltb_spec (ms_ngen A st) N); [lia|reflexivity].
Qed.

(* exact count: when the run ends with enough events (the while loop's exit condition),
   force=True returns exactly N of them *)
Theorem force_count : forall N M0 bs,
  Forall nonneg_batch bs ->
  (N <= ms_ngen A (snd (multi_sampling A N M0 true bs)))%nat ->
  length (fst (multi_sampling A N M0 true bs)) = N.
Proof.
  intros N M0 bs Hnn H. unfold multi_sampling in *; cbn [fst snd] in *.
  destruct (ms_loop_inv N bs (ms_init A M0) Hnn (ms_init_inv M0)) as [Hn _].
  rewrite firstn_length. rewrite Hn in H. lia.
Qed.

Theorem noforce_count : forall N M0 bs,
  Forall nonneg_batch bs ->
  length (fst (multi_sampling A N M0 false bs)) = ms_ngen A (snd (multi_sampling A N M0 false bs)).
Proof.
  intros N M0 bs Hnn. unfold multi_sampling; cbn [fst snd].
  destruct (ms_loop_inv N bs (ms_init A M0) Hnn (ms_init_inv M0)) as [Hn _]. symmetry. exact Hn.
Qed.

(* every returned event was accepted with a bound that is at least its weight *)
Theorem returned_weight_le_bound : forall N M0 force bs,
  Forall nonneg_batch bs -> Forall weight_le_bound (fst (multi_sampling A N M0 force bs)).
Proof.
  intros N M0 force bs Hnn. unfold multi_sampling; cbn [fst].
  destruct (ms_loop_inv N bs (ms_init A M0) Hnn (ms_init_inv M0)) as [_ Hall].
  destruct force; [|exact Hall].
  apply Forall_forall. intros e Hin. rewrite Forall_forall in Hall. apply Hall.
  revert Hin. generalize (ms_all A (ms_loop A N (ms_init A M0) bs)). clear.
  induction N as [|N IH]; intros [|y l] Hin; cbn in Hin; try contradiction.
  destruct Hin as [->|Hin]; [left; reflexivity|right; apply IH; exact Hin].
Qed.

(* the requested batch size is at least one while events are missing: no empty batch *)
Theorem test_N_pos : forall N ngen eff maxN,
  (ngen < N)%nat -> 0 < eff -> eff <= 1 -> (1 <= maxN)%Z -> (1 <= test_N N ngen eff maxN)%Z.
Proof.
  intros N ngen eff maxN Hn He0 He1 Hm. unfold test_N. apply Z.min_glb; [|exact Hm].
  assert (H1 : 1 <= test_N_raw N ngen eff).
  { unfold test_N_raw.
    assert (Hd : 1 <= inject_Z (Z.of_nat N - Z.of_nat ngen)).
    { change 1 with (inject_Z 1). rewrite <- Zle_Qle. lia. }
    assert (Hq : inject_Z (Z.of_nat N - Z.of_nat ngen) <= inject_Z (Z.of_nat N - Z.of_nat ngen) / eff).
    { apply Qle_shift_div_l; auto. nra. }
    nra. }
  change 1%Z with (Qfloor 1). apply Qfloor_resp_le. exact H1.
Qed.

End QPart.

(* ==================================================================================== *)
(* additions (fixer round): the bound taken from the batch itself; InterpND cell volumes *)
(* ==================================================================================== *)
Section BoundFromBatch.
Local Open Scope Q_scope.

(* a bound that dominates every weight of the batch is kept as it is: with such a bound all
   events of all batches are accepted with one and the same M (acceptance probability w / M) *)
Lemma valid_bound_kept : forall M0 ws, qmax_list ws <= M0 -> bound_of (Some M0) ws = M0.
Proof.
  intros M0 ws H. unfold bound_of. cbv zeta.
  destruct (Qltb M0 (qmax_list ws)) eqn:E; [|reflexivity].
  apply Qltb_lt in E. exfalso. apply (Qlt_not_le _ _ E H).
Qed.

(* max_weight=None and a batch of one event: the bound is 1.01 * its own weight, so the event is
   accepted iff u < 100/101, whatever its weight (the code as it is: open finding) *)
Lemma none_bound_single_event_weight_blind : forall u w, 0 < w ->
  (accept u w (bound_of None [w]) = true <-> u < 100 # 101).
Proof.
  intros u w Hw. unfold bound_of, qmax_list, qmax_from. cbv zeta.
  assert (HM : 0 < w * (101 # 100)) by (apply Qmult_lt_0_compat; [exact Hw | reflexivity]).
  rewrite (accept_region u w _ HM).
  assert (E : w / (w * (101 # 100)) == 100 # 101).
  { field. intro E0. rewrite E0 in Hw. discriminate. }
  rewrite E. tauto.
Qed.

(* same for a whole first batch: the event that carries the maximum is accepted with probability
   100/101 and every other event relative to THAT maximum, not to the supremum of the model *)
Lemma none_bound_is_batch_max : forall ws, bound_of None ws == qmax_list ws * (101 # 100).
Proof. intros. unfold bound_of. cbv zeta. reflexivity. Qed.

(* InterpND, one cell in one dimension: the two corner weights add up to the trapezoid area,
   the exact integral of the linear interpolant over the cell *)
Lemma nd_cell_weight_1d_trapezoid : forall x0 x1 z0 z1 : Q,
  nd_cell_weight (nd_int_all_vol [[x0; x1]] [z0; z1]) 1 0 2 == (z0 + z1) / 2 * (x1 - x0).
Proof.
  intros. unfold nd_cell_weight, nd_int_all_vol, nd_int_all_vol_at, nd_int_all_at, nd_cell_vol. cbn.
  unfold pow2. cbn. field.
Qed.

(* nodes 0, 1, 3 with a constant density: the repaired weights give the first cell 1/3 of the
   total, the weights of the code before the repair gave it 1/2 *)
Lemma nd_vol_nonuniform_example :
  nd_cell_weight (nd_int_all_vol [[0; 1; 3]] [1; 1; 1]) 2 0 2 == 1 /\
  nd_cell_weight (nd_int_all_vol [[0; 1; 3]] [1; 1; 1]) 2 1 2 == 2.
Proof. split; vm_compute; reflexivity. Qed.
Lemma nd_old_no_volume_refuted :
  nd_cell_weight (nd_int_all [3%nat] [1; 1; 1]) 2 0 2 == nd_cell_weight (nd_int_all [3%nat] [1; 1; 1]) 2 1 2.
Proof. vm_compute; reflexivity. Qed.
End BoundFromBatch.

(* ==================================================================================== *)
(* measure of the acceptance region: for a uniform number on [0,1] the acceptance        *)
(* probability is w / M  (Riemann integral of the indicator)                             *)
(* ==================================================================================== *)
From Coquelicot Require Import Coquelicot.
Section AcceptProb.
Local Open Scope R_scope.
Theorem accept_prob : forall w M, 0 <= w <= M -> 0 < M ->
  is_RInt (fun u => accept_ind u w M) 0 1 (w / M).
Proof.
  intros w M [Hw0 HwM] HM.
  set (c := w / M).
  assert (HcM : c * M = w) by (unfold c; field; lra).
  assert (Hc : 0 <= c <= 1).
  { split.
    - unfold c. apply Rmult_le_pos; [exact Hw0|left; apply Rinv_0_lt_compat; exact HM].
    - apply Rmult_le_reg_r with M; [exact HM|]. rewrite HcM. lra. }
  assert (H1 : is_RInt (fun u => accept_ind u w M) 0 c (scal (c - 0) 1)).
  { apply (is_RInt_ext (fun _ => 1)).
    - intros x Hx. rewrite Rmin_left, Rmax_right in Hx by lra. unfold accept_ind.
      destruct (Rlt_dec (x * M) w) as [|n]; [reflexivity|]. exfalso. apply n. nra.
    - apply (@is_RInt_const R_NormedModule 0 c 1). }
  assert (H2 : is_RInt (fun u => accept_ind u w M) c 1 (scal (1 - c) 0)).
  { apply (is_RInt_ext (fun _ => 0)).
    - intros x Hx. rewrite Rmin_left, Rmax_right in Hx by lra. unfold accept_ind.
      destruct (Rlt_dec (x * M) w) as [l|]; [|reflexivity]. exfalso. nra.
    - apply (@is_RInt_const R_NormedModule c 1 0). }
  pose proof (is_RInt_Chasles _ 0 c 1 _ _ H1 H2) as H.
  replace c with (plus (scal (c - 0) 1) (scal (1 - c) 0)) at 1; [exact H|].
  unfold plus, scal; simpl. unfold mult; simpl. ring.
Qed.
End AcceptProb.

