(* C20: lemmas about half-open bins, adaptive splitting and weighted histograms (Bins.v). *)
From Coq Require Import QArith Qabs Qround ZArith List Bool Lia Lra Psatz.
From TFV Require Import Samp.Bins.
Import ListNotations.
Local Open Scope Q_scope.

(* ---- comparisons ---- *)
Lemma qltb_lt : forall x y, qltb x y = true <-> x < y.
Proof.
  intros x y. unfold qltb. rewrite negb_true_iff. split.
  - intro H. apply Qnot_le_lt. intro Hle. apply Qle_bool_iff in Hle. congruence.
  - intro H. destruct (Qle_bool y x) eqn:E; auto. apply Qle_bool_iff in E. exfalso. apply (Qlt_not_le _ _ H E).
Qed.

Lemma in_ho_spec : forall x lo hi, in_ho x lo hi = true <-> lo <= x /\ x < hi.
Proof. intros. unfold in_ho. rewrite andb_true_iff, Qle_bool_iff, qltb_lt. tauto. Qed.

Lemma in_ho_false : forall x lo hi, in_ho x lo hi = false <-> x < lo \/ hi <= x.
Proof.
  intros. split.
  - intro H. destruct (Qlt_le_dec x lo) as [|H1]; [left; assumption|].
    destruct (Qlt_le_dec x hi) as [H2|]; [|right; assumption].
    assert (in_ho x lo hi = true) by (apply in_ho_spec; split; assumption). congruence.
  - intro H. destruct (in_ho x lo hi) eqn:E; auto. apply in_ho_spec in E. lra.
Qed.

Lemma in_closed_spec : forall x lo hi, in_closed x lo hi = true <-> lo <= x /\ x <= hi.
Proof. intros. unfold in_closed. rewrite andb_true_iff, !Qle_bool_iff. tauto. Qed.

(* ---- sorted edge lists ---- *)
Lemma qsorted_tail : forall a es, qsorted (a :: es) -> qsorted es.
Proof. intros a [|b tl] H; cbn in *; tauto. Qed.

Lemma qsorted_hd_le_last : forall es a, qsorted (a :: es) -> a <= last (a :: es) 0.
Proof.
  induction es as [|b tl IH]; intros a H; [cbn; lra|].
  destruct H as [Hab H]. specialize (IH b H).
  change (last (a :: b :: tl) 0) with (last (b :: tl) 0). lra.
Qed.

Lemma qsorted_nth_mono : forall es i j, qsorted es -> (i <= j)%nat -> (j < length es)%nat ->
  nth i es 0 <= nth j es 0.
Proof.
  induction es as [|a es IH]; intros i j Hs Hij Hj; [cbn in Hj; lia|].
  destruct j as [|j].
  - assert (i = 0)%nat by lia. subst. lra.
  - destruct i as [|i].
    + cbn [nth]. cbn [length] in Hj.
      assert (Hj' : (j < length es)%nat) by lia.
      assert (H0j : (0 <= j)%nat) by apply Nat.le_0_l.
      pose proof (IH 0%nat j (qsorted_tail _ _ Hs) H0j Hj') as H0.
      destruct es as [|b tl]; [cbn in Hj'; lia|]. destruct Hs as [Hab _].
      change (nth 0 (b :: tl) 0) with b in H0. lra.
    + cbn [nth]. apply IH; [exact (qsorted_tail _ _ Hs)|lia|cbn in Hj; lia].
Qed.

(* ---- one-dimensional chain: every x in [b_0, b_n) lies in exactly one half-open bin ---- *)
Lemma bin_flags_below : forall es x, qsorted es -> x < qhd es -> count_true (bin_flags x es) = 0%nat.
Proof.
  induction es as [|a es IH]; intros x Hs Hx; [reflexivity|].
  destruct es as [|b tl]; [reflexivity|].
  change (bin_flags x (a :: b :: tl)) with (in_ho x a b :: bin_flags x (b :: tl)).
  cbn [count_true]. destruct Hs as [Hab Hs]. cbn [qhd hd] in *.
  assert (E : in_ho x a b = false) by (apply in_ho_false; left; exact Hx). rewrite E.
  rewrite (IH x Hs); [reflexivity|]. cbn [qhd hd]. lra.
Qed.

Theorem bins_count_one : forall es x, qsorted es -> qhd es <= x -> x < qlast es ->
  count_true (bin_flags x es) = 1%nat.
Proof.
  induction es as [|a es IH]; intros x Hs H0 H1; [cbn in *; lra|].
  destruct es as [|b tl]; [cbn in *; lra|].
  change (bin_flags x (a :: b :: tl)) with (in_ho x a b :: bin_flags x (b :: tl)).
  cbn [count_true]. destruct Hs as [Hab Hs]. cbn [qhd hd] in *.
  unfold qlast in *. change (last (a :: b :: tl) 0) with (last (b :: tl) 0) in H1.
  destruct (Qlt_le_dec x b) as [Hxb|Hbx].
  - assert (E : in_ho x a b = true) by (apply in_ho_spec; split; assumption). rewrite E.
    rewrite (bin_flags_below (b :: tl) x Hs); [reflexivity|exact Hxb].
  - assert (E : in_ho x a b = false) by (apply in_ho_false; right; exact Hbx). rewrite E.
    rewrite (IH x Hs); [reflexivity|exact Hbx|exact H1].
Qed.

Theorem bins_partition : forall es x, qsorted es -> qhd es <= x -> x < qlast es ->
  exists! i, (S i < length es)%nat /\ nth i es 0 <= x /\ x < nth (S i) es 0.
Proof.
  intros es x Hs H0 H1.
  assert (Hex : exists i, (S i < length es)%nat /\ nth i es 0 <= x /\ x < nth (S i) es 0).
  { revert x Hs H0 H1. induction es as [|a es IH]; intros x Hs H0 H1; [cbn in *; lra|].
    destruct es as [|b tl]; [cbn in *; lra|].
    destruct Hs as [Hab Hs]. unfold qlast, qhd in *. cbn [hd] in *.
    change (last (a :: b :: tl) 0) with (last (b :: tl) 0) in H1.
    destruct (Qlt_le_dec x b) as [Hxb|Hbx].
    - exists 0%nat. cbn. split; [lia|split; assumption].
    - destruct (IH x Hs Hbx H1) as (i & Hi & Hl & Hr). exists (S i). cbn [length nth] in *.
      split; [lia|split; assumption]. }
  destruct Hex as (i & Hi & Hl & Hr). exists i. split; [auto|].
  intros j (Hj & Hjl & Hjr).
  destruct (Nat.lt_trichotomy i j) as [Hlt|[Heq|Hgt]]; [|exact Heq|]; exfalso.
  - pose proof (qsorted_nth_mono es (S i) j Hs ltac:(lia) ltac:(lia)). lra.
  - pose proof (qsorted_nth_mono es (S j) i Hs ltac:(lia) ltac:(lia)). lra.
Qed.

(* from "exactly one flag" to "exists a unique index" *)
Lemma count_one_exists_unique : forall l, count_true l = 1%nat ->
  exists! i, (i < length l)%nat /\ nth i l false = true.
Proof.
  induction l as [|b t IH]; intro H; [discriminate|]. cbn [count_true] in H. destruct b.
  - assert (H0 : count_true t = 0%nat) by lia.
    assert (Hall : forall i, (i < length t)%nat -> nth i t false = false).
    { clear -H0. induction t as [|c t IH]; intros i Hi; [cbn in Hi; lia|]. cbn [count_true] in H0.
      destruct c; [lia|]. destruct i; [reflexivity|]. cbn. apply IH; [lia|cbn in Hi; lia]. }
    exists 0%nat. split; [cbn; split; [lia|reflexivity]|].
    intros [|j] [Hj Hn]; [reflexivity|]. cbn in Hj, Hn. rewrite Hall in Hn by lia. discriminate.
  - destruct (IH ltac:(lia)) as (i & [Hi Hn] & Hu). exists (S i). split; [cbn; split; [lia|exact Hn]|].
    intros [|j] [Hj Hjn]; [cbn in Hjn; discriminate|]. f_equal. apply Hu. cbn in Hj, Hjn. split; [lia|exact Hjn].
Qed.

(* ---- chains produced by single_split_bound ---- *)
Lemma count_true_and : forall (T : Type) (a : bool) (f : T -> bool) (l : list T),
  count_true (map (fun c => a && f c) l) = if a then count_true (map f l) else 0%nat.
Proof.
  intros T a f l. destruct a; cbn [andb]; [reflexivity|].
  induction l; cbn; auto.
Qed.

Lemma count_true_and_r : forall (T : Type) (a : bool) (f : T -> bool) (l : list T),
  count_true (map (fun c => f c && a) l) = if a then count_true (map f l) else 0%nat.
Proof.
  intros T a f l. destruct a.
  - f_equal. apply map_ext. intro; apply andb_true_r.
  - induction l; cbn; auto. rewrite andb_false_r. exact IHl.
Qed.

Lemma count_true_false : forall (T : Type) (l : list T), count_true (map (fun _ => false) l) = 0%nat.
Proof. induction l; cbn; auto. Qed.

Lemma chain_count : forall cuts lo hi x, qsorted (lo :: cuts ++ [hi]) ->
  count_true (map (fun lr => in_ho x (fst lr) (snd lr)) (chain_bounds lo hi cuts))
  = if in_ho x lo hi then 1%nat else 0%nat.
Proof.
  induction cuts as [|c cs IH]; intros lo hi x Hs.
  - cbn. destruct (in_ho x lo hi); reflexivity.
  - cbn [chain_bounds map count_true fst snd]. cbn [app] in Hs. destruct Hs as [Hlc Hs].
    assert (Hch : c <= hi).
    { pose proof (qsorted_hd_le_last (cs ++ [hi]) c Hs) as H.
      change (c :: cs ++ [hi]) with ((c :: cs) ++ [hi]) in H. rewrite last_last in H. exact H. }
    rewrite (IH c hi x Hs).
    destruct (in_ho x lo c) eqn:E1; destruct (in_ho x c hi) eqn:E2; destruct (in_ho x lo hi) eqn:E3;
      try reflexivity; exfalso;
      repeat match goal with
             | H : in_ho _ _ _ = true |- _ => apply in_ho_spec in H
             | H : in_ho _ _ _ = false |- _ => apply in_ho_false in H
             end; lra.
Qed.

Lemma in_box_nil_pt : forall bx, bx <> [] -> in_box [] bx = false.
Proof. intros [|[l r] b'] H; [congruence|reflexivity]. Qed.

(* splitting one box along one dimension keeps "x is in exactly the boxes it was in" *)
Theorem split_box_count : forall bx idx cuts x,
  (idx < length bx)%nat -> qsorted (box_lo bx idx :: cuts ++ [box_hi bx idx]) ->
  count_in x (split_box bx idx cuts) = if in_box x bx then 1%nat else 0%nat.
Proof.
  induction bx as [|[l0 r0] b' IH]; intros idx cuts x Hidx Hs; [cbn in Hidx; lia|].
  unfold count_in, split_box in *. rewrite map_map.
  destruct idx as [|i].
  - unfold box_lo, box_hi in *. cbn [nth fst snd] in *. cbn [set_nth].
    destruct x as [|xi x'].
    + cbn [in_box]. erewrite map_ext; [apply count_true_false|]. intros [l r]. reflexivity.
    + cbn [in_box].
      erewrite map_ext with (g := fun lr => in_ho xi (fst lr) (snd lr) && in_box x' b');
        [|intros [l r]; reflexivity].
      rewrite count_true_and_r. rewrite chain_count by exact Hs.
      destruct (in_box x' b'); destruct (in_ho xi l0 r0); reflexivity.
  - unfold box_lo, box_hi in *. cbn [nth] in *. cbn [set_nth].
    destruct x as [|xi x'].
    + cbn [in_box]. apply count_true_false.
    + cbn [in_box]. rewrite count_true_and.
      cbn [length] in Hidx.
      specialize (IH i cuts x' ltac:(lia) Hs). rewrite map_map in IH.
      destruct (in_ho xi l0 r0); [exact IH|reflexivity].
Qed.

Lemma count_in_app : forall x l1 l2, count_in x (l1 ++ l2) = (count_in x l1 + count_in x l2)%nat.
Proof.
  intros x l1 l2. unfold count_in. rewrite map_app.
  induction (map (in_box x) l1) as [|b t IH]; [reflexivity|]. cbn [app count_true]. rewrite IH. lia.
Qed.

(* ---- min / max of a column ---- *)
Lemma qmin_from_le : forall l m, qmin_from m l <= m.
Proof.
  induction l as [|x t IH]; intros m; cbn [qmin_from]; [lra|].
  destruct (Qle_bool x m) eqn:E; [apply Qle_bool_iff in E; specialize (IH x); lra|apply IH].
Qed.
Lemma qmin_from_lb : forall l m a, a <= m -> Forall (fun v => a <= v) l -> a <= qmin_from m l.
Proof.
  induction l as [|x t IH]; intros m a Hm H; cbn [qmin_from]; [exact Hm|].
  inversion H; subst. destruct (Qle_bool x m); apply IH; auto.
Qed.
Lemma qmax_from_ub : forall l m b, m <= b -> Forall (fun v => v <= b) l -> qmax_from' m l <= b.
Proof.
  induction l as [|x t IH]; intros m b Hm H; cbn [qmax_from']; [exact Hm|].
  inversion H; subst. destruct (Qle_bool m x); apply IH; auto.
Qed.

Lemma sorted_map_seq : forall (f : nat -> Q) len start,
  (forall j k, (j <= k)%nat -> f j <= f k) -> qsorted (map f (seq start len)).
Proof.
  intros f len. induction len as [|len IH]; intros start Hm; [cbn; auto|].
  cbn [seq map]. destruct len as [|len']; [cbn; auto|].
  specialize (IH (S start) Hm). cbn [seq map] in *. split; [apply Hm; lia|exact IH].
Qed.

Lemma qsorted_snoc : forall es a hi, qsorted (a :: es) -> (forall v, In v (a :: es) -> v <= hi) ->
  qsorted (a :: es ++ [hi]).
Proof.
  induction es as [|b tl IH]; intros a hi Hs Hle.
  - cbn. split; [apply Hle; left; reflexivity|exact I].
  - destruct Hs as [Hab Hs]. cbn [app]. split; [exact Hab|].
    apply IH; [exact Hs|]. intros v Hv. apply Hle. right. exact Hv.
Qed.

Lemma qmax_from_ge : forall l m, m <= qmax_from' m l.
Proof.
  induction l as [|x t IH]; intros m; cbn [qmax_from']; [lra|].
  destruct (Qle_bool m x) eqn:E; [apply Qle_bool_iff in E; specialize (IH x); lra|apply IH].
Qed.
Lemma qmin_from_le_in : forall l m v, In v (m :: l) -> qmin_from m l <= v.
Proof.
  induction l as [|x t IH]; intros m v Hin; cbn [qmin_from].
  - destruct Hin as [<-|[]]. lra.
  - pose proof (qmin_from_le t (if Qle_bool x m then x else m)) as Hq.
    destruct Hin as [<-|[<-|Hin]].
    + destruct (Qle_bool x m) eqn:E; [apply Qle_bool_iff in E; lra|lra].
    + destruct (Qle_bool x m) eqn:E; [lra|].
      assert (m < x) by (apply Qnot_le_lt; intro C; apply Qle_bool_iff in C; congruence). lra.
    + apply IH. right. exact Hin.
Qed.
Lemma qmax_from_ge_in : forall l m v, In v (m :: l) -> v <= qmax_from' m l.
Proof.
  induction l as [|x t IH]; intros m v Hin; cbn [qmax_from'].
  - destruct Hin as [<-|[]]. lra.
  - pose proof (qmax_from_ge t (if Qle_bool m x then x else m)) as Hq.
    destruct Hin as [<-|[<-|Hin]].
    + destruct (Qle_bool m x) eqn:E; [apply Qle_bool_iff in E; lra|lra].
    + destruct (Qle_bool m x) eqn:E; [lra|].
      assert (x < m) by (apply Qnot_le_lt; intro C; apply Qle_bool_iff in C; congruence). lra.
    + apply IH. right. exact Hin.
Qed.
Lemma qmax_from_in : forall l m, In (qmax_from' m l) (m :: l).
Proof.
  induction l as [|x t IH]; intros m; cbn [qmax_from']; [left; reflexivity|].
  destruct (Qle_bool m x).
  - right. apply IH.
  - destruct (IH m) as [H|H]; [left; exact H|right; right; exact H].
Qed.
Lemma qmax_l_in : forall l, l <> [] -> In (qmax_l l) l.
Proof. intros [|x t] H; [congruence|]. cbn [qmax_l]. apply qmax_from_in. Qed.
Lemma qmin_l_le : forall l v, In v l -> qmin_l l <= v.
Proof. intros [|x t] v H; [destruct H|]. cbn [qmin_l]. apply qmin_from_le_in. exact H. Qed.
Lemma qmax_l_ge : forall l v, In v l -> v <= qmax_l l.
Proof. intros [|x t] v H; [destruct H|]. cbn [qmax_l]. apply qmax_from_ge_in. exact H. Qed.

Section AdaptiveProofs.
Variable pct : list Q -> nat -> nat -> Q.
Variable up : Q -> Q.

Lemma split_one_boxes : forall idx n bd,
  map fst (split_one pct up idx n bd) = split_box (fst bd) idx (cuts_of pct up (column idx (snd bd)) n).
Proof. intros idx n [bx pts]. unfold split_one, split_box. cbn [fst snd]. rewrite map_map. reflexivity. Qed.

Lemma split_level_count : forall idx n chain x,
  Forall (node_ok pct up idx n) chain ->
  count_in x (map fst (flat_map (split_one pct up idx n) chain)) = count_in x (map fst chain).
Proof.
  intros idx n chain x. induction chain as [|bd chain IH]; intro H; [reflexivity|].
  inversion H as [|? ? [Hidx Hs] Hrest]; subst.
  cbn [flat_map map]. rewrite map_app, count_in_app, split_one_boxes, (IH Hrest).
  rewrite (split_box_count _ _ _ x Hidx Hs).
  change (fst bd :: map fst chain) with ([fst bd] ++ map fst chain). rewrite count_in_app.
  unfold count_in at 2. cbn. destruct (in_box x (fst bd)); reflexivity.
Qed.

Lemma multi_split_count : forall ns idx chain x,
  multi_ok pct up idx ns chain ->
  count_in x (map fst (multi_split_from pct up idx ns chain)) = count_in x (map fst chain).
Proof.
  induction ns as [|n ns IH]; intros idx chain x H; [reflexivity|].
  destruct H as [Hlev Hrest]. cbn [multi_split_from].
  rewrite (IH (S idx) _ x Hrest). apply split_level_count. exact Hlev.
Qed.

Lemma loop_split_count : forall nss chain x,
  loop_ok pct up nss chain ->
  count_in x (map fst (loop_split pct up nss chain)) = count_in x (map fst chain).
Proof.
  induction nss as [|ns nss IH]; intros chain x H; [reflexivity|].
  destruct H as [Hm Hrest]. cbn [loop_split].
  rewrite (IH _ x Hrest). apply multi_split_count. exact Hm.
Qed.

(* multi-dimensional partition for the whole split list: with every percentile cut in order
   between the bounds of the box it splits, a point of the base box lies in exactly one leaf
   box and a point outside in none *)
Theorem adaptive_partition : forall nss base pts x,
  loop_ok pct up nss [(base, pts)] ->
  count_in x (map fst (loop_split pct up nss [(base, pts)])) = if in_box x base then 1%nat else 0%nat.
Proof.
  intros nss base pts x H. rewrite (loop_split_count nss _ x H).
  unfold count_in. cbn. destruct (in_box x base); reflexivity.
Qed.

Corollary adaptive_exactly_one : forall nss base pts x,
  loop_ok pct up nss [(base, pts)] -> in_box x base = true ->
  exists! i, (i < length (loop_split pct up nss [(base, pts)]))%nat /\
             in_box x (nth i (map fst (loop_split pct up nss [(base, pts)])) []) = true.
Proof.
  intros nss base pts x H Hin.
  pose proof (adaptive_partition nss base pts x H) as Hc. rewrite Hin in Hc.
  unfold count_in in Hc. destruct (count_one_exists_unique _ Hc) as (i & [Hi Hn] & Hu).
  rewrite !map_length in Hi.
  assert (Hnth : forall j, (j < length (loop_split pct up nss [(base, pts)]))%nat ->
            nth j (map (in_box x) (map fst (loop_split pct up nss [(base, pts)]))) false
            = in_box x (nth j (map fst (loop_split pct up nss [(base, pts)])) [])).
  { intros j Hj. rewrite (nth_indep _ false (in_box x [])) by (rewrite !map_length; exact Hj).
    apply map_nth. }
  exists i. split.
  - split; [exact Hi|]. rewrite <- Hnth by exact Hi. exact Hn.
  - intros j [Hj Hjn]. apply Hu. rewrite !map_length. split; [exact Hj|]. rewrite Hnth by exact Hj. exact Hjn.
Qed.

(* what the percentile contract gives: cut values in order between the bounds, PROVIDED the
   upper neighbour of every datum of the box is at most its upper bound (true for the base box,
   whose upper bound is up max; for a box whose upper bound is an earlier cut of the same
   dimension it needs the data to keep that distance) *)
Hypothesis pct_between : forall col j n, col <> [] -> qmin_l col <= pct col j n /\ pct col j n <= qmax_l col.
Hypothesis pct_mono : forall col j k n, (j <= k)%nat -> pct col j n <= pct col k n.
Hypothesis up_mono : forall x y, x <= y -> up x <= up y.
Hypothesis up_ge : forall x, x <= up x.

Theorem cuts_in_order : forall col n lo hi,
  col <> [] -> Forall (fun v => lo <= v) col -> Forall (fun v => up v <= hi) col ->
  qsorted (lo :: cuts_of pct up col n ++ [hi]).
Proof.
  intros col n lo hi Hne Hlo Hhi.
  assert (Hmin : lo <= qmin_l col).
  { destruct col as [|x t]; [congruence|]. inversion Hlo; subst. cbn [qmin_l]. apply qmin_from_lb; auto. }
  assert (Hmax : up (qmax_l col) <= hi).
  { rewrite Forall_forall in Hhi. apply Hhi. apply qmax_l_in. exact Hne. }
  assert (Hlh : lo <= hi).
  { destruct col as [|x t]; [congruence|]. inversion Hlo; subst. rewrite Forall_forall in Hhi.
    pose proof (Hhi x (or_introl eq_refl)). pose proof (up_ge x). lra. }
  apply qsorted_snoc.
  - unfold cuts_of. remember (seq 1 (n - 1)) as js. destruct js as [|j js']; [cbn; auto|].
    cbn [map]. split.
    + destruct (pct_between col j n Hne). pose proof (up_ge (pct col j n)). lra.
    + rewrite <- (map_cons (fun j0 => up (pct col j0 n))). rewrite Heqjs.
      apply sorted_map_seq. intros a b Hab. apply up_mono. apply (pct_mono col a b n Hab).
  - intros v [<-|Hv].
    + lra.
    + unfold cuts_of in Hv. apply in_map_iff in Hv. destruct Hv as (j & <- & _).
      destruct (pct_between col j n Hne). pose proof (up_mono _ _ H0). lra.
Qed.

End AdaptiveProofs.

(* the code before the repair (up = up_old): the statement with the absolute 1e-6 pad *)
Corollary cuts_in_order_old_offset : forall pct : list Q -> nat -> nat -> Q,
  (forall col j n, col <> [] -> qmin_l col <= pct col j n /\ pct col j n <= qmax_l col) ->
  (forall col j k n, (j <= k)%nat -> pct col j n <= pct col k n) ->
  forall col n lo hi,
  col <> [] -> Forall (fun v => lo <= v) col -> Forall (fun v => v + eps6 <= hi) col ->
  qsorted (lo :: cuts_of pct up_old col n ++ [hi]).
Proof.
  intros pct Hb Hm col n lo hi Hne Hlo Hhi.
  assert (Heps : 0 <= eps6) by (unfold eps6; unfold Qle; cbn; lia).
  apply cuts_in_order; auto; unfold up_old; intros; lra.
Qed.

(* the reference instance of the oracle lies strictly above its argument *)
Lemma qmake1_pos : forall p, 0 < Qmake 1 p.
Proof. intro p. unfold Qlt. cbn [Qnum Qden]. lia. Qed.
Lemma up_ref_above : forall x, x < up_ref x.
Proof.
  intro x. unfold up_ref. pose proof (qmake1_pos (2 ^ 1080)%positive) as Ht. fold tiny in Ht.
  generalize dependent tiny. intros t Ht.
  pose proof (Qabs_nonneg x) as Ha.
  assert (Hc : 0 <= Qabs x * (1 # 9007199254740992)).
  { apply Qmult_le_0_compat; [exact Ha|]. unfold Qle. cbn. lia. }
  lra.
Qed.
Lemma up_old_above : forall x, x < up_old x.
Proof. intro x. unfold up_old, eps6. lra. Qed.

(* every event of the data set lies in the base box *)
Lemma skipn_nth_cons : forall (p : list Q) k, (k < length p)%nat -> skipn k p = nth k p 0 :: skipn (S k) p.
Proof.
  induction p as [|a p IH]; intros k Hk; [cbn in Hk; lia|].
  destruct k as [|k]; [reflexivity|]. cbn [skipn nth]. cbn [length] in Hk. rewrite IH by lia. reflexivity.
Qed.

Lemma base_bound_contains_from : forall up pts p, (forall x, x < up x) -> In p pts ->
  forall len start, (start + len <= length p)%nat ->
  in_box (skipn start p)
    (map (fun d => (qmin_l (map (fun q => nth d q 0) pts) - eps6,
                    up (qmax_l (map (fun q => nth d q 0) pts)))) (seq start len)) = true.
Proof.
  intros up pts p Hup Hin. induction len as [|len IH]; intros start Hl; [cbn [seq map]; destruct (skipn start p); reflexivity|].
  cbn [seq map]. rewrite skipn_nth_cons by lia. cbn [in_box].
  rewrite IH by lia. rewrite andb_true_r. apply in_ho_spec.
  assert (Hc : In (nth start p 0) (map (fun q => nth start q 0) pts)).
  { apply in_map_iff. exists p. split; [reflexivity|exact Hin]. }
  pose proof (qmin_l_le _ _ Hc) as H1. pose proof (qmax_l_ge _ _ Hc) as H2.
  pose proof (Hup (qmax_l (map (fun q => nth start q 0) pts))) as H3.
  assert (Heps : 0 <= eps6) by (unfold eps6; unfold Qle; cbn; lia).
  split; lra.
Qed.

Theorem base_bound_contains : forall up ndim pts p, (forall x, x < up x) -> In p pts ->
  (ndim <= length p)%nat -> in_box p (base_bound up ndim pts) = true.
Proof.
  intros up ndim pts p Hup Hin Hl. unfold base_bound.
  exact (base_bound_contains_from up pts p Hup Hin ndim 0%nat Hl).
Qed.

(* the old absolute pad against data finer than 1e-6: all 8 events fall below the first cut *)
Definition fine_col : list Q := map (fun k => inject_Z (Z.of_nat k) / 10000000) (seq 0 8).
Definition fine_pts : list point := map (fun v => [v]) fine_col.
Example old_abs_offset_unequal_populations :
  map (fun bd => length (snd bd))
      (split_one qpercentile up_old 0 2 (base_bound up_old 1 fine_pts, fine_pts)) = [8; 0]%nat
  /\ pop_within_one 8 2 8 = false.
Proof. split; vm_compute; reflexivity. Qed.
Example new_offset_equal_populations :
  map (fun bd => length (snd bd))
      (split_one qpercentile up_ref 0 2 (base_bound up_ref 1 fine_pts, fine_pts)) = [4; 4]%nat
  /\ pop_within_one 8 2 4 = true.
Proof. split; vm_compute; reflexivity. Qed.

(* ---- weighted histograms ---- *)
Lemma np_flags_below : forall es x, qsorted es -> x < qhd es -> count_true (np_flags x es) = 0%nat.
Proof.
  induction es as [|a es IH]; intros x Hs Hx; [reflexivity|].
  destruct es as [|b tl]; [reflexivity|].
  destruct Hs as [Hab Hs]. cbn [qhd hd] in *.
  assert (IH' := IH x Hs ltac:(cbn [qhd hd]; lra)).
  change (np_flags x (a :: b :: tl))
    with ((match tl with [] => in_closed x a b | _ :: _ => in_ho x a b end) :: np_flags x (b :: tl)).
  cbn [count_true]. rewrite IH'.
  destruct tl as [|c tl'].
  - assert (E : in_closed x a b = false).
    { destruct (in_closed x a b) eqn:E; auto. apply in_closed_spec in E. lra. }
    rewrite E. reflexivity.
  - assert (E : in_ho x a b = false) by (apply in_ho_false; left; exact Hx). rewrite E. reflexivity.
Qed.

Lemma np_flags_count_one : forall es x, qsorted es -> (2 <= length es)%nat -> in_range es x ->
  count_true (np_flags x es) = 1%nat.
Proof.
  induction es as [|a es IH]; intros x Hs H2 [H0 H1]; [cbn in H2; lia|].
  destruct es as [|b tl]; [cbn in H2; lia|].
  destruct Hs as [Hab Hs]. unfold qhd, qlast in *. cbn [hd] in *.
  change (last (a :: b :: tl) 0) with (last (b :: tl) 0) in H1.
  change (np_flags x (a :: b :: tl))
    with ((match tl with [] => in_closed x a b | _ :: _ => in_ho x a b end) :: np_flags x (b :: tl)).
  cbn [count_true]. destruct tl as [|c tl'].
  - cbn [last] in H1. assert (E : in_closed x a b = true) by (apply in_closed_spec; split; assumption).
    rewrite E. reflexivity.
  - destruct (Qlt_le_dec x b) as [Hxb|Hbx].
    + assert (E : in_ho x a b = true) by (apply in_ho_spec; split; assumption). rewrite E.
      rewrite (np_flags_below (b :: c :: tl') x Hs Hxb). reflexivity.
    + assert (E : in_ho x a b = false) by (apply in_ho_false; right; exact Hbx). rewrite E.
      rewrite (IH x Hs); [reflexivity|cbn; lia|]. split; [exact Hbx|exact H1].
Qed.

Lemma np_flags_length : forall es x, length (np_flags x es) = (length es - 1)%nat.
Proof.
  induction es as [|a es IH]; intro x; [reflexivity|]. destruct es as [|b tl]; [reflexivity|].
  change (np_flags x (a :: b :: tl))
    with ((match tl with [] => in_closed x a b | _ :: _ => in_ho x a b end) :: np_flags x (b :: tl)).
  cbn [length]. rewrite IH. cbn [length]. lia.
Qed.

Lemma vadd_length : forall a b, length a = length b -> length (vadd a b) = length a.
Proof. induction a as [|x a IH]; intros [|y b] H; cbn in *; try lia. f_equal. apply IH. lia. Qed.

Lemma hist_length : forall es evs, length (hist es evs) = (length es - 1)%nat.
Proof.
  intros es evs. induction evs as [|e evs IH]; cbn [hist].
  - unfold zeros. apply repeat_length.
  - rewrite vadd_length; unfold hist_row; rewrite map_length, np_flags_length; [reflexivity|]. rewrite IH. reflexivity.
Qed.

Lemma qsum_vadd : forall a b, length a = length b -> qsum (vadd a b) == qsum a + qsum b.
Proof.
  induction a as [|x a IH]; intros [|y b] H; cbn in *; try lia; try lra.
  rewrite IH by lia. lra.
Qed.

Lemma qsum_zeros : forall n, qsum (zeros n) == 0.
Proof. induction n; cbn; [lra|]. unfold zeros in IHn. rewrite IHn. lra. Qed.

Lemma qsum_hist_row : forall flags w, qsum (hist_row flags w) == w * inject_Z (Z.of_nat (count_true flags)).
Proof.
  induction flags as [|f t IH]; intro w; unfold hist_row; cbn [map qsum count_true].
  - change (inject_Z (Z.of_nat 0)) with 0. lra.
  - unfold hist_row in IH. rewrite IH. rewrite Nat2Z.inj_add, inject_Z_plus.
    destruct f; [change (inject_Z (Z.of_nat 1)) with 1|change (inject_Z (Z.of_nat 0)) with 0]; lra.
Qed.

(* conservation: every in-range event puts its weight into exactly one bin *)
Theorem hist_conserves_sum : forall es evs, qsorted es -> (2 <= length es)%nat ->
  Forall (fun e => in_range es (fst e)) evs ->
  qsum (hist es evs) == qsum (map snd evs).
Proof.
  intros es evs Hs H2 Hin. induction evs as [|e evs IH]; cbn [hist map qsum].
  - apply qsum_zeros.
  - inversion Hin as [|? ? He Hrest]; subst.
    rewrite qsum_vadd.
    + rewrite (IH Hrest), qsum_hist_row, (np_flags_count_one es (fst e) Hs H2 He).
      change (inject_Z (Z.of_nat 1)) with 1. lra.
    + unfold hist_row. rewrite map_length, np_flags_length, hist_length. reflexivity.
Qed.

Theorem hist_conserves : forall es evs, qsorted es -> (2 <= length es)%nat ->
  Forall (fun e => in_range es (fst e)) evs ->
  qsum (hist es evs) == qsum (map snd evs) /\
  qsum (hist es (sq_w evs)) == qsum (map (fun e => snd e * snd e) evs).
Proof.
  intros es evs Hs H2 Hin. split; [apply hist_conserves_sum; assumption|].
  rewrite hist_conserves_sum; auto.
  - unfold sq_w. rewrite map_map. cbn [snd]. reflexivity.
  - unfold sq_w. apply Forall_forall. intros e He. apply in_map_iff in He. destruct He as (e0 & <- & He0).
    cbn [fst]. rewrite Forall_forall in Hin. apply Hin. exact He0.
Qed.

(* the reported squared error of a populated bin is its sum of squared weights *)
Theorem hist_err2_populated : forall mask es evs i,
  ~ nth i (hist es (unit_w evs)) 0 == 0 -> (i < length es - 1)%nat ->
  nth i (hist_err2 mask es evs) 0 = nth i (hist es (sq_w evs)) 0.
Proof.
  intros mask es evs i Hne Hi. unfold hist_err2.
  set (f := fun cn : Q * Q => if Qeq_bool (snd cn) 0 then mask else fst cn).
  assert (Hl1 : length (hist es (sq_w evs)) = (length es - 1)%nat) by apply hist_length.
  assert (Hl2 : length (hist es (unit_w evs)) = (length es - 1)%nat) by apply hist_length.
  rewrite (nth_indep _ 0 (f (0, 0))) by (rewrite map_length, combine_length, Hl1, Hl2; lia).
  rewrite map_nth, combine_nth by lia. unfold f. cbn [fst snd].
  destruct (Qeq_bool (nth i (hist es (unit_w evs)) 0) 0) eqn:E; [|reflexivity].
  apply Qeq_bool_iff in E. contradiction.
Qed.

(* equal populations: the counts below the n-quantile cuts of m distinct values differ from
   m/n by at most one (arithmetic core, see the report for the percentile oracle) *)
Theorem pop_floor_within_one : forall m n j : Z, (0 < n)%Z -> (1 <= j <= n)%Z -> (1 <= m)%Z ->
  let c := ((j * (m - 1)) / n - ((j - 1) * (m - 1)) / n)%Z in
  (Z.abs (n * c - (m - 1)) <= n)%Z.
Proof.
  intros m n j Hn Hj Hm c. unfold c.
  pose proof (Z.div_mod (j * (m - 1)) n ltac:(lia)) as E1.
  pose proof (Z.div_mod ((j - 1) * (m - 1)) n ltac:(lia)) as E2.
  pose proof (Z.mod_pos_bound (j * (m - 1)) n Hn) as B1.
  pose proof (Z.mod_pos_bound ((j - 1) * (m - 1)) n Hn) as B2.
  nia.
Qed.

(* ---- sum of two histograms: Hist1D.__add__ / __sub__ (after the repair) ---- *)
Lemma F2q_refl : forall l, Forall2 Qeq l l.
Proof. induction l; constructor; [reflexivity|assumption]. Qed.
Lemma F2q_trans : forall a b c, Forall2 Qeq a b -> Forall2 Qeq b c -> Forall2 Qeq a c.
Proof.
  intros a b c H. revert c. induction H; intros c Hc; inversion Hc; subst; constructor.
  - etransitivity; eassumption.
  - apply IHForall2. assumption.
Qed.
Lemma F2q_nth : forall a b i, Forall2 Qeq a b -> nth i a 0 == nth i b 0.
Proof.
  intros a b i H. revert i. induction H; intros [|i]; cbn [nth]; try reflexivity; auto.
Qed.
Lemma vadd_assoc : forall r x y, Forall2 Qeq (vadd r (vadd x y)) (vadd (vadd r x) y).
Proof.
  induction r as [|a r IH]; intros [|b x] [|c y]; cbn [vadd]; try constructor.
  - lra.
  - apply IH.
Qed.
Lemma vadd_cong_r : forall r x x', Forall2 Qeq x x' -> Forall2 Qeq (vadd r x) (vadd r x').
Proof.
  induction r as [|a r IH]; intros x x' H; [constructor|].
  inversion H; subst; cbn [vadd]; constructor; [lra|apply IH; assumption].
Qed.
Lemma vadd_zeros_l : forall l, Forall2 Qeq l (vadd (zeros (length l)) l).
Proof.
  induction l as [|x l IH]; [constructor|]. cbn [length zeros repeat vadd]. constructor; [lra|exact IH].
Qed.

(* (i) the histogram of the union of two event sets is the sum of the histograms *)
Theorem hist_app : forall es a b, Forall2 Qeq (hist es (a ++ b)) (vadd (hist es a) (hist es b)).
Proof.
  intros es a b. induction a as [|e a IH]; cbn [app hist].
  - rewrite <- (hist_length es b). apply vadd_zeros_l.
  - eapply F2q_trans; [apply vadd_cong_r; exact IH|]. apply vadd_assoc.
Qed.
Lemma sq_w_app : forall a b, sq_w (a ++ b) = sq_w a ++ sq_w b.
Proof. intros. unfold sq_w. apply map_app. Qed.
Lemma unit_w_app : forall a b, unit_w (a ++ b) = unit_w a ++ unit_w b.
Proof. intros. unfold unit_w. apply map_app. Qed.

Theorem hist_add_counts : forall es a b,
  Forall2 Qeq (hist es (a ++ b)) (vadd (hist es a) (hist es b)) /\
  Forall2 Qeq (hist es (sq_w (a ++ b))) (vadd (hist es (sq_w a)) (hist es (sq_w b))) /\
  Forall2 Qeq (hist es (unit_w (a ++ b))) (vadd (hist es (unit_w a)) (hist es (unit_w b))).
Proof.
  intros es a b. rewrite sq_w_app, unit_w_app. repeat split; apply hist_app.
Qed.

(* unit-weight counts are non-negative, and where they vanish every weighted sum vanishes *)
Definition cnt_rel (u s : Q) : Prop := 0 <= u /\ (u == 0 -> s == 0).
Lemma cnt_rel_row : forall flags w U S, Forall2 cnt_rel U S ->
  Forall2 cnt_rel (vadd (hist_row flags 1) U) (vadd (hist_row flags w) S).
Proof.
  induction flags as [|f t IH]; intros w U S H; [constructor|].
  inversion H as [|u s U' S' [Hu Hz] Hrest]; subst; unfold hist_row; cbn [map vadd]; constructor.
  - destruct f; unfold cnt_rel; split; intros; try lra; try (rewrite Hz; lra).
  - apply IH. exact Hrest.
Qed.
Lemma cnt_rel_zeros : forall n, Forall2 cnt_rel (zeros n) (zeros n).
Proof. induction n; cbn; constructor; [unfold cnt_rel; split; intros; lra|exact IHn]. Qed.
Lemma hist_unit_rel : forall es evs (g : Q * Q -> Q),
  Forall2 cnt_rel (hist es (unit_w evs)) (hist es (map (fun e => (fst e, g e)) evs)).
Proof.
  intros es evs g. induction evs as [|e evs IH]; cbn [unit_w map hist fst snd].
  - apply cnt_rel_zeros.
  - apply cnt_rel_row. exact IH.
Qed.
Lemma cnt_rel_nonneg : forall U S, Forall2 cnt_rel U S -> Forall (fun c => 0 <= c) U.
Proof. intros U S H. induction H as [|u s U S [Hu _] _ IH]; constructor; assumption. Qed.
Lemma cnt_rel_zero_nth : forall U S, Forall2 cnt_rel U S -> forall i, nth i U 0 == 0 -> nth i S 0 == 0.
Proof.
  intros U S H. induction H as [|u s U S [_ Hz] _ IH]; intros [|i]; cbn [nth]; auto; intros; reflexivity.
Qed.
Lemma hist_unit_nonneg : forall es evs, Forall (fun c => 0 <= c) (hist es (unit_w evs)).
Proof. intros es evs. exact (cnt_rel_nonneg _ _ (hist_unit_rel es evs (fun _ => 0))). Qed.
Lemma hist_unit_zero_sq : forall es evs i,
  nth i (hist es (unit_w evs)) 0 == 0 -> nth i (hist es (sq_w evs)) 0 == 0.
Proof.
  intros es evs i. exact (cnt_rel_zero_nth _ _ (hist_unit_rel es evs (fun e => snd e * snd e)) i).
Qed.

Lemma qeqb0_add : forall x y, 0 <= x -> 0 <= y -> Qeq_bool (x + y) 0 = Qeq_bool x 0 && Qeq_bool y 0.
Proof.
  intros x y Hx Hy. destruct (Qeq_bool x 0) eqn:Ex; destruct (Qeq_bool y 0) eqn:Ey; cbn [andb].
  - apply Qeq_bool_iff in Ex, Ey. apply Qeq_bool_iff. lra.
  - destruct (Qeq_bool (x + y) 0) eqn:E; auto. apply Qeq_bool_iff in E. apply Qeq_bool_iff in Ex.
    apply Qeq_bool_neq in Ey. exfalso. apply Ey. lra.
  - destruct (Qeq_bool (x + y) 0) eqn:E; auto. apply Qeq_bool_iff in E.
    apply Qeq_bool_neq in Ex. exfalso. apply Ex. lra.
  - destruct (Qeq_bool (x + y) 0) eqn:E; auto. apply Qeq_bool_iff in E.
    apply Qeq_bool_neq in Ex. exfalso. apply Ex. lra.
Qed.
Lemma qeqb0_cong : forall x y, x == y -> Qeq_bool x 0 = Qeq_bool y 0.
Proof.
  intros x y H. destruct (Qeq_bool x 0) eqn:Ex; destruct (Qeq_bool y 0) eqn:Ey; auto.
  - apply Qeq_bool_iff in Ex. apply Qeq_bool_neq in Ey. exfalso. apply Ey. lra.
  - apply Qeq_bool_iff in Ey. apply Qeq_bool_neq in Ex. exfalso. apply Ex. lra.
Qed.
Lemma empty_flags_cong : forall X Y, Forall2 Qeq X Y ->
  map (fun c => Qeq_bool c 0) X = map (fun c => Qeq_bool c 0) Y.
Proof. intros X Y H. induction H; cbn [map]; [reflexivity|]. f_equal; [apply qeqb0_cong; assumption|assumption]. Qed.
Lemma empty_flags_vadd : forall A B, Forall (fun c => 0 <= c) A -> Forall (fun c => 0 <= c) B ->
  map (fun c => Qeq_bool c 0) (vadd A B)
  = bzip andb (map (fun c => Qeq_bool c 0) A) (map (fun c => Qeq_bool c 0) B).
Proof.
  induction A as [|x A IH]; intros [|y B] HA HB; cbn [vadd map bzip]; try reflexivity.
  inversion HA; inversion HB; subst. f_equal; [apply qeqb0_add; assumption|apply IH; assumption].
Qed.

(* (ii) a bin of the union is empty exactly where both components are empty *)
Theorem hist_add_empty_union : forall es a b,
  hist_empty es (a ++ b) = hist_add_empty (hist_empty es a) (hist_empty es b).
Proof.
  intros es a b. unfold hist_empty, hist_add_empty. rewrite unit_w_app.
  rewrite (empty_flags_cong _ _ (hist_app es (unit_w a) (unit_w b))).
  apply empty_flags_vadd; apply hist_unit_nonneg.
Qed.

Lemma vadd_nth : forall A B i, length A = length B -> nth i (vadd A B) 0 == nth i A 0 + nth i B 0.
Proof.
  induction A as [|x A IH]; intros [|y B] i H; cbn in H; try lia.
  - destruct i; cbn; lra.
  - destruct i as [|i]; cbn [vadd nth]; [lra|]. apply IH. lia.
Qed.
Lemma hist_add_err2_nth : forall e1 e2 f1 f2 i,
  (i < length e1)%nat -> length e2 = length e1 -> length f1 = length e1 -> length f2 = length e1 ->
  nth i (hist_add_err2 e1 e2 f1 f2) 0 = add_err2 (nth i e1 0) (nth i e2 0) (nth i f1 true) (nth i f2 true).
Proof.
  induction e1 as [|x e1 IH]; intros [|y e2] [|a f1] [|b f2] i Hi H2 H3 H4; cbn [length] in *; try lia.
  destruct i as [|i]; cbn [hist_add_err2 nth]; [reflexivity|]. apply IH; lia.
Qed.
Lemma hist_err2_nth : forall m es evs i, (i < length es - 1)%nat ->
  nth i (hist_err2 m es evs) 0
  = if Qeq_bool (nth i (hist es (unit_w evs)) 0) 0 then m else nth i (hist es (sq_w evs)) 0.
Proof.
  intros mask es evs i Hi. unfold hist_err2.
  set (f := fun cn : Q * Q => if Qeq_bool (snd cn) 0 then mask else fst cn).
  assert (Hl1 : length (hist es (sq_w evs)) = (length es - 1)%nat) by apply hist_length.
  assert (Hl2 : length (hist es (unit_w evs)) = (length es - 1)%nat) by apply hist_length.
  rewrite (nth_indep _ 0 (f (0, 0))) by (rewrite map_length, combine_length, Hl1, Hl2; lia).
  rewrite map_nth, combine_nth by lia. reflexivity.
Qed.
Lemma hist_err2_length : forall m es evs, length (hist_err2 m es evs) = (length es - 1)%nat.
Proof. intros. unfold hist_err2. rewrite map_length, combine_length, !hist_length. lia. Qed.
Lemma hist_empty_length : forall es evs, length (hist_empty es evs) = (length es - 1)%nat.
Proof. intros. unfold hist_empty. rewrite map_length. apply hist_length. Qed.
Lemma hist_empty_nth : forall es evs i, (i < length es - 1)%nat ->
  nth i (hist_empty es evs) true = Qeq_bool (nth i (hist es (unit_w evs)) 0) 0.
Proof.
  intros es evs i Hi. unfold hist_empty.
  rewrite (nth_indep _ true (Qeq_bool 0 0)) by (rewrite map_length, hist_length; exact Hi).
  apply (map_nth (fun c => Qeq_bool c 0)).
Qed.

(* (iii) the repaired error rule applied to the two component histograms gives the squared
   error of the histogram of the union, on every bin (whatever value m masks the empty bins) *)
Theorem hist_add_union_all : forall m es a b i, (i < length es - 1)%nat ->
  nth i (hist_add_err2 (hist_err2 m es a) (hist_err2 m es b) (hist_empty es a) (hist_empty es b)) 0
  == nth i (hist es (sq_w (a ++ b))) 0.
Proof.
  intros m es a b i Hi.
  rewrite hist_add_err2_nth
    by (rewrite ?hist_err2_length, ?hist_empty_length; auto).
  rewrite !hist_err2_nth, !hist_empty_nth by exact Hi.
  rewrite sq_w_app, (F2q_nth _ _ i (hist_app es (sq_w a) (sq_w b))).
  rewrite vadd_nth by (rewrite !hist_length; reflexivity).
  unfold add_err2.
  pose proof (hist_unit_zero_sq es a i) as Ha. pose proof (hist_unit_zero_sq es b i) as Hb.
  destruct (Qeq_bool (nth i (hist es (unit_w a)) 0) 0) eqn:Ea;
    destruct (Qeq_bool (nth i (hist es (unit_w b)) 0) 0) eqn:Eb;
    try (apply Qeq_bool_iff in Ea; specialize (Ha Ea));
    try (apply Qeq_bool_iff in Eb; specialize (Hb Eb)); lra.
Qed.
Theorem hist_add_union : forall m es a b i,
  nth i (hist_empty es (a ++ b)) true = false ->
  nth i (hist_add_err2 (hist_err2 m es a) (hist_err2 m es b) (hist_empty es a) (hist_empty es b)) 0
  == nth i (hist es (sq_w (a ++ b))) 0.
Proof.
  intros m es a b i H. apply hist_add_union_all.
  destruct (Nat.lt_ge_cases i (length es - 1)) as [Hlt|Hge]; [exact Hlt|].
  rewrite nth_overflow in H by (rewrite hist_empty_length; exact Hge). discriminate.
Qed.

(* (iv) the rule before the repair (inf + anything = inf: empty where EITHER is empty) *)
Example old_hist_add_inf_refuted :
  let es := [0; 1 # 2; 1] in let a := [(1 # 10, 1)] in let b := [(8 # 10, 1)] in
  hist_add_empty_old (hist_empty es a) (hist_empty es b) = [true; true] /\
  hist_empty es (a ++ b) = [false; false] /\
  hist_add_empty (hist_empty es a) (hist_empty es b) = [false; false].
Proof. repeat split; vm_compute; reflexivity. Qed.
