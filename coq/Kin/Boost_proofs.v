(* Kin/Boost_proofs.v — lemmas about Kin/Boost.v *)
From Coq Require Import Reals Lra Lia.
From TFV Require Import Kin.Boost.
Open Scope R_scope.

(* ------------------------------------------------------------------ vector algebra *)
Lemma vec3_eq a b : vx a = vx b -> vy a = vy b -> vz a = vz b -> a = b.
Proof. destruct a, b; simpl; intros; subst; reflexivity. Qed.
Lemma vec4_eq p q : pt p = pt q -> px p = px q -> py p = py q -> pz p = pz q -> p = q.
Proof. destruct p, q; simpl; intros; subst; reflexivity. Qed.

Ltac vunf := unfold mat3_vec, norm2_3, dot3, add3, sub3, scale3, neg3, cross3, zero3, vect, mk4, add4, sub4, neg4, zero4;
  cbn [pt px py pz vx vy vz c1 c2 c3].
Ltac v3 := apply vec3_eq; vunf.
Ltac v4 := apply vec4_eq; vunf.

Lemma dot3_comm a b : dot3 a b = dot3 b a.
Proof. unfold dot3; ring. Qed.
Lemma dot3_add_l a b c : dot3 (add3 a b) c = dot3 a c + dot3 b c.
Proof. unfold dot3; cbn; ring. Qed.
Lemma dot3_add_r a b c : dot3 a (add3 b c) = dot3 a b + dot3 a c.
Proof. unfold dot3; cbn; ring. Qed.
Lemma dot3_scale_l k a b : dot3 (scale3 k a) b = k * dot3 a b.
Proof. unfold dot3; cbn; ring. Qed.
Lemma dot3_scale_r k a b : dot3 a (scale3 k b) = k * dot3 a b.
Proof. unfold dot3; cbn; ring. Qed.
Lemma dot3_neg_l a b : dot3 (neg3 a) b = - dot3 a b.
Proof. unfold dot3; cbn; ring. Qed.
Lemma dot3_neg_r a b : dot3 a (neg3 b) = - dot3 a b.
Proof. unfold dot3; cbn; ring. Qed.
Lemma norm2_3_neg a : norm2_3 (neg3 a) = norm2_3 a.
Proof. unfold norm2_3, dot3; cbn; ring. Qed.
Lemma norm2_3_nonneg a : 0 <= norm2_3 a.
Proof. unfold norm2_3, dot3. nra. Qed.
Lemma norm2_3_scale k a : norm2_3 (scale3 k a) = k * k * norm2_3 a.
Proof. unfold norm2_3, dot3; cbn; ring. Qed.
Lemma neg3_neg3 a : neg3 (neg3 a) = a.
Proof. v3; ring. Qed.
Lemma scale3_1 a : scale3 1 a = a.
Proof. v3; ring. Qed.
Lemma scale3_scale3 k l a : scale3 k (scale3 l a) = scale3 (k * l) a.
Proof. v3; ring. Qed.
Lemma mk4_vect p : mk4 (pt p) (vect p) = p.
Proof. destruct p; reflexivity. Qed.
Lemma vect_mk4 t v : vect (mk4 t v) = v.
Proof. destruct v; reflexivity. Qed.
Lemma vec4_eq_tv p q : pt p = pt q -> vect p = vect q -> p = q.
Proof. destruct p, q; cbn; intros H1 H2; inversion H2; subst; reflexivity. Qed.
Lemma pt_mk4 t v : pt (mk4 t v) = t.
Proof. reflexivity. Qed.

Lemma cross3_anticomm a b : cross3 a b = neg3 (cross3 b a).
Proof. v3; ring. Qed.
Lemma cross3_self a : cross3 a a = zero3.
Proof. v3; ring. Qed.
Lemma cross3_scale_l k a b : cross3 (scale3 k a) b = scale3 k (cross3 a b).
Proof. v3; ring. Qed.
Lemma cross3_scale_r k a b : cross3 a (scale3 k b) = scale3 k (cross3 a b).
Proof. v3; ring. Qed.
Lemma cross3_add_l a b c : cross3 (add3 a b) c = add3 (cross3 a c) (cross3 b c).
Proof. v3; ring. Qed.
Lemma cross3_add_r a b c : cross3 a (add3 b c) = add3 (cross3 a b) (cross3 a c).
Proof. v3; ring. Qed.
(* BAC-CAB *)
Lemma cross3_triple a b c : cross3 a (cross3 b c) = sub3 (scale3 (dot3 a c) b) (scale3 (dot3 a b) c).
Proof. v3; ring. Qed.
(* Lagrange *)
Lemma dot3_cross_cross a b c d :
  dot3 (cross3 a b) (cross3 c d) = dot3 a c * dot3 b d - dot3 a d * dot3 b c.
Proof. unfold dot3; cbn; ring. Qed.
Lemma dot3_cross_l a b : dot3 a (cross3 a b) = 0.
Proof. unfold dot3; cbn; ring. Qed.
Lemma dot3_cross_r a b : dot3 b (cross3 a b) = 0.
Proof. unfold dot3; cbn; ring. Qed.

Lemma mink_split p q : mink p q = pt p * pt q - dot3 (vect p) (vect q).
Proof. unfold mink, dot3; cbn; ring. Qed.
Lemma mink_comm p q : mink p q = mink q p.
Proof. unfold mink; ring. Qed.
Lemma mink_add_l p q r : mink (add4 p q) r = mink p r + mink q r.
Proof. unfold mink; cbn; ring. Qed.
Lemma mink_add_r p q r : mink p (add4 q r) = mink p q + mink p r.
Proof. unfold mink; cbn; ring. Qed.
Lemma mink_neg4 p q : mink (neg4 p) (neg4 q) = mink p q.
Proof. unfold mink; cbn; ring. Qed.

(* ------------------------------------------------------------------ rotations *)
Lemma mat3_vec_id v : mat3_vec id3 v = v.
Proof. v3; cbn; ring. Qed.

Lemma dot3_mat3 R_ a b : orthogonal R_ -> dot3 (mat3_vec R_ a) (mat3_vec R_ b) = dot3 a b.
Proof.
  intros (H11 & H22 & H33 & H12 & H13 & H23). unfold mat3_vec.
  rewrite !dot3_add_l, !dot3_add_r, !dot3_scale_l, !dot3_scale_r.
  rewrite (dot3_comm (c2 R_) (c1 R_)), (dot3_comm (c3 R_) (c1 R_)), (dot3_comm (c3 R_) (c2 R_)).
  rewrite H11, H22, H33, H12, H13, H23. unfold dot3. ring.
Qed.

Lemma mink_rot R_ p q : orthogonal R_ -> mink (rot4 R_ p) (rot4 R_ q) = mink p q.
Proof.
  intros H. rewrite !mink_split. unfold rot4. rewrite !vect_mk4, !pt_mk4, (dot3_mat3 _ _ _ H).
  reflexivity.
Qed.

Lemma mass_rot R_ p : orthogonal R_ -> mass (rot4 R_ p) = mass p.
Proof. intros H. unfold mass, mass2. rewrite (mink_rot _ _ _ H). reflexivity. Qed.

(* right-handed frame: the full multiplication table of the axes *)
Lemma rotation_table R_ : rotation R_ ->
  cross3 (c1 R_) (c2 R_) = c3 R_ /\ cross3 (c2 R_) (c3 R_) = c1 R_ /\ cross3 (c3 R_) (c1 R_) = c2 R_.
Proof.
  intros [(H11 & H22 & H33 & H12 & H13 & H23) Hc]. split; [exact Hc|]. split.
  - rewrite <- Hc. rewrite cross3_triple. rewrite H22, (dot3_comm (c2 R_) (c1 R_)), H12.
    v3; ring.
  - rewrite <- Hc. rewrite (cross3_anticomm (cross3 _ _) _), cross3_triple.
    rewrite H11, H12. v3; ring.
Qed.

Lemma cross3_mat3 R_ a b : rotation R_ -> cross3 (mat3_vec R_ a) (mat3_vec R_ b) = mat3_vec R_ (cross3 a b).
Proof.
  intros H. destruct (rotation_table _ H) as (T12 & T23 & T31).
  unfold mat3_vec.
  rewrite !cross3_add_l, !cross3_add_r, !cross3_scale_l, !cross3_scale_r, !cross3_self.
  rewrite (cross3_anticomm (c2 R_) (c1 R_)), (cross3_anticomm (c3 R_) (c2 R_)), (cross3_anticomm (c1 R_) (c3 R_)).
  rewrite T12, T23, T31. v3; ring.
Qed.

Lemma norm2_3_mat3 R_ a : orthogonal R_ -> norm2_3 (mat3_vec R_ a) = norm2_3 a.
Proof. intros; unfold norm2_3; apply dot3_mat3; assumption. Qed.
Lemma norm3_mat3 R_ a : orthogonal R_ -> norm3 (mat3_vec R_ a) = norm3 a.
Proof. intros; unfold norm3; rewrite norm2_3_mat3; auto. Qed.
Lemma mat3_vec_scale R_ k a : mat3_vec R_ (scale3 k a) = scale3 k (mat3_vec R_ a).
Proof. v3; ring. Qed.
Lemma mat3_vec_add R_ a b : mat3_vec R_ (add3 a b) = add3 (mat3_vec R_ a) (mat3_vec R_ b).
Proof. v3; ring. Qed.
Lemma unit3_scale a : unit3 a = scale3 (/ norm3 a) a.
Proof. unfold unit3; v3; unfold Rdiv; ring. Qed.
Lemma unit3_mat3 R_ a : orthogonal R_ -> unit3 (mat3_vec R_ a) = mat3_vec R_ (unit3 a).
Proof. intros H. rewrite !unit3_scale, norm3_mat3, mat3_vec_scale; auto. Qed.

(* cross_unit commutes with a proper rotation whenever the fallback branch is not taken *)
Lemma cross_unit_mat3 R_ a b : rotation R_ -> eps <= norm3 (cross3 a b) ->
  cross_unit (mat3_vec R_ a) (mat3_vec R_ b) = mat3_vec R_ (cross_unit a b).
Proof.
  intros H Hn. unfold cross_unit. rewrite (cross3_mat3 _ _ _ H), (norm3_mat3 _ _ (proj1 H)).
  destruct (Rlt_dec (norm3 (cross3 a b)) eps) as [Hlt|_]; [lra|].
  apply unit3_mat3, H.
Qed.

(* cross_unit when the cross product is a known multiple of a unit vector *)
Lemma unit3_of_scaled k u : 0 < k -> norm2_3 u = 1 -> unit3 (scale3 k u) = u.
Proof.
  intros Hk Hu. rewrite unit3_scale. unfold norm3. rewrite norm2_3_scale, Hu, Rmult_1_r, sqrt_square by lra.
  rewrite scale3_scale3, Rinv_l by lra. apply scale3_1.
Qed.
Lemma norm3_scaled k u : 0 <= k -> norm2_3 u = 1 -> norm3 (scale3 k u) = k.
Proof. intros Hk Hu. unfold norm3. rewrite norm2_3_scale, Hu, Rmult_1_r, sqrt_square by lra. reflexivity. Qed.
Lemma cross_unit_of a b k u : cross3 a b = scale3 k u -> norm2_3 u = 1 -> eps <= k -> cross_unit a b = u.
Proof.
  intros Hc Hu Hk. assert (0 < eps) by (unfold eps; lra).
  unfold cross_unit. rewrite Hc, norm3_scaled by (auto; lra).
  destruct (Rlt_dec k eps); [lra|]. apply unit3_of_scaled; auto; lra.
Qed.

(* ------------------------------------------------------------------ boosts *)
Lemma eps_pos : 0 < eps.
Proof. unfold eps; lra. Qed.

Lemma gamma_facts b2 : eps < b2 < 1 ->
  let g := gamma_of b2 in let g2 := gamma2_of b2 in
  g * g * (1 - b2) = 1 /\ g2 * b2 = g - 1 /\ 1 < g.
Proof.
  intros [Hlo Hhi]. pose proof eps_pos as He. cbv zeta. unfold gamma2_of.
  destruct (Rlt_dec eps b2); [|lra]. unfold gamma_of.
  assert (Hs : 0 < sqrt (1 - b2)) by (apply sqrt_lt_R0; lra).
  assert (Hss : sqrt (1 - b2) * sqrt (1 - b2) = 1 - b2) by (apply sqrt_sqrt; lra).
  split; [|split].
  - rewrite <- Hss at 3. field. lra.
  - field. lra.
  - assert (sqrt (1 - b2) < 1). { rewrite <- sqrt_1 at 2. apply sqrt_lt_1; lra. }
    apply Rmult_lt_reg_r with (sqrt (1 - b2)); [lra|]. unfold Rdiv. rewrite Rmult_assoc, Rinv_l by lra. lra.
Qed.

(* gamma, gamma2 of an exact boost with |v|^2 = b2 *)
Definition lorentz_g (g g2 b2 : R) : Prop := g * g * (1 - b2) = 1 /\ g2 * b2 = g - 1 /\ 1 < g.

Lemma lorentz_g_subst g g2 b2 : lorentz_g g g2 b2 ->
  g <> 0 /\ g + 1 <> 0 /\ g - 1 <> 0 /\ b2 = (g * g - 1) / (g * g) /\ g2 = g * g / (g + 1).
Proof.
  intros (H1 & H2 & H3).
  assert (Hb : b2 = (g * g - 1) / (g * g)).
  { apply Rmult_eq_reg_l with (g * g); [|nra]. field_simplify; [|lra]. lra. }
  repeat split; try lra.
  assert (b2 <> 0). { rewrite Hb. intro E. apply Rmult_eq_compat_r with (r := g * g) in E.
      unfold Rdiv in E. rewrite Rmult_assoc, Rinv_l, Rmult_0_l in E by nra. nra. }
  apply Rmult_eq_reg_r with b2; [|assumption]. rewrite H2, Hb. field. split; lra.
Qed.

Lemma boost_g_pt g g2 p v : pt (boost_g g g2 p v) = g * (pt p + dot3 v (vect p)).
Proof. reflexivity. Qed.
Lemma boost_g_vect g g2 p v :
  vect (boost_g g g2 p v) = add3 (vect p) (scale3 (g2 * dot3 v (vect p) + g * pt p) v).
Proof. unfold boost_g. rewrite vect_mk4. v3; ring. Qed.

(* Minkowski product is invariant *)
Lemma mink_boost_g g g2 p q v : lorentz_g g g2 (norm2_3 v) ->
  mink (boost_g g g2 p v) (boost_g g g2 q v) = mink p q.
Proof.
  intros H. destruct (lorentz_g_subst _ _ _ H) as (Hg & Hg1 & Hgm & Hb & H2).
  rewrite !mink_split, !boost_g_pt, !boost_g_vect.
  rewrite dot3_add_l, !dot3_add_r, !dot3_scale_l, !dot3_scale_r.
  fold (norm2_3 v). rewrite (dot3_comm (vect p) v).
  set (bp := dot3 v (vect p)) in *. set (bq := dot3 v (vect q)) in *.
  set (pq := dot3 (vect p) (vect q)). set (b2 := norm2_3 v) in *. clearbody bp bq pq b2.
  subst b2 g2. field. split; lra.
Qed.

(* boosting back with the opposite velocity *)
Lemma boost_g_inverse g g2 p v : lorentz_g g g2 (norm2_3 v) ->
  boost_g g g2 (boost_g g g2 p v) (neg3 v) = p.
Proof.
  intros H. destruct (lorentz_g_subst _ _ _ H) as (Hg & Hg1 & Hgm & Hb & H2).
  apply vec4_eq_tv.
  - rewrite boost_g_pt, boost_g_vect, boost_g_pt.
    rewrite !dot3_neg_l, !dot3_add_r, !dot3_scale_r. fold (norm2_3 v).
    set (bp := dot3 v (vect p)) in *. set (b2 := norm2_3 v) in *. clearbody bp b2.
    subst b2 g2. field. split; lra.
  - rewrite boost_g_vect, boost_g_pt, boost_g_vect.
    rewrite !dot3_neg_l, !dot3_add_r, !dot3_scale_r. fold (norm2_3 v).
    set (bp := dot3 v (vect p)) in *. set (b2 := norm2_3 v) in *. clearbody bp b2.
    assert (Es : (g2 * - (bp + (g2 * bp + g * pt p) * b2) + g * (g * (pt p + bp))) = g2 * bp + g * pt p).
    { subst b2 g2. field. split; lra. }
    rewrite Es. v3; ring.
Qed.

Lemma boost_is_boost_g p v : vel_ok v ->
  boost p v = boost_g (gamma_of (norm2_3 v)) (gamma2_of (norm2_3 v)) p v /\
  lorentz_g (gamma_of (norm2_3 v)) (gamma2_of (norm2_3 v)) (norm2_3 v).
Proof. intros H. split; [reflexivity|]. apply gamma_facts, H. Qed.

Theorem mink_boost p q v : vel_ok v -> mink (boost p v) (boost q v) = mink p q.
Proof. intros H. unfold boost. apply mink_boost_g, gamma_facts, H. Qed.

Theorem mass_boost p v : vel_ok v -> mass (boost p v) = mass p.
Proof. intros H. unfold mass, mass2. rewrite mink_boost by assumption. reflexivity. Qed.

Theorem boost_inverse p v : vel_ok v -> boost (boost p v) (neg3 v) = p.
Proof.
  intros H. unfold boost. rewrite norm2_3_neg. apply boost_g_inverse, gamma_facts, H.
Qed.

(* zero velocity: the identity (gamma = 1, guard branch gamma2 = 0) *)
Theorem boost_zero p : boost p zero3 = p.
Proof.
  unfold boost, boost_g, gamma2_of, gamma_of. pose proof eps_pos.
  replace (norm2_3 zero3) with 0 by (unfold norm2_3, dot3; cbn; ring).
  destruct (Rlt_dec eps 0); [lra|]. rewrite Rminus_0_r, sqrt_1.
  destruct p; v4; cbn; field.
Qed.

Lemma boost_add p q v : boost (add4 p q) v = add4 (boost p v) (boost q v).
Proof. unfold boost, boost_g. v4; cbn; ring. Qed.

(* velocity of a timelike vector *)
Lemma boost_vector_norm2 p : pt p <> 0 -> norm2_3 (boost_vector p) = norm2_3 (vect p) / (pt p * pt p).
Proof. intros. unfold norm2_3, dot3, boost_vector; cbn. field. assumption. Qed.

Lemma timelike_beta2 p : timelike p -> 0 <= norm2_3 (boost_vector p) < 1.
Proof.
  intros [H0 H1]. rewrite boost_vector_norm2 by lra. pose proof (norm2_3_nonneg (vect p)).
  assert (0 < pt p * pt p) by nra. split.
  - apply Rmult_le_pos; [assumption|]. left; apply Rinv_0_lt_compat; assumption.
  - apply Rmult_lt_reg_r with (pt p * pt p); [assumption|]. unfold Rdiv. rewrite Rmult_assoc, Rinv_l by lra. lra.
Qed.

Lemma mass_timelike p : timelike p -> mass p = sqrt (pt p * pt p - norm2_3 (vect p)) /\ 0 < mass p.
Proof.
  intros [H0 H1]. unfold mass, mass2. rewrite mink_split. fold (norm2_3 (vect p)).
  rewrite Rabs_right by lra. split; [reflexivity|]. apply sqrt_lt_R0; lra.
Qed.

(* a particle seen from its own rest frame is (m, 0, 0, 0) *)
Theorem rest_vector_of_self p : timelike p -> eps < norm2_3 (boost_vector p) ->
  rest_vector p p = V4 (mass p) 0 0 0.
Proof.
  intros Ht He. pose proof (timelike_beta2 _ Ht) as [_ Hb1]. destruct Ht as [H0 H1].
  unfold rest_vector, boost. rewrite norm2_3_neg.
  set (b2 := norm2_3 (boost_vector p)) in *.
  destruct (gamma_facts b2 (conj He Hb1)) as (G1 & G2 & G3). cbv zeta in G1, G2, G3.
  set (g := gamma_of b2) in *. set (g2 := gamma2_of b2) in *.
  assert (Hbp : dot3 (boost_vector p) (vect p) = b2 * pt p).
  { unfold b2. rewrite boost_vector_norm2 by lra. unfold norm2_3, dot3, boost_vector; cbn. field. lra. }
  rewrite <- (mk4_vect (boost_g _ _ _ _)). rewrite boost_g_pt, boost_g_vect, dot3_neg_l, Hbp.
  assert (Hsp : g2 * - (b2 * pt p) + g * pt p = pt p).
  { replace (g2 * - (b2 * pt p)) with (- (g2 * b2) * pt p) by ring. rewrite G2. ring. }
  rewrite Hsp.
  assert (Hm : g * (pt p + - (b2 * pt p)) = mass p).
  { destruct (mass_timelike p (conj H0 H1)) as [Hm _]. rewrite Hm.
    assert (Hs : 0 < sqrt (1 - b2)) by (apply sqrt_lt_R0; lra).
    assert (Hss : sqrt (1 - b2) * sqrt (1 - b2) = 1 - b2) by (apply sqrt_sqrt; lra).
    assert (Hrhs : pt p * pt p - norm2_3 (vect p) = (pt p * pt p) * (1 - b2)).
    { unfold b2. rewrite boost_vector_norm2 by lra. field. lra. }
    rewrite Hrhs, sqrt_mult, sqrt_square by nra.
    unfold g, gamma_of. replace (pt p + - (b2 * pt p)) with (pt p * (sqrt (1 - b2) * sqrt (1 - b2))) by (rewrite Hss; ring).
    field. lra. }
  rewrite Hm. v4; unfold boost_vector; cbn [vx vy vz]; try reflexivity; field; lra.
Qed.

Theorem rest_vector_of_self_at_rest m : 0 < m -> rest_vector (V4 m 0 0 0) (V4 m 0 0 0) = V4 (mass (V4 m 0 0 0)) 0 0 0.
Proof.
  intros Hm. unfold rest_vector. replace (neg3 (boost_vector (V4 m 0 0 0))) with zero3.
  - rewrite boost_zero. unfold mass, mass2, mink; cbn.
    replace (m * m - 0 * 0 - 0 * 0 - 0 * 0) with (m * m) by ring.
    rewrite Rabs_right by nra. rewrite sqrt_square by lra. reflexivity.
  - v3; cbn; field; lra.
Qed.

(* rest_vector is the boost by minus the velocity, and undoes the boost by that velocity *)
Theorem rest_vector_boost p q : vel_ok (boost_vector p) ->
  boost (rest_vector p q) (boost_vector p) = q.
Proof.
  intros H. unfold rest_vector.
  rewrite <- (neg3_neg3 (boost_vector p)) at 2. apply boost_inverse.
  unfold vel_ok. rewrite norm2_3_neg. exact H.
Qed.
Theorem boost_rest_vector p q : vel_ok (boost_vector p) ->
  rest_vector p (boost q (boost_vector p)) = q.
Proof. intros H. unfold rest_vector. apply boost_inverse, H. Qed.

(* the explicit 4x4 matrix is the same linear map as the vector boost (no hypotheses: same gamma, gamma2) *)
Theorem boost_matrix_agrees p q : mat4_vec (boost_matrix p) q = boost q (boost_vector p).
Proof.
  unfold boost_matrix, boost, boost_g, mat4_vec, dot4e. cbv zeta.
  v4; cbn [r0 r1 r2 r3 pt px py pz]; unfold dot3; cbn [vx vy vz]; ring.
Qed.

Lemma cauchy3 a b : dot3 a b * dot3 a b <= norm2_3 a * norm2_3 b.
Proof.
  destruct a as [a1 a2 a3], b as [b1 b2 b3]. unfold norm2_3, dot3; cbn [vx vy vz].
  pose proof (pow2_ge_0 (a1 * b2 - a2 * b1)). pose proof (pow2_ge_0 (a1 * b3 - a3 * b1)).
  pose proof (pow2_ge_0 (a2 * b3 - a3 * b2)).
  assert (E : (a1 * a1 + a2 * a2 + a3 * a3) * (b1 * b1 + b2 * b2 + b3 * b3) - (a1 * b1 + a2 * b2 + a3 * b3) * (a1 * b1 + a2 * b2 + a3 * b3)
    = (a1 * b2 - a2 * b1) ^ 2 + (a1 * b3 - a3 * b1) ^ 2 + (a2 * b3 - a3 * b2) ^ 2) by ring.
  lra.
Qed.

(* the boost of a timelike positive-energy vector by any admissible velocity stays timelike with
   positive energy (needed to chain boosts) *)
Lemma boost_pt_pos p v : vel_ok v -> timelike p -> 0 < pt (boost p v).
Proof.
  intros Hv [H0 H1]. destruct (gamma_facts _ Hv) as (G1 & G2 & G3). cbv zeta in *.
  unfold boost. rewrite boost_g_pt. apply Rmult_lt_0_compat; [lra|].
  (* |v.p| <= |v||p| < E *)
  pose proof (cauchy3 v (vect p)) as Hcs.
  destruct Hv as [Hv0 Hv1]. pose proof eps_pos.
  assert (dot3 v (vect p) * dot3 v (vect p) < pt p * pt p).
  { apply Rle_lt_trans with (1 := Hcs). pose proof (norm2_3_nonneg (vect p)). nra. }
  nra.
Qed.

Lemma boost_timelike p v : vel_ok v -> timelike p -> timelike (boost p v).
Proof.
  intros Hv Ht. split; [apply boost_pt_pos; assumption|].
  pose proof (mink_boost p p v Hv) as Hm. rewrite !mink_split in Hm. fold (norm2_3 (vect (boost p v))) in Hm.
  fold (norm2_3 (vect p)) in Hm. destruct Ht. lra.
Qed.

(* ------------------------------------------------------------------ branch lemmas (used by the
   correspondence cases to select the branch the implementation took) *)
Lemma cross_unit_main a b : eps <= norm3 (cross3 a b) -> cross_unit a b = unit3 (cross3 a b).
Proof. intros H. unfold cross_unit. destruct (Rlt_dec (norm3 (cross3 a b)) eps); [lra|reflexivity]. Qed.
Lemma cross_unit_fallback a b : norm3 (cross3 a b) < eps ->
  cross_unit a b = unit3 (cross3 a (V3 (1 + vx b) (1 + vy b) (1 + vz b))).
Proof. intros H. unfold cross_unit. destruct (Rlt_dec (norm3 (cross3 a b)) eps); [reflexivity|lra]. Qed.
Lemma gamma2_of_main b2 : eps < b2 -> gamma2_of b2 = (gamma_of b2 - 1) / b2.
Proof. intros H. unfold gamma2_of. destruct (Rlt_dec eps b2); [reflexivity|lra]. Qed.
Lemma gamma2_of_guard b2 : b2 <= eps -> gamma2_of b2 = 0.
Proof. intros H. unfold gamma2_of. destruct (Rlt_dec eps b2); [lra|reflexivity]. Qed.
