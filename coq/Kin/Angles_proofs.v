(* Kin/Angles_proofs.v — lemmas about Kin/Angles.v: two-body break-up, vertex round trip, axes
   convention, round trip for every decay tree. *)
From Coq Require Import Reals Lra List.
From TFV Require Import Base.RBase Kin.Boost Kin.Boost_proofs Kin.Angles.
Import ListNotations.
Open Scope R_scope.

(* ------------------------------------------------------------------ two-body break-up *)
Lemma rel_p_above m0 m1 m2 : m1 + m2 <= m0 ->
  rel_p m0 m1 m2 = sqrt ((m0 - (m1 + m2)) * (m0 + (m1 + m2)) * (m0 - (m1 - m2)) * (m0 + (m1 - m2))) / (2 * m0).
Proof.
  intros H. unfold rel_p. cbv zeta. rewrite rmax_Rmax, Rmax_left by lra. reflexivity.
Qed.

Lemma breakup_prod_pos m0 m1 m2 : 0 <= m1 -> 0 <= m2 -> m1 + m2 < m0 ->
  0 < (m0 - (m1 + m2)) * (m0 + (m1 + m2)) * (m0 - (m1 - m2)) * (m0 + (m1 - m2)).
Proof.
  intros. repeat apply Rmult_lt_0_compat; lra.
Qed.

Lemma rel_p_pos m0 m1 m2 : 0 <= m1 -> 0 <= m2 -> m1 + m2 < m0 -> 0 < rel_p m0 m1 m2.
Proof.
  intros. rewrite rel_p_above by lra. apply Rdiv_lt_0_compat; [|lra].
  apply sqrt_lt_R0, breakup_prod_pos; assumption.
Qed.

Lemma rel_p_sq m0 m1 m2 : 0 <= m1 -> 0 <= m2 -> m1 + m2 < m0 ->
  rel_p m0 m1 m2 * rel_p m0 m1 m2 =
  (m0 - (m1 + m2)) * (m0 + (m1 + m2)) * (m0 - (m1 - m2)) * (m0 + (m1 - m2)) / (4 * m0 * m0).
Proof.
  intros. rewrite rel_p_above by lra.
  pose proof (breakup_prod_pos m0 m1 m2 ltac:(assumption) ltac:(assumption) ltac:(assumption)) as Hp.
  set (X := (m0 - (m1 + m2)) * (m0 + (m1 + m2)) * (m0 - (m1 - m2)) * (m0 + (m1 - m2))) in *.
  replace (sqrt X / (2 * m0) * (sqrt X / (2 * m0))) with ((sqrt X * sqrt X) / (4 * m0 * m0)) by (field; lra).
  rewrite sqrt_sqrt by lra. reflexivity.
Qed.

(* energies of the daughters in the parent rest frame *)
Lemma breakup_energy1 m0 m1 m2 : 0 <= m1 -> 0 <= m2 -> m1 + m2 < m0 ->
  let q := rel_p m0 m1 m2 in sqrt (m1 * m1 + q * q) = (m0 * m0 + m1 * m1 - m2 * m2) / (2 * m0).
Proof.
  intros H1 H2 H0 q. unfold q. rewrite rel_p_sq by assumption.
  replace (m1 * m1 + (m0 - (m1 + m2)) * (m0 + (m1 + m2)) * (m0 - (m1 - m2)) * (m0 + (m1 - m2)) / (4 * m0 * m0))
    with (((m0 * m0 + m1 * m1 - m2 * m2) / (2 * m0)) * ((m0 * m0 + m1 * m1 - m2 * m2) / (2 * m0))) by (field; lra).
  apply sqrt_square. apply Rmult_le_pos; [nra|]. left. apply Rinv_0_lt_compat. lra.
Qed.

Lemma rel_p_sym m0 m1 m2 : rel_p m0 m1 m2 = rel_p m0 m2 m1.
Proof.
  unfold rel_p. cbv zeta. replace (m2 + m1) with (m1 + m2) by ring. f_equal. f_equal.
  set (me := rmax m0 (m1 + m2)). ring.
Qed.

Lemma breakup_energy2 m0 m1 m2 : 0 <= m1 -> 0 <= m2 -> m1 + m2 < m0 ->
  let q := rel_p m0 m1 m2 in sqrt (m2 * m2 + q * q) = (m0 * m0 + m2 * m2 - m1 * m1) / (2 * m0).
Proof.
  intros H1 H2 H0 q. unfold q. rewrite rel_p_sym. apply breakup_energy1; lra.
Qed.

Theorem breakup_energy_sum m0 m1 m2 : 0 <= m1 -> 0 <= m2 -> m1 + m2 < m0 ->
  let q := rel_p m0 m1 m2 in sqrt (m1 * m1 + q * q) + sqrt (m2 * m2 + q * q) = m0.
Proof.
  intros H1 H2 H0 q. unfold q. rewrite breakup_energy1, breakup_energy2 by assumption. field. lra.
Qed.

(* ------------------------------------------------------------------ local (standard-frame) vectors *)
Definition loc_x (c s cf sf : R) : vec3 := V3 (c * cf) (c * sf) (- s).
Definition loc_y (cf sf : R) : vec3 := V3 (- sf) cf 0.
Definition loc_z (c s cf sf : R) : vec3 := V3 (s * cf) (s * sf) c.
Definition ex : vec3 := V3 1 0 0.
Definition ey : vec3 := V3 0 1 0.
Definition ez : vec3 := V3 0 0 1.

Section Local.
  Variables c s cf sf : R.
  Hypothesis Hs : s * s + c * c = 1.
  Hypothesis Hf : cf * cf + sf * sf = 1.

  Lemma loc_x_unit : norm2_3 (loc_x c s cf sf) = 1.
  Proof. unfold norm2_3, dot3, loc_x; cbn [vx vy vz].
    replace (c * cf * (c * cf) + c * sf * (c * sf) + - s * - s) with (c * c * (cf * cf + sf * sf) + s * s) by ring.
    rewrite Hf. lra. Qed.
  Lemma loc_y_unit : norm2_3 (loc_y cf sf) = 1.
  Proof. unfold norm2_3, dot3, loc_y; cbn [vx vy vz]. lra. Qed.
  Lemma loc_z_unit : norm2_3 (loc_z c s cf sf) = 1.
  Proof. unfold norm2_3, dot3, loc_z; cbn [vx vy vz].
    replace (s * cf * (s * cf) + s * sf * (s * sf) + c * c) with (s * s * (cf * cf + sf * sf) + c * c) by ring.
    rewrite Hf. lra. Qed.
  Lemma loc_xy : dot3 (loc_x c s cf sf) (loc_y cf sf) = 0.
  Proof. unfold dot3, loc_x, loc_y; cbn [vx vy vz]. ring. Qed.
  Lemma loc_xz : dot3 (loc_x c s cf sf) (loc_z c s cf sf) = 0.
  Proof. unfold dot3, loc_x, loc_z; cbn [vx vy vz].
    replace (c * cf * (s * cf) + c * sf * (s * sf) + - s * c) with (c * s * (cf * cf + sf * sf) - s * c) by ring.
    rewrite Hf. ring. Qed.
  Lemma loc_yz : dot3 (loc_y cf sf) (loc_z c s cf sf) = 0.
  Proof. unfold dot3, loc_y, loc_z; cbn [vx vy vz]. ring. Qed.
  Lemma loc_cross_yz : cross3 (loc_y cf sf) (loc_z c s cf sf) = loc_x c s cf sf.
  Proof. apply vec3_eq; unfold cross3, loc_x, loc_y, loc_z; cbn [vx vy vz]; try ring.
    replace (- sf * (s * sf) - cf * (s * cf)) with (- s * (cf * cf + sf * sf)) by ring. rewrite Hf. ring. Qed.
  Lemma loc_cross_xy : cross3 (loc_x c s cf sf) (loc_y cf sf) = loc_z c s cf sf.
  Proof. apply vec3_eq; unfold cross3, loc_x, loc_y, loc_z; cbn [vx vy vz]; try ring.
    replace (c * cf * cf - c * sf * - sf) with (c * (cf * cf + sf * sf)) by ring. rewrite Hf. ring. Qed.

  Lemma loc_rotation : rotation (M3 (loc_x c s cf sf) (loc_y cf sf) (loc_z c s cf sf)).
  Proof.
    split; [|exact loc_cross_xy]. unfold orthogonal; cbn [c1 c2 c3].
    repeat split; [apply loc_x_unit|apply loc_y_unit|apply loc_z_unit|apply loc_xy|apply loc_xz|apply loc_yz].
  Qed.
End Local.

(* composition of a frame with a local rotation *)
Lemma rotation_compose F a b c : rotation F -> rotation (M3 a b c) ->
  rotation (M3 (mat3_vec F a) (mat3_vec F b) (mat3_vec F c)).
Proof.
  intros HF [(H11 & H22 & H33 & H12 & H13 & H23) Hc]. cbn [c1 c2 c3] in *.
  split.
  - unfold orthogonal; cbn [c1 c2 c3]. rewrite !(dot3_mat3 _ _ _ (proj1 HF)). repeat split; assumption.
  - cbn [c1 c2 c3]. rewrite (cross3_mat3 _ _ _ HF), Hc. reflexivity.
Qed.

Lemma rotation_flip F : rotation F -> rotation (flip_frame F).
Proof.
  intros [(H11 & H22 & H33 & H12 & H13 & H23) Hc]. unfold flip_frame. split.
  - unfold orthogonal; cbn [c1 c2 c3].
    rewrite !dot3_neg_l, !dot3_neg_r. repeat split; lra.
  - cbn [c1 c2 c3]. rewrite <- Hc. apply vec3_eq; unfold cross3, neg3; cbn [vx vy vz]; ring.
Qed.

Lemma rotation_id3 : rotation id3.
Proof.
  split; [unfold orthogonal, dot3; cbn; repeat split; ring|].
  apply vec3_eq; unfold cross3; cbn; ring.
Qed.

Lemma mat3_vec_ex F : mat3_vec F ex = c1 F.
Proof. apply vec3_eq; unfold mat3_vec, add3, scale3, ex; cbn [vx vy vz]; ring. Qed.
Lemma mat3_vec_ezk F k : mat3_vec F (V3 0 0 k) = scale3 k (c3 F).
Proof. apply vec3_eq; unfold mat3_vec, add3, scale3; cbn [vx vy vz]; ring. Qed.
Lemma mat3_vec_neg F a : mat3_vec F (neg3 a) = neg3 (mat3_vec F a).
Proof. apply vec3_eq; unfold mat3_vec, add3, scale3, neg3; cbn [vx vy vz]; ring. Qed.

(* cross_unit of rotated vectors whose local cross product is a known multiple of a unit vector *)
Lemma cu_mat3 F a b k u : rotation F -> cross3 a b = scale3 k u -> norm2_3 u = 1 -> eps <= k ->
  cross_unit (mat3_vec F a) (mat3_vec F b) = mat3_vec F u.
Proof.
  intros HF Hc Hu Hk. pose proof eps_pos.
  rewrite cross_unit_mat3; [|assumption|rewrite Hc, norm3_scaled by (auto; lra); assumption].
  f_equal. apply cross_unit_of with k; assumption.
Qed.
Lemma unit_mat3 F k u : rotation F -> 0 < k -> norm2_3 u = 1 -> unit3 (mat3_vec F (scale3 k u)) = mat3_vec F u.
Proof. intros HF Hk Hu. rewrite unit3_mat3 by apply HF. f_equal. apply unit3_of_scaled; assumption. Qed.

Lemma ez_unit : norm2_3 ez = 1. Proof. unfold norm2_3, dot3, ez; cbn; ring. Qed.
Lemma ex_unit : norm2_3 ex = 1. Proof. unfold norm2_3, dot3, ex; cbn; ring. Qed.
Lemma ey_unit : norm2_3 ey = 1. Proof. unfold norm2_3, dot3, ey; cbn; ring. Qed.

(* ------------------------------------------------------------------ one vertex *)
Section Vertex.
  Variables (F : mat3) (k q c s cf sf : R).
  Hypothesis HF : rotation F.
  Hypothesis Hk : 0 < k.
  Hypothesis Hq : 0 < q.
  Hypothesis Hs0 : 0 < s.
  Hypothesis Hs : s * s + c * c = 1.
  Hypothesis Hf : cf * cf + sf * sf = 1.
  Hypothesis Gk : eps <= k.
  Hypothesis Gkqs : eps <= k * q * s.

  Let lx := loc_x c s cf sf.
  Let ly := loc_y cf sf.
  Let lz := loc_z c s cf sf.
  Let z1 := mat3_vec F (scale3 k ez).
  Let x1 := mat3_vec F ex.

  Lemma v_uz1 : unit3 z1 = mat3_vec F ez.
  Proof. apply unit_mat3; auto using ez_unit. Qed.
  Lemma v_uy1 : cross_unit z1 x1 = mat3_vec F ey.
  Proof. apply cu_mat3 with k; auto using ey_unit.
    apply vec3_eq; unfold cross3, scale3, ez, ex, ey; cbn [vx vy vz]; ring. Qed.
  Lemma v_ux1 : cross_unit (mat3_vec F ey) z1 = mat3_vec F ex.
  Proof. apply cu_mat3 with k; auto using ex_unit.
    apply vec3_eq; unfold cross3, scale3, ez, ex, ey; cbn [vx vy vz]; ring. Qed.

  (* first daughter: z2 = q * lz *)
  Let z2 := mat3_vec F (scale3 q lz).
  Lemma v_uz2 : unit3 z2 = mat3_vec F lz.
  Proof. apply unit_mat3; auto. apply loc_z_unit; assumption. Qed.
  Lemma v_uyr : cross_unit z1 z2 = mat3_vec F ly.
  Proof. apply cu_mat3 with (k * q * s); auto. 2: apply loc_y_unit; assumption.
    apply vec3_eq; unfold cross3, scale3, ez, ly, lz, loc_y, loc_z; cbn [vx vy vz]; ring. Qed.
  Lemma v_uxr : cross_unit (mat3_vec F ly) z1 = mat3_vec F (V3 cf sf 0).
  Proof. apply cu_mat3 with k; auto.
    - apply vec3_eq; unfold cross3, scale3, ez, ly, loc_y; cbn [vx vy vz]; ring.
    - unfold norm2_3, dot3; cbn [vx vy vz]. lra. Qed.
  Lemma v_x2 : cross_unit (mat3_vec F ly) (mat3_vec F lz) = mat3_vec F lx.
  Proof. pose proof eps_pos. apply cu_mat3 with 1; auto.
    - unfold lx, ly, lz. rewrite (loc_cross_yz c s cf sf Hf). symmetry. apply scale3_1.
    - apply loc_x_unit; assumption.
    - unfold eps in *. lra. Qed.

  Lemma sqrt_cs : sqrt (c * c + s * s) = 1.
  Proof. replace (c * c + s * s) with 1 by lra. apply sqrt_1. Qed.
  Lemma sqrt_f : sqrt (cf * cf + sf * sf) = 1.
  Proof. rewrite Hf. apply sqrt_1. Qed.

  Theorem vertex_extract1 : hel_extract z1 x1 z2 = Hel c cf sf (mat3_vec F lx).
  Proof.
    unfold hel_extract. cbv zeta.
    rewrite v_uz1, v_uz2, v_uy1, v_ux1, v_uyr, v_uxr, v_x2.
    unfold angle_from_cos, angle_from_sin, atan2_cos, atan2_sin.
    rewrite !(dot3_mat3 _ _ _ (proj1 HF)).
    replace (dot3 lz ez) with c by (unfold dot3, lz, loc_z, ez; cbn [vx vy vz]; ring).
    replace (dot3 lz (V3 cf sf 0)) with s.
    2:{ unfold dot3, lz, loc_z; cbn [vx vy vz].
        replace (s * cf * cf + s * sf * sf + c * 0) with (s * (cf * cf + sf * sf)) by ring. rewrite Hf; ring. }
    replace (dot3 (V3 cf sf 0) ex) with cf by (unfold dot3, ex; cbn [vx vy vz]; ring).
    replace (dot3 (V3 cf sf 0) ey) with sf by (unfold dot3, ey; cbn [vx vy vz]; ring).
    rewrite sqrt_cs, sqrt_f. f_equal; field.
  Qed.

  (* second daughter: z2' = - q * lz; only its next x axis matters *)
  Let z2' := mat3_vec F (scale3 q (neg3 lz)).
  Lemma neg_unit u : norm2_3 u = 1 -> norm2_3 (neg3 u) = 1.
  Proof. intros. rewrite norm2_3_neg. assumption. Qed.
  Lemma v_uz2' : unit3 z2' = mat3_vec F (neg3 lz).
  Proof. apply unit_mat3; auto. apply neg_unit, loc_z_unit; assumption. Qed.
  Lemma v_uyr' : cross_unit z1 z2' = mat3_vec F (neg3 ly).
  Proof. apply cu_mat3 with (k * q * s); auto. 2: apply neg_unit, loc_y_unit; assumption.
    apply vec3_eq; unfold cross3, scale3, neg3, ez, ly, lz, loc_y, loc_z; cbn [vx vy vz]; ring. Qed.
  Lemma v_x2' : cross_unit (mat3_vec F (neg3 ly)) (mat3_vec F (neg3 lz)) = mat3_vec F lx.
  Proof. pose proof eps_pos. apply cu_mat3 with 1; auto.
    - unfold lx, ly, lz. rewrite <- (loc_cross_yz c s cf sf Hf). apply vec3_eq; unfold cross3, scale3, neg3; cbn [vx vy vz]; ring.
    - apply loc_x_unit; assumption.
    - unfold eps in *. lra. Qed.
  Theorem vertex_extract2_x : xnext (hel_extract z1 x1 z2') = mat3_vec F lx.
  Proof.
    unfold hel_extract. cbv zeta. cbn [xnext]. rewrite v_uz2', v_uyr', v_x2'. reflexivity.
  Qed.
End Vertex.

(* ------------------------------------------------------------------ forward map in local coordinates *)
Lemma sin_theta_facts c : -1 < c < 1 -> 0 < sqrt (1 - c * c) /\ sqrt (1 - c * c) * sqrt (1 - c * c) + c * c = 1.
Proof.
  intros H. assert (0 < 1 - c * c) by nra. split; [apply sqrt_lt_R0; assumption|].
  rewrite sqrt_sqrt by lra. ring.
Qed.
Lemma cos_sin_1 phi : cos phi * cos phi + sin phi * sin phi = 1.
Proof. pose proof (sin2_cos2 phi) as H. unfold Rsqr in H. lra. Qed.

Lemma fwd_local_loc q c phi :
  fwd_local q c phi = scale3 q (loc_z c (sqrt (1 - c * c)) (cos phi) (sin phi)).
Proof. apply vec3_eq; unfold fwd_local, scale3, loc_z; cbn [vx vy vz]; ring. Qed.

Section Forward.
  Variables (F : mat3) (q c phi : R).
  Hypothesis HF : rotation F.
  Hypothesis Hq : 0 < q.
  Hypothesis Hc : -1 < c < 1.
  Let s := sqrt (1 - c * c).
  Let lx := loc_x c s (cos phi) (sin phi).
  Let ly := loc_y (cos phi) (sin phi).
  Let lz := loc_z c s (cos phi) (sin phi).

  Lemma fwd_p3_loc : fwd_p3 F q c phi = mat3_vec F (scale3 q lz).
  Proof. unfold fwd_p3. rewrite fwd_local_loc. reflexivity. Qed.
  Lemma next_z_loc : next_z (fwd_p3 F q c phi) = mat3_vec F lz.
  Proof.
    unfold next_z. rewrite fwd_p3_loc. apply unit_mat3; auto.
    apply loc_z_unit; [apply sin_theta_facts; assumption|apply cos_sin_1].
  Qed.
  Lemma next_y_loc : next_y F phi = mat3_vec F ly.
  Proof.
    unfold next_y.
    replace (add3 (scale3 (sin phi) (neg3 (c1 F))) (scale3 (cos phi) (c2 F))) with (mat3_vec F (scale3 1 ly)).
    - apply unit_mat3; auto; [lra|]. apply loc_y_unit, cos_sin_1.
    - apply vec3_eq; unfold mat3_vec, add3, scale3, neg3, ly, loc_y; cbn [vx vy vz]; ring.
  Qed.
  Lemma next_frame1_loc : next_frame1 F q c phi = M3 (mat3_vec F lx) (mat3_vec F ly) (mat3_vec F lz).
  Proof.
    unfold next_frame1, frame_yz. rewrite next_y_loc, next_z_loc, (cross3_mat3 _ _ _ HF).
    unfold ly, lz. rewrite (loc_cross_yz c s _ _ (cos_sin_1 phi)). reflexivity.
  Qed.
  Lemma next_frame1_rotation : rotation (next_frame1 F q c phi).
  Proof.
    rewrite next_frame1_loc. apply rotation_compose; [assumption|].
    apply loc_rotation; [apply sin_theta_facts; assumption|apply cos_sin_1].
  Qed.
  Lemma next_frame2_rotation : rotation (next_frame2 F q c phi).
  Proof. apply rotation_flip, next_frame1_rotation. Qed.
End Forward.

(* ------------------------------------------------------------------ boosts from and to the rest frame *)
Lemma rest_vector_at_rest m p : m <> 0 -> rest_vector (V4 m 0 0 0) p = p.
Proof.
  intros Hm. unfold rest_vector.
  replace (neg3 (boost_vector (V4 m 0 0 0))) with zero3.
  - apply boost_zero.
  - apply vec3_eq; unfold neg3, boost_vector, zero3; cbn [vx vy vz pt px py pz]; field; assumption.
Qed.

Lemma boost_rest_particle m v : norm2_3 v < 1 ->
  boost (V4 m 0 0 0) v = mk4 (gamma_of (norm2_3 v) * m) (scale3 (gamma_of (norm2_3 v) * m) v).
Proof.
  intros _. unfold boost, boost_g. apply vec4_eq; unfold mk4, add3, scale3, dot3, vect; cbn [pt px py pz vx vy vz]; ring.
Qed.

Lemma boost_vector_of_boosted_rest m v : 0 < m -> norm2_3 v < 1 ->
  boost_vector (boost (V4 m 0 0 0) v) = v.
Proof.
  intros Hm Hv. rewrite boost_rest_particle by assumption.
  assert (Hg : gamma_of (norm2_3 v) <> 0).
  { unfold gamma_of. pose proof (norm2_3_nonneg v).
    assert (0 < sqrt (1 - norm2_3 v)) by (apply sqrt_lt_R0; lra).
    unfold Rdiv. rewrite Rmult_1_l. apply Rinv_neq_0_compat. lra. }
  apply vec3_eq; unfold boost_vector, mk4, scale3; cbn [pt px py pz vx vy vz]; field; split; lra.
Qed.

Lemma rest_of_boosted m v p : 0 < m -> vel_ok v ->
  rest_vector (boost (V4 m 0 0 0) v) (boost p v) = p.
Proof.
  intros Hm Hv. unfold rest_vector. rewrite boost_vector_of_boosted_rest by (try apply Hv; assumption).
  apply boost_inverse, Hv.
Qed.

(* a particle of mass m > 0 at rest, boosted with the velocity of P = (sqrt(m^2+|p|^2), p), is P *)
Lemma boost_from_rest m p3 : 0 < m ->
  boost (V4 m 0 0 0) (boost_vector (mk4 (sqrt (m * m + norm2_3 p3)) p3)) = mk4 (sqrt (m * m + norm2_3 p3)) p3.
Proof.
  intros Hm. pose proof (norm2_3_nonneg p3) as Hn.
  set (E := sqrt (m * m + norm2_3 p3)).
  assert (HE : 0 < E) by (apply sqrt_lt_R0; nra).
  assert (HEE : E * E = m * m + norm2_3 p3) by (apply sqrt_sqrt; nra).
  assert (Hb : norm2_3 (boost_vector (mk4 E p3)) = norm2_3 p3 / (E * E)).
  { rewrite boost_vector_norm2 by (cbn; lra). rewrite vect_mk4, pt_mk4. reflexivity. }
  assert (Hb1 : norm2_3 (boost_vector (mk4 E p3)) < 1).
  { rewrite Hb. apply Rmult_lt_reg_r with (E * E); [nra|]. unfold Rdiv. rewrite Rmult_assoc, Rinv_l by nra. nra. }
  rewrite boost_rest_particle by assumption.
  assert (Hg : gamma_of (norm2_3 (boost_vector (mk4 E p3))) * m = E).
  { unfold gamma_of. rewrite Hb.
    replace (1 - norm2_3 p3 / (E * E)) with ((m / E) * (m / E)) by (field_simplify_eq; [nra|lra]).
    rewrite sqrt_square by (apply Rmult_le_pos; [lra|left; apply Rinv_0_lt_compat; lra]).
    field. split; lra. }
  rewrite Hg. apply vec4_eq; unfold mk4, scale3, boost_vector; cbn [pt px py pz vx vy vz]; try reflexivity; field; lra.
Qed.

(* ------------------------------------------------------------------ backward map: structural lemmas *)
Lemma mmom_map f t : mmom (mtree_map f t) = f (mmom t).
Proof. destruct t; reflexivity. Qed.

Lemma bwd_tree_ext t : forall f f' z x, (forall p, f p = f' p) -> bwd_tree f z x t = bwd_tree f' z x t.
Proof.
  induction t as [p | P t1 IH1 t2 IH2]; intros f f' z x H; [reflexivity|].
  cbn [bwd_tree]. rewrite !H.
  rewrite (IH1 _ (fun p => rest_vector (f' P) (f' p))) by (intros; rewrite !H; reflexivity).
  rewrite (IH2 _ (fun p => rest_vector (f' P) (f' p))) by (intros; rewrite !H; reflexivity).
  reflexivity.
Qed.

Lemma bwd_tree_map t : forall f h z x, bwd_tree f z x (mtree_map h t) = bwd_tree (fun p => f (h p)) z x t.
Proof.
  induction t as [p | P t1 IH1 t2 IH2]; intros f h z x; [reflexivity|].
  cbn [bwd_tree mtree_map]. rewrite !mmom_map, IH1, IH2. reflexivity.
Qed.

(* one step of the extractor at a node whose accumulated boost brings it to rest *)
Lemma node_step f z x P T1 T2 : (forall p, rest_vector (f P) (f p) = p) ->
  bwd_tree f z x (MNode P T1 T2) =
  (let h1 := hel_extract z x (vect (mmom T1)) in
   let h2 := hel_extract z x (vect (mmom T2)) in
   (cosb h1, cosa h1, sina h1) :: bwd_tree (fun p => p) (vect (mmom T1)) (xnext h1) T1
                                ++ bwd_tree (fun p => p) (vect (mmom T2)) (xnext h2) T2).
Proof.
  intros H. cbn [bwd_tree]. cbv zeta. rewrite !H.
  rewrite (bwd_tree_ext T1 _ (fun p => p)) by exact H.
  rewrite (bwd_tree_ext T2 _ (fun p => p)) by exact H.
  reflexivity.
Qed.

(* the sub-tree of a daughter as stored by the forward map *)
Definition fsub (P : vec4) (G : mat3) (ti : dtree) : mtree :=
  match ti with
  | DLeaf _ => MLeaf P
  | DNode _ _ _ _ _ => mtree_map (fun p => boost p (boost_vector P)) (fwd_mtree G ti)
  end.

Lemma fwd_mtree_node F m c phi t1 t2 :
  fwd_mtree F (DNode m c phi t1 t2) =
  let q := rel_p m (dmass t1) (dmass t2) in
  let p3 := fwd_p3 F q c phi in
  MNode (V4 m 0 0 0) (fsub (fwd_mom (dmass t1) q p3) (next_frame1 F q c phi) t1)
                     (fsub (fwd_mom (dmass t2) q (neg3 p3)) (next_frame2 F q c phi) t2).
Proof. reflexivity. Qed.

Lemma fwd_mtree_root F t : mmom (fwd_mtree F t) = V4 (dmass t) 0 0 0.
Proof. destruct t; reflexivity. Qed.

Lemma tree_ok_mass k t : tree_ok k t -> 0 <= dmass t.
Proof.
  revert k. induction t as [m | m c phi t1 IH1 t2 IH2]; intros k H; cbn in *; [assumption|].
  destruct H as (Hm & _ & _ & _ & _ & _ & O1 & O2). specialize (IH1 _ O1). specialize (IH2 _ O2). lra.
Qed.

Lemma fsub_spec ti m3 p3 G z x :
  0 <= dmass ti ->
  (match ti with DLeaf _ => True | _ => 0 < dmass ti /\ eps < norm2_3 p3 / (dmass ti * dmass ti + norm2_3 p3) end) ->
  let P := mk4 (sqrt (dmass ti * dmass ti + norm2_3 p3)) p3 in
  m3 = dmass ti ->
  mmom (fsub P G ti) = P /\
  bwd_tree (fun p => p) z x (fsub P G ti) = bwd_tree (fun p => p) z x (fwd_mtree G ti).
Proof.
  intros Hm0 Hnode P _. destruct ti as [m | m c phi t1 t2].
  - split; reflexivity.
  - destruct Hnode as [Hm Hv]. cbn [dmass] in *.
    assert (HP : boost (V4 m 0 0 0) (boost_vector P) = P) by (apply boost_from_rest; assumption).
    assert (Hvel : vel_ok (boost_vector P)).
    { unfold vel_ok. pose proof (norm2_3_nonneg p3) as Hn.
      assert (HE : 0 < sqrt (m * m + norm2_3 p3)) by (apply sqrt_lt_R0; nra).
      unfold P. rewrite boost_vector_norm2 by (cbn; lra). rewrite vect_mk4, pt_mk4, sqrt_sqrt by nra.
      split; [assumption|].
      apply Rmult_lt_reg_r with (m * m + norm2_3 p3); [nra|]. unfold Rdiv. rewrite Rmult_assoc, Rinv_l by nra. nra. }
    split.
    + unfold fsub. rewrite mmom_map, fwd_mtree_root. exact HP.
    + unfold fsub. rewrite bwd_tree_map. rewrite fwd_mtree_node. cbv zeta.
      rewrite node_step by (intros p; apply rest_of_boosted; assumption).
      rewrite node_step by (intros p; apply rest_vector_at_rest; lra).
      reflexivity.
Qed.

(* ------------------------------------------------------------------ round trip for every decay tree *)
Theorem tree_roundtrip t : forall F k, rotation F -> 0 < k -> tree_ok k t ->
  bwd_tree (fun p => p) (scale3 k (c3 F)) (c1 F) (fwd_mtree F t) = dtree_angles t.
Proof.
  induction t as [m | m c phi t1 IH1 t2 IH2]; intros F k HF Hk Hok; [reflexivity|].
  cbn [tree_ok] in Hok. destruct Hok as (Hm & Hc & Gk & Gkqs & V1 & V2 & Ok1 & Ok2).
  pose proof (tree_ok_mass _ _ Ok1) as M1. pose proof (tree_ok_mass _ _ Ok2) as M2.
  rewrite fwd_mtree_node. cbv zeta.
  set (q := rel_p m (dmass t1) (dmass t2)) in *.
  assert (Hq : 0 < q) by (apply rel_p_pos; assumption).
  destruct (sin_theta_facts c Hc) as [Hs0 Hs].
  set (s := sqrt (1 - c * c)) in *.
  pose proof (cos_sin_1 phi) as Hf.
  assert (Hp3 : fwd_p3 F q c phi = mat3_vec F (scale3 q (loc_z c s (cos phi) (sin phi)))) by (apply fwd_p3_loc).
  assert (Hn : norm2_3 (fwd_p3 F q c phi) = q * q).
  { rewrite Hp3, (norm2_3_mat3 _ _ (proj1 HF)), norm2_3_scale. rewrite loc_z_unit by assumption. ring. }
  assert (Hnn : norm2_3 (neg3 (fwd_p3 F q c phi)) = q * q) by (rewrite norm2_3_neg; exact Hn).
  (* the two stored sub-trees *)
  destruct (fsub_spec t1 (dmass t1) (fwd_p3 F q c phi) (next_frame1 F q c phi)
              (vect (fwd_mom (dmass t1) q (fwd_p3 F q c phi))) (mat3_vec F (loc_x c s (cos phi) (sin phi))) M1) as [Hmom1 Hb1]; [| reflexivity |].
  { destruct t1; [exact I|]. rewrite Hn. split; [|exact V1]. cbn [tree_ok dmass] in *.
    destruct Ok1 as (? & _ & _ & _ & _ & _ & O1 & O2). pose proof (tree_ok_mass _ _ O1). pose proof (tree_ok_mass _ _ O2). lra. }
  destruct (fsub_spec t2 (dmass t2) (neg3 (fwd_p3 F q c phi)) (next_frame2 F q c phi)
              (vect (fwd_mom (dmass t2) q (neg3 (fwd_p3 F q c phi)))) (mat3_vec F (loc_x c s (cos phi) (sin phi))) M2) as [Hmom2 Hb2]; [| reflexivity |].
  { destruct t2; [exact I|]. rewrite Hnn. split; [|exact V2]. cbn [tree_ok dmass] in *.
    destruct Ok2 as (? & _ & _ & _ & _ & _ & O1 & O2). pose proof (tree_ok_mass _ _ O1). pose proof (tree_ok_mass _ _ O2). lra. }
  rewrite Hn in Hmom1, Hb1. rewrite Hnn in Hmom2, Hb2.
  fold (fwd_mom (dmass t1) q (fwd_p3 F q c phi)) in Hmom1, Hb1.
  fold (fwd_mom (dmass t2) q (neg3 (fwd_p3 F q c phi))) in Hmom2, Hb2.
  rewrite node_step by (intros p; apply rest_vector_at_rest; lra).
  cbv zeta. rewrite Hmom1, Hmom2.
  unfold fwd_mom. rewrite !vect_mk4.
  (* the vertex *)
  assert (Hz : scale3 k (c3 F) = mat3_vec F (scale3 k ez)).
  { apply vec3_eq; unfold mat3_vec, add3, scale3, ez; cbn [vx vy vz]; ring. }
  assert (Hx : c1 F = mat3_vec F ex) by (symmetry; apply mat3_vec_ex).
  assert (Hp3n : neg3 (fwd_p3 F q c phi) = mat3_vec F (scale3 q (neg3 (loc_z c s (cos phi) (sin phi))))).
  { rewrite Hp3. apply vec3_eq; unfold mat3_vec, add3, scale3, neg3; cbn [vx vy vz]; ring. }
  rewrite Hz, Hx, Hp3n, Hp3.
  rewrite (vertex_extract1 F k q c s (cos phi) (sin phi) HF Hk Hq Hs Hf Gk Gkqs).
  rewrite (vertex_extract2_x F k q c s (cos phi) (sin phi) HF Hq Hs Hf Gkqs).
  cbn [cosb cosa sina xnext dtree_angles].
  (* sub-trees *)
  unfold fwd_mom in Hb1, Hb2. rewrite !vect_mk4 in Hb1, Hb2. rewrite Hp3 in Hb1. rewrite Hp3n in Hb2.
  rewrite Hb1, Hb2.
  pose proof (next_frame1_loc F q c phi HF Hq Hc) as HF1. fold s in HF1.
  assert (E1 : bwd_tree (fun p => p) (mat3_vec F (scale3 q (loc_z c s (cos phi) (sin phi)))) (mat3_vec F (loc_x c s (cos phi) (sin phi))) (fwd_mtree (next_frame1 F q c phi) t1) = dtree_angles t1).
  { rewrite <- (IH1 (next_frame1 F q c phi) q (next_frame1_rotation F q c phi HF Hq Hc) Hq Ok1).
    rewrite HF1. cbn [c1 c3]. rewrite mat3_vec_scale. reflexivity. }
  assert (E2 : bwd_tree (fun p => p) (mat3_vec F (scale3 q (neg3 (loc_z c s (cos phi) (sin phi))))) (mat3_vec F (loc_x c s (cos phi) (sin phi))) (fwd_mtree (next_frame2 F q c phi) t2) = dtree_angles t2).
  { rewrite <- (IH2 (next_frame2 F q c phi) q (next_frame2_rotation F q c phi HF Hq Hc) Hq Ok2).
    unfold next_frame2, flip_frame. rewrite HF1. cbn [c1 c2 c3]. rewrite mat3_vec_scale, mat3_vec_neg. reflexivity. }
  rewrite E1, E2. reflexivity.
Qed.

(* ------------------------------------------------------------------ the full pipeline:
   build_data (final momenta only) -> infer_momentum -> cal_angle / masses *)
Lemma infer_forget_map S : forall B, (forall p q, B (add4 p q) = add4 (B p) (B q)) ->
  infer (forget (mtree_map B S)) = mtree_map B (infer (forget S)).
Proof.
  induction S as [p | P S1 IH1 S2 IH2]; intros B HB; [reflexivity|].
  cbn [mtree_map forget infer]. rewrite IH1, IH2 by assumption. cbv zeta.
  cbn [mtree_map]. rewrite !mmom_map, HB. reflexivity.
Qed.

Lemma fwd_mom_sum m1 m2 m q p3 : 0 <= m1 -> 0 <= m2 -> m1 + m2 < m -> q = rel_p m m1 m2 ->
  add4 (fwd_mom m1 q p3) (fwd_mom m2 q (neg3 p3)) = V4 m 0 0 0.
Proof.
  intros H1 H2 Hm Hq. pose proof (breakup_energy_sum m m1 m2 H1 H2 Hm) as HE. cbv zeta in HE. rewrite <- Hq in HE.
  apply vec4_eq; unfold add4, fwd_mom, mk4, neg3; cbn [pt px py pz vx vy vz]; try ring. exact HE.
Qed.

Lemma infer_forget_fwd t : forall F k, rotation F -> tree_ok k t -> infer (forget (fwd_mtree F t)) = fwd_mtree F t.
Proof.
  induction t as [m | m c phi t1 IH1 t2 IH2]; intros F k HF Hok; [reflexivity|].
  cbn [tree_ok] in Hok. destruct Hok as (Hm & Hc & Gk & Gkqs & V1 & V2 & Ok1 & Ok2).
  pose proof (tree_ok_mass _ _ Ok1) as M1. pose proof (tree_ok_mass _ _ Ok2) as M2.
  rewrite fwd_mtree_node. cbv zeta. cbn [forget infer]. cbv zeta.
  set (q := rel_p m (dmass t1) (dmass t2)) in *.
  assert (Hq : 0 < q) by (apply rel_p_pos; assumption).
  destruct (sin_theta_facts c Hc) as [Hs0 Hs]. pose proof (cos_sin_1 phi) as Hf.
  assert (Hn : norm2_3 (fwd_p3 F q c phi) = q * q).
  { rewrite fwd_p3_loc, (norm2_3_mat3 _ _ (proj1 HF)), norm2_3_scale. rewrite loc_z_unit by assumption. ring. }
  assert (Hnn : norm2_3 (neg3 (fwd_p3 F q c phi)) = q * q) by (rewrite norm2_3_neg; exact Hn).
  pose proof (next_frame1_rotation F q c phi HF Hq Hc) as R1.
  pose proof (next_frame2_rotation F q c phi HF Hq Hc) as R2.
  assert (S1 : forall P, infer (forget (fsub P (next_frame1 F q c phi) t1)) = fsub P (next_frame1 F q c phi) t1).
  { intros P. destruct t1 as [m1 | m1 c1 f1 a b]; [reflexivity|]. unfold fsub.
    rewrite infer_forget_map by (intros; apply boost_add). rewrite (IH1 _ q R1 Ok1). reflexivity. }
  assert (S2 : forall P, infer (forget (fsub P (next_frame2 F q c phi) t2)) = fsub P (next_frame2 F q c phi) t2).
  { intros P. destruct t2 as [m2 | m2 c2 f2 a b]; [reflexivity|]. unfold fsub.
    rewrite infer_forget_map by (intros; apply boost_add). rewrite (IH2 _ q R2 Ok2). reflexivity. }
  rewrite S1, S2. f_equal.
  assert (Hmm : forall ti p3 G, norm2_3 p3 = q * q -> tree_ok q ti -> mmom (fsub (fwd_mom (dmass ti) q p3) G ti) = fwd_mom (dmass ti) q p3).
  { intros ti p3 G Hp Hoki. destruct ti as [|mi ci fi a b]; [reflexivity|]. unfold fsub. rewrite mmom_map, fwd_mtree_root.
    unfold fwd_mom. rewrite <- Hp. apply boost_from_rest. cbn [tree_ok dmass] in *.
    destruct Hoki as (? & _ & _ & _ & _ & _ & O1 & O2). pose proof (tree_ok_mass _ _ O1). pose proof (tree_ok_mass _ _ O2). lra. }
  rewrite !Hmm by assumption. apply fwd_mom_sum; auto.
Qed.

(* masses: LorentzVector.M of every stored momentum is the input mass *)
Lemma mtree_masses_map S B : (forall p, mass (B p) = mass p) -> mtree_masses (mtree_map B S) = mtree_masses S.
Proof.
  intros HB. induction S as [p | P S1 IH1 S2 IH2]; cbn [mtree_map mtree_masses]; [rewrite HB; reflexivity|].
  rewrite HB, IH1, IH2. reflexivity.
Qed.
Lemma mass_at_rest m : 0 <= m -> mass (V4 m 0 0 0) = m.
Proof.
  intros. unfold mass, mass2, mink; cbn [pt px py pz].
  replace (m * m - 0 * 0 - 0 * 0 - 0 * 0) with (m * m) by ring. rewrite Rabs_right by nra. apply sqrt_square; assumption.
Qed.
Lemma mass_fwd_mom m q p3 : 0 <= m -> norm2_3 p3 = q * q -> mass (fwd_mom m q p3) = m.
Proof.
  intros Hm Hp. unfold mass, mass2. rewrite mink_split. unfold fwd_mom. rewrite vect_mk4, pt_mk4.
  fold (norm2_3 p3). rewrite Hp, sqrt_sqrt by nra.
  replace (m * m + q * q - q * q) with (m * m) by ring. rewrite Rabs_right by nra. apply sqrt_square; assumption.
Qed.

Lemma fwd_masses t : forall F k, rotation F -> tree_ok k t -> mtree_masses (fwd_mtree F t) = dtree_masses t.
Proof.
  induction t as [m | m c phi t1 IH1 t2 IH2]; intros F k HF Hok.
  - cbn in *. rewrite mass_at_rest by assumption. reflexivity.
  - pose proof (tree_ok_mass _ _ Hok) as M0.
    cbn [tree_ok] in Hok. destruct Hok as (Hm & Hc & Gk & Gkqs & V1 & V2 & Ok1 & Ok2).
    pose proof (tree_ok_mass _ _ Ok1) as M1. pose proof (tree_ok_mass _ _ Ok2) as M2.
    rewrite fwd_mtree_node. cbv zeta. cbn [mtree_masses dtree_masses dmass] in *.
    set (q := rel_p m (dmass t1) (dmass t2)) in *.
    assert (Hq : 0 < q) by (apply rel_p_pos; assumption).
    destruct (sin_theta_facts c Hc) as [Hs0 Hs]. pose proof (cos_sin_1 phi) as Hf.
    assert (Hn : norm2_3 (fwd_p3 F q c phi) = q * q).
    { rewrite fwd_p3_loc, (norm2_3_mat3 _ _ (proj1 HF)), norm2_3_scale. rewrite loc_z_unit by assumption. ring. }
    assert (Hnn : norm2_3 (neg3 (fwd_p3 F q c phi)) = q * q) by (rewrite norm2_3_neg; exact Hn).
    rewrite mass_at_rest by lra. f_equal.
    assert (Hsub : forall ti p3 G, rotation G -> norm2_3 p3 = q * q -> tree_ok q ti ->
               (match ti with DLeaf _ => True | _ => eps < q * q / (dmass ti * dmass ti + q * q) end) ->
               (forall F k, rotation F -> tree_ok k ti -> mtree_masses (fwd_mtree F ti) = dtree_masses ti) ->
               mtree_masses (fsub (fwd_mom (dmass ti) q p3) G ti) = dtree_masses ti).
    { intros ti p3 G HG Hp Hoki Vi IH. pose proof (tree_ok_mass _ _ Hoki) as Mi.
      destruct ti as [mi|mi ci fi a b].
      - cbn [fsub mtree_masses dtree_masses dmass] in *. rewrite mass_fwd_mom by assumption. reflexivity.
      - unfold fsub. rewrite mtree_masses_map; [apply (IH G q HG Hoki)|].
        intros p. apply mass_boost.
        assert (Hmi : 0 < mi).
        { cbn [tree_ok dmass] in *. destruct Hoki as (? & _ & _ & _ & _ & _ & O1 & O2).
          pose proof (tree_ok_mass _ _ O1). pose proof (tree_ok_mass _ _ O2). lra. }
        cbn [dmass] in *. unfold vel_ok, fwd_mom.
        assert (HE : 0 < sqrt (mi * mi + q * q)) by (apply sqrt_lt_R0; nra).
        rewrite boost_vector_norm2 by (cbn; lra). rewrite vect_mk4, pt_mk4, sqrt_sqrt, Hp by nra.
        split; [assumption|].
        apply Rmult_lt_reg_r with (mi * mi + q * q); [nra|]. unfold Rdiv. rewrite Rmult_assoc, Rinv_l by nra. nra. }
    rewrite (Hsub t1), (Hsub t2); auto.
    + apply next_frame2_rotation; assumption.
    + apply next_frame1_rotation; assumption.
Qed.

(* C11, helicity part, complete: for EVERY decay tree (sequential or branching, any depth) *)
Theorem cascade_roundtrip t : tree_ok 1 t ->
  (cal_angle (forget (fwd_mtree id3 t)) = dtree_angles t) /\
  (mtree_masses (infer (forget (fwd_mtree id3 t))) = dtree_masses t).
Proof.
  intros Hok. unfold cal_angle. rewrite (infer_forget_fwd t id3 1 rotation_id3 Hok). split.
  - rewrite <- (tree_roundtrip t id3 1 rotation_id3 ltac:(lra) Hok). f_equal.
    apply vec3_eq; unfold scale3, id3; cbn [c3 vx vy vz]; ring.
  - apply (fwd_masses t id3 1 rotation_id3 Hok).
Qed.

(* what build_data returns are the leaves of that tree *)
Lemma build_data_leaves t : build_data t = mleaves (fwd_mtree id3 t).
Proof. reflexivity. Qed.
