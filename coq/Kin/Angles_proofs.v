(* Kin/Angles_proofs.v — lemmas about Kin/Angles.v: two-body break-up, vertex round trip, axes
   convention, round trip for every decay tree. *)
From Coq Require Import Reals Lra List.
From TFV Require Import Base.RBase Kin.Boost Kin.Boost_proofs Kin.Angles.
Import ListNotations.
Open Scope R_scope.

(* ------------------------------------------------------------------ two-body break-up *)
Lemma rel_p_above m0 m1 m2 : m1 + m2 <= m0 ->
  rel_p m0 m1 m2 = sqrt ((m0 - (m1 + m2)) * (m0 + (m1 + m2)) * (m0 - (m1 - m2)) * (m0 + (m1 - m2))) / (2 * m0).
Proof.
  intros H. unfold rel_p. cbv zeta. rewrite rmax_Rmax, Rmax_left by lra. reflexivity.
Qed.

Lemma breakup_prod_pos m0 m1 m2 : 0 <= m1 -> 0 <= m2 -> m1 + m2 < m0 ->
  0 < (m0 - (m1 + m2)) * (m0 + (m1 + m2)) * (m0 - (m1 - m2)) * (m0 + (m1 - m2)).
Proof.
  intros. repeat apply Rmult_lt_0_compat; lra.
Qed.

Lemma rel_p_pos m0 m1 m2 : 0 <= m1 -> 0 <= m2 -> m1 + m2 < m0 -> 0 < rel_p m0 m1 m2.
Proof.
  intros. rewrite rel_p_above by lra. apply Rdiv_lt_0_compat; [|lra].
  apply sqrt_lt_R0, breakup_prod_pos; assumption.
Qed.

Lemma rel_p_sq m0 m1 m2 : 0 <= m1 -> 0 <= m2 -> m1 + m2 < m0 ->
  rel_p m0 m1 m2 * rel_p m0 m1 m2 =
  (m0 - (m1 + m2)) * (m0 + (m1 + m2)) * (m0 - (m1 - m2)) * (m0 + (m1 - m2)) / (4 * m0 * m0).
Proof.
  intros. rewrite rel_p_above by lra.
  pose proof (breakup_prod_pos m0 m1 m2 ltac:(assumption) ltac:(assumption) ltac:(assumption)) as Hp.
  set (X := (m0 - (m1 + m2)) * (m0 + (m1 + m2)) * (m0 - (m1 - m2)) * (m0 + (m1 - m2))) in *.
  replace (sqrt X / (2 * m0) * (sqrt X / (2 * m0))) with ((sqrt X * sqrt X) / (4 * m0 * m0)) by (field; lra).
  rewrite sqrt_sqrt by lra. reflexivity.
Qed.

(* energies of the daughters in the parent rest frame *)
Lemma breakup_energy1 m0 m1 m2 : 0 <= m1 -> 0 <= m2 -> m1 + m2 < m0 ->
  let q := rel_p m0 m1 m2 in sqrt (m1 * m1 + q * q) = (m0 * m0 + m1 * m1 - m2 * m2) / (2 * m0).
Proof.
  intros H1 H2 H0 q. unfold q. rewrite rel_p_sq by assumption.
  replace (m1 * m1 + (m0 - (m1 + m2)) * (m0 + (m1 + m2)) * (m0 - (m1 - m2)) * (m0 + (m1 - m2)) / (4 * m0 * m0))
    with (((m0 * m0 + m1 * m1 - m2 * m2) / (2 * m0)) * ((m0 * m0 + m1 * m1 - m2 * m2) / (2 * m0))) by (field; lra).
  apply sqrt_square. apply Rmult_le_pos; [nra|]. left. apply Rinv_0_lt_compat. lra.
Qed.

Lemma rel_p_sym m0 m1 m2 : rel_p m0 m1 m2 = rel_p m0 m2 m1.
Proof.
  unfold rel_p. cbv zeta. replace (m2 + m1) with (m1 + m2) by ring. f_equal. f_equal.
  set (me := rmax m0 (m1 + m2)). ring.
Qed.

Lemma breakup_energy2 m0 m1 m2 : 0 <= m1 -> 0 <= m2 -> m1 + m2 < m0 ->
  let q := rel_p m0 m1 m2 in sqrt (m2 * m2 + q * q) = (m0 * m0 + m2 * m2 - m1 * m1) / (2 * m0).
Proof.
  intros H1 H2 H0 q. unfold q. rewrite rel_p_sym. apply breakup_energy1; lra.
Qed.

Theorem breakup_energy_sum m0 m1 m2 : 0 <= m1 -> 0 <= m2 -> m1 + m2 < m0 ->
  let q := rel_p m0 m1 m2 in sqrt (m1 * m1 + q * q) + sqrt (m2 * m2 + q * q) = m0.
Proof.
  intros H1 H2 H0 q. unfold q. rewrite breakup_energy1, breakup_energy2 by assumption. field. lra.
Qed.

(* ------------------------------------------------------------------ local (standard-frame) vectors *)
Definition loc_x (c s cf sf : R) : vec3 := V3 (c * cf) (c * sf) (- s).
Definition loc_y (cf sf : R) : vec3 := V3 (- sf) cf 0.
Definition loc_z (c s cf sf : R) : vec3 := V3 (s * cf) (s * sf) c.
Definition ex : vec3 := V3 1 0 0.
Definition ey : vec3 := V3 0 1 0.
Definition ez : vec3 := V3 0 0 1.

Section Local.
  Variables c s cf sf : R.
  Hypothesis Hs : s * s + c * c = 1.
  Hypothesis Hf : cf * cf + sf * sf = 1.

  Lemma loc_x_unit : norm2_3 (loc_x c s cf sf) = 1.
  Proof. unfold norm2_3, dot3, loc_x; cbn [vx vy vz].
    replace (c * cf * (c * cf) + c * sf * (c * sf) + - s * - s) with (c * c * (cf * cf + sf * sf) + s * s) by ring.
    rewrite Hf. lra. Qed.
  Lemma loc_y_unit : norm2_3 (loc_y cf sf) = 1.
  Proof. unfold norm2_3, dot3, loc_y; cbn [vx vy vz]. lra. Qed.
  Lemma loc_z_unit : norm2_3 (loc_z c s cf sf) = 1.
  Proof. unfold norm2_3, dot3, loc_z; cbn [vx vy vz].
    replace (s * cf * (s * cf) + s * sf * (s * sf) + c * c) with (s * s * (cf * cf + sf * sf) + c * c) by ring.
    rewrite Hf. lra. Qed.
  Lemma loc_xy : dot3 (loc_x c s cf sf) (loc_y cf sf) = 0.
  Proof. unfold dot3, loc_x, loc_y; cbn [vx vy vz]. ring. Qed.
  Lemma loc_xz : dot3 (loc_x c s cf sf) (loc_z c s cf sf) = 0.
  Proof. unfold dot3, loc_x, loc_z; cbn [vx vy vz].
    replace (c * cf * (s * cf) + c * sf * (s * sf) + - s * c) with (c * s * (cf * cf + sf * sf) - s * c) by ring.
    rewrite Hf. ring. Qed.
  Lemma loc_yz : dot3 (loc_y cf sf) (loc_z c s cf sf) = 0.
  Proof. unfold dot3, loc_y, loc_z; cbn [vx vy vz]. ring. Qed.
  Lemma loc_cross_yz : cross3 (loc_y cf sf) (loc_z c s cf sf) = loc_x c s cf sf.
  Proof. apply vec3_eq; unfold cross3, loc_x, loc_y, loc_z; cbn [vx vy vz]; try ring.
    replace (- sf * (s * sf) - cf * (s * cf)) with (- s * (cf * cf + sf * sf)) by ring. rewrite Hf. ring. Qed.
  Lemma loc_cross_xy : cross3 (loc_x c s cf sf) (loc_y cf sf) = loc_z c s cf sf.
  Proof. apply vec3_eq; unfold cross3, loc_x, loc_y, loc_z; cbn [vx vy vz]; try ring.
    replace (c * cf * cf - c * sf * - sf) with (c * (cf * cf + sf * sf)) by ring. rewrite Hf. ring. Qed.

  Lemma loc_rotation : rotation (M3 (loc_x c s cf sf) (loc_y cf sf) (loc_z c s cf sf)).
  Proof.
    split; [|exact loc_cross_xy]. unfold orthogonal; cbn [c1 c2 c3].
    repeat split; [apply loc_x_unit|apply loc_y_unit|apply loc_z_unit|apply loc_xy|apply loc_xz|apply loc_yz].
  Qed.
End Local.

(* composition of a frame with a local rotation *)
Lemma rotation_compose F a b c : rotation F -> rotation (M3 a b c) ->
  rotation (M3 (mat3_vec F a) (mat3_vec F b) (mat3_vec F c)).
Proof.
  intros HF [(H11 & H22 & H33 & H12 & H13 & H23) Hc]. cbn [c1 c2 c3] in *.
  split.
  - unfold orthogonal; cbn [c1 c2 c3]. rewrite !(dot3_mat3 _ _ _ (proj1 HF)). repeat split; assumption.
  - cbn [c1 c2 c3]. rewrite (cross3_mat3 _ _ _ HF), Hc. reflexivity.
Qed.

Lemma rotation_flip F : rotation F -> rotation (flip_frame F).
Proof.
  intros [(H11 & H22 & H33 & H12 & H13 & H23) Hc]. unfold flip_frame. split.
  - unfold orthogonal; cbn [c1 c2 c3].
    rewrite !dot3_neg_l, !dot3_neg_r. repeat split; lra.
  - cbn [c1 c2 c3]. rewrite <- Hc. apply vec3_eq; unfold cross3, neg3; cbn [vx vy vz]; ring.
Qed.

Lemma rotation_id3 : rotation id3.
Proof.
  split; [unfold orthogonal, dot3; cbn; repeat split; ring|].
  apply vec3_eq; unfold cross3; cbn; ring.
Qed.

Lemma mat3_vec_ex F : mat3_vec F ex = c1 F.
Proof. apply vec3_eq; unfold mat3_vec, add3, scale3, ex; cbn [vx vy vz]; ring. Qed.
Lemma mat3_vec_ezk F k : mat3_vec F (V3 0 0 k) = scale3 k (c3 F).
Proof. apply vec3_eq; unfold mat3_vec, add3, scale3; cbn [vx vy vz]; ring. Qed.
Lemma mat3_vec_neg F a : mat3_vec F (neg3 a) = neg3 (mat3_vec F a).
Proof. apply vec3_eq; unfold mat3_vec, add3, scale3, neg3; cbn [vx vy vz]; ring. Qed.

(* cross_unit of rotated vectors whose local cross product is a known multiple of a unit vector *)
Lemma cu_mat3 F a b k u : rotation F -> cross3 a b = scale3 k u -> norm2_3 u = 1 -> eps <= k ->
  cross_unit (mat3_vec F a) (mat3_vec F b) = mat3_vec F u.
Proof.
  intros HF Hc Hu Hk. pose proof eps_pos.
  rewrite cross_unit_mat3; [|assumption|rewrite Hc, norm3_scaled by (auto; lra); assumption].
  f_equal. apply cross_unit_of with k; assumption.
Qed.
Lemma unit_mat3 F k u : rotation F -> 0 < k -> norm2_3 u = 1 -> unit3 (mat3_vec F (scale3 k u)) = mat3_vec F u.
Proof. intros HF Hk Hu. rewrite unit3_mat3 by apply HF. f_equal. apply unit3_of_scaled; assumption. Qed.

Lemma ez_unit : norm2_3 ez = 1. Proof. unfold norm2_3, dot3, ez; cbn; ring. Qed.
Lemma ex_unit : norm2_3 ex = 1. Proof. unfold norm2_3, dot3, ex; cbn; ring. Qed.
Lemma ey_unit : norm2_3 ey = 1. Proof. unfold norm2_3, dot3, ey; cbn; ring. Qed.

(* ------------------------------------------------------------------ one vertex *)
Section Vertex.
  Variables (F : mat3) (k q c s cf sf : R).
  Hypothesis HF : rotation F.
  Hypothesis Hk : 0 < k.
  Hypothesis Hq : 0 < q.
  Hypothesis Hs0 : 0 < s.
  Hypothesis Hs : s * s + c * c = 1.
  Hypothesis Hf : cf * cf + sf * sf = 1.
  Hypothesis Gk : eps <= k.
  Hypothesis Gkqs : eps <= k * q * s.

  Let lx := loc_x c s cf sf.
  Let ly := loc_y cf sf.
  Let lz := loc_z c s cf sf.
  Let z1 := mat3_vec F (scale3 k ez).
  Let x1 := mat3_vec F ex.

  Lemma v_uz1 : unit3 z1 = mat3_vec F ez.
  Proof. apply unit_mat3; auto using ez_unit. Qed.
  Lemma v_uy1 : cross_unit z1 x1 = mat3_vec F ey.
  Proof. apply cu_mat3 with k; auto using ey_unit.
    apply vec3_eq; unfold cross3, scale3, ez, ex, ey; cbn [vx vy vz]; ring. Qed.
  Lemma v_ux1 : cross_unit (mat3_vec F ey) z1 = mat3_vec F ex.
  Proof. apply cu_mat3 with k; auto using ex_unit.
    apply vec3_eq; unfold cross3, scale3, ez, ex, ey; cbn [vx vy vz]; ring. Qed.

  (* first daughter: z2 = q * lz *)
  Let z2 := mat3_vec F (scale3 q lz).
  Lemma v_uz2 : unit3 z2 = mat3_vec F lz.
  Proof. apply unit_mat3; auto. apply loc_z_unit; assumption. Qed.
  Lemma v_uyr : cross_unit z1 z2 = mat3_vec F ly.
  Proof. apply cu_mat3 with (k * q * s); auto. 2: apply loc_y_unit; assumption.
    apply vec3_eq; unfold cross3, scale3, ez, ly, lz, loc_y, loc_z; cbn [vx vy vz]; ring. Qed.
  Lemma v_uxr : cross_unit (mat3_vec F ly) z1 = mat3_vec F (V3 cf sf 0).
  Proof. apply cu_mat3 with k; auto.
    - apply vec3_eq; unfold cross3, scale3, ez, ly, loc_y; cbn [vx vy vz]; ring.
    - unfold norm2_3, dot3; cbn [vx vy vz]. lra. Qed.
  Lemma v_x2 : cross_unit (mat3_vec F ly) (mat3_vec F lz) = mat3_vec F lx.
  Proof. pose proof eps_pos. apply cu_mat3 with 1; auto.
    - unfold lx, ly, lz. rewrite (loc_cross_yz c s cf sf Hf). symmetry. apply scale3_1.
    - apply loc_x_unit; assumption.
    - unfold eps in *. lra. Qed.

  Lemma sqrt_cs : sqrt (c * c + s * s) = 1.
  Proof. replace (c * c + s * s) with 1 by lra. apply sqrt_1. Qed.
  Lemma sqrt_f : sqrt (cf * cf + sf * sf) = 1.
  Proof. rewrite Hf. apply sqrt_1. Qed.

  Theorem vertex_extract1 : hel_extract z1 x1 z2 = Hel c cf sf (mat3_vec F lx).
  Proof.
    unfold hel_extract. cbv zeta.
    rewrite v_uz1, v_uz2, v_uy1, v_ux1, v_uyr, v_uxr, v_x2.
    unfold angle_from_cos, angle_from_sin, atan2_cos, atan2_sin.
    rewrite !(dot3_mat3 _ _ _ (proj1 HF)).
    replace (dot3 lz ez) with c by (unfold dot3, lz, loc_z, ez; cbn [vx vy vz]; ring).
    replace (dot3 lz (V3 cf sf 0)) with s.
    2:{ unfold dot3, lz, loc_z; cbn [vx vy vz].
        replace (s * cf * cf + s * sf * sf + c * 0) with (s * (cf * cf + sf * sf)) by ring. rewrite Hf; ring. }
    replace (dot3 (V3 cf sf 0) ex) with cf by (unfold dot3, ex; cbn [vx vy vz]; ring).
    replace (dot3 (V3 cf sf 0) ey) with sf by (unfold dot3, ey; cbn [vx vy vz]; ring).
    rewrite sqrt_cs, sqrt_f. f_equal; field.
  Qed.

  (* second daughter: z2' = - q * lz; only its next x axis matters *)
  Let z2' := mat3_vec F (scale3 q (neg3 lz)).
  Lemma neg_unit u : norm2_3 u = 1 -> norm2_3 (neg3 u) = 1.
  Proof. intros. rewrite norm2_3_neg. assumption. Qed.
  Lemma v_uz2' : unit3 z2' = mat3_vec F (neg3 lz).
  Proof. apply unit_mat3; auto. apply neg_unit, loc_z_unit; assumption. Qed.
  Lemma v_uyr' : cross_unit z1 z2' = mat3_vec F (neg3 ly).
  Proof. apply cu_mat3 with (k * q * s); auto. 2: apply neg_unit, loc_y_unit; assumption.
    apply vec3_eq; unfold cross3, scale3, neg3, ez, ly, lz, loc_y, loc_z; cbn [vx vy vz]; ring. Qed.
  Lemma v_x2' : cross_unit (mat3_vec F (neg3 ly)) (mat3_vec F (neg3 lz)) = mat3_vec F lx.
  Proof. pose proof eps_pos. apply cu_mat3 with 1; auto.
    - unfold lx, ly, lz. rewrite <- (loc_cross_yz c s cf sf Hf). apply vec3_eq; unfold cross3, scale3, neg3; cbn [vx vy vz]; ring.
    - apply loc_x_unit; assumption.
    - unfold eps in *. lra. Qed.
  Theorem vertex_extract2_x : xnext (hel_extract z1 x1 z2') = mat3_vec F lx.
  Proof.
    unfold hel_extract. cbv zeta. cbn [xnext]. rewrite v_uz2', v_uyr', v_x2'. reflexivity.
  Qed.
End Vertex.
