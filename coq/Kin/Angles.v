(* Kin/Angles.v — forward map (helicity variables -> momenta) of
   tf_pwa/data_trans/helicity_angle.py and backward map (momenta -> helicity angles) of
   tf_pwa/cal_angle.py + EulerAngle.angle_zx_z_getx.  Definitions only; lemmas in Angles_proofs.v.

   Angles never appear as atan2/acos values: the backward map returns (cos beta, cos alpha,
   sin alpha) = (x / sqrt(x^2+y^2), ...) of the atan2 arguments used by the code. *)
From Coq Require Import Reals List.
From TFV Require Import Base.RBase Kin.Boost.
Import ListNotations.
Open Scope R_scope.

(* tf_pwa/amp/core.py:311 get_relative_p *)
Definition rel_p (m0 m1 m2 : R) : R :=
  let me := rmax m0 (m1 + m2) in
  sqrt ((me - (m1 + m2)) * (me + (m1 + m2)) * (me - (m1 - m2)) * (me + (m1 - m2))) / (2 * me).

(* ---------------------------------------------------------------- forward: one vertex
   create_rotate_p_decay :216-266.  A frame is the mat3 with columns (px, py, pz). *)
Definition fwd_local (q c phi : R) : vec3 :=
  let s := sqrt (1 - c * c) in V3 (q * s * cos phi) (q * s * sin phi) (q * c).
(* p_new = vx*px + vy*py + vz*pz *)
Definition fwd_p3 (F : mat3) (q c phi : R) : vec3 := mat3_vec F (fwd_local q c phi).
(* p1 = (sqrt(m1^2+p^2), p_new),  p2 = (sqrt(m2^2+p^2), -p_new) *)
Definition fwd_mom (m q : R) (p3 : vec3) : vec4 := mk4 (sqrt (m * m + q * q)) p3.
(* pz' = normal(p_new), py' = normal(-px sin + py cos), px' = cross(py', pz') *)
Definition next_y (F : mat3) (phi : R) : vec3 :=
  unit3 (add3 (scale3 (sin phi) (neg3 (c1 F))) (scale3 (cos phi) (c2 F))).
Definition next_z (p3 : vec3) : vec3 := unit3 p3.
Definition frame_yz (y z : vec3) : mat3 := M3 (cross3 y z) y z.
Definition next_frame1 (F : mat3) (q c phi : R) : mat3 :=
  frame_yz (next_y F phi) (next_z (fwd_p3 F q c phi)).
(* axis_map[outs[1]] = [px', -py', -pz'] *)
Definition flip_frame (F : mat3) : mat3 := M3 (c1 F) (neg3 (c2 F)) (neg3 (c3 F)).
Definition next_frame2 (F : mat3) (q c phi : R) : mat3 := flip_frame (next_frame1 F q c phi).

(* ---------------------------------------------------------------- decay trees *)
(* helicity variables of a cascade: leaf = final particle of mass m; node = particle of mass m
   decaying with (cos theta, phi) of its FIRST daughter into the two sub-trees *)
Inductive dtree : Type :=
| DLeaf (m : R)
| DNode (m c phi : R) (t1 t2 : dtree).
Definition dmass (t : dtree) : R := match t with DLeaf m => m | DNode m _ _ _ _ => m end.

(* momenta of all particles of a (sub)tree *)
Inductive mtree : Type :=
| MLeaf (p : vec4)
| MNode (p : vec4) (t1 t2 : mtree).
Definition mmom (t : mtree) : vec4 := match t with MLeaf p => p | MNode p _ _ => p end.
Fixpoint mtree_map (f : vec4 -> vec4) (t : mtree) : mtree :=
  match t with
  | MLeaf p => MLeaf (f p)
  | MNode p t1 t2 => MNode (f p) (mtree_map f t1) (mtree_map f t2)
  end.
Fixpoint mleaves (t : mtree) : list vec4 :=
  match t with MLeaf p => [p] | MNode _ t1 t2 => mleaves t1 ++ mleaves t2 end.

(* forward map of a whole tree, in the rest frame of its root, with the root's axes F:
   rest-frame momenta of the two daughters, then (second loop of create_rotate_p_decay) the
   sub-tree of a decaying daughter is boosted by boost_vector(daughter momentum); a final-state
   daughter keeps its rest-frame momentum unboosted.  The momentum stored at an inner node is
   that of the particle itself ((m,0,0,0) in its own frame, boosted along with its sub-tree). *)
Fixpoint fwd_mtree (F : mat3) (t : dtree) : mtree :=
  match t with
  | DLeaf m => MLeaf (V4 m 0 0 0)
  | DNode m c phi t1 t2 =>
      let q := rel_p m (dmass t1) (dmass t2) in
      let p3 := fwd_p3 F q c phi in
      let P1 := fwd_mom (dmass t1) q p3 in
      let P2 := fwd_mom (dmass t2) q (neg3 p3) in
      let sub (P : vec4) (G : mat3) (ti : dtree) : mtree :=
        match ti with
        | DLeaf _ => MLeaf P
        | DNode _ _ _ _ _ => mtree_map (fun p => boost p (boost_vector P)) (fwd_mtree G ti)
        end in
      MNode (V4 m 0 0 0) (sub P1 (next_frame1 F q c phi) t1) (sub P2 (next_frame2 F q c phi) t2)
  end.
(* what build_data returns: the final-state momenta in the top rest frame (top axes = id3) *)
Definition build_data (t : dtree) : list vec4 := mleaves (fwd_mtree id3 t).

(* ---------------------------------------------------------------- backward: one vertex
   EulerAngle.angle_zx_z_getx(z1, x1, z2) :285-310 *)
Record hel := Hel { cosb : R; cosa : R; sina : R; xnext : vec3 }.
(* (cos, sin) of atan2(y, x) *)
Definition atan2_cos (x y : R) : R := x / sqrt (x * x + y * y).
Definition atan2_sin (x y : R) : R := y / sqrt (x * x + y * y).
(* Vector3.angle_from(self = v, x, y) = atan2(v.y, v.x) *)
Definition angle_from_cos (v x y : vec3) : R := atan2_cos (dot3 v x) (dot3 v y).
Definition angle_from_sin (v x y : vec3) : R := atan2_sin (dot3 v x) (dot3 v y).
Definition hel_extract (z1 x1 z2 : vec3) : hel :=
  let u_z1 := unit3 z1 in
  let u_z2 := unit3 z2 in
  let u_y1 := cross_unit z1 x1 in
  let u_x1 := cross_unit u_y1 z1 in
  let u_yr := cross_unit z1 z2 in
  let u_xr := cross_unit u_yr z1 in
  Hel (angle_from_cos u_z2 u_z1 u_xr)                               (* beta  = angle_from(u_z2, u_z1, u_xr) *)
      (angle_from_cos u_xr u_x1 u_y1) (angle_from_sin u_xr u_x1 u_y1) (* alpha = angle_from(u_xr, u_x1, u_y1) *)
      (cross_unit u_yr u_z2).

(* ---------------------------------------------------------------- backward: whole tree *)
(* shape of a decay chain with the final-state momenta at the leaves *)
Inductive ftree : Type :=
| FLeaf (p : vec4)
| FNode (t1 t2 : ftree).
(* infer_momentum: every inner particle gets the sum of the final-state momenta below it *)
Fixpoint infer (t : ftree) : mtree :=
  match t with
  | FLeaf p => MLeaf p
  | FNode t1 t2 => let a := infer t1 in let b := infer t2 in MNode (add4 (mmom a) (mmom b)) a b
  end.
(* add_mass: LorentzVector.M of every particle, pre-order *)
Fixpoint mtree_masses (t : mtree) : list R :=
  match t with
  | MLeaf p => [mass p]
  | MNode p t1 t2 => mass p :: mtree_masses t1 ++ mtree_masses t2
  end.

(* cal_chain_boost + cal_helicity_angle: at a node with momentum P (in the current frame) all
   particles below are boosted by rest_vector P; the first daughter's direction gives
   (cos beta, cos alpha, sin alpha) w.r.t. the node's axes (z, x); each daughter's own axes are
   z := its 3-momentum in the parent frame (NOT normalised), x := xnext.
   Output: pre-order list of (cos beta, cos alpha, sin alpha) of the first daughter. *)
Fixpoint bwd_tree (f : vec4 -> vec4) (z x : vec3) (t : mtree) : list (R * R * R) :=
  (* [f] = the boosts accumulated so far, applied lazily to the momenta stored in [t] *)
  match t with
  | MLeaf _ => []
  | MNode P t1 t2 =>
      let g := fun p => rest_vector (f P) (f p) in
      let z1 := vect (g (mmom t1)) in
      let z2 := vect (g (mmom t2)) in
      let h1 := hel_extract z x z1 in
      let h2 := hel_extract z x z2 in
      (cosb h1, cosa h1, sina h1) :: bwd_tree g z1 (xnext h1) t1 ++ bwd_tree g z2 (xnext h2) t2
  end.
(* cal_angle_from_momentum defaults: base_z = (0,0,1), base_x = (1,0,0) *)
Definition cal_angle (t : ftree) : list (R * R * R) := bwd_tree (fun p => p) (V3 0 0 1) (V3 1 0 0) (infer t).

(* the helicity variables that went in: pre-order (cos theta, cos phi, sin phi) and masses *)
Fixpoint dtree_angles (t : dtree) : list (R * R * R) :=
  match t with
  | DLeaf _ => []
  | DNode _ c phi t1 t2 => (c, cos phi, sin phi) :: dtree_angles t1 ++ dtree_angles t2
  end.
Fixpoint dtree_masses (t : dtree) : list R :=
  match t with
  | DLeaf m => [m]
  | DNode m _ _ t1 t2 => m :: dtree_masses t1 ++ dtree_masses t2
  end.
(* forget the inner momenta: what is handed from build_data to cal_angle *)
Fixpoint forget (t : mtree) : ftree :=
  match t with MLeaf p => FLeaf p | MNode _ t1 t2 => FNode (forget t1) (forget t2) end.

(* admissible helicity variables.  [k] is the length of the z axis handed down by the extractor
   (1 at the top, the parent's break-up momentum below).  The eps conditions exclude the
   _epsilon fallbacks of cross_unit and of the boost (gamma2: beta^2 = q^2/(m^2+q^2) > eps) for the
   boosts that are applied. *)
Fixpoint tree_ok (k : R) (t : dtree) : Prop :=
  match t with
  | DLeaf m => 0 <= m
  | DNode m c phi t1 t2 =>
      let q := rel_p m (dmass t1) (dmass t2) in
      dmass t1 + dmass t2 < m /\ -1 < c < 1 /\
      eps <= k /\ eps <= k * q * sqrt (1 - c * c) /\
      (match t1 with DLeaf _ => True | _ => eps < q * q / (dmass t1 * dmass t1 + q * q) end) /\
      (match t2 with DLeaf _ => True | _ => eps < q * q / (dmass t2 * dmass t2 + q * q) end) /\
      tree_ok q t1 /\ tree_ok q t2
  end.
