(* Kin/Dalitz.v — model of tf_pwa/data_trans/dalitz.py (definitions only).
   generate_p(m12, m23, m0, m1, m2, m3): m12, m23 are the squared invariant masses s12, s23.
   _generate_fun0 is transcribed sub-expression by sub-expression (x0 .. x21). *)
From Coq Require Import Reals.
From TFV Require Import Kin.Boost.
Open Scope R_scope.

Record dalitz_out := DOut { dE1 : R; dE2 : R; dE3 : R; dpa : R; dpb : R; dpc : R }.

Definition generate_fun0 (m12 m23 m0 m1 m2 m3 : R) : dalitz_out :=
  let x0 := m0 ^ 2 in
  let x1 := m1 ^ 2 in
  let x2 := - m23 + x0 + x1 in
  let x3 := 1 / m0 in
  let x4 := x3 / 2 in
  let x5 := m3 ^ 2 in
  let x6 := m0 ^ 4 in
  let x7 := m1 ^ 4 in
  let x8 := m23 ^ 2 in
  let x9 := m23 * x0 in
  let x10 := m23 * x1 in
  let x11 := x0 * x1 in
  let x12 := - 2 * x10 + x7 + x8 in
  let x13 := 2 * m0 * m1 in
  let x14 := 1 / ((- x13 + x2) * (x13 + x2)) in
  let x15 := m12 * m23 in
  let x16 := m12 * x0 in
  let x17 := x0 * x5 in
  let x18 := x1 * x5 in
  let x19 := m12 * x1 in
  let x20 := m23 * x5 in
  let x21 := m2 ^ 2 in
  DOut
    (x2 * x4)
    (x4 * (m12 + m23 - x1 - x5))
    (x4 * (- m12 + x0 + x5))
    (x3 * (x10 + x11 - x6 / 2 - x7 / 2 - x8 / 2 + x9) * sqrt (1 / (- 2 * x11 + x12 + x6 - 2 * x9)))
    (sqrt x14 * x4 * (- 2 * x0 * x21 - x11 + x12 + x15 + x16 + x17 + x18 - x19 - x20 - x9))
    (- sqrt (x14 * (- (m12 ^ 2) * m23 + m12 * x10 + m12 * x18 - m12 * x8 + m12 * x9 - m2 ^ 4 * x0
                    - m3 ^ 4 * x1 - x1 * x9 + x10 * x5 + x11 * x21 + x11 * x5 + x15 * x21 + x15 * x5
                    + x16 * x21 - x16 * x5 + x17 * x21 + x18 * x21 - x19 * x21 - x20 * x21 - x21 * x6
                    + x21 * x9 - x5 * x7))).

(* generate_p: p1 = (E1, pa, 0, 0), p2 = (E2, pb, pc, 0), p3 = (E3, -pa-pb, -pc, 0) *)
Definition dalitz_p1 (m12 m23 m0 m1 m2 m3 : R) : vec4 :=
  let o := generate_fun0 m12 m23 m0 m1 m2 m3 in V4 (dE1 o) (dpa o) 0 0.
Definition dalitz_p2 (m12 m23 m0 m1 m2 m3 : R) : vec4 :=
  let o := generate_fun0 m12 m23 m0 m1 m2 m3 in V4 (dE2 o) (dpb o) (dpc o) 0.
Definition dalitz_p3 (m12 m23 m0 m1 m2 m3 : R) : vec4 :=
  let o := generate_fun0 m12 m23 m0 m1 m2 m3 in V4 (dE3 o) (- dpa o - dpb o) (- dpc o) 0.

(* Kallen function lambda(m0^2, m1^2, s23) > 0 and Gram determinant >= 0: the physical region *)
Definition kallen (a b c : R) : R := a * a + b * b + c * c - 2 * a * b - 2 * a * c - 2 * b * c.
Definition dalitz_gram (m12 m23 m0 m1 m2 m3 : R) : R :=
  let x0 := m0 ^ 2 in let x1 := m1 ^ 2 in let x5 := m3 ^ 2 in let x21 := m2 ^ 2 in
  - (m12 ^ 2) * m23 + m12 * (m23 * x1) + m12 * (x1 * x5) - m12 * m23 ^ 2 + m12 * (m23 * x0) - m2 ^ 4 * x0
  - m3 ^ 4 * x1 - x1 * (m23 * x0) + (m23 * x1) * x5 + (x0 * x1) * x21 + (x0 * x1) * x5 + (m12 * m23) * x21
  + (m12 * m23) * x5 + (m12 * x0) * x21 - (m12 * x0) * x5 + (x0 * x5) * x21 + (x1 * x5) * x21
  - (m12 * x1) * x21 - (m23 * x5) * x21 - x21 * m0 ^ 4 + x21 * (m23 * x0) - x5 * m1 ^ 4.
Definition dalitz_physical (m12 m23 m0 m1 m2 m3 : R) : Prop :=
  0 < m0 /\ 0 < kallen (m0 ^ 2) (m1 ^ 2) m23 /\ 0 <= dalitz_gram m12 m23 m0 m1 m2 m3.
