(* Kin/Boost.v — model of tf_pwa/angle.py: Vector3, LorentzVector (definitions only).

   3-vectors are records of 3 reals, 4-vectors records of 4 reals in the code's component
   order (T, X, Y, Z).  3x3 matrices are given by their three columns (the images of the
   basis vectors), so an orthonormal right-handed frame (x, y, z) *is* a proper rotation.

   Transcribed with quirks:
   - LorentzVector.boost :149-165  gamma = 1/sqrt(1-beta2),
        gamma2 = where(beta2 > _epsilon, (gamma-1)/beta2, 0)     (_epsilon = 1e-14)
        p_r = vect + (gamma2*bp)*pb + (gamma*T)*pb ,  T_r = gamma*(T+bp)
   - LorentzVector.rest_vector :141-147 = boost other (-(vect/T))
   - LorentzVector.boost_matrix :167-196 same gamma, gamma2, explicit 4x4 entries
   - LorentzVector.M :232-237 = sqrt(|M2|)
   - Vector3.cross_unit :55-64 with the norm < _epsilon fallback  a x (1 + b)
   Lemmas: Kin/Boost_proofs.v. *)
From Coq Require Import Reals.
Open Scope R_scope.

Record vec3 := V3 { vx : R; vy : R; vz : R }.
Record vec4 := V4 { pt : R; px : R; py : R; pz : R }.

(* ------------------------------------------------------------------ Vector3 *)
Definition dot3 (a b : vec3) : R := vx a * vx b + vy a * vy b + vz a * vz b.
Definition norm2_3 (a : vec3) : R := dot3 a a.
Definition norm3 (a : vec3) : R := sqrt (norm2_3 a).
Definition add3 (a b : vec3) : vec3 := V3 (vx a + vx b) (vy a + vy b) (vz a + vz b).
Definition sub3 (a b : vec3) : vec3 := V3 (vx a - vx b) (vy a - vy b) (vz a - vz b).
Definition scale3 (k : R) (a : vec3) : vec3 := V3 (k * vx a) (k * vy a) (k * vz a).
Definition neg3 (a : vec3) : vec3 := V3 (- vx a) (- vy a) (- vz a).
Definition zero3 : vec3 := V3 0 0 0.
Definition cross3 (a b : vec3) : vec3 :=
  V3 (vy a * vz b - vz a * vy b) (vz a * vx b - vx a * vz b) (vx a * vy b - vy a * vx b).
(* Vector3.unit / tf.linalg.normalize / helicity_angle.normal: v / |v| *)
Definition unit3 (a : vec3) : vec3 := V3 (vx a / norm3 a) (vy a / norm3 a) (vz a / norm3 a).

(* angle.py: _epsilon = 1.0e-14 *)
Definition eps : R := 1 / 100000000000000.

(* Vector3.cross_unit(self, other) *)
Definition cross_unit (a b : vec3) : vec3 :=
  let cro := cross3 a b in
  if Rlt_dec (norm3 cro) eps
  then unit3 (cross3 a (V3 (1 + vx b) (1 + vy b) (1 + vz b)))
  else unit3 cro.

(* ------------------------------------------------------------------ 3x3 matrices by columns *)
Record mat3 := M3 { c1 : vec3; c2 : vec3; c3 : vec3 }.
Definition mat3_vec (R_ : mat3) (v : vec3) : vec3 :=
  add3 (add3 (scale3 (vx v) (c1 R_)) (scale3 (vy v) (c2 R_))) (scale3 (vz v) (c3 R_)).
Definition id3 : mat3 := M3 (V3 1 0 0) (V3 0 1 0) (V3 0 0 1).
(* R^T R = 1 : the columns are orthonormal *)
Definition orthogonal (R_ : mat3) : Prop :=
  dot3 (c1 R_) (c1 R_) = 1 /\ dot3 (c2 R_) (c2 R_) = 1 /\ dot3 (c3 R_) (c3 R_) = 1 /\
  dot3 (c1 R_) (c2 R_) = 0 /\ dot3 (c1 R_) (c3 R_) = 0 /\ dot3 (c2 R_) (c3 R_) = 0.
(* proper rotation = right-handed orthonormal frame: det = +1 *)
Definition rotation (R_ : mat3) : Prop := orthogonal R_ /\ cross3 (c1 R_) (c2 R_) = c3 R_.

(* ------------------------------------------------------------------ LorentzVector *)
Definition vect (p : vec4) : vec3 := V3 (px p) (py p) (pz p).
Definition mk4 (t : R) (v : vec3) : vec4 := V4 t (vx v) (vy v) (vz v).
Definition add4 (p q : vec4) : vec4 := V4 (pt p + pt q) (px p + px q) (py p + py q) (pz p + pz q).
Definition sub4 (p q : vec4) : vec4 := V4 (pt p - pt q) (px p - px q) (py p - py q) (pz p - pz q).
Definition zero4 : vec4 := V4 0 0 0 0.
(* LorentzVector.neg: space inversion (T, -X, -Y, -Z) *)
Definition neg4 (p : vec4) : vec4 := V4 (pt p) (- px p) (- py p) (- pz p).
(* LorentzVector.Dot, metric (1,-1,-1,-1) *)
Definition mink (p q : vec4) : R := pt p * pt q - px p * px q - py p * py q - pz p * pz q.
Definition mass2 (p : vec4) : R := mink p p.
(* LorentzVector.M = sqrt(|M2|) *)
Definition mass (p : vec4) : R := sqrt (Rabs (mass2 p)).
(* LorentzVector.boost_vector = vect / T *)
Definition boost_vector (p : vec4) : vec3 := V3 (px p / pt p) (py p / pt p) (pz p / pt p).
Definition rot4 (R_ : mat3) (p : vec4) : vec4 := mk4 (pt p) (mat3_vec R_ (vect p)).

Definition gamma_of (beta2 : R) : R := 1 / sqrt (1 - beta2).
Definition gamma2_of (beta2 : R) : R :=
  if Rlt_dec eps beta2 then (gamma_of beta2 - 1) / beta2 else 0.

(* the arithmetic of boost with gamma, gamma2 as parameters *)
Definition boost_g (g g2 : R) (p : vec4) (v : vec3) : vec4 :=
  let bp := dot3 v (vect p) in
  mk4 (g * (pt p + bp))
      (add3 (add3 (vect p) (scale3 (g2 * bp) v)) (scale3 (g * pt p) v)).

(* LorentzVector.boost(self = p, v) *)
Definition boost (p : vec4) (v : vec3) : vec4 :=
  boost_g (gamma_of (norm2_3 v)) (gamma2_of (norm2_3 v)) p v.

(* LorentzVector.rest_vector(self = p, other = q): q seen from the rest frame of p *)
Definition rest_vector (p q : vec4) : vec4 := boost q (neg3 (boost_vector p)).

(* 4x4 matrices by rows; LorentzVector.boost_matrix(self = p) *)
Record mat4 := M4 { r0 : vec4; r1 : vec4; r2 : vec4; r3 : vec4 }.
Definition dot4e (a b : vec4) : R := pt a * pt b + px a * px b + py a * py b + pz a * pz b.
Definition mat4_vec (m : mat4) (q : vec4) : vec4 :=
  V4 (dot4e (r0 m) q) (dot4e (r1 m) q) (dot4e (r2 m) q) (dot4e (r3 m) q).
Definition boost_matrix (p : vec4) : mat4 :=
  let b := boost_vector p in
  let g := gamma_of (norm2_3 b) in
  let g2 := gamma2_of (norm2_3 b) in
  M4 (V4 g (g * vx b) (g * vy b) (g * vz b))
     (V4 (g * vx b) (1 + g2 * vx b * vx b) (g2 * vx b * vy b) (g2 * vx b * vz b))
     (V4 (g * vy b) (g2 * vy b * vx b) (1 + g2 * vy b * vy b) (g2 * vy b * vz b))
     (V4 (g * vz b) (g2 * vz b * vx b) (g2 * vz b * vy b) (1 + g2 * vz b * vz b)).

(* velocity admissible for the exact Lorentz-boost theorems: outside the gamma2 guard *)
Definition vel_ok (v : vec3) : Prop := eps < norm2_3 v < 1.
(* timelike, positive energy *)
Definition timelike (p : vec4) : Prop := 0 < pt p /\ norm2_3 (vect p) < pt p * pt p.
