(* Kin/Dalitz_proofs.v — momenta built from Dalitz variables reproduce them *)
From Coq Require Import Reals Lra.
From TFV Require Import Kin.Boost Kin.Boost_proofs Kin.Dalitz.
Open Scope R_scope.

Section Dalitz.
  Variables m12 m23 m0 m1 m2 m3 : R.
  Hypothesis Hphys : dalitz_physical m12 m23 m0 m1 m2 m3.

  Let lam := kallen (m0 ^ 2) (m1 ^ 2) m23.
  Let G := dalitz_gram m12 m23 m0 m1 m2 m3.
  Let r := sqrt (1 / lam).
  Let rc := sqrt (1 / lam * G).

  Lemma lam_pos : 0 < lam. Proof. apply Hphys. Qed.
  Lemma r_sq : r * r = 1 / lam.
  Proof. unfold r. apply sqrt_sqrt. pose proof lam_pos. left. apply Rdiv_lt_0_compat; lra. Qed.
  Lemma rc_sq : rc * rc = G / lam.
  Proof.
    unfold rc. rewrite sqrt_sqrt.
    - pose proof lam_pos. field. lra.
    - pose proof lam_pos. destruct Hphys as (_ & _ & HG). fold G in HG.
      apply Rmult_le_pos; [left; apply Rdiv_lt_0_compat; lra|assumption].
  Qed.

  (* the outputs in closed form *)
  Lemma generate_fun0_closed :
    generate_fun0 m12 m23 m0 m1 m2 m3 =
    DOut ((m0 ^ 2 + m1 ^ 2 - m23) / (2 * m0)) ((m12 + m23 - m1 ^ 2 - m3 ^ 2) / (2 * m0)) ((m0 ^ 2 + m3 ^ 2 - m12) / (2 * m0))
         (- lam / (2 * m0) * r)
         ((- 2 * m0 ^ 2 * m2 ^ 2 - m0 ^ 2 * m1 ^ 2 + (- 2 * (m23 * m1 ^ 2) + m1 ^ 4 + m23 ^ 2) + m12 * m23 + m12 * m0 ^ 2
            + m0 ^ 2 * m3 ^ 2 + m1 ^ 2 * m3 ^ 2 - m12 * m1 ^ 2 - m23 * m3 ^ 2 - m23 * m0 ^ 2) / (2 * m0) * r)
         (- rc).
  Proof.
    destruct Hphys as (H0 & _ & _). unfold generate_fun0. cbv zeta.
    assert (E1 : - 2 * (m0 ^ 2 * m1 ^ 2) + (- 2 * (m23 * m1 ^ 2) + m1 ^ 4 + m23 ^ 2) + m0 ^ 4 - 2 * (m23 * m0 ^ 2) = lam)
      by (unfold lam, kallen; ring).
    assert (E2 : (- (2 * m0 * m1) + (- m23 + m0 ^ 2 + m1 ^ 2)) * (2 * m0 * m1 + (- m23 + m0 ^ 2 + m1 ^ 2)) = lam)
      by (unfold lam, kallen; ring).
    rewrite E1, E2. fold r.
    match goal with |- context [sqrt (1 / lam * ?g)] => replace g with G by (unfold G, dalitz_gram; ring) end.
    fold rc. f_equal; unfold lam, kallen; field; lra.
  Qed.

  Let p1 := dalitz_p1 m12 m23 m0 m1 m2 m3.
  Let p2 := dalitz_p2 m12 m23 m0 m1 m2 m3.
  Let p3 := dalitz_p3 m12 m23 m0 m1 m2 m3.

  Ltac dal_open :=
    unfold p1, p2, p3, dalitz_p1, dalitz_p2, dalitz_p3; cbv zeta; rewrite generate_fun0_closed;
    cbn [dE1 dE2 dE3 dpa dpb dpc]; unfold mass2, mink, add4; cbn [pt px py pz].

  Theorem dalitz_sum : add4 (add4 p1 p2) p3 = V4 m0 0 0 0.
  Proof.
    destruct Hphys as (H0 & _ & _). unfold p1, p2, p3, dalitz_p1, dalitz_p2, dalitz_p3. cbv zeta.
    rewrite generate_fun0_closed. cbn [dE1 dE2 dE3 dpa dpb dpc].
    apply vec4_eq; unfold add4; cbn [pt px py pz]; field; lra.
  Qed.

  Theorem dalitz_m1 : mass2 p1 = m1 ^ 2.
  Proof.
    destruct Hphys as (H0 & _ & _). pose proof lam_pos as Hl. dal_open.
    match goal with |- ?E * ?E - ?A * r * (?A * r) - _ - _ = _ =>
      replace (A * r * (A * r)) with (A * A * (r * r)) by ring end.
    rewrite r_sq. unfold lam, kallen in *. field. split; lra.
  Qed.

  Theorem dalitz_s23 : mass2 (add4 p2 p3) = m23.
  Proof.
    destruct Hphys as (H0 & _ & _). pose proof lam_pos as Hl. dal_open.
    match goal with |- ?E * ?E - (?B * r + (- (?A * r) - ?B * r)) * (?B * r + (- (?A * r) - ?B * r)) - ?y * ?y - _ = _ =>
      replace ((B * r + (- (A * r) - B * r)) * (B * r + (- (A * r) - B * r))) with (A * A * (r * r)) by ring;
      replace (y * y) with 0 by ring end.
    rewrite r_sq. unfold lam, kallen in *. field. split; lra.
  Qed.

  Theorem dalitz_m2 : mass2 p2 = m2 ^ 2.
  Proof.
    destruct Hphys as (H0 & _ & _). pose proof lam_pos as Hl. dal_open.
    match goal with |- ?E * ?E - ?B * r * (?B * r) - - rc * - rc - _ = _ =>
      replace (B * r * (B * r)) with (B * B * (r * r)) by ring;
      replace (- rc * - rc) with (rc * rc) by ring end.
    rewrite r_sq, rc_sq. unfold G, dalitz_gram, lam, kallen in *. field. split; lra.
  Qed.

  Theorem dalitz_s12 : mass2 (add4 p1 p2) = m12.
  Proof.
    destruct Hphys as (H0 & _ & _). pose proof lam_pos as Hl. dal_open.
    match goal with |- ?E * ?E - (?A * r + ?B * r) * (?A * r + ?B * r) - (0 + - rc) * (0 + - rc) - _ = _ =>
      replace ((A * r + B * r) * (A * r + B * r)) with ((A + B) * (A + B) * (r * r)) by ring;
      replace ((0 + - rc) * (0 + - rc)) with (rc * rc) by ring end.
    rewrite r_sq, rc_sq. unfold G, dalitz_gram, lam, kallen in *. field. split; lra.
  Qed.

  Theorem dalitz_m3 : mass2 p3 = m3 ^ 2.
  Proof.
    destruct Hphys as (H0 & _ & _). pose proof lam_pos as Hl. dal_open.
    match goal with |- ?E * ?E - (- (?A * r) - ?B * r) * (- (?A * r) - ?B * r) - - - rc * - - rc - _ = _ =>
      replace ((- (A * r) - B * r) * (- (A * r) - B * r)) with ((A + B) * (A + B) * (r * r)) by ring;
      replace (- - rc * - - rc) with (rc * rc) by ring end.
    rewrite r_sq, rc_sq. unfold G, dalitz_gram, lam, kallen in *. field. split; lra.
  Qed.

  Theorem dalitz_reproduces :
    mass2 (add4 p1 p2) = m12 /\ mass2 (add4 p2 p3) = m23 /\
    mass2 p1 = m1 ^ 2 /\ mass2 p2 = m2 ^ 2 /\ mass2 p3 = m3 ^ 2 /\ add4 (add4 p1 p2) p3 = V4 m0 0 0 0.
  Proof.
    repeat split; [apply dalitz_s12|apply dalitz_s23|apply dalitz_m1|apply dalitz_m2|apply dalitz_m3|apply dalitz_sum].
  Qed.
End Dalitz.
