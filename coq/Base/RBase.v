(* small real-number helpers shared by the models.  [rmax] is Rmax written with Rabs so
   that Coq-Interval can evaluate it (Rmax itself is not reified by the tactic). *)
From Coq Require Import Reals Lra.
Open Scope R_scope.

Definition rmax (a b : R) : R := (a + b + Rabs (a - b)) / 2.

Lemma rmax_Rmax a b : rmax a b = Rmax a b.
Proof.
  unfold rmax, Rmax. destruct (Rle_dec a b) as [H|H].
  - rewrite Rabs_left1 by lra. lra.
  - rewrite Rabs_right by lra. lra.
Qed.
Lemma rmax_0_pos r : 0 <= r -> rmax 0 r = r.
Proof. intros. rewrite rmax_Rmax. apply Rmax_right. assumption. Qed.
Lemma rmax_0_neg r : 0 <= r -> rmax 0 (- r) = 0.
Proof. intros. rewrite rmax_Rmax. apply Rmax_left. lra. Qed.
