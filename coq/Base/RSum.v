(* Finite sums of reals over lists - definitions only (lemmas: RSum_proofs.v).
   [rsum] is the single notion of "sum over events" behind every likelihood formula;
   [rdot w x] is the weighted sum  sum_i w_i x_i  (zip semantics: stops at the shorter list,
   as the implementation's elementwise product of equally long tensors). *)
From Coq Require Import Reals List.
Import ListNotations.
Open Scope R_scope.

Fixpoint rsum (l : list R) : R :=
  match l with
  | [] => 0
  | x :: t => x + rsum t
  end.

Fixpoint rdot (w x : list R) : R :=
  match w, x with
  | a :: w', b :: x' => a * b + rdot w' x'
  | _, _ => 0
  end.

(* elementwise product / zip *)
Fixpoint rzip (h : R -> R -> R) (a b : list R) : list R :=
  match a, b with
  | x :: a', y :: b' => h x y :: rzip h a' b'
  | _, _ => []
  end.

Definition rscale (c : R) (l : list R) : list R := map (Rmult c) l.

(* sum of the batch sums: what a batched accumulation computes *)
Definition rsum_batches (bs : list (list R)) : R := rsum (map rsum bs).
