(* Tactics used by the generated correspondence cases (real-valued layers). *)
From Coq Require Import Reals.
From Interval Require Import Tactic.
Open Scope R_scope.

(* decide every [Rlt_dec a b] / [Rle_dec a b] occurring in the (already unfolded) goal by
   certified interval arithmetic, then continue in the selected branch *)
Ltac decide_branches :=
  repeat match goal with
  | |- context [Rlt_dec ?a ?b] =>
      first
        [ let H := fresh "Hbr" in
          assert (H : a < b) by (interval with (i_prec 90));
          destruct (Rlt_dec a b) as [_|?N]; [|exfalso; apply N; exact H]; clear H
        | let H := fresh "Hbr" in
          assert (H : b <= a) by (interval with (i_prec 90));
          destruct (Rlt_dec a b) as [?P|_]; [exfalso; apply (Rlt_not_le _ _ P); exact H|]; clear H ]
  | |- context [Rle_dec ?a ?b] =>
      first
        [ let H := fresh "Hbr" in
          assert (H : a <= b) by (interval with (i_prec 90));
          destruct (Rle_dec a b) as [_|?N]; [|exfalso; apply N; exact H]; clear H
        | let H := fresh "Hbr" in
          assert (H : b < a) by (interval with (i_prec 90));
          destruct (Rle_dec a b) as [?P|_]; [exfalso; apply (Rlt_not_le _ _ H); exact P|]; clear H ]
  end.

Ltac rclose := decide_branches; interval with (i_prec 90).
Ltac rclose_hi := decide_branches; interval with (i_prec 200).

(* full computation of everything except the real-number primitives: used when the model
   contains Z / list computations (factorials, ranges) that must be evaluated before interval *)
Ltac rcompute :=
  cbv -[Rplus Rminus Rmult Rdiv Ropp Rinv Rabs Rle Rlt Rge Rgt IZR pow sqrt cos sin tan atan exp ln PI
        Rlt_dec Rle_dec Rsqr].
Ltac rcompute_close := rcompute; rclose.
