(* Lemmas about finite sums over lists. *)
From Coq Require Import Reals List Lra Permutation.
From TFV Require Import Base.RSum.
Import ListNotations.
Open Scope R_scope.

Lemma rsum_app a b : rsum (a ++ b) = rsum a + rsum b.
Proof. induction a as [|x a IH]; cbn [rsum app]; [lra | rewrite IH; lra]. Qed.

Lemma rsum_map_mul c l : rsum (map (Rmult c) l) = c * rsum l.
Proof. induction l as [|x l IH]; cbn [rsum map]; [lra | rewrite IH; lra]. Qed.

Lemma rsum_rscale c l : rsum (rscale c l) = c * rsum l.
Proof. apply rsum_map_mul. Qed.

Lemma rsum_map_plus (f g : R -> R) l :
  rsum (map (fun x => f x + g x) l) = rsum (map f l) + rsum (map g l).
Proof. induction l as [|x l IH]; cbn [rsum map]; [lra | rewrite IH; lra]. Qed.

Lemma rsum_map_ext (f g : R -> R) l :
  (forall x, In x l -> f x = g x) -> rsum (map f l) = rsum (map g l).
Proof.
  induction l as [|x l IH]; intros H; cbn [rsum map]; [reflexivity|].
  rewrite (H x (or_introl eq_refl)), IH; [reflexivity|]. intros y Hy. apply H. right. exact Hy.
Qed.

(* sum over batches = sum of the batch sums, for ANY split into batches *)
Lemma rsum_concat bs : rsum (concat bs) = rsum_batches bs.
Proof.
  unfold rsum_batches. induction bs as [|b bs IH]; cbn [concat map rsum]; [reflexivity|].
  rewrite rsum_app, IH. reflexivity.
Qed.

Lemma rsum_perm a b : Permutation a b -> rsum a = rsum b.
Proof. induction 1; cbn [rsum]; lra. Qed.

Lemma rsum_repeat c n : rsum (repeat c n) = INR n * c.
Proof.
  induction n as [|n IH]; [cbn; lra|].
  rewrite S_INR. cbn [repeat rsum]. rewrite IH. lra.
Qed.

(* ---- weighted sums ---- *)

Lemma rdot_nil_r w : rdot w [] = 0.
Proof. destruct w; reflexivity. Qed.

Lemma rdot_rzip w x : rdot w x = rsum (rzip Rmult w x).
Proof.
  revert x. induction w as [|a w IH]; intros [|b x]; cbn [rdot rzip rsum]; try reflexivity.
  rewrite IH. reflexivity.
Qed.

Lemma rdot_app w1 w2 x1 x2 :
  length w1 = length x1 -> rdot (w1 ++ w2) (x1 ++ x2) = rdot w1 x1 + rdot w2 x2.
Proof.
  revert x1. induction w1 as [|a w1 IH]; intros [|b x1] H; cbn [length] in H; try discriminate.
  - cbn [app rdot]. lra.
  - cbn [app rdot]. rewrite IH by (injection H; auto). lra.
Qed.

Lemma rdot_scale_l c w x : rdot (rscale c w) x = c * rdot w x.
Proof.
  unfold rscale. revert x. induction w as [|a w IH]; intros [|b x]; cbn [rdot map]; try lra.
  rewrite IH. lra.
Qed.

Lemma rdot_scale_r c w x : rdot w (rscale c x) = c * rdot w x.
Proof.
  unfold rscale. revert x. induction w as [|a w IH]; intros [|b x]; cbn [rdot map]; try lra.
  rewrite IH. lra.
Qed.

Lemma rdot_map_ext (f g : R -> R) w x :
  (forall y, In y x -> f y = g y) -> rdot w (map f x) = rdot w (map g x).
Proof.
  revert w. induction x as [|b x IH]; intros w H; destruct w as [|a w]; cbn [rdot map]; try reflexivity.
  rewrite (H b (or_introl eq_refl)), IH; [reflexivity|]. intros y Hy. apply H. right. exact Hy.
Qed.

Lemma rdot_const w x c : length w = length x -> rdot w (map (fun _ : R => c) x) = rsum w * c.
Proof.
  revert x. induction w as [|a w IH]; intros [|b x] H; cbn [length] in H; try discriminate; cbn [rdot map rsum]; try lra.
  rewrite IH by (injection H; auto). lra.
Qed.

Lemma rdot_map_plus (f g : R -> R) w x :
  rdot w (map (fun y => f y + g y) x) = rdot w (map f x) + rdot w (map g x).
Proof.
  revert w. induction x as [|b x IH]; intros [|a w]; cbn [rdot map]; try lra.
  rewrite IH. lra.
Qed.

(* batches of (weights, values): the weighted sum over the merged sample is the sum of the
   per-batch weighted sums, for any split whose two sides are cut at the same places *)
Definition rdot_batches (bs : list (list R * list R)) : R :=
  rsum (map (fun b => rdot (fst b) (snd b)) bs).

Lemma rdot_concat bs :
  Forall (fun b => length (fst b) = length (snd b)) bs ->
  rdot (concat (map fst bs)) (concat (map snd bs)) = rdot_batches bs.
Proof.
  unfold rdot_batches. induction 1 as [|b bs Hb _ IH]; cbn [map concat rsum]; [reflexivity|].
  rewrite rdot_app by exact Hb. rewrite IH. reflexivity.
Qed.

Lemma length_rscale c l : length (rscale c l) = length l.
Proof. apply map_length. Qed.
