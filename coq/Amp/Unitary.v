(* C01/C02: sums over helicity index lists, and the symmetrised amplitude for identical particles.
   Definitions only. *)
From Coq Require Import Reals List ZArith.
From TFV Require Import Shape.LineShapes Amp.Dalitz3 Rot.Wigner.
Import ListNotations.
Open Scope R_scope.

Definition zsum (L : list Z) (f : Z -> R) : R := fold_right (fun x acc => f x + acc) 0 L.
Definition czsum (L : list Z) (f : Z -> C) : C := fold_right (fun x acc => Cadd (f x) acc) (0, 0) L.

(* (D^{j*} X)_lambda = sum_mu D*_{lambda mu}(alpha,beta,gamma) X_mu *)
Definition D_apply (j2 : Z) (alpha beta gamma : R) (X : Z -> C) (lam : Z) : C :=
  czsum (m_range j2) (fun mu => Cmul (Dconj j2 lam mu alpha beta gamma) (X mu)).
(* sum over all helicities of |.|^2 *)
Definition hel_norm2 (j2 : Z) (X : Z -> C) : R := zsum (m_range j2) (fun m => Cnorm2 (X m)).

(* real matrix acting on a complex vector *)
Definition M_apply (L : list Z) (M : Z -> Z -> R) (Y : Z -> C) (lam : Z) : C :=
  czsum L (fun mu => Cscal (M lam mu) (Y mu)).

(* alignment acts on the final-state helicity as a row vector times Dconj: (X Dc)_f = sum_l X_l Dc_{l f} *)
Definition D_apply_right (j2 : Z) (alpha beta gamma : R) (X : Z -> C) (f : Z) : C :=
  czsum (m_range j2) (fun l => Cmul (X l) (Dconj j2 l f alpha beta gamma)).
