(* Closed form of property C04: spin-0 parent -> three spin-0 particles through resonances of
   spin J.  Everything is a function of the three final-state four-momenta through Minkowski
   invariants only.  Definitions only. *)
From Coq Require Import Reals List ZArith.
From TFV Require Import Base.RBase Shape.LineShapes.
Import ListNotations.
Open Scope R_scope.

(* four-momentum (E, px, py, pz) *)
Definition P4 := (R * R * R * R)%type.
Definition p4add (a b : P4) : P4 :=
  let '(a0, a1, a2, a3) := a in let '(b0, b1, b2, b3) := b in (a0 + b0, a1 + b1, a2 + b2, a3 + b3).
Definition mink4 (a b : P4) : R :=
  let '(a0, a1, a2, a3) := a in let '(b0, b1, b2, b3) := b in a0 * b0 - a1 * b1 - a2 * b2 - a3 * b3.
Definition inv2 (a b : P4) : R := mink4 (p4add a b) (p4add a b).

(* Legendre polynomials: explicit up to 4, Bonnet recursion beyond *)
Fixpoint legendre_rec (n : nat) (x : R) : R * R :=   (* (P_n, P_{n-1}) *)
  match n with
  | O => (1, 0)
  | S k => let '(pk, pk1) := legendre_rec k x in
           (((2 * INR k + 1) * x * pk - INR k * pk1) / (INR k + 1), pk)
  end.
Definition legendre (J : nat) (x : R) : R :=
  match J with
  | 0%nat => 1 | 1%nat => x | 2%nat => (3 * x ^ 2 - 1) / 2 | 3%nat => (5 * x ^ 3 - 3 * x) / 2
  | 4%nat => (35 * x ^ 4 - 30 * x ^ 2 + 3) / 8
  | _ => fst (legendre_rec J x)
  end.

(* helicity angle of daughter i in the (ij) rest frame w.r.t. the (ij) flight direction,
   from invariants: M parent mass, mi mj mk final masses, sij = (pi+pj)^2, sik = (pi+pk)^2 *)
Definition cos_hel (M mi mj mk sij sik : R) : R :=
  let mR := sqrt sij in
  let Ei := (sij + mi ^ 2 - mj ^ 2) / (2 * mR) in
  let Ek := (M ^ 2 - sij - mk ^ 2) / (2 * mR) in
  (sik - mi ^ 2 - mk ^ 2 - 2 * Ei * Ek) / (2 * sqrt (Ei ^ 2 - mi ^ 2) * sqrt (Ek ^ 2 - mk ^ 2)).

(* one resonance chain A -> R(ij) k, R -> i j.
   coupling c (complex), spin J, nominal mass m0R, width g0R, barrier radius d. *)
(* production barrier on q^2 (get_barrier_factor2): (q^2)^(J/2) * sqrt(P_J(q0^2 d^2)/P_J(q^2 d^2)); q0^2 is the SIGNED
   break-up momentum squared at the nominal mass, negative when the nominal mass lies outside the Dalitz plot
   (the polynomial ratio continues analytically); equal to q^J B'_J(q,q0,d) for q0^2 > 0 (C15_bprime_q2_agrees) *)
Definition res_amp_core (c : C) (J : nat) (q2 q02 p p0 m0R g0R d : R) (mR cth : R) : C :=
  let f := (-1) ^ J * (sqrt q2 ^ J * Bprime_q2 J q2 q02 d) * (p ^ J * Bprime J p p0 d) * legendre J cth in
  Cmul c (Cscal f (BWR mR m0R g0R p p0 J d)).
Definition res_amp (c : C) (J : nat) (M mi mj mk m0R g0R d : R) (mR cth : R) : C :=
  res_amp_core c J (get_relative_p2 M mR mk) (get_relative_p2 M m0R mk)
               (get_relative_p mR mi mj) (get_relative_p m0R mi mj) m0R g0R d mR cth.

(* complex coupling from the library's polar parameters *)
Definition polar (r phi : R) : C := (r * cos phi, r * sin phi).

Record resonance := { r_pair : nat;  (* 0: (1,2) spectator 3; 1: (1,3) spectator 2; 2: (2,3) spectator 1 *)
                      r_c : C; r_J : nat; r_m0 : R; r_g0 : R }.

Definition chain_amp (M m1 m2 m3 d : R) (p1 p2 p3 : P4) (r : resonance) : C :=
  match r_pair r with
  | 0%nat => let sij := inv2 p1 p2 in
             res_amp (r_c r) (r_J r) M m1 m2 m3 (r_m0 r) (r_g0 r) d (sqrt sij) (cos_hel M m1 m2 m3 sij (inv2 p1 p3))
  | 1%nat => let sij := inv2 p1 p3 in
             res_amp (r_c r) (r_J r) M m1 m3 m2 (r_m0 r) (r_g0 r) d (sqrt sij) (cos_hel M m1 m3 m2 sij (inv2 p1 p2))
  | _ => let sij := inv2 p2 p3 in
         res_amp (r_c r) (r_J r) M m2 m3 m1 (r_m0 r) (r_g0 r) d (sqrt sij) (cos_hel M m2 m3 m1 sij (inv2 p2 p1))
  end.

Definition Csum (l : list C) : C := fold_right Cadd (0, 0) l.
Definition Cnorm2 (z : C) : R := fst z * fst z + snd z * snd z.

Definition density3 (M m1 m2 m3 d : R) (rs : list resonance) (p1 p2 p3 : P4) : R :=
  Cnorm2 (Csum (map (chain_amp M m1 m2 m3 d p1 p2 p3) rs)).
