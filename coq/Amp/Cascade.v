(* C01: helicity amplitude of a cascade  A -> R c, R -> ...  for all resonances R of ONE topology
   (HelicityDecay.get_amp / DecayChain.get_amp, tf_pwa/amp/core.py), arbitrary spins (doubled indices),
   and what a common rotation of all momenta does to it.  Definitions only.

   amplitude of one resonance, parent helicity M, spectator helicity lc fixed:
       A_M = sum_{lR}  h(lR) * D^{J*}_{M, lR-lc}(phi1, theta1, 0) * B(lR, phi2)
   where B is the amplitude of the subtree below R as a function of R's helicity and of the azimuth
   phi2 of ITS first decay (the only angle of the subtree that refers to R's helicity frame axes). *)
From Coq Require Import Reals List ZArith.
From TFV Require Import Shape.LineShapes Rot.Wigner Amp.Unitary.
Import ListNotations.
Open Scope R_scope.

(* e^{i m psi} for the doubled index m2 *)
Definition phase (m2 : Z) (psi : R) : C := (cos (IZR m2 / 2 * psi), sin (IZR m2 / 2 * psi)).

(* a subtree amplitude picks up e^{i lR psi} when its azimuth is shifted by psi *)
Definition covariant (B : Z -> R -> C) : Prop :=
  forall lR phi psi, B lR (phi + psi) = Cmul (phase lR psi) (B lR phi).

Record res := mkRes { r_j2 : Z; r_h : Z -> C; r_B : Z -> R -> C }.

Definition res_amp (J2 lc2 : Z) (phi1 th1 phi2 : R) (r : res) (M : Z) : C :=
  czsum (m_range (r_j2 r))
        (fun lR => Cmul (r_h r lR) (Cmul (D_lambda J2 M lR lc2 phi1 th1 0) (r_B r lR phi2))).

Definition topo_amp (J2 lc2 : Z) (phi1 th1 phi2 : R) (rs : list res) (M : Z) : C :=
  fold_right (fun r acc => Cadd (res_amp J2 lc2 phi1 th1 phi2 r M) acc) (0, 0) rs.

(* the subtree of a two-step cascade: R -> a b with helicity difference nu = la - lb, and any
   factor that does not depend on the azimuth (couplings, line shape, deeper vertices) *)
Definition vertex_B (jR2 nu2 : Z) (th2 : R) (rest : Z -> C) : Z -> R -> C :=
  fun lR phi2 => Cmul (rest lR) (Dconj jR2 lR nu2 phi2 th2 0).

(* spins consistent: lR - lc has the parity of J for every resonance helicity *)
Definition parity_ok (J2 lc2 : Z) (r : res) : Prop := Z.even (r_j2 r - lc2 - J2) = true /\ (0 <= r_j2 r)%Z.

(* several topologies interfering, spin-0 final particles (spectator helicity 0, no alignment rotations):
   a topology = its angles before (phi1, th1, phi2), after (phi1', th1') with residual azimuth psi, and its resonances *)
Record topo := mkTopo { t_phi1 : R; t_th1 : R; t_phi2 : R; t_phi1' : R; t_th1' : R; t_psi : R; t_rs : list res }.
Definition total_amp_before (J2 : Z) (ts : list topo) (M : Z) : C :=
  fold_right (fun t acc => Cadd (topo_amp J2 0 (t_phi1 t) (t_th1 t) (t_phi2 t) (t_rs t) M) acc) (0, 0) ts.
Definition total_amp_after (J2 : Z) (ts : list topo) (M : Z) : C :=
  fold_right (fun t acc => Cadd (topo_amp J2 0 (t_phi1' t) (t_th1' t) (t_phi2 t + t_psi t) (t_rs t) M) acc) (0, 0) ts.
