From Coq Require Import List ZArith QArith Bool.
From TFV Require Import Rot.Wigner Rot.CG Amp.Coupling.
Import ListNotations.
Lemma spinless_couplings_le4 : forallb spinless_ok [0;1;2;3;4]%Z = true.
Proof. vm_compute. reflexivity. Qed.
