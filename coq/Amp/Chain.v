(* Generic helicity-coupling and vertex layers of HelicityDecay (tf_pwa/amp/core.py:852-1195), arbitrary
   spins.  H_{lb,lc} = sum_i g_i * sqrt((2l+1)/(2ja+1)) CG CG * q^l B'_l(q,q0,d);  vertex = H * D*.
   Definitions only.  Doubled spins and helicities; l plain. *)
From Coq Require Import Reals List ZArith QArith.
From TFV Require Import Base.RBase Shape.LineShapes Rot.Wigner Rot.CG Amp.Coupling Amp.Dalitz3.
Import ListNotations.
Open Scope R_scope.

(* exact radical -> real *)
Definition cgm_R (ja2 jb2 jc2 l s2 lb2 lc2 : Z) : R :=
  IZR (cgm_sign ja2 jb2 jc2 l s2 lb2 lc2) * sqrt (Q2R (cgm_sq ja2 jb2 jc2 l s2 lb2 lc2)).

(* barrier of get_barrier_factor2 with the defaults has_bprime, has_ql: (q^2)^(l/2) * Bprime_q2(l, q2, q02, d) *)
Definition barrier2 (l : Z) (q2 q02 d : R) : R :=
  sqrt q2 ^ Z.to_nat l * Bprime_q2 (Z.to_nat l) q2 q02 d.

(* couplings g_i as complex numbers (the value of get_g_ls); ls is the decay's (l, 2s) list in the same order *)
Fixpoint H_sum (ja2 jb2 jc2 : Z) (ls : list (Z * Z)) (g : list C) (q2 q02 d : R) (lb2 lc2 : Z) : C :=
  match ls, g with
  | (l, s2) :: ls', gi :: g' =>
      Cadd (Cscal (cgm_R ja2 jb2 jc2 l s2 lb2 lc2 * barrier2 l q2 q02 d) gi)
           (H_sum ja2 jb2 jc2 ls' g' q2 q02 d lb2 lc2)
  | _, _ => (0, 0)
  end.

(* one vertex a -> b c: H_{lb lc} * D^{ja *}_{la, lb-lc}(alpha, beta, gamma) *)
Definition vertex_amp (ja2 : Z) (H : C) (la2 lb2 lc2 : Z) (alpha beta gamma : R) : C :=
  Cmul H (D_lambda ja2 la2 lb2 lc2 alpha beta gamma).
