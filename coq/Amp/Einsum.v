(* C05: reference semantics of an einsum expression (sum over all assignments of the contracted
   indices of the product of operand entries) and the steps of tf_pwa.einsum's custom routine.
   Generic over a commutative semiring carrier so that the same definitions are evaluated exactly
   over complex rationals in the correspondence and reasoned about abstractly.  Definitions only. *)
From Coq Require Import List Arith Bool.
Import ListNotations.

Section Einsum.
  Variable K : Type.
  Variable kzero kone : K.
  Variable kadd kmul : K -> K -> K.

  (* an operand: index names (one per axis, row-major data) *)
  Record tensor := { t_idx : list nat; t_data : list K }.

  (* sizes of index names as an association list *)
  Definition size_of (sz : list (nat * nat)) (i : nat) : nat :=
    match find (fun p => Nat.eqb (fst p) i) sz with Some p => snd p | None => 1 end.

  (* an assignment of values to index names *)
  Definition asg := list (nat * nat).
  Definition aval (a : asg) (i : nat) : nat :=
    match find (fun p => Nat.eqb (fst p) i) a with Some p => snd p | None => 0 end.

  (* row-major offset of the entry selected by assignment a *)
  Definition offset (sz : list (nat * nat)) (idx : list nat) (a : asg) : nat :=
    fold_left (fun off i => off * size_of sz i + aval a i) idx 0.
  Definition tget (sz : list (nat * nat)) (t : tensor) (a : asg) : K :=
    nth (offset sz (t_idx t) a) (t_data t) kzero.

  (* all assignments of the given index names, row-major order (first name slowest) *)
  Fixpoint all_asg (sz : list (nat * nat)) (names : list nat) : list asg :=
    match names with
    | [] => [[]]
    | i :: rest => flat_map (fun v => map (fun a => (i, v) :: a) (all_asg sz rest)) (seq 0 (size_of sz i))
    end.

  Definition ksum (l : list K) : K := fold_right kadd kzero l.
  Definition kprod (l : list K) : K := fold_right kmul kone l.

  (* names occurring in the operands but not in the output: the contracted ones (deduplicated) *)
  Definition contracted (ops : list tensor) (out : list nat) : list nat :=
    nodup Nat.eq_dec (filter (fun i => negb (existsb (Nat.eqb i) out)) (flat_map t_idx ops)).

  (* the reference contraction *)
  Definition einsum_spec (sz : list (nat * nat)) (ops : list tensor) (out : list nat) : tensor :=
    {| t_idx := out;
       t_data := map (fun ao =>
                   ksum (map (fun ac => kprod (map (fun t => tget sz t (ao ++ ac)) ops))
                             (all_asg sz (contracted ops out))))
                 (all_asg sz out) |}.

  (* one step of the custom routine: contract a sub-list of operands keeping `keep` *)
  Definition contract_step (sz : list (nat * nat)) (part : list tensor) (keep : list nat) : tensor :=
    einsum_spec sz part keep.

  (* a contraction path: each step takes operand positions (in the current list), removes them,
     contracts them keeping the indices still needed (final or occurring in a remaining operand), and
     appends the result - exactly the loop of tf_pwa.einsum.einsum *)
  Definition remove_positions {A} (pos : list nat) (l : list A) : list A :=
    map snd (filter (fun p => negb (existsb (Nat.eqb (fst p)) pos)) (combine (seq 0 (length l)) l)).
  Definition pick_positions {A} (d : A) (pos : list nat) (l : list A) : list A := map (fun i => nth i l d) pos.

  Definition needed (rest : list tensor) (final : list nat) (part : list tensor) : list nat :=
    nodup Nat.eq_dec
      (filter (fun i => existsb (Nat.eqb i) final || existsb (Nat.eqb i) (flat_map t_idx rest)) (flat_map t_idx part)).

  Fixpoint eval_path (sz : list (nat * nat)) (path : list (list nat)) (ops : list tensor) (final : list nat) : list tensor :=
    match path with
    | [] => ops
    | pos :: path' =>
        let part := pick_positions {| t_idx := []; t_data := [] |} pos ops in
        let rest := remove_positions pos ops in
        let keep := needed rest final part in
        eval_path sz path' (rest ++ [contract_step sz part keep]) final
    end.

  (* final transposition of the single remaining operand into the requested output order *)
  Definition transpose_to (sz : list (nat * nat)) (t : tensor) (out : list nat) : tensor :=
    {| t_idx := out; t_data := map (fun a => tget sz t a) (all_asg sz out) |}.
End Einsum.

(* ---- exact evaluation over complex rationals (used by the correspondence) ---- *)
From Coq Require Import QArith Qabs.
Definition Qc := (Q * Q)%type.
Definition qc_add (a b : Qc) : Qc := (Qred (fst a + fst b), Qred (snd a + snd b)).
Definition qc_mul (a b : Qc) : Qc := (Qred (fst a * fst b - snd a * snd b), Qred (fst a * snd b + snd a * fst b)).
Definition qc_zero : Qc := (0, 0).
Definition qc_one : Qc := (1, 0).

Definition einsum_q := einsum_spec Qc qc_zero qc_one qc_add qc_mul.
Definition path_q := eval_path Qc qc_zero qc_one qc_add qc_mul.

Definition qc_close (tol : Q) (a b : Qc) : bool :=
  Qle_bool (Qabs (fst a - fst b)) tol && Qle_bool (Qabs (snd a - snd b)) tol.
Fixpoint qcs_close (tol : Q) (a b : list Qc) : bool :=
  match a, b with
  | x :: a', y :: b' => qc_close tol x y && qcs_close tol a' b'
  | [], [] => true
  | _, _ => false
  end.
(* |sum_k z_k|^2 summed over the components: density from chain tensors *)
Definition qc_norm2 (z : Qc) : Q := fst z * fst z + snd z * snd z.
Fixpoint qcs_add (a b : list Qc) : list Qc :=
  match a, b with x :: a', y :: b' => qc_add x y :: qcs_add a' b' | _, _ => [] end.
Definition density_q (chains : list (list Qc)) : Q :=
  match chains with
  | [] => 0
  | c :: rest => fold_right (fun z acc => Qred (qc_norm2 z + acc)) 0 (fold_left qcs_add rest c)
  end.
