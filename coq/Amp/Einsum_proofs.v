From Coq Require Import List Arith Bool Permutation Lia.
From TFV Require Import Amp.Einsum.
Import ListNotations.

Section EinsumLaws.
  Variable K : Type.
  Variable kzero kone : K.
  Variable kadd kmul : K -> K -> K.
  Hypothesis kmul_comm : forall a b, kmul a b = kmul b a.
  Hypothesis kmul_assoc : forall a b c, kmul a (kmul b c) = kmul (kmul a b) c.

  Notation kprod := (kprod K kone kmul).
  Notation ksum := (ksum K kzero kadd).
  Notation einsum_spec := (einsum_spec K kzero kone kadd kmul).
  Notation eval_path := (eval_path K kzero kone kadd kmul).
  Notation contracted := (contracted K).

  (* the product over operands does not depend on their order *)
  Lemma kprod_perm l1 l2 : Permutation l1 l2 -> kprod l1 = kprod l2.
  Proof.
    induction 1 as [|x l1 l2 _ IH|x y l|l1 l2 l3 _ IH1 _ IH2]; simpl.
    - reflexivity.
    - rewrite IH. reflexivity.
    - rewrite !kmul_assoc. rewrite (kmul_comm y x). reflexivity.
    - rewrite IH1. exact IH2.
  Qed.

  (* number of entries of the result = number of assignments of the output indices *)
  Lemma einsum_spec_length sz ops out :
    length (t_data K (einsum_spec sz ops out)) = length (all_asg sz out).
  Proof. unfold Einsum.einsum_spec; simpl. apply map_length. Qed.

  Lemma flat_map_const_length {A B} (f : A -> list B) (l : list A) (n : nat) :
    (forall x, In x l -> length (f x) = n) -> length (flat_map f l) = length l * n.
  Proof.
    induction l as [|x l IH]; intros H; simpl; [reflexivity|].
    rewrite app_length, (H x (or_introl eq_refl)), IH; [reflexivity|].
    intros y Hy. apply H. right. exact Hy.
  Qed.

  Lemma all_asg_length sz names :
    length (all_asg sz names) = fold_right (fun i acc => size_of sz i * acc) 1 names.
  Proof.
    induction names as [|i rest IH]; simpl; [reflexivity|].
    rewrite (flat_map_const_length _ _ (length (all_asg sz rest))).
    - rewrite seq_length, IH. reflexivity.
    - intros v _. apply map_length.
  Qed.

  (* the empty path leaves the operands alone; a path that takes everything in one step is the spec
     restricted to the indices that occur *)
  Lemma eval_path_nil sz ops final : eval_path sz [] ops final = ops.
  Proof. reflexivity. Qed.

  Lemma eval_path_one_step sz ops final :
    eval_path sz [seq 0 (length ops)] ops final =
    remove_positions (seq 0 (length ops)) ops ++
    [einsum_spec sz (pick_positions {| t_idx := []; t_data := [] |} (seq 0 (length ops)) ops)
                 (needed K (remove_positions (seq 0 (length ops)) ops) final
                         (pick_positions {| t_idx := []; t_data := [] |} (seq 0 (length ops)) ops))].
  Proof. reflexivity. Qed.
End EinsumLaws.
