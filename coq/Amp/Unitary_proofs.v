From Coq Require Import Reals List ZArith Lra Lia FinFun.
From TFV Require Import Base.RBase Shape.LineShapes Amp.Dalitz3 Rot.Wigner Rot.Wigner_unit Rot.Wigner_proofs Amp.Unitary.
Import ListNotations.
Open Scope R_scope.

(* ---------- finite sums ---------- *)
Lemma zsum_ext L f g : (forall x, In x L -> f x = g x) -> zsum L f = zsum L g.
Proof.
  induction L as [|a L IH]; intros H; simpl; [reflexivity|].
  rewrite (H a (or_introl eq_refl)), IH; [reflexivity|]. intros x Hx. apply H. right. exact Hx.
Qed.
Lemma zsum_plus L f g : zsum L (fun x => f x + g x) = zsum L f + zsum L g.
Proof. induction L as [|a L IH]; simpl; [lra|]. rewrite IH. lra. Qed.
Lemma zsum_scal L c f : zsum L (fun x => c * f x) = c * zsum L f.
Proof. induction L as [|a L IH]; simpl; [lra|]. rewrite IH. lra. Qed.
Lemma zsum_zero L : zsum L (fun _ => 0) = 0.
Proof. induction L as [|a L IH]; simpl; [lra|]. rewrite IH. lra. Qed.
Lemma zsum_swap L1 L2 (f : Z -> Z -> R) :
  zsum L1 (fun a => zsum L2 (fun b => f a b)) = zsum L2 (fun b => zsum L1 (fun a => f a b)).
Proof.
  induction L1 as [|a L1 IH]; simpl.
  - rewrite zsum_zero. reflexivity.
  - rewrite IH. rewrite <- zsum_plus. reflexivity.
Qed.
Lemma zsum_mul L1 L2 f g :
  zsum L1 f * zsum L2 g = zsum L1 (fun a => zsum L2 (fun b => f a * g b)).
Proof.
  induction L1 as [|a L1 IH]; simpl; [lra|].
  rewrite Rmult_plus_distr_r, IH, zsum_scal. reflexivity.
Qed.
Lemma zsum_delta L (g : Z -> R) m : NoDup L -> In m L ->
  zsum L (fun n => delta m n * g n) = g m.
Proof.
  induction L as [|a L IH]; intros Hnd Hin; [contradiction|].
  inversion Hnd as [|? ? Hna Hnd']; subst. simpl. destruct Hin as [->|Hin].
  - unfold delta at 1. rewrite Z.eqb_refl.
    rewrite (zsum_ext L _ (fun _ => 0)); [rewrite zsum_zero; lra|].
    intros x Hx. unfold delta. destruct (Z.eqb_spec m x) as [->|_]; [contradiction|lra].
  - unfold delta at 1. destruct (Z.eqb_spec m a) as [->|_]; [contradiction|]. rewrite IH by assumption. lra.
Qed.

Lemma czsum_fst L (f : Z -> C) : fst (czsum L f) = zsum L (fun x => fst (f x)).
Proof. induction L as [|a L' IH]; simpl; [reflexivity|]. rewrite IH. reflexivity. Qed.
Lemma czsum_snd L (f : Z -> C) : snd (czsum L f) = zsum L (fun x => snd (f x)).
Proof. induction L as [|a L' IH]; simpl; [reflexivity|]. rewrite IH. reflexivity. Qed.

(* ---------- a real matrix with orthonormal columns preserves the norm of complex vectors ---------- *)
Section Ortho.
  Variable L : list Z.
  Variable M : Z -> Z -> R.
  Hypothesis L_nodup : NoDup L.
  Hypothesis M_cols : forall m k, In m L -> In k L -> zsum L (fun n => M n m * M n k) = delta m k.

  Lemma real_norm_preserved (y : Z -> R) :
    zsum L (fun lam => (zsum L (fun mu => M lam mu * y mu)) * (zsum L (fun nu => M lam nu * y nu)))
    = zsum L (fun mu => y mu * y mu).
  Proof.
    rewrite (zsum_ext L _ (fun lam => zsum L (fun mu => zsum L (fun nu => (M lam mu * M lam nu) * (y mu * y nu))))).
    2:{ intros lam _. rewrite zsum_mul. apply zsum_ext. intros mu _. apply zsum_ext. intros nu _. ring. }
    rewrite zsum_swap.
    apply zsum_ext. intros mu Hmu.
    rewrite zsum_swap.
    rewrite (zsum_ext L _ (fun nu => delta mu nu * (y mu * y nu))).
    2:{ intros nu Hnu. rewrite <- (M_cols mu nu Hmu Hnu).
        rewrite (Rmult_comm (zsum L _) (y mu * y nu)). rewrite <- zsum_scal.
        apply zsum_ext. intros lam _. ring. }
    rewrite (zsum_delta L (fun nu => y mu * y nu) mu L_nodup Hmu). reflexivity.
  Qed.

  Theorem ortho_norm_preserved (Y : Z -> C) :
    zsum L (fun lam => Cnorm2 (M_apply L M Y lam)) = zsum L (fun mu => Cnorm2 (Y mu)).
  Proof.
    unfold Cnorm2, M_apply.
    rewrite (zsum_ext L _ (fun lam =>
       (zsum L (fun mu => M lam mu * fst (Y mu))) * (zsum L (fun nu => M lam nu * fst (Y nu)))
     + (zsum L (fun mu => M lam mu * snd (Y mu))) * (zsum L (fun nu => M lam nu * snd (Y nu))))).
    2:{ intros lam _. rewrite czsum_fst, czsum_snd. reflexivity. }
    rewrite zsum_plus, (real_norm_preserved (fun m => fst (Y m))), (real_norm_preserved (fun m => snd (Y m))).
    rewrite <- zsum_plus. reflexivity.
  Qed.
End Ortho.

(* ---------- the conjugated Wigner D matrix removes the observer's rotation ---------- *)
Lemma m_range_nodup j2 : NoDup (m_range j2).
Proof.
  unfold m_range. apply FinFun.Injective_map_NoDup; [|apply seq_NoDup]. intros x y H. lia.
Qed.

Lemma Cnorm2_phase ph z : Cnorm2 (Cmul (cos ph, sin ph) z) = Cnorm2 z.
Proof.
  destruct z as [x y]. unfold Cnorm2, Cmul; simpl.
  pose proof (sin2_cos2 ph) as H. unfold Rsqr in H. nra.
Qed.

Lemma czsum_ext L f g : (forall x, In x L -> f x = g x) -> czsum L f = czsum L g.
Proof.
  induction L as [|a L IH]; intros H; simpl; [reflexivity|].
  rewrite (H a (or_introl eq_refl)), IH; [reflexivity|]. intros x Hx. apply H. right. exact Hx.
Qed.
Lemma czsum_Cmul_l L c f : czsum L (fun x => Cmul c (f x)) = Cmul c (czsum L f).
Proof.
  induction L as [|a L IH]; simpl.
  - destruct c as [c1 c2]. unfold Cmul; simpl. f_equal; ring.
  - rewrite IH. destruct c as [c1 c2], (f a) as [u v], (czsum L f) as [p q]. unfold Cmul, Cadd; simpl. f_equal; ring.
Qed.

(* D*_{lam mu} X_mu = e^{i lam alpha/2} * ( d_{lam mu} * (e^{i mu gamma/2} X_mu) ) *)
Lemma Dconj_factor j2 lam mu alpha beta gamma (z : C) :
  Cmul (Dconj j2 lam mu alpha beta gamma) z =
  Cmul (cos (IZR lam / 2 * alpha), sin (IZR lam / 2 * alpha))
       (Cscal (dsmall j2 lam mu beta) (Cmul (cos (IZR mu / 2 * gamma), sin (IZR mu / 2 * gamma)) z)).
Proof.
  unfold Dconj. rewrite cos_plus, sin_plus. destruct z as [x y]. unfold Cmul, Cscal; simpl. f_equal; ring.
Qed.

Theorem D_removes_rotation j2 alpha beta gamma (X : Z -> C) :
  (0 <= j2 <= 8)%Z ->
  zsum (m_range j2) (fun lam => Cnorm2 (D_apply j2 alpha beta gamma X lam)) = hel_norm2 j2 X.
Proof.
  intros Hj. unfold D_apply, hel_norm2.
  set (Y := fun mu => Cmul (cos (IZR mu / 2 * gamma), sin (IZR mu / 2 * gamma)) (X mu)).
  set (M := fun lam mu => dsmall j2 lam mu beta).
  rewrite (zsum_ext (m_range j2) _ (fun lam => Cnorm2 (M_apply (m_range j2) M Y lam))).
  2:{ intros lam _.
      rewrite (czsum_ext (m_range j2) _ (fun mu => Cmul (cos (IZR lam / 2 * alpha), sin (IZR lam / 2 * alpha)) (Cscal (M lam mu) (Y mu)))).
      2:{ intros mu _. apply Dconj_factor. }
      rewrite czsum_Cmul_l, Cnorm2_phase. reflexivity. }
  rewrite (ortho_norm_preserved (m_range j2) M (m_range_nodup j2)).
  - apply zsum_ext. intros mu _. unfold Y. apply Cnorm2_phase.
  - intros m k Hm Hk. unfold M.
    pose proof (d_cols_orthonormal j2 m k (cos (beta / 2)) (sin (beta / 2)) Hj Hm Hk) as H.
    unfold dd_col in H. unfold zsum, dsmall. apply H.
    pose proof (sin2_cos2 (beta / 2)) as H2. unfold Rsqr in H2. lra.
Qed.

(* ---------- identical particles: the symmetrised amplitude ---------- *)
Section Symmetrise.
  (* amplitude vectors (all helicity components) as lists; T = the helicity-axis transposition *)
  Variable T : list C -> list C.
  Variable vadd : list C -> list C -> list C.
  Variable vscal : R -> list C -> list C.
  Variable norm2 : list C -> R.
  Hypothesis T_invol : forall a, T (T a) = a.
  Hypothesis T_add : forall a b, T (vadd a b) = vadd (T a) (T b).
  Hypothesis T_scal : forall e a, T (vscal e a) = vscal e (T a).
  Hypothesis T_norm : forall a, norm2 (T a) = norm2 a.
  Hypothesis scal_scal : forall e a, vscal e (vscal e a) = vscal (e * e) a.
  Hypothesis scal_one : forall a, vscal 1 a = a.
  Hypothesis scal_add : forall e a b, vscal e (vadd a b) = vadd (vscal e a) (vscal e b).
  Hypothesis vadd_comm : forall a b, vadd a b = vadd b a.
  Hypothesis norm_sign : forall e a, e * e = 1 -> norm2 (vscal e a) = norm2 a.

  (* F(p) = A(p) + eps * T A(sigma p);  F(sigma p) = A(sigma p) + eps * T A(p) since sigma is an involution *)
  Theorem id_swap_invariant (eps : R) (A A' : list C) : eps * eps = 1 ->
    norm2 (vadd A' (vscal eps (T A))) = norm2 (vadd A (vscal eps (T A'))).
  Proof.
    intros He.
    assert (E : vadd A' (vscal eps (T A)) = vscal eps (T (vadd A (vscal eps (T A'))))).
    { rewrite T_add, T_scal, T_invol, scal_add, scal_scal, He, scal_one. apply vadd_comm. }
    rewrite E, norm_sign by exact He. apply T_norm.
  Qed.
End Symmetrise.

(* ---------- alignment rotations (C02): row vector times Dconj ---------- *)
Lemma Dconj_factor_right j2 l f alpha beta gamma (z : C) :
  Cmul z (Dconj j2 l f alpha beta gamma) =
  Cmul (cos (IZR f / 2 * gamma), sin (IZR f / 2 * gamma))
       (Cscal (dsmall j2 l f beta) (Cmul (cos (IZR l / 2 * alpha), sin (IZR l / 2 * alpha)) z)).
Proof.
  unfold Dconj. rewrite cos_plus, sin_plus. destruct z as [x y]. unfold Cmul, Cscal; simpl. f_equal; ring.
Qed.

Theorem D_removes_alignment j2 alpha beta gamma (X : Z -> C) :
  (0 <= j2 <= 8)%Z ->
  zsum (m_range j2) (fun f => Cnorm2 (D_apply_right j2 alpha beta gamma X f)) = hel_norm2 j2 X.
Proof.
  intros Hj. unfold D_apply_right, hel_norm2.
  set (Y := fun l => Cmul (cos (IZR l / 2 * alpha), sin (IZR l / 2 * alpha)) (X l)).
  set (M := fun f l => dsmall j2 l f beta).
  rewrite (zsum_ext (m_range j2) _ (fun f => Cnorm2 (M_apply (m_range j2) M Y f))).
  2:{ intros f _.
      rewrite (czsum_ext (m_range j2) _ (fun l => Cmul (cos (IZR f / 2 * gamma), sin (IZR f / 2 * gamma)) (Cscal (M f l) (Y l)))).
      2:{ intros l _. apply Dconj_factor_right. }
      rewrite czsum_Cmul_l, Cnorm2_phase. reflexivity. }
  rewrite (ortho_norm_preserved (m_range j2) M (m_range_nodup j2)).
  - apply zsum_ext. intros l _. unfold Y. apply Cnorm2_phase.
  - intros m k Hm Hk. unfold M.
    pose proof (d_rows_orthonormal j2 m k (cos (beta / 2)) (sin (beta / 2)) Hj Hm Hk) as H.
    unfold dd_row in H. unfold zsum, dsmall. apply H.
    pose proof (sin2_cos2 (beta / 2)) as H2. unfold Rsqr in H2. lra.
Qed.
