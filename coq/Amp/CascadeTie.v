(* C01 tie, layer "geometry": the hypothesis of Cascade_proofs.cascade_rotation_invariant evaluated on the angles
   the code computes at p and at G p.  Definitions + the evaluation tactic only. *)
From Coq Require Import Reals List ZArith.
From Coquelicot Require Import Complex.
From Interval Require Import Tactic.
From TFV Require Import Rot.DHom.
Open Scope R_scope.

(* entrywise distance of two 2x2 complex matrices (real and imaginary parts) *)
Definition m2_close (tol : R) (U V : M2) : Prop :=
  let '(a, b, c, d) := U in let '(a', b', c', d') := V in
  (Rabs (fst a - fst a') <= tol /\ Rabs (snd a - snd a') <= tol) /\
  (Rabs (fst b - fst b') <= tol /\ Rabs (snd b - snd b') <= tol) /\
  (Rabs (fst c - fst c') <= tol /\ Rabs (snd c - snd c') <= tol) /\
  (Rabs (fst d - fst d') <= tol /\ Rabs (snd d - snd d') <= tol).

(* G * R(al1, be1, 0) against R(al1', be1', psi) *)
Definition geometry_ok (tol a b g al1 be1 al1' be1' psi : R) : Prop :=
  m2_close tol (mmul (Euler a b g) (Euler al1 be1 0)) (Euler al1' be1' psi).

Ltac geometry_tac :=
  cbv [geometry_ok m2_close mmul Euler Rz Ry cis Cmult Cplus RtoC fst snd];
  repeat split; interval with (i_prec 90).

(* C02 tie, layer "alignment": the alignment element of a chain under convention Y is the one under convention X
   times a matrix G common to all chains:  W_X * G = W_Y  (Euler angles as the code stores them in aligned_angle) *)
Definition align_ok (tol ax bx gx ga gb gg ay bty gy : R) : Prop :=
  m2_close tol (mmul (Euler ax bx gx) (Euler ga gb gg)) (Euler ay bty gy).

Ltac align_tac :=
  cbv [align_ok m2_close mmul Euler Rz Ry cis Cmult Cplus RtoC fst snd];
  repeat split; interval with (i_prec 90).
