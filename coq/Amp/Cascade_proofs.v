(* C01: a common rotation of all momenta leaves the helicity-summed density of a cascade topology
   unchanged, for arbitrary spins (2J <= 8 for the parent: the range of the group-law theorem). *)
From Coq Require Import Reals List ZArith Lra Lia Ring.
From TFV Require Import Base.RBase Shape.LineShapes Amp.Dalitz3 Rot.Wigner Rot.Wigner_unit Rot.Wigner_proofs
     Amp.Unitary Amp.Unitary_proofs Amp.Cascade.
From Coquelicot Require Import Complex.
From TFV Require Import Rot.DHom_ids Rot.DHom Rot.DHom_apps.
Import ListNotations.
Open Scope R_scope.

(* the project's pair type is Coquelicot's C up to conversion; present goals to `ring` at that type *)
Ltac cnorm := change Cmul with Cmult in *; change Cadd with Cplus in *.
Ltac cring := cnorm; match goal with |- @eq _ ?x ?y => change (@eq Complex.C x y) end; ring.

(* ---------- the index range ---------- *)
Lemma m_range_in j2 m : (0 <= j2)%Z -> (- j2 <= m <= j2)%Z -> Z.even (m + j2) = true -> In m (m_range j2).
Proof.
  intros Hj Hm He. unfold m_range. apply in_map_iff.
  apply Z.even_spec in He. destruct He as [k Hk].
  exists (Z.to_nat k). split.
  - rewrite Z2Nat.id by lia. lia.
  - apply in_seq. split; [lia|]. simpl. apply Nat2Z.inj_lt. rewrite !Z2Nat.id by lia. lia.
Qed.

Lemma m_range_parity j2 m : In m (m_range j2) -> Z.even (m + j2) = true.
Proof.
  unfold m_range. intros H. apply in_map_iff in H. destruct H as [i [E _]]. subst m.
  replace (- j2 + 2 * Z.of_nat i + j2)%Z with (2 * Z.of_nat i)%Z by lia. apply Z.even_spec. exists (Z.of_nat i). lia.
Qed.

(* ---------- phases ---------- *)
Lemma phase_add m2 n2 psi : phase (m2 + n2) psi = Cmult (phase m2 psi) (phase n2 psi).
Proof.
  unfold phase, Cmult. simpl. rewrite plus_IZR.
  replace ((IZR m2 + IZR n2) / 2 * psi) with (IZR m2 / 2 * psi + IZR n2 / 2 * psi) by field.
  rewrite (cos_plus (IZR m2 / 2 * psi)), (sin_plus (IZR m2 / 2 * psi)). f_equal; ring.
Qed.

Lemma Dconj_gamma_phase j2 m2 n2 al be ga :
  Dconj j2 m2 n2 al be ga = Cmult (phase n2 ga) (Dconj j2 m2 n2 al be 0).
Proof.
  unfold Dconj, phase, Cmult. simpl.
  replace (IZR m2 / 2 * al + IZR n2 / 2 * 0) with (IZR m2 / 2 * al) by ring.
  replace (IZR m2 / 2 * al + IZR n2 / 2 * ga) with (IZR n2 / 2 * ga + IZR m2 / 2 * al) by ring.
  rewrite (cos_plus (IZR n2 / 2 * ga)), (sin_plus (IZR n2 / 2 * ga)). f_equal; ring.
Qed.

Lemma Dconj_alpha_shift j2 m2 n2 al p be ga :
  Dconj j2 m2 n2 (al + p) be ga = Cmult (phase m2 p) (Dconj j2 m2 n2 al be ga).
Proof.
  unfold Dconj, phase, Cmult. simpl.
  set (B := IZR m2 / 2 * al + IZR n2 / 2 * ga).
  replace (IZR m2 / 2 * (al + p) + IZR n2 / 2 * ga) with (IZR m2 / 2 * p + B) by (unfold B; ring).
  rewrite (cos_plus (IZR m2 / 2 * p) B), (sin_plus (IZR m2 / 2 * p) B). f_equal; ring.
Qed.

Theorem vertex_B_covariant jR2 nu2 th2 rest : covariant (vertex_B jR2 nu2 th2 rest).
Proof.
  intros lR phi psi. unfold vertex_B. rewrite Dconj_alpha_shift. cring.
Qed.

(* ---------- first vertex under the common rotation G = Euler a b g ---------- *)
Lemma first_vertex_transform J2 M mu a b g phi1 th1 phi1' th1' psi :
  (0 <= J2 <= 8)%Z -> In M (m_range J2) -> In mu (m_range J2) ->
  mmul (Euler a b g) (Euler phi1 th1 0) = Euler phi1' th1' psi ->
  Cmult (phase mu psi) (Dconj J2 M mu phi1' th1' 0)
  = csum (fun k => Cmult (Dconj J2 M k a b g) (Dconj J2 k mu phi1 th1 0)) (m_range J2).
Proof.
  intros HJ HM Hmu HE. rewrite <- Dconj_gamma_phase.
  symmetry. exact (Dconj_group_law J2 M mu a b g phi1 th1 0 phi1' th1' psi HJ HM Hmu HE).
Qed.

Lemma csum_zero_r {A} (f : A -> C) l : csum (fun k => Cmult (f k) (RtoC 0)) l = RtoC 0.
Proof. unfold csum. induction l as [|k l IH]; simpl; [reflexivity|]. rewrite IH. ring. Qed.

Lemma D_lambda_transform J2 M lR lc a b g phi1 th1 phi1' th1' psi :
  (0 <= J2 <= 8)%Z -> In M (m_range J2) -> Z.even (lR - lc + J2) = true ->
  mmul (Euler a b g) (Euler phi1 th1 0) = Euler phi1' th1' psi ->
  Cmult (phase (lR - lc) psi) (D_lambda J2 M lR lc phi1' th1' 0)
  = csum (fun k => Cmult (Dconj J2 M k a b g) (D_lambda J2 k lR lc phi1 th1 0)) (m_range J2).
Proof.
  intros HJ HM Hpar HE. unfold D_lambda.
  destruct (Z.leb_spec (Z.abs (lR - lc)) J2) as [Hle|Hgt].
  - apply first_vertex_transform; try assumption. apply m_range_in; [lia|lia|exact Hpar].
  - change (0, 0) with (RtoC 0). rewrite csum_zero_r. ring.
Qed.

(* ---------- one resonance ---------- *)
Lemma csum_mul_l {A} (x : C) (f : A -> C) l : Cmult x (csum f l) = csum (fun k => Cmult x (f k)) l.
Proof. unfold csum. induction l as [|k l IH]; simpl; [ring|]. rewrite <- IH. ring. Qed.

Lemma res_amp_transform J2 lc a b g phi1 th1 phi1' th1' psi phi2 (r : res) M :
  (0 <= J2 <= 8)%Z -> In M (m_range J2) -> parity_ok J2 lc r -> covariant (r_B r) ->
  mmul (Euler a b g) (Euler phi1 th1 0) = Euler phi1' th1' psi ->
  res_amp J2 lc phi1' th1' (phi2 + psi) r M
  = Cmult (phase lc psi) (D_apply J2 a b g (res_amp J2 lc phi1 th1 phi2 r) M).
Proof.
  intros HJ HM [Hpar HjR] Hcov HE. unfold D_apply, res_amp. rewrite !czsum_csum.
  (* right-hand side: exchange the sums *)
  transitivity (csum (fun lR => Cmult (phase lc psi)
                  (Cmult (r_h r lR) (Cmult (csum (fun k => Cmult (Dconj J2 M k a b g) (D_lambda J2 k lR lc phi1 th1 0)) (m_range J2))
                                           (r_B r lR phi2)))) (m_range (r_j2 r))).
  - apply csum_ext_in. intros lR HlR. rewrite Hcov.
    assert (Hp : Z.even (lR - lc + J2) = true).
    { pose proof (m_range_parity _ _ HlR) as H1.
      rewrite Z.even_add in H1. rewrite Z.even_sub in Hpar. rewrite Z.even_sub in Hpar.
      rewrite Z.even_add, Z.even_sub.
      destruct (Z.even lR), (Z.even (r_j2 r)), (Z.even lc), (Z.even J2); simpl in *; congruence. }
    rewrite <- (D_lambda_transform J2 M lR lc a b g phi1 th1 phi1' th1' psi HJ HM Hp HE).
    replace lR with (lc + (lR - lc))%Z at 3 by lia. rewrite phase_add. cring.
  - rewrite <- csum_mul_l. f_equal.
    transitivity (csum (fun lR => csum (fun k => Cmult (Dconj J2 M k a b g)
                     (Cmult (r_h r lR) (Cmult (D_lambda J2 k lR lc phi1 th1 0) (r_B r lR phi2)))) (m_range J2)) (m_range (r_j2 r))).
    + apply csum_ext_in. intros lR _. rewrite csum_mul_r. rewrite csum_mul_l. apply csum_ext_in. intros k _. cring.
    + rewrite csum_swap. apply csum_ext_in. intros k _. cnorm. rewrite czsum_csum, csum_mul_l. reflexivity.
Qed.

(* ---------- all resonances of the topology ---------- *)
Lemma D_apply_add J2 a b g (X Y : Z -> C) M :
  D_apply J2 a b g (fun m => Cadd (X m) (Y m)) M = Cplus (D_apply J2 a b g X M) (D_apply J2 a b g Y M).
Proof.
  unfold D_apply. rewrite !czsum_csum. rewrite <- csum_plus. apply csum_ext_in. intros k _.
  cring.
Qed.

Lemma D_apply_zero J2 a b g M : D_apply J2 a b g (fun _ => (0, 0)) M = RtoC 0.
Proof. unfold D_apply. rewrite czsum_csum. change (0, 0) with (RtoC 0). apply csum_zero_r. Qed.

Lemma topo_amp_transform J2 lc a b g phi1 th1 phi1' th1' psi phi2 (rs : list res) M :
  (0 <= J2 <= 8)%Z -> In M (m_range J2) ->
  Forall (fun r => parity_ok J2 lc r /\ covariant (r_B r)) rs ->
  mmul (Euler a b g) (Euler phi1 th1 0) = Euler phi1' th1' psi ->
  topo_amp J2 lc phi1' th1' (phi2 + psi) rs M
  = Cmult (phase lc psi) (D_apply J2 a b g (topo_amp J2 lc phi1 th1 phi2 rs) M).
Proof.
  intros HJ HM Hrs HE. induction Hrs as [|r rs [Hp Hc] _ IH].
  - unfold topo_amp. simpl. rewrite D_apply_zero. change (0, 0) with (RtoC 0). cring.
  - unfold topo_amp in *. cbn [fold_right].
    rewrite (res_amp_transform J2 lc a b g phi1 th1 phi1' th1' psi phi2 r M HJ HM Hp Hc HE), IH.
    rewrite (D_apply_add J2 a b g (res_amp J2 lc phi1 th1 phi2 r)
               (fun m => fold_right (fun r0 acc => Cadd (res_amp J2 lc phi1 th1 phi2 r0 m) acc) (0, 0) rs) M).
    cring.
Qed.

(* ---------- the density ---------- *)
Theorem cascade_rotation_invariant J2 lc a b g phi1 th1 phi1' th1' psi phi2 (rs : list res) :
  (0 <= J2 <= 8)%Z ->
  Forall (fun r => parity_ok J2 lc r /\ covariant (r_B r)) rs ->
  mmul (Euler a b g) (Euler phi1 th1 0) = Euler phi1' th1' psi ->
  hel_norm2 J2 (topo_amp J2 lc phi1' th1' (phi2 + psi) rs) = hel_norm2 J2 (topo_amp J2 lc phi1 th1 phi2 rs).
Proof.
  intros HJ Hrs HE. rewrite <- (D_removes_rotation J2 a b g (topo_amp J2 lc phi1 th1 phi2 rs) HJ).
  unfold hel_norm2. apply zsum_ext. intros M HM.
  rewrite (topo_amp_transform J2 lc a b g phi1 th1 phi1' th1' psi phi2 rs M HJ HM Hrs HE).
  unfold phase. rewrite <- Cmul_Cmult. apply Cnorm2_phase.
Qed.

(* the hypothesis on the angles is satisfiable in a non-trivial way: a rotation about z by p followed by
   ... any G of the form Rz p gives phi1' = p + phi1, psi = 0; and G = Euler phi1' th1' psi * (Euler phi1 th1 0)^-1 in general *)
Example geometry_rotation_about_z p phi1 th1 :
  mmul (Euler p 0 0) (Euler phi1 th1 0) = Euler (p + phi1) th1 0.
Proof.
  unfold Euler at 1. replace (Ry 0) with (RtoC 1, RtoC 0, RtoC 0, RtoC 1).
  2:{ unfold Ry. replace (0 / 2) with 0 by field. rewrite cos_0, sin_0, Ropp_0. reflexivity. }
  replace (Rz 0) with (RtoC 1, RtoC 0, RtoC 0, RtoC 1).
  2:{ unfold Rz. replace (0 / 2) with 0 by field. rewrite Ropp_0. rewrite cis_0. reflexivity. }
  rewrite <- (Euler_Rz_l phi1 th1 0 p). f_equal.
  unfold Rz, mmul. m2_ring.
Qed.

(* a rotation that tilts the z axis: G = Ry(b) acting on a decay along z (phi1 = th1 = 0) gives th1' = b, psi = 0 *)
Example geometry_tilt b : mmul (Euler 0 b 0) (Euler 0 0 0) = Euler 0 b 0.
Proof.
  assert (E0 : Euler 0 0 0 = (RtoC 1, RtoC 0, RtoC 0, RtoC 1)).
  { rewrite Euler_entries. replace (0 / 2) with 0 by field. rewrite Ropp_0, cis_0, cos_0, sin_0, Ropp_0. m2_ring. }
  rewrite E0. destruct (Euler 0 b 0) as [[[x y] z] w]. unfold mmul. m2_ring.
Qed.

Print Assumptions cascade_rotation_invariant.

(* ---------- several interfering topologies, spin-0 final particles ---------- *)
Lemma phase_zero psi : phase 0 psi = RtoC 1.
Proof. unfold phase. replace (IZR 0 / 2 * psi) with 0 by (simpl; field). rewrite cos_0, sin_0. reflexivity. Qed.

Definition topo_ok (J2 : Z) (a b g : R) (t : topo) : Prop :=
  Forall (fun r => parity_ok J2 0 r /\ covariant (r_B r)) (t_rs t) /\
  mmul (Euler a b g) (Euler (t_phi1 t) (t_th1 t) 0) = Euler (t_phi1' t) (t_th1' t) (t_psi t).

Lemma total_amp_transform J2 a b g (ts : list topo) M :
  (0 <= J2 <= 8)%Z -> In M (m_range J2) -> Forall (topo_ok J2 a b g) ts ->
  total_amp_after J2 ts M = D_apply J2 a b g (total_amp_before J2 ts) M.
Proof.
  intros HJ HM Hts. induction Hts as [|t ts [Hrs HE] _ IH].
  - unfold total_amp_after, total_amp_before. simpl. rewrite D_apply_zero. reflexivity.
  - unfold total_amp_after, total_amp_before in *. cbn [fold_right].
    rewrite (topo_amp_transform J2 0 a b g _ _ _ _ _ (t_phi2 t) (t_rs t) M HJ HM Hrs HE), IH, phase_zero.
    rewrite (D_apply_add J2 a b g (topo_amp J2 0 (t_phi1 t) (t_th1 t) (t_phi2 t) (t_rs t))
               (fun m => fold_right (fun t0 acc => Cadd (topo_amp J2 0 (t_phi1 t0) (t_th1 t0) (t_phi2 t0) (t_rs t0) m) acc) (0, 0) ts) M).
    cring.
Qed.

(* any parent spin (2J <= 8), any number of topologies, resonances and resonance spins, spin-0 final particles:
   a common rotation of all momenta leaves the density summed over the parent helicity unchanged *)
Theorem multi_topology_rotation_invariant J2 a b g (ts : list topo) :
  (0 <= J2 <= 8)%Z -> Forall (topo_ok J2 a b g) ts ->
  hel_norm2 J2 (total_amp_after J2 ts) = hel_norm2 J2 (total_amp_before J2 ts).
Proof.
  intros HJ Hts. rewrite <- (D_removes_rotation J2 a b g (total_amp_before J2 ts) HJ).
  unfold hel_norm2. apply zsum_ext. intros M HM.
  rewrite (total_amp_transform J2 a b g ts M HJ HM Hts). reflexivity.
Qed.
Print Assumptions multi_topology_rotation_invariant.

(* two-step cascade  A -> R c, R -> a b  written with the vertex form of the subtree *)
Corollary two_step_rotation_invariant J2 lc nu th2 a b g phi1 th1 phi1' th1' psi phi2
          (rs : list (Z * (Z -> C) * (Z -> C))) :
  (0 <= J2 <= 8)%Z ->
  Forall (fun r => Z.even (fst (fst r) - lc - J2) = true /\ (0 <= fst (fst r))%Z) rs ->
  mmul (Euler a b g) (Euler phi1 th1 0) = Euler phi1' th1' psi ->
  let mk := fun r : Z * (Z -> C) * (Z -> C) => mkRes (fst (fst r)) (snd (fst r)) (vertex_B (fst (fst r)) nu th2 (snd r)) in
  hel_norm2 J2 (topo_amp J2 lc phi1' th1' (phi2 + psi) (map mk rs))
  = hel_norm2 J2 (topo_amp J2 lc phi1 th1 phi2 (map mk rs)).
Proof.
  intros HJ Hrs HE mk. apply (cascade_rotation_invariant J2 lc a b g phi1 th1 phi1' th1' psi phi2 (map mk rs) HJ); [|exact HE].
  apply Forall_map. eapply Forall_impl; [|exact Hrs]. intros r Hr. split; [exact Hr|].
  apply vertex_B_covariant.
Qed.

(* a decay along z rotated by a generic G: phi1' = a, th1' = b and the residual azimuth psi = g is NOT zero *)
Example geometry_generic a b g : mmul (Euler a b g) (Euler 0 0 0) = Euler a b g.
Proof.
  assert (E0 : Euler 0 0 0 = (RtoC 1, RtoC 0, RtoC 0, RtoC 1)).
  { rewrite Euler_entries. replace (0 / 2) with 0 by field. rewrite Ropp_0, cis_0, cos_0, sin_0, Ropp_0. m2_ring. }
  rewrite E0. destruct (Euler a b g) as [[[x y] z] w]. unfold mmul. m2_ring.
Qed.

(* the hypotheses are met by a concrete spin-1 parent / spin-1 resonance / spin-0 spectator with generic angles *)
Example cascade_hypotheses_satisfiable :
  (0 <= 2 <= 8)%Z /\
  Forall (fun r => parity_ok 2 0 r /\ covariant (r_B r))
         [mkRes 2 (fun l => (IZR l, 1)) (vertex_B 2 0 (1/2) (fun _ => (1, 0)));
          mkRes 4 (fun l => (1, IZR l)) (vertex_B 4 2 (1/2) (fun l => (IZR l, 0)))] /\
  mmul (Euler 1 2 3) (Euler 0 0 0) = Euler 1 2 3.
Proof.
  split; [lia|]. split; [|apply geometry_generic].
  repeat apply Forall_cons; try apply Forall_nil; (split; [split; [reflexivity|cbn; lia]|apply vertex_B_covariant]).
Qed.
Print Assumptions two_step_rotation_invariant.
