From Coq Require Import Reals List Lra Lia.
From TFV Require Import Shape.LineShapes Amp.Dalitz3 Amp.Superpose.
Import ListNotations.
Open Scope R_scope.

Lemma vadd_length a b n : length a = n -> length b = n -> length (vadd a b) = n.
Proof.
  revert b n. induction a as [|x a IH]; intros [|y b] n Ha Hb; simpl in *; try lia.
  destruct n as [|n]; [lia|]. f_equal. apply IH; lia.
Qed.

Lemma vzero_length n : length (vzero n) = n.
Proof. apply repeat_length. Qed.

Lemma vsum_length n chains : Forall (fun a => length a = n) chains -> length (vsum n chains) = n.
Proof.
  induction 1 as [|a chains Ha _ IH]; simpl; [apply vzero_length|]. apply vadd_length; assumption.
Qed.

Lemma wnorm_vzero w n : wnorm w (vzero n) = 0.
Proof.
  revert w. induction n as [|n IH]; intros [|x w]; simpl; try reflexivity.
  rewrite IH. unfold Cnorm2, Czero; simpl. ring.
Qed.

Lemma winter_vzero w a n : winter w a (vzero n) = 0.
Proof.
  revert w a. induction n as [|n IH]; intros [|x w] [|z a]; simpl; try reflexivity.
  rewrite IH. ring.
Qed.

Lemma wnorm_vadd w a b n : length w = n -> length a = n -> length b = n ->
  wnorm w (vadd a b) = wnorm w a + wnorm w b + winter w a b.
Proof.
  revert a b n. induction w as [|x w IH]; intros [|z a] [|y b] n Hw Ha Hb; simpl in *; try lia; try lra.
  destruct n as [|n]; [lia|]. rewrite (IH a b n) by lia.
  unfold Cnorm2, Cadd; simpl. ring.
Qed.

Lemma winter_vadd_r w a b c n : length w = n -> length a = n -> length b = n -> length c = n ->
  winter w a (vadd b c) = winter w a b + winter w a c.
Proof.
  revert a b c n. induction w as [|x w IH]; intros [|z a] [|y b] [|u c] n Hw Ha Hb Hc; simpl in *; try lia; try lra.
  destruct n as [|n]; [lia|]. rewrite (IH a b c n) by lia. unfold Cadd; simpl. ring.
Qed.

Lemma winter_vsum w a chains n : length w = n -> length a = n -> Forall (fun c => length c = n) chains ->
  winter w a (vsum n chains) = rsum (map (winter w a) chains).
Proof.
  intros Hw Ha H. induction H as [|c chains Hc Hall IH]; simpl.
  - apply winter_vzero.
  - rewrite (winter_vadd_r w a c (vsum n chains) n) by (try assumption; apply vsum_length; assumption).
    rewrite IH. reflexivity.
Qed.

Lemma rsum_app l1 l2 : rsum (l1 ++ l2) = rsum l1 + rsum l2.
Proof. unfold rsum. induction l1 as [|x l1 IH]; simpl; [lra|]. rewrite IH. lra. Qed.

(* |sum_k a_k|^2 integrated = sum of single integrals + sum over pairs of interference integrals *)
Theorem wnorm_vsum_expansion w chains n : length w = n -> Forall (fun c => length c = n) chains ->
  wnorm w (vsum n chains) =
  rsum (map (wnorm w) chains) + rsum (map (fun p => winter w (fst p) (snd p)) (pairs chains)).
Proof.
  intros Hw H. induction H as [|a chains Ha Hall IH].
  - cbn [vsum fold_right map pairs rsum]. rewrite wnorm_vzero. lra.
  - change (vsum n (a :: chains)) with (vadd a (vsum n chains)).
    rewrite (wnorm_vadd w a (vsum n chains) n) by (try assumption; apply vsum_length; assumption).
    rewrite IH. rewrite (winter_vsum w a chains n) by assumption.
    cbn [pairs map]. rewrite map_app, rsum_app, map_map. cbn [fst snd].
    change (rsum (wnorm w a :: map (wnorm w) chains)) with (wnorm w a + rsum (map (wnorm w) chains)).
    change (fun x : list C => winter w a x) with (winter w a). lra.
Qed.

Lemma rsum_map_div (A : Type) (f : A -> R) (d : R) (l : list A) :
  rsum (map (fun x => f x / d) l) = rsum (map f l) / d.
Proof. unfold rsum. induction l as [|x l IH]; simpl; [lra|]. rewrite IH. lra. Qed.

(* fit-fraction sum rule: singles plus all pairwise interference fractions add up to one *)
Theorem ff_sum_rule w chains n : length w = n -> Forall (fun c => length c = n) chains ->
  I_all n w chains <> 0 -> FF_total n w chains = 1.
Proof.
  intros Hw H HI. unfold FF_total.
  assert (Hp : forall p, In p (pairs chains) ->
               FF_pair n w chains (fst p) (snd p) = winter w (fst p) (snd p) / I_all n w chains).
  { intros [a b] Hin. unfold FF_pair, FF_single; simpl.
    assert (Hab : length a = n /\ length b = n).
    { clear -H Hin. induction chains as [|c chains IH]; simpl in Hin; [contradiction|].
      inversion H as [|? ? Hc Hall]; subst. apply in_app_or in Hin. destruct Hin as [Hin|Hin].
      - apply in_map_iff in Hin. destruct Hin as [y [Heq Hy]]. inversion Heq; subst.
        split; [reflexivity|]. rewrite Forall_forall in Hall. apply Hall. exact Hy.
      - apply IH; assumption. }
    destruct Hab as [Ha Hb]. rewrite (wnorm_vadd w a b n) by assumption. field. exact HI. }
  assert (Hmap : map (fun p => FF_pair n w chains (fst p) (snd p)) (pairs chains)
                 = map (fun p => winter w (fst p) (snd p) / I_all n w chains) (pairs chains)).
  { apply map_ext_in. exact Hp. }
  rewrite Hmap. unfold FF_single.
  rewrite (rsum_map_div _ (wnorm w) (I_all n w chains) chains).
  rewrite (rsum_map_div _ (fun p => winter w (fst p) (snd p)) (I_all n w chains) (pairs chains)).
  unfold I_all in *. rewrite (wnorm_vsum_expansion w chains n Hw H) in *. field. exact HI.
Qed.

(* each chain is proportional to its own coupling *)
Lemma vscale_vscale z c a : vscale z (vscale c a) = vscale (Cmul z c) a.
Proof.
  unfold vscale. rewrite map_map. apply map_ext. intros [x y]. destruct z as [z1 z2], c as [c1 c2].
  unfold Cmul; simpl. f_equal; ring.
Qed.

Lemma wnorm_vscale w z a : wnorm w (vscale z a) = Cnorm2 z * wnorm w a.
Proof.
  revert a. induction w as [|x w IH]; intros [|y a]; simpl; try ring.
  rewrite IH. destruct z as [z1 z2], y as [y1 y2]. unfold Cnorm2, Cmul; simpl. ring.
Qed.

(* batches: the integral over a concatenated sample is the sum of the batch integrals *)
Theorem wnorm_app w1 w2 a1 a2 : length w1 = length a1 ->
  wnorm (w1 ++ w2) (a1 ++ a2) = wnorm w1 a1 + wnorm w2 a2.
Proof.
  revert a1. induction w1 as [|x w1 IH]; intros [|z a1] H; simpl in *; try lia; [lra|].
  rewrite IH by lia. lra.
Qed.

Lemma vadd_app a1 a2 b1 b2 : length a1 = length b1 ->
  vadd (a1 ++ a2) (b1 ++ b2) = vadd a1 b1 ++ vadd a2 b2.
Proof.
  revert b1. induction a1 as [|x a1 IH]; intros [|y b1] H; simpl in *; try lia; [reflexivity|].
  rewrite IH by lia. reflexivity.
Qed.

(* selection keeps exactly the flagged chains: the partial sum *)
Lemma select_all {A} (l : list A) : select (repeat true (length l)) l = l.
Proof. unfold select. induction l as [|x l IH]; simpl; [reflexivity|]. f_equal. exact IH. Qed.

(* ---------- chain order (C02) ---------- *)
From Coq Require Import Permutation.
Lemma Cadd_comm (a b : C) : Cadd a b = Cadd b a.
Proof. destruct a, b. unfold Cadd; simpl. f_equal; ring. Qed.
Lemma Cadd_assoc (a b c : C) : Cadd a (Cadd b c) = Cadd (Cadd a b) c.
Proof. destruct a, b, c. unfold Cadd; simpl. f_equal; ring. Qed.
Lemma vadd_comm a b : vadd a b = vadd b a.
Proof. revert b. induction a as [|x a IH]; intros [|y b]; simpl; try reflexivity. rewrite Cadd_comm, IH. reflexivity. Qed.
Lemma vadd_assoc a b c : vadd a (vadd b c) = vadd (vadd a b) c.
Proof.
  revert b c. induction a as [|x a IH]; intros [|y b] [|z c]; simpl; try reflexivity.
  rewrite Cadd_assoc, IH. reflexivity.
Qed.
Theorem vsum_perm n cs cs' : Permutation cs cs' -> vsum n cs = vsum n cs'.
Proof.
  induction 1 as [|x l l' _ IH|x y l|l1 l2 l3 _ IH1 _ IH2]; simpl.
  - reflexivity.
  - rewrite IH. reflexivity.
  - rewrite !vadd_assoc, (vadd_comm y x). reflexivity.
  - rewrite IH1. exact IH2.
Qed.
