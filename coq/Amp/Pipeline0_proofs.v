(* C04: the generic helicity pipeline for spin-0 externals IS the closed form (J <= 4). *)
From Coq Require Import Reals List ZArith QArith Lra Lia.
From TFV Require Import Base.RBase Shape.LineShapes Shape.LineShapes_proofs Rot.Wigner Rot.CG Amp.Coupling
     Amp.Dalitz3 Amp.Dalitz3_proofs Amp.Unitary Amp.Unitary_proofs Amp.Chain Amp.Pipeline0.
Import ListNotations.
Open Scope R_scope.

(* ---- the two LS couplings, exactly ---- *)
Lemma cgm_prod J : (J <= 4)%nat ->
  cgm_R 0 (2 * Z.of_nat J) 0 (Z.of_nat J) (2 * Z.of_nat J) 0 0 = (-1) ^ J.
Proof.
  intros HJ. unfold cgm_R.
  destruct J as [|[|[|[|[|J]]]]]; try lia; cbn [Z.of_nat Z.mul Pos.of_succ_nat Pos.succ Pos.mul].
  all: match goal with |- IZR (cgm_sign ?a ?b ?c ?d ?e ?f ?g) * sqrt (Q2R (cgm_sq ?a ?b ?c ?d ?e ?f ?g)) = _ =>
         replace (cgm_sign a b c d e f g) with (if Z.even d then 1%Z else (-1)%Z) by (vm_compute; reflexivity);
         replace (cgm_sq a b c d e f g) with (1%Q) by (vm_compute; reflexivity) end.
  all: unfold Q2R; cbn [Qnum Qden Z.even]; replace (1 * / 1) with 1 by field; rewrite sqrt_1; simpl; lra.
Qed.

Lemma cgm_dec J : (J <= 4)%nat ->
  cgm_R (2 * Z.of_nat J) 0 0 (Z.of_nat J) 0 0 0 = 1.
Proof.
  intros HJ. unfold cgm_R.
  destruct J as [|[|[|[|[|J]]]]]; try lia; cbn [Z.of_nat Z.mul Pos.of_succ_nat Pos.succ Pos.mul].
  all: match goal with |- IZR (cgm_sign ?a ?b ?c ?d ?e ?f ?g) * sqrt (Q2R (cgm_sq ?a ?b ?c ?d ?e ?f ?g)) = _ =>
         replace (cgm_sign a b c d e f g) with 1%Z by (vm_compute; reflexivity);
         replace (cgm_sq a b c d e f g) with (1%Q) by (vm_compute; reflexivity) end.
  all: unfold Q2R; cbn [Qnum Qden]; replace (1 * / 1) with 1 by field; rewrite sqrt_1; lra.
Qed.

(* ---- the first vertex: D^{0*}_{0, lR} is the Kronecker delta, whatever the angles ---- *)
Lemma D_lambda_spin0 lR phi th : D_lambda 0 0 lR 0 phi th 0 = if (lR =? 0)%Z then (1, 0) else (0, 0).
Proof.
  unfold D_lambda. replace (lR - 0)%Z with lR by lia.
  destruct (Z.eqb_spec lR 0) as [->|Hne].
  - cbn [Z.abs Z.leb Z.compare]. unfold Dconj. unfold dsmall. rewrite d00_hom_0.
    replace (IZR 0 / 2 * phi + IZR 0 / 2 * 0) with 0 by (simpl; field). rewrite cos_0, sin_0. f_equal; ring.
  - destruct (Z.leb_spec (Z.abs lR) 0) as [H|H]; [lia|reflexivity].
Qed.

(* sum over the resonance helicities: only lR = 0 survives *)
Lemma czsum_delta (L : list Z) (f : Z -> C) :
  NoDup L -> In 0%Z L -> (forall x, x <> 0%Z -> f x = (0, 0)) -> czsum L f = f 0%Z.
Proof.
  induction L as [|a L IH]; intros Hnd Hin Hz; [destruct Hin|].
  inversion Hnd as [|a' L' Hna HndL]; subst. cbn [czsum fold_right].
  destruct (Z.eq_dec a 0) as [->|Hne].
  - assert (E : czsum L f = (0, 0)).
    { clear IH Hin Hnd HndL. induction L as [|b L IHL]; [reflexivity|]. cbn [czsum fold_right].
      rewrite Hz by (intros ->; apply Hna; left; reflexivity).
      fold (czsum L f). rewrite IHL by (intros H; apply Hna; right; exact H).
      unfold Cadd; simpl; f_equal; ring. }
    fold (czsum L f). rewrite E. destruct (f 0%Z) as [x y]. unfold Cadd; simpl; f_equal; ring.
  - rewrite (Hz a Hne). fold (czsum L f). rewrite IH; [|assumption|destruct Hin; [congruence|assumption]|assumption].
    destruct (f 0%Z) as [x y]. unfold Cadd; simpl; f_equal; ring.
Qed.

Lemma zero_in_m_range J : In 0%Z (m_range (2 * Z.of_nat J)).
Proof.
  unfold m_range. apply in_map_iff. exists J. split; [cbn beta; lia|]. apply in_seq. split; [lia|].
  cbn [plus]. apply Nat2Z.inj_lt. rewrite Z2Nat.id by lia. lia.
Qed.

(* ---- the theorem ---- *)
Theorem generic_pipeline_is_closed_form J (g1 g2 : C) q2 q02 p p0 d mR m0R g0R phi1 th1 phi2 th2 :
  (J <= 4)%nat -> 0 < p -> 0 < p0 ->
  generic_chain0 J g1 g2 q2 q02 (p ^ 2) (p0 ^ 2) d (BWR mR m0R g0R p p0 J d) phi1 th1 phi2 th2
  = res_amp_core (Cmul g1 g2) J q2 q02 p p0 m0R g0R d mR (cos th2).
Proof.
  intros HJ Hp Hp0. unfold generic_chain0.
  rewrite czsum_delta; [|apply m_range_nodup|apply zero_in_m_range|].
  2:{ intros x Hx. unfold vertex_amp at 1. rewrite D_lambda_spin0.
      destruct (Z.eqb_spec x 0) as [E|_]; [contradiction|].
      destruct (H_sum _ _ _ _ _ _ _ _ x 0) as [u v]. destruct (BWR mR m0R g0R p p0 J d) as [b1 b2].
      destruct (vertex_amp _ _ x 0 0 phi2 th2 0) as [w z]. unfold Cmul; simpl. f_equal; ring. }
  unfold vertex_amp. rewrite D_lambda_spin0. cbn [Z.eqb].
  unfold D_lambda. replace (0 - 0)%Z with 0%Z by lia.
  destruct (Z.leb_spec (Z.abs 0) (2 * Z.of_nat J)) as [_|Hbad]; [|change (Z.abs 0) with 0%Z in Hbad; lia].
  unfold Dconj. replace (IZR 0 / 2 * phi2 + IZR 0 / 2 * 0) with 0 by (simpl; field). rewrite cos_0, sin_0.
  rewrite (d_J_00_is_legendre J th2 HJ).
  unfold H_sum. rewrite (cgm_prod J HJ), (cgm_dec J HJ).
  unfold barrier2. rewrite !Nat2Z.id.
  rewrite (bprime_q2_agrees J p p0 d) by lia.
  replace (sqrt (p ^ 2)) with p by (symmetry; replace (p ^ 2) with (p * p) by ring; apply sqrt_square; lra).
  unfold res_amp_core.
  destruct g1 as [a1 b1], g2 as [a2 b2], (BWR mR m0R g0R p p0 J d) as [x y].
  unfold Cmul, Cscal, Cadd; simpl. f_equal; ring.
Qed.

Print Assumptions generic_pipeline_is_closed_form.

(* ---- production barrier after the repair of Bprime_q2 (Pipeline0.v: Bprime_q2_abs) ---- *)
Lemma Bprime_q2_abs_eq_old L q2 q02 d :
  0 <= bp L (q02 * d ^ 2) -> Bprime_q2_abs L q2 q02 d = Bprime_q2 L q2 q02 d.
Proof.
  intros H. unfold Bprime_q2_abs, Bprime_q2, bp_ratio_abs, bp_ratio. rewrite (Rabs_pos_eq _ H). reflexivity.
Qed.

Lemma Bprime_q2_abs_inside L q2 q02 d : (L <= 8)%nat -> 0 <= q02 -> Bprime_q2_abs L q2 q02 d = Bprime_q2 L q2 q02 d.
Proof.
  intros HL H. apply Bprime_q2_abs_eq_old. apply Rlt_le, bp_pos; [assumption|].
  apply Rmult_le_pos; [assumption|apply pow2_ge_0].
Qed.

(* the event-dependent Blatt-Weisskopf shape 1/sqrt(P_L(q^2 d^2)) is present for EVERY nominal mass *)
Lemma Bprime_q2_abs_shape L q2 q02 d :
  (L <= 8)%nat -> 0 <= q2 -> bp L (q02 * d ^ 2) <> 0 ->
  Bprime_q2_abs L q2 q02 d = sqrt (Rabs (bp L (q02 * d ^ 2))) / sqrt (bp L (q2 * d ^ 2)).
Proof.
  intros HL Hq Hn. unfold Bprime_q2_abs, bp_ratio_abs.
  assert (Hd : 0 < bp L (q2 * d ^ 2)) by (apply bp_pos; [assumption|apply Rmult_le_pos; [assumption|apply pow2_ge_0]]).
  assert (Ha : 0 < Rabs (bp L (q02 * d ^ 2))) by (apply Rabs_pos_lt; exact Hn).
  destruct (Rlt_dec 0 (Rabs (bp L (q02 * d ^ 2)) / bp L (q2 * d ^ 2))) as [_|N].
  - apply sqrt_div_alt. exact Hd.
  - exfalso. apply N. apply Rdiv_lt_0_compat; assumption.
Qed.

(* the code before the repair dropped it: J = 1, d = 3, q0^2 = -1 (P_1 = 1 + z = -8 < 0), q^2 = 1 *)
Lemma bp_1 z : bp 1 z = z + 1.
Proof. unfold bp, polyval. cbn [bprime_table map fold_left]. ring. Qed.

Lemma Bprime_q2_old_drops_denominator :
  Bprime_q2 1 1 (-1) 3 = 1 /\ Bprime_q2_abs 1 1 (-1) 3 = sqrt (8 / 10).
Proof.
  split.
  - unfold Bprime_q2, bp_ratio. rewrite !bp_1.
    destruct (Rlt_dec 0 ((-1 * 3 ^ 2 + 1) / (1 * 3 ^ 2 + 1))) as [P|_]; [exfalso; lra|apply sqrt_1].
  - unfold Bprime_q2_abs, bp_ratio_abs. rewrite !bp_1.
    replace (-1 * 3 ^ 2 + 1) with (-8) by ring. replace (1 * 3 ^ 2 + 1) with 10 by ring.
    rewrite Rabs_left by lra. replace (- -8) with 8 by ring.
    destruct (Rlt_dec 0 (8 / 10)) as [_|N]; [reflexivity|exfalso; lra].
Qed.

Theorem Bprime_q2_old_shape_refuted :
  exists L q2 q02 d, (L <= 4)%nat /\ 0 < q2 /\ bp L (q02 * d ^ 2) <> 0 /\
    Bprime_q2 L q2 q02 d <> sqrt (Rabs (bp L (q02 * d ^ 2))) / sqrt (bp L (q2 * d ^ 2)).
Proof.
  exists 1%nat, 1, (-1), 3. split; [lia|]. split; [lra|].
  assert (Hn : bp 1 (-1 * 3 ^ 2) <> 0) by (rewrite bp_1; lra).
  split; [exact Hn|].
  rewrite <- (Bprime_q2_abs_shape 1 1 (-1) 3) by (try lia; try lra; exact Hn).
  destruct Bprime_q2_old_drops_denominator as [A B]. rewrite A, B.
  intros E. assert (H : sqrt (8 / 10) * sqrt (8 / 10) = 8 / 10) by (apply sqrt_sqrt; lra).
  rewrite <- E in H. lra.
Qed.

Lemma res_amp_core_abs_eq_old c J q2 q02 p p0 m0R g0R d mR cth :
  0 <= bp J (q02 * d ^ 2) ->
  res_amp_core_abs c J q2 q02 p p0 m0R g0R d mR cth = res_amp_core c J q2 q02 p p0 m0R g0R d mR cth.
Proof. intros H. unfold res_amp_core_abs, res_amp_core. rewrite (Bprime_q2_abs_eq_old _ _ _ _ H). reflexivity. Qed.

(* the generic pipeline (Amp/Chain.v, barrier of the code before the repair) is the repaired closed form wherever the two
   barriers agree: every nominal mass inside the kinematic limit (q0^2 >= 0) and, beyond it, as long as P_J(q0^2 d^2) >= 0 *)
Theorem generic_pipeline_is_closed_form_abs J (g1 g2 : C) q2 q02 p p0 d mR m0R g0R phi1 th1 phi2 th2 :
  (J <= 4)%nat -> 0 < p -> 0 < p0 -> 0 <= bp J (q02 * d ^ 2) ->
  generic_chain0 J g1 g2 q2 q02 (p ^ 2) (p0 ^ 2) d (BWR mR m0R g0R p p0 J d) phi1 th1 phi2 th2
  = res_amp_core_abs (Cmul g1 g2) J q2 q02 p p0 m0R g0R d mR (cos th2).
Proof.
  intros HJ Hp Hp0 Hb. rewrite (res_amp_core_abs_eq_old _ _ _ _ _ _ _ _ _ _ _ Hb).
  apply generic_pipeline_is_closed_form; assumption.
Qed.
Print Assumptions generic_pipeline_is_closed_form_abs.
Print Assumptions Bprime_q2_old_shape_refuted.
