From Coq Require Import List ZArith Arith Bool Reals Lra Lia.
From TFV Require Import Amp.SwapSign.
Import ListNotations.

Definition hom_check (f : list nat -> Z) (n : nat) : bool :=
  forallb (fun s => forallb (fun t => Z.eqb (f (compose s t)) (f s * f t)%Z) (perms n)) (perms n).

Lemma hom_check_sound f n : hom_check f n = true ->
  forall s t, In s (perms n) -> In t (perms n) -> f (compose s t) = (f s * f t)%Z.
Proof.
  unfold hom_check. intros H s t Hs Ht.
  rewrite forallb_forall in H. specialize (H s Hs). rewrite forallb_forall in H. specialize (H t Ht).
  now apply Z.eqb_eq.
Qed.

(* the repaired sign is a homomorphism of the permutation group of up to 5 identical fermions *)
Theorem swap_factor_hom : forall n s t, (n <= 5)%nat -> In s (perms n) -> In t (perms n) ->
  swap_factor true (compose s t) = (swap_factor true s * swap_factor true t)%Z.
Proof.
  intros n s t Hn. assert (Hc : hom_check (swap_factor true) n = true).
  { do 6 (destruct n as [|n]; [vm_compute; reflexivity|]). lia. }
  exact (hom_check_sound _ _ Hc s t).
Qed.

Theorem swap_factor_transposition : swap_factor true [1; 0]%nat = (-1)%Z /\ swap_factor true [0; 1]%nat = 1%Z
  /\ swap_factor true [1; 2; 0]%nat = 1%Z /\ swap_factor true [2; 0; 1]%nat = 1%Z /\ forall l, swap_factor false l = 1%Z.
Proof. repeat split. Qed.

(* old and new code agree for two identical particles: the defect needs three *)
Theorem swap_factor_old_agrees_n2 : forall s, In s (perms 2) -> swap_factor_old true s = swap_factor true s.
Proof. intros s [<-|[<-|[]]]; reflexivity. Qed.

Theorem swap_factor_old_not_hom_refuted : exists s t, In s (perms 3) /\ In t (perms 3) /\
  swap_factor_old true (compose s t) <> (swap_factor_old true s * swap_factor_old true t)%Z.
Proof.
  exists [1; 0; 2]%nat, [0; 2; 1]%nat. repeat split; try (vm_compute; tauto). vm_compute. discriminate.
Qed.

Theorem swap_factor_old_three_cycle : swap_factor_old true [1; 2; 0]%nat = (-1)%Z /\ swap_factor_old true [2; 0; 1]%nat = (-1)%Z.
Proof. split; reflexivity. Qed.

Open Scope R_scope.

(* three identical fermions: the symmetrised amplitude at a permuted event is eps(tau) times the one at the event,
   so its square (the density contribution) is unchanged - for ANY unsymmetrised amplitude a *)
Theorem sym3_covariant : forall (a : list nat -> R) tau, In tau (perms 3) ->
  sym_amp (swap_factor true) 3 a tau = IZR (swap_factor true tau) * sym_amp (swap_factor true) 3 a [0; 1; 2]%nat.
Proof.
  intros a tau H. cbv [perms perms_of seq flat_map insert_all map app] in H.
  repeat (destruct H as [<-|H]; [cbv [sym_amp perms perms_of seq flat_map insert_all map app compose nth fold_right swap_factor inversions filter length Nat.ltb Nat.leb Nat.even Nat.add]; lra|]).
  destruct H.
Qed.

Theorem sym3_density_invariant : forall (a : list nat -> R) tau, In tau (perms 3) ->
  (sym_amp (swap_factor true) 3 a tau) ^ 2 = (sym_amp (swap_factor true) 3 a [0; 1; 2]%nat) ^ 2.
Proof.
  intros a tau H. rewrite (sym3_covariant a tau H).
  assert (E : IZR (swap_factor true tau) = 1 \/ IZR (swap_factor true tau) = -1).
  { unfold swap_factor. destruct (Nat.even (inversions tau)); [left|right]; reflexivity. }
  destruct E as [-> | ->]; ring.
Qed.

(* with the old signs the symmetrised density of three identical fermions changes under a permutation of the momenta *)
Theorem sym3_old_density_refuted : exists (a : list nat -> R) tau, In tau (perms 3) /\
  (sym_amp (swap_factor_old true) 3 a tau) ^ 2 <> (sym_amp (swap_factor_old true) 3 a [0; 1; 2]%nat) ^ 2.
Proof.
  exists (fun l => if list_eqb l [0; 1; 2]%nat then 1 else if list_eqb l [1; 2; 0]%nat then 1 else 0), [1; 0; 2]%nat.
  split; [vm_compute; tauto|].
  cbv [sym_amp perms perms_of seq flat_map insert_all map app compose nth fold_right]. 
  cbv [list_eqb]. repeat match goal with |- context [list_eq_dec ?d ?x ?y] => destruct (list_eq_dec d x y); try discriminate; try congruence end.
  vm_compute swap_factor_old. lra.
Qed.
