From Coq Require Import Reals List ZArith Lra Lia.
From TFV Require Import Base.RBase Base.Tie Shape.LineShapes Amp.Dalitz3 Rot.Wigner.
Import ListNotations.
Open Scope R_scope.

Lemma p4_eq (a0 a1 a2 a3 b0 b1 b2 b3 : R) :
  a0 = b0 -> a1 = b1 -> a2 = b2 -> a3 = b3 -> (a0, a1, a2, a3) = (b0, b1, b2, b3).
Proof. intros; subst; reflexivity. Qed.

Lemma Cnorm2_nonneg z : 0 <= Cnorm2 z.
Proof. unfold Cnorm2. nra. Qed.

Theorem density3_nonneg M m1 m2 m3 d rs p1 p2 p3 : 0 <= density3 M m1 m2 m3 d rs p1 p2 p3.
Proof. apply Cnorm2_nonneg. Qed.

(* any additive map of four-vectors that preserves the Minkowski product - a rotation, a boost,
   the spatial inversion, or any product of them - leaves the density unchanged *)
Section Invariance.
  Variable L : P4 -> P4.
  Hypothesis L_add : forall a b, L (p4add a b) = p4add (L a) (L b).
  Hypothesis L_mink : forall a b, mink4 (L a) (L b) = mink4 a b.

  Lemma inv2_L a b : inv2 (L a) (L b) = inv2 a b.
  Proof. unfold inv2. rewrite <- L_add. apply L_mink. Qed.

  Lemma chain_amp_L M m1 m2 m3 d p1 p2 p3 r :
    chain_amp M m1 m2 m3 d (L p1) (L p2) (L p3) r = chain_amp M m1 m2 m3 d p1 p2 p3 r.
  Proof. unfold chain_amp. rewrite !inv2_L. reflexivity. Qed.

  Theorem density3_invariant M m1 m2 m3 d rs p1 p2 p3 :
    density3 M m1 m2 m3 d rs (L p1) (L p2) (L p3) = density3 M m1 m2 m3 d rs p1 p2 p3.
  Proof.
    unfold density3. f_equal. f_equal. apply map_ext. intros r. apply chain_amp_L.
  Qed.
End Invariance.

(* spatial inversion is such a map *)
Definition parity4 (a : P4) : P4 := let '(a0, a1, a2, a3) := a in (a0, - a1, - a2, - a3).
Lemma parity4_add a b : parity4 (p4add a b) = p4add (parity4 a) (parity4 b).
Proof. destruct a as [[[a0 a1] a2] a3], b as [[[b0 b1] b2] b3]. unfold parity4, p4add. apply p4_eq; ring. Qed.
Lemma parity4_mink a b : mink4 (parity4 a) (parity4 b) = mink4 a b.
Proof. destruct a as [[[a0 a1] a2] a3], b as [[[b0 b1] b2] b3]. unfold parity4, mink4. ring. Qed.

Theorem density3_parity_invariant M m1 m2 m3 d rs p1 p2 p3 :
  density3 M m1 m2 m3 d rs (parity4 p1) (parity4 p2) (parity4 p3) = density3 M m1 m2 m3 d rs p1 p2 p3.
Proof. apply density3_invariant; [apply parity4_add|apply parity4_mink]. Qed.

(* a rotation about the z axis by an angle with cosine c and sine s *)
Definition rotz4 (c s : R) (a : P4) : P4 := let '(a0, a1, a2, a3) := a in (a0, c * a1 - s * a2, s * a1 + c * a2, a3).
Theorem density3_rotz_invariant c s M m1 m2 m3 d rs p1 p2 p3 : c * c + s * s = 1 ->
  density3 M m1 m2 m3 d rs (rotz4 c s p1) (rotz4 c s p2) (rotz4 c s p3) = density3 M m1 m2 m3 d rs p1 p2 p3.
Proof.
  intros H. apply density3_invariant.
  - intros [[[a0 a1] a2] a3] [[[b0 b1] b2] b3]. unfold rotz4, p4add. apply p4_eq; ring.
  - intros [[[a0 a1] a2] a3] [[[b0 b1] b2] b3]. unfold rotz4, mink4.
    replace (a0 * b0 - (c * a1 - s * a2) * (c * b1 - s * b2) - (s * a1 + c * a2) * (s * b1 + c * b2) - a3 * b3)
      with (a0 * b0 - (c * c + s * s) * (a1 * b1) - (c * c + s * s) * (a2 * b2) - a3 * b3) by ring.
    rewrite H. ring.
Qed.

(* a boost along z with rapidity parameters ch, sh (ch^2 - sh^2 = 1) *)
Definition boostz4 (ch sh : R) (a : P4) : P4 := let '(a0, a1, a2, a3) := a in (ch * a0 + sh * a3, a1, a2, sh * a0 + ch * a3).
Theorem density3_boostz_invariant ch sh M m1 m2 m3 d rs p1 p2 p3 : ch * ch - sh * sh = 1 ->
  density3 M m1 m2 m3 d rs (boostz4 ch sh p1) (boostz4 ch sh p2) (boostz4 ch sh p3) = density3 M m1 m2 m3 d rs p1 p2 p3.
Proof.
  intros H. apply density3_invariant.
  - intros [[[a0 a1] a2] a3] [[[b0 b1] b2] b3]. unfold boostz4, p4add. apply p4_eq; ring.
  - intros [[[a0 a1] a2] a3] [[[b0 b1] b2] b3]. unfold boostz4, mink4.
    replace ((ch * a0 + sh * a3) * (ch * b0 + sh * b3) - a1 * b1 - a2 * b2 - (sh * a0 + ch * a3) * (sh * b0 + ch * b3))
      with ((ch * ch - sh * sh) * (a0 * b0) - a1 * b1 - a2 * b2 - (ch * ch - sh * sh) * (a3 * b3)) by ring.
    rewrite H. ring.
Qed.

(* the explicit polynomials are the Legendre polynomials (Bonnet recursion) *)
Lemma legendre_is_bonnet_le4 x :
  fst (legendre_rec 0 x) = legendre 0 x /\ fst (legendre_rec 1 x) = legendre 1 x /\
  fst (legendre_rec 2 x) = legendre 2 x /\ fst (legendre_rec 3 x) = legendre 3 x /\
  fst (legendre_rec 4 x) = legendre 4 x.
Proof. repeat split; cbn [legendre_rec legendre fst INR]; field. Qed.

(* D^{J*}_{00}(phi,theta,0) = d^J_00(theta) = P_J(cos theta), J = 0..4, as a polynomial identity in
   (c,s) = (cos theta/2, sin theta/2); cos theta = c^2 - s^2 *)
Lemma d00_hom_0 c s : dsmall_cs 0 0 0 c s = 1.
Proof. unfold dsmall_cs. rcompute. rewrite sqrt_1. field. Qed.

Definition hleg (J : nat) (c s : R) : R :=
  let x := c * c - s * s in let n := c * c + s * s in
  match J with
  | 0%nat => 1 | 1%nat => x | 2%nat => (3 * x ^ 2 - n ^ 2) / 2 | 3%nat => (5 * x ^ 3 - 3 * x * n ^ 2) / 2
  | _ => (35 * x ^ 4 - 30 * x ^ 2 * n ^ 2 + 3 * n ^ 4) / 8
  end.

Lemma sqrt_sq_IZR z : (0 <= z)%Z -> sqrt (IZR (z * z)) = IZR z.
Proof. intros H. rewrite mult_IZR. apply sqrt_square. apply IZR_le. exact H. Qed.

Lemma d00_is_hleg c s :
  dsmall_cs 2 0 0 c s = hleg 1 c s /\ dsmall_cs 4 0 0 c s = hleg 2 c s /\
  dsmall_cs 6 0 0 c s = hleg 3 c s /\ dsmall_cs 8 0 0 c s = hleg 4 c s.
Proof.
  repeat split; unfold dsmall_cs.
  - replace (a_of 2 0 * a_of 2 0)%Z with (1 * 1)%Z by reflexivity. rewrite sqrt_sq_IZR by lia. rcompute. field.
  - replace (a_of 4 0 * a_of 4 0)%Z with (4 * 4)%Z by reflexivity. rewrite sqrt_sq_IZR by lia. rcompute. field.
  - replace (a_of 6 0 * a_of 6 0)%Z with (36 * 36)%Z by reflexivity. rewrite sqrt_sq_IZR by lia. rcompute. field.
  - replace (a_of 8 0 * a_of 8 0)%Z with (576 * 576)%Z by reflexivity. rewrite sqrt_sq_IZR by lia. rcompute. field.
Qed.

Lemma hleg_legendre J c s : (J <= 4)%nat -> c * c + s * s = 1 -> hleg J c s = legendre J (c * c - s * s).
Proof.
  intros HJ H. destruct J as [|[|[|[|[|J]]]]]; try lia; unfold hleg, legendre; cbv zeta; try rewrite H; field.
Qed.

Theorem d_J_00_is_legendre J beta : (J <= 4)%nat ->
  dsmall (2 * Z.of_nat J) 0 0 beta = legendre J (cos beta).
Proof.
  intros HJ. unfold dsmall.
  set (c := cos (beta / 2)). set (s := sin (beta / 2)).
  assert (Hcs : c * c + s * s = 1).
  { pose proof (sin2_cos2 (beta / 2)) as H. unfold Rsqr in H. unfold c, s. lra. }
  assert (Hcos : cos beta = c * c - s * s).
  { replace beta with (2 * (beta / 2)) at 1 by field. rewrite cos_2a. reflexivity. }
  rewrite Hcos. pose proof (d00_is_hleg c s) as [H1 [H2 [H3 H4]]].
  destruct J as [|[|[|[|[|J]]]]]; try lia; cbn [Z.of_nat Z.mul Pos.of_succ_nat Pos.succ Pos.mul].
  - rewrite d00_hom_0. reflexivity.
  - rewrite H1. apply hleg_legendre; [lia|exact Hcs].
  - rewrite H2. apply hleg_legendre; [lia|exact Hcs].
  - rewrite H3. apply hleg_legendre; [lia|exact Hcs].
  - rewrite H4. apply hleg_legendre; [lia|exact Hcs].
Qed.
