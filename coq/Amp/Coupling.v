(* LS -> helicity coupling matrix of HelicityDecay.get_cg_matrix as exact radicals:
   sqrt((2l+1)/(2ja+1)) <jb lb jc -lc | s lb-lc> <l 0 s lb-lc | ja lb-lc>.  Doubled spins; l plain. *)
From Coq Require Import List ZArith QArith Bool.
From TFV Require Import Rot.Wigner Rot.CG.
Import ListNotations.
Open Scope Z_scope.

Definition cgm_sq (ja2 jb2 jc2 l s2 lb2 lc2 : Z) : Q :=
  Qred (((2 * l + 1) # Z.to_pos (ja2 + 1))
        * cg_sq jb2 lb2 jc2 (- lc2) s2 (lb2 - lc2)
        * cg_sq (2 * l) 0 s2 (lb2 - lc2) ja2 (lb2 - lc2))%Q.
Definition cgm_sign (ja2 jb2 jc2 l s2 lb2 lc2 : Z) : Z :=
  cg_sign jb2 lb2 jc2 (- lc2) s2 (lb2 - lc2) * cg_sign (2 * l) 0 s2 (lb2 - lc2) ja2 (lb2 - lc2).

Definition cgm_ok (tol : Q) (c : Z * Z * Z * Z * Z * Z * Z * Q) : bool :=
  let '(ja2, jb2, jc2, l, s2, lb2, lc2, w) := c in
  let d := (w * w - cgm_sq ja2 jb2 jc2 l s2 lb2 lc2)%Q in
  Qle_bool (- tol) d && Qle_bool d tol &&
  match cgm_sign ja2 jb2 jc2 l s2 lb2 lc2 with
  | 0 => true | Zpos _ => Qle_bool 0 w | Zneg _ => Qle_bool w 0 end.

(* spinless cascade 0 -> J 0, J -> 0 0: the single couplings are (-1)^J and 1 *)
Definition spinless_ok (J : Z) : bool :=
  Qeq_bool (cgm_sq 0 (2 * J) 0 J (2 * J) 0 0) 1 &&
  (cgm_sign 0 (2 * J) 0 J (2 * J) 0 0 =? (if Z.even J then 1 else -1)) &&
  Qeq_bool (cgm_sq (2 * J) 0 0 J 0 0 0) 1 && (cgm_sign (2 * J) 0 0 J 0 0 0 =? 1).
