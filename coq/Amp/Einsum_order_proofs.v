(* C05 (order ties): the transposition / reshape step of tensor_einsum_reduce_sum
   (model: Einsum_order.v) against the reference contraction [einsum_spec].

   Results:
     sort_new_consistent          sorting an operand's index list with the key (order, name) gives
                                  the common layout restricted to the operand's indices
     relabel_consistent_tget      when that holds the relabelled operand has the operand's entries
     reduce_sum_step_new_correct  with the repaired key the step IS the reference contraction
                                  (equality of tensors)
     reduce_sum_step_old_refuted  with the key (order) alone it is not: concrete witness with a tie
     reduce_sum_step_new_witness  the same witness satisfies the hypotheses of the main theorem
                                  and the repaired step agrees with the reference on it *)
From Coq Require Import List Arith Bool Permutation Lia Sorted QArith.
From TFV Require Import Amp.Einsum Amp.Einsum_proofs Amp.Einsum_path.
From TFV Require Import Amp.Einsum_order.
Import ListNotations.
Local Open Scope nat_scope.

(* ---------------------------------------------------------------------- *)
(* 1. the stable insertion sort                                            *)
(* ---------------------------------------------------------------------- *)

Section SortBy.
  Variable le : nat -> nat -> bool.
  Hypothesis le_total : forall a b, le a b = false -> le b a = true.
  Hypothesis le_trans : forall a b c, le a b = true -> le b c = true -> le a c = true.

  Definition lek (a b : nat) : Prop := le a b = true.

  Lemma insert_by_perm x l : Permutation (insert_by le x l) (x :: l).
  Proof.
    induction l as [|y l IH]; cbn [insert_by]; [apply Permutation_refl|].
    destruct (le x y); [apply Permutation_refl|].
    apply Permutation_trans with (y :: x :: l); [constructor; exact IH|apply perm_swap].
  Qed.

  Lemma sort_by_perm l : Permutation (sort_by le l) l.
  Proof.
    induction l as [|x l IH]; [constructor|].
    unfold sort_by. cbn [fold_right]. fold (sort_by le l).
    apply Permutation_trans with (x :: sort_by le l); [apply insert_by_perm|constructor; exact IH].
  Qed.

  Lemma insert_by_sorted x l :
    StronglySorted lek l -> StronglySorted lek (insert_by le x l).
  Proof.
    induction l as [|y l IH]; intros Hs; cbn [insert_by].
    - constructor; constructor.
    - apply StronglySorted_inv in Hs. destruct Hs as [Hsl Hy].
      destruct (le x y) eqn:Exy.
      + constructor; [constructor; assumption|].
        constructor; [exact Exy|].
        rewrite Forall_forall in Hy |- *. intros z Hz.
        exact (le_trans x y z Exy (Hy z Hz)).
      + constructor; [apply IH; exact Hsl|].
        rewrite Forall_forall in Hy |- *. intros z Hz.
        apply (Permutation_in z (insert_by_perm x l)) in Hz.
        destruct Hz as [Hz|Hz]; [subst z; apply le_total; exact Exy|exact (Hy z Hz)].
  Qed.

  Lemma sort_by_sorted l : StronglySorted lek (sort_by le l).
  Proof.
    induction l as [|x l IH]; [constructor|].
    unfold sort_by. cbn [fold_right]. fold (sort_by le l).
    apply insert_by_sorted. exact IH.
  Qed.
End SortBy.

(* generic facts about strongly sorted lists *)
Lemma StronglySorted_filter_nat (R : nat -> nat -> Prop) (f : nat -> bool) l :
  StronglySorted R l -> StronglySorted R (filter f l).
Proof.
  induction l as [|x l IH]; intros Hs; [constructor|].
  apply StronglySorted_inv in Hs. destruct Hs as [Hsl Hx].
  cbn [filter]. destruct (f x); [|apply IH; exact Hsl].
  constructor; [apply IH; exact Hsl|].
  rewrite Forall_forall in Hx |- *. intros z Hz.
  apply filter_In in Hz. destruct Hz as [Hz _]. exact (Hx z Hz).
Qed.

Lemma StronglySorted_strict (R S : nat -> nat -> Prop) l :
  (forall a b, R a b -> a <> b -> S a b) ->
  NoDup l -> StronglySorted R l -> StronglySorted S l.
Proof.
  intros HRS. induction l as [|x l IH]; intros Hnd Hs; [constructor|].
  apply StronglySorted_inv in Hs. destruct Hs as [Hsl Hx].
  inversion Hnd as [|x' l' Hnin Hndl]; subst x' l'.
  constructor; [apply IH; assumption|].
  rewrite Forall_forall in Hx |- *. intros z Hz.
  apply HRS; [exact (Hx z Hz)|]. intros E. subst z. exact (Hnin Hz).
Qed.

(* a list sorted w.r.t. an irreflexive, asymmetric relation is determined by its elements *)
Lemma StronglySorted_unique (S : nat -> nat -> Prop) :
  (forall a, ~ S a a) -> (forall a b, S a b -> S b a -> False) ->
  forall l1 l2, StronglySorted S l1 -> StronglySorted S l2 ->
    (forall x, In x l1 <-> In x l2) -> l1 = l2.
Proof.
  intros Hirr Hasym. induction l1 as [|x l1 IH]; intros l2 Hs1 Hs2 Hmem.
  - destruct l2 as [|y l2]; [reflexivity|].
    exfalso. apply (proj2 (Hmem y)). left. reflexivity.
  - destruct l2 as [|y l2].
    + exfalso. apply (proj1 (Hmem x)). left. reflexivity.
    + apply StronglySorted_inv in Hs1. destruct Hs1 as [Hs1 Hx].
      apply StronglySorted_inv in Hs2. destruct Hs2 as [Hs2 Hy].
      rewrite Forall_forall in Hx, Hy.
      assert (Exy : x = y).
      { destruct (Nat.eq_dec x y) as [E|Hne]; [exact E|exfalso].
        assert (Hxin : In x l2).
        { destruct (proj1 (Hmem x) (or_introl eq_refl)) as [E|H]; [|exact H].
          exfalso. apply Hne. symmetry. exact E. }
        assert (Hyin : In y l1).
        { destruct (proj2 (Hmem y) (or_introl eq_refl)) as [E|H]; [|exact H].
          exfalso. apply Hne. exact E. }
        exact (Hasym x y (Hx y Hyin) (Hy x Hxin)). }
      subst y. f_equal. apply IH; [exact Hs1|exact Hs2|].
      intros z. split; intros Hz.
      * destruct (proj1 (Hmem z) (or_intror Hz)) as [E|H]; [|exact H].
        subst z. exfalso. exact (Hirr x (Hx x Hz)).
      * destruct (proj2 (Hmem z) (or_intror Hz)) as [E|H]; [|exact H].
        subst z. exfalso. exact (Hirr x (Hy x Hz)).
Qed.

(* ---------------------------------------------------------------------- *)
(* 2. the repaired key (order, name)                                       *)
(* ---------------------------------------------------------------------- *)

Lemma le_new_spec ord a b :
  le_new ord a b = true <-> ord a < ord b \/ (ord a = ord b /\ a <= b).
Proof.
  unfold le_new. rewrite orb_true_iff, andb_true_iff, Nat.ltb_lt, Nat.eqb_eq, Nat.leb_le.
  reflexivity.
Qed.

Lemma le_new_total ord a b : le_new ord a b = false -> le_new ord b a = true.
Proof.
  intros H. apply le_new_spec.
  destruct (le_new ord a b) eqn:E; [discriminate H|clear H].
  assert (Hn : ~ (ord a < ord b \/ (ord a = ord b /\ a <= b))).
  { intros Hc. apply le_new_spec in Hc. rewrite Hc in E. discriminate E. }
  lia.
Qed.

Lemma le_new_trans ord a b c :
  le_new ord a b = true -> le_new ord b c = true -> le_new ord a c = true.
Proof. rewrite !le_new_spec. lia. Qed.

(* the strict lexicographic order on (order, name) *)
Definition lt_new (ord : key) (a b : nat) : Prop :=
  ord a < ord b \/ (ord a = ord b /\ a < b).

Lemma sort_new_perm ord l : Permutation (sort_new ord l) l.
Proof. apply sort_by_perm. Qed.

Lemma sort_new_In ord l x : In x (sort_new ord l) <-> In x l.
Proof.
  split; intros H.
  - exact (Permutation_in x (sort_new_perm ord l) H).
  - exact (Permutation_in x (Permutation_sym (sort_new_perm ord l)) H).
Qed.

Lemma sort_new_strict ord l : NoDup l -> StronglySorted (lt_new ord) (sort_new ord l).
Proof.
  intros Hnd.
  apply (StronglySorted_strict (lek (le_new ord)) (lt_new ord)).
  - intros a b Hab Hne. apply le_new_spec in Hab. unfold lt_new. lia.
  - exact (Permutation_NoDup (Permutation_sym (sort_new_perm ord l)) Hnd).
  - apply sort_by_sorted; [apply le_new_total|apply le_new_trans].
Qed.

Theorem sort_new_consistent (ord : key) (l all : list nat) :
  NoDup l -> NoDup all -> incl l all ->
  sort_new ord l = filter (fun i => existsb (Nat.eqb i) l) (sort_new ord all).
Proof.
  intros Hl Hall Hincl.
  apply (StronglySorted_unique (lt_new ord)).
  - intros a. unfold lt_new. lia.
  - intros a b. unfold lt_new. lia.
  - apply sort_new_strict. exact Hl.
  - apply StronglySorted_filter_nat. apply sort_new_strict. exact Hall.
  - intros x. rewrite filter_In, existsb_eqb_In, !sort_new_In. split.
    + intros Hx. split; [exact (Hincl x Hx)|exact Hx].
    + intros [_ Hx]. exact Hx.
Qed.

(* ---------------------------------------------------------------------- *)
(* 3. the relabelled operand                                               *)
(* ---------------------------------------------------------------------- *)

Section RelabelEntries.
  Variable K : Type.
  Variable kzero : K.

  Theorem relabel_consistent_tget (sz : list (nat * nat)) (srt : list nat -> list nat)
          (req : list nat) (t : tensor K) :
    srt (t_idx K t) = filter (fun i => existsb (Nat.eqb i) (t_idx K t)) req ->
    Permutation (srt (t_idx K t)) (t_idx K t) ->
    forall a, in_range sz (t_idx K t) a ->
      tget K kzero sz (relabel K kzero sz srt req t) a = tget K kzero sz t a.
  Proof.
    intros Hcons Hperm a Hr.
    unfold Einsum.tget at 1. unfold relabel. cbn [Einsum.t_idx Einsum.t_data].
    rewrite <- Hcons.
    change (tget K kzero sz (transpose_to K kzero sz t (srt (t_idx K t))) a = tget K kzero sz t a).
    rewrite tget_transpose_to.
    - apply tget_ext. intros i Hi. apply aval_canon.
      exact (Permutation_in i (Permutation_sym Hperm) Hi).
    - intros i Hi. apply Hr. exact (Permutation_in i Hperm Hi).
  Qed.
End RelabelEntries.

(* ---------------------------------------------------------------------- *)
(* 4. the step with the repaired key is the reference contraction          *)
(* ---------------------------------------------------------------------- *)

Section StepCorrect.
  Variable K : Type.
  Variable kzero kone : K.
  Variable kadd kmul : K -> K -> K.
  Hypothesis kadd_comm : forall a b, kadd a b = kadd b a.
  Hypothesis kadd_assoc : forall a b c, kadd a (kadd b c) = kadd (kadd a b) c.
  Hypothesis kadd_0_l : forall a, kadd kzero a = a.

  Notation tensor := (tensor K).
  Notation t_idx := (t_idx K).
  Notation tget := (tget K kzero).
  Notation ksum := (ksum K kzero kadd).
  Notation contracted := (contracted K).
  Notation einsum_spec := (einsum_spec K kzero kone kadd kmul).
  Notation pent := (pent K kzero kone kmul).
  Notation relabel := (relabel K kzero).
  Notation reduce_sum_step := (reduce_sum_step K kzero kone kadd kmul).
  Notation all_idx := (all_idx K).
  Notation require_order := (require_order K).

  Lemma all_idx_In part i : In i (all_idx part) <-> In i (flat_map t_idx part).
  Proof. unfold Einsum_order.all_idx. apply nodup_In. Qed.

  Lemma all_idx_NoDup part : NoDup (all_idx part).
  Proof. apply NoDup_nodup. Qed.

  (* the operand's sorted index list is the common layout restricted to the operand *)
  Lemma sort_new_part_consistent ord part t :
    In t part -> NoDup (t_idx t) ->
    sort_new ord (t_idx t) =
    filter (fun i => existsb (Nat.eqb i) (t_idx t)) (require_order (sort_new ord) part).
  Proof.
    intros Ht Hnd. unfold Einsum_order.require_order.
    apply sort_new_consistent; [exact Hnd|apply all_idx_NoDup|].
    intros i Hi. apply all_idx_In. apply in_flat_map. exists t. split; assumption.
  Qed.

  (* relabelling keeps the set of index names of each operand ... *)
  Lemma relabel_idx_In sz ord part t i :
    In t part ->
    (In i (t_idx (relabel sz (sort_new ord) (require_order (sort_new ord) part) t)) <->
     In i (t_idx t)).
  Proof.
    intros Ht. unfold Einsum_order.relabel. cbn [Einsum.t_idx].
    rewrite filter_In, existsb_eqb_In. unfold Einsum_order.require_order.
    rewrite sort_new_In, all_idx_In. split.
    - intros [_ Hi]. exact Hi.
    - intros Hi. split; [|exact Hi]. apply in_flat_map. exists t. split; assumption.
  Qed.

  (* ... hence of the whole sub-list *)
  Lemma relabel_flat_In sz ord part i :
    In i (flat_map t_idx (map (relabel sz (sort_new ord) (require_order (sort_new ord) part)) part))
    <-> In i (flat_map t_idx part).
  Proof.
    rewrite !in_flat_map. split.
    - intros [t' [Ht' Hi]]. apply in_map_iff in Ht'. destruct Ht' as [t [Et Ht]]. subst t'.
      exists t. split; [exact Ht|]. apply (relabel_idx_In sz ord part t i Ht). exact Hi.
    - intros [t [Ht Hi]].
      exists (relabel sz (sort_new ord) (require_order (sort_new ord) part) t).
      split; [apply in_map; exact Ht|]. apply (relabel_idx_In sz ord part t i Ht). exact Hi.
  Qed.

  (* the summed names are the same up to their order *)
  Lemma relabel_contracted_perm sz ord part keep :
    Permutation
      (contracted (map (relabel sz (sort_new ord) (require_order (sort_new ord) part)) part) keep)
      (contracted part keep).
  Proof.
    apply NoDup_Permutation; [apply contracted_NoDup|apply contracted_NoDup|].
    intros i. rewrite !contracted_In, relabel_flat_In. reflexivity.
  Qed.

  (* MAIN THEOREM: no operand repeats an index (such operands are delegated to tf.einsum before
     this step); with the key (order, name) the transposition / reshape / broadcast product /
     reduce_sum step is the reference contraction *)
  Theorem reduce_sum_step_new_correct (sz : list (nat * nat)) (ord : key)
          (part : list tensor) (keep : list nat) :
    (forall t, In t part -> NoDup (t_idx t)) ->
    reduce_sum_step sz (sort_new ord) part keep = einsum_spec sz part keep.
  Proof.
    intros Hnd. unfold Einsum_order.reduce_sum_step.
    set (req := require_order (sort_new ord) part).
    set (part' := map (relabel sz (sort_new ord) req) part).
    unfold Einsum.einsum_spec. f_equal.
    apply map_ext_in. intros ao Hao.
    pose proof (all_asg_keys sz keep ao Hao) as Hko.
    change (fun ac => kprod K kone kmul (map (fun t => tget sz t (ao ++ ac)) part'))
      with (fun ac => pent sz part' (ao ++ ac)).
    change (fun ac => kprod K kone kmul (map (fun t => tget sz t (ao ++ ac)) part))
      with (fun ac => pent sz part (ao ++ ac)).
    pose proof (sum_perm K kzero kadd kadd_comm kadd_assoc kadd_0_l sz _ _
                         (relabel_contracted_perm sz ord part keep)
                         (fun ac => pent sz part' (ao ++ ac))
                         (pent_ext K kzero kone kmul sz part' ao)) as Hsum.
    fold req in Hsum. fold part' in Hsum. rewrite Hsum. clear Hsum.
    apply (ksum_ext K kzero kadd). intros ac Hac.
    pose proof (all_asg_keys sz _ ac Hac) as Hkc.
    unfold Einsum_path.pent, part'. rewrite map_map. f_equal.
    apply map_ext_in. intros t Ht.
    apply relabel_consistent_tget.
    - exact (sort_new_part_consistent ord part t Ht (Hnd t Ht)).
    - apply sort_new_perm.
    - intros i Hi.
      destruct (in_dec Nat.eq_dec i keep) as [Hk|Hk].
      + rewrite aval_app_l by (rewrite Hko; exact Hk).
        exact (all_asg_range sz keep ao Hao i Hk).
      + rewrite aval_app_r by (rewrite Hko; exact Hk).
        apply (all_asg_range sz _ ac Hac i).
        apply contracted_In. split; [|exact Hk].
        apply in_flat_map. exists t. split; assumption.
  Qed.
End StepCorrect.

(* the semiring laws used are satisfiable: natural numbers *)
Example reduce_sum_step_new_correct_nat sz ord (part : list (tensor nat)) keep :
  (forall t, In t part -> NoDup (t_idx nat t)) ->
  reduce_sum_step nat 0 1 Nat.add Nat.mul sz (sort_new ord) part keep =
  einsum_spec nat 0 1 Nat.add Nat.mul sz part keep.
Proof.
  apply (reduce_sum_step_new_correct nat 0 1 Nat.add Nat.mul
           Nat.add_comm Nat.add_assoc Nat.add_0_l).
Qed.

(* ---------------------------------------------------------------------- *)
(* 5. the key (order) alone: a tie mislabels the data                      *)
(* ---------------------------------------------------------------------- *)

(* names b = 1, c = 2, d = 3, all of size 2; order b = 100, order c = order d = 101;
   operands "cbd" and "dbc", kept index "b" *)
Definition w_sz : list (nat * nat) := [(1, 2); (2, 2); (3, 2)].
Definition w_ord : key := fun i => if Nat.eqb i 1 then 100 else 101.
Definition qi (n m : Z) : Qc := (n # 1, m # 1)%Q.
Definition w_A : tensor Qc :=
  {| t_idx := [2; 1; 3];
     t_data := [qi 1 0; qi 2 1; qi 3 0; qi 5 (-1); qi 7 2; qi 11 0; qi 13 3; qi 17 0] |}.
Definition w_B : tensor Qc :=
  {| t_idx := [3; 1; 2];
     t_data := [qi 1 1; qi 0 2; qi 4 0; qi 6 (-3); qi 9 0; qi 10 1; qi 12 0; qi 19 5] |}.
Definition w_part : list (tensor Qc) := [w_A; w_B].
Definition w_keep : list nat := [1].

(* common layout "bdc" (old) / "bcd" (new); with the old key the first operand is transposed to
   "bcd" but read as "bdc" *)
Eval vm_compute in (require_order Qc (sort_old w_ord) w_part, require_order Qc (sort_new w_ord) w_part).
Eval vm_compute in (map (fun t => sort_old w_ord (t_idx Qc t)) w_part).
Eval vm_compute in (map (fun t => t_idx Qc (relabel Qc qc_zero w_sz (sort_old w_ord)
                                             (require_order Qc (sort_old w_ord) w_part) t)) w_part).
Eval vm_compute in (reduce_sum_step_q_old w_ord w_sz w_part w_keep).
Eval vm_compute in (reduce_sum_step_q_new w_ord w_sz w_part w_keep).
Eval vm_compute in (einsum_q w_sz w_part w_keep).

Lemma w_part_NoDup : forall t, In t w_part -> NoDup (t_idx Qc t).
Proof.
  intros t Ht. unfold w_part in Ht. cbn [In] in Ht.
  destruct Ht as [Ht|[Ht|[]]]; subst t; cbn [t_idx w_A w_B];
    repeat (constructor; [cbn [In]; intros Hin; repeat (destruct Hin as [Hin|Hin]; [discriminate Hin|]); exact Hin|]);
    constructor.
Qed.

Theorem reduce_sum_step_old_refuted :
  exists (sz : list (nat * nat)) (ord : key) (part : list (tensor Qc)) (keep : list nat),
    (forall t, In t part -> NoDup (t_idx Qc t)) /\
    reduce_sum_step_q_old ord sz part keep <> einsum_q sz part keep.
Proof.
  exists w_sz, w_ord, w_part, w_keep. split; [exact w_part_NoDup|].
  intros H. apply (f_equal (t_data Qc)) in H. vm_compute in H. discriminate H.
Qed.

(* non-vacuity: the witness satisfies the hypothesis of the main theorem, and the repaired step
   agrees with the reference on it *)
Example reduce_sum_step_new_witness :
  (forall t, In t w_part -> NoDup (t_idx Qc t)) /\
  reduce_sum_step_q_new w_ord w_sz w_part w_keep = einsum_q w_sz w_part w_keep.
Proof. split; [exact w_part_NoDup|vm_compute; reflexivity]. Qed.

(* the tie is what matters: the two sorts differ on the first operand only through c, d *)
Example sort_old_keeps_tie_order :
  sort_old w_ord [3; 2] = [3; 2] /\ sort_old w_ord [2; 3] = [2; 3] /\
  sort_new w_ord [3; 2] = [2; 3] /\ sort_new w_ord [2; 3] = [2; 3].
Proof. vm_compute. repeat split. Qed.

Check sort_new_consistent.
Check relabel_consistent_tget.
Check reduce_sum_step_new_correct.
Check reduce_sum_step_old_refuted.
Check reduce_sum_step_new_witness.
Print Assumptions sort_new_consistent.
Print Assumptions relabel_consistent_tget.
Print Assumptions reduce_sum_step_new_witness.
Print Assumptions reduce_sum_step_new_correct.
Print Assumptions reduce_sum_step_old_refuted.
