(* C01: the spinless closed-form density under the ACTUAL boost / rotation / inversion of the
   kinematics model (Kin/Boost.v, which is tied to tf_pwa.angle.LorentzVector in C11). *)
From Coq Require Import Reals List ZArith Lra.
From TFV Require Import Base.RBase Shape.LineShapes Amp.Dalitz3 Amp.Dalitz3_proofs Kin.Boost Kin.Boost_proofs.
Import ListNotations.
Open Scope R_scope.

Definition to_P4 (p : vec4) : P4 := (pt p, px p, py p, pz p).
Definition of_P4 (a : P4) : vec4 := let '(a0, a1, a2, a3) := a in V4 a0 a1 a2 a3.

Lemma of_to p : of_P4 (to_P4 p) = p.
Proof. destruct p; reflexivity. Qed.
Lemma to_of a : to_P4 (of_P4 a) = a.
Proof. destruct a as [[[a0 a1] a2] a3]; reflexivity. Qed.
Lemma mink4_mink a b : mink4 a b = mink (of_P4 a) (of_P4 b).
Proof. destruct a as [[[a0 a1] a2] a3], b as [[[b0 b1] b2] b3]; reflexivity. Qed.
Lemma p4add_add4 a b : of_P4 (p4add a b) = add4 (of_P4 a) (of_P4 b).
Proof. destruct a as [[[a0 a1] a2] a3], b as [[[b0 b1] b2] b3]; reflexivity. Qed.

(* lift a transformation of vec4 to P4 *)
Definition lift (f : vec4 -> vec4) (a : P4) : P4 := to_P4 (f (of_P4 a)).

Theorem density3_boost_invariant v M m1 m2 m3 d rs p1 p2 p3 : vel_ok v ->
  density3 M m1 m2 m3 d rs (lift (fun p => boost p v) p1) (lift (fun p => boost p v) p2) (lift (fun p => boost p v) p3)
  = density3 M m1 m2 m3 d rs p1 p2 p3.
Proof.
  intros Hv. apply density3_invariant.
  - intros a b. unfold lift. rewrite p4add_add4, boost_add.
    destruct (boost (of_P4 a) v), (boost (of_P4 b) v); reflexivity.
  - intros a b. unfold lift. rewrite !mink4_mink, !of_to, (mink_boost _ _ _ Hv). reflexivity.
Qed.

Lemma rot4_add R_ p q : rot4 R_ (add4 p q) = add4 (rot4 R_ p) (rot4 R_ q).
Proof.
  destruct p, q, R_ as [[a1 a2 a3] [b1 b2 b3] [e1 e2 e3]].
  unfold rot4, add4, mk4, mat3_vec, vect, add3, scale3; cbn. f_equal; ring.
Qed.

Theorem density3_rotation_invariant R_ M m1 m2 m3 d rs p1 p2 p3 : orthogonal R_ ->
  density3 M m1 m2 m3 d rs (lift (rot4 R_) p1) (lift (rot4 R_) p2) (lift (rot4 R_) p3)
  = density3 M m1 m2 m3 d rs p1 p2 p3.
Proof.
  intros HR. apply density3_invariant.
  - intros a b. unfold lift. rewrite p4add_add4, rot4_add.
    destruct (rot4 R_ (of_P4 a)), (rot4 R_ (of_P4 b)); reflexivity.
  - intros a b. unfold lift. rewrite !mink4_mink, !of_to, (mink_rot _ _ _ HR). reflexivity.
Qed.
