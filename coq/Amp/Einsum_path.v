(* C05: correctness of partial (pairwise) contraction and of a whole contraction path of
   tf_pwa.einsum's custom routine (model: Amp/Einsum.v) against the reference semantics
   [einsum_spec], over an arbitrary commutative semiring.

   Main results (end of file):
     contract_two_data       einsum_spec (rest ++ [contract_step part keep]) out
                             = einsum_spec (part ++ rest) out      (equality of tensors)
     contract_two_correct    entry-wise corollary
     einsum_spec_perm        the reference contraction does not depend on the operand order
     path_invariant          one tensor is left and it contracts to the reference result
     path_contraction_correct  the tensor left by eval_path, transposed to [out], IS einsum_spec ops out
                             (equality of tensors, and entry-wise)
   No well-formedness of the operands (data length, NoDup of index lists, out within the operand
   indices) is needed: [needed] alone guarantees what the proof uses. *)
From Coq Require Import List Arith Bool Permutation Lia.
From TFV Require Import Amp.Einsum Amp.Einsum_proofs.
Import ListNotations.

Section EinsumPath.
  Variable K : Type.
  Variable kzero kone : K.
  Variable kadd kmul : K -> K -> K.
  Hypothesis kadd_comm : forall a b, kadd a b = kadd b a.
  Hypothesis kadd_assoc : forall a b c, kadd a (kadd b c) = kadd (kadd a b) c.
  Hypothesis kadd_0_l : forall a, kadd kzero a = a.
  Hypothesis kmul_comm : forall a b, kmul a b = kmul b a.
  Hypothesis kmul_assoc : forall a b c, kmul a (kmul b c) = kmul (kmul a b) c.
  Hypothesis kmul_1_l : forall a, kmul kone a = a.
  Hypothesis kmul_0_r : forall a, kmul a kzero = kzero.
  Hypothesis kmul_add_distr_l : forall a b c, kmul a (kadd b c) = kadd (kmul a b) (kmul a c).

  Notation tensor := (tensor K).
  Notation t_idx := (t_idx K).
  Notation t_data := (t_data K).
  Notation tget := (tget K kzero).
  Notation ksum := (ksum K kzero kadd).
  Notation kprod := (kprod K kone kmul).
  Notation contracted := (contracted K).
  Notation needed := (needed K).
  Notation einsum_spec := (einsum_spec K kzero kone kadd kmul).
  Notation contract_step := (contract_step K kzero kone kadd kmul).
  Notation eval_path := (eval_path K kzero kone kadd kmul).
  Notation transpose_to := (transpose_to K kzero).

  (* ------------------------------------------------------------------ *)
  (* 1. assignments: lookups                                             *)
  (* ------------------------------------------------------------------ *)

  Lemma aval_nil i : aval [] i = 0.
  Proof. reflexivity. Qed.

  Lemma aval_cons k v a i : aval ((k, v) :: a) i = if Nat.eqb k i then v else aval a i.
  Proof. unfold aval. cbn [find fst snd]. destruct (Nat.eqb k i); reflexivity. Qed.

  Lemma aval_app_l a b i : In i (map fst a) -> aval (a ++ b) i = aval a i.
  Proof.
    induction a as [|[k v] a IH]; intros Hin.
    - destruct Hin.
    - rewrite <- app_comm_cons, !aval_cons.
      destruct (Nat.eqb k i) eqn:E; [reflexivity|].
      apply IH. cbn [map fst] in Hin. destruct Hin as [Hk|Hin]; [|exact Hin].
      subst k. rewrite Nat.eqb_refl in E. discriminate.
  Qed.

  Lemma aval_app_r a b i : ~ In i (map fst a) -> aval (a ++ b) i = aval b i.
  Proof.
    induction a as [|[k v] a IH]; intros Hnin.
    - reflexivity.
    - rewrite <- app_comm_cons, aval_cons.
      destruct (Nat.eqb k i) eqn:E.
      + apply Nat.eqb_eq in E. exfalso. apply Hnin. left. exact E.
      + apply IH. intros Hin. apply Hnin. right. exact Hin.
  Qed.

  (* two assignments are equivalent when every lookup agrees *)
  Definition aeq (a b : asg) : Prop := forall i, aval a i = aval b i.
  Definition ext (F : asg -> K) : Prop := forall a b, aeq a b -> F a = F b.

  Lemma aeq_app_l c a b : aeq a b -> aeq (c ++ a) (c ++ b).
  Proof.
    intros H i. destruct (in_dec Nat.eq_dec i (map fst c)) as [Hin|Hnin].
    - rewrite !aval_app_l by exact Hin. reflexivity.
    - rewrite !aval_app_r by exact Hnin. apply H.
  Qed.

  Lemma aeq_cons k v a b : aeq a b -> aeq ((k, v) :: a) ((k, v) :: b).
  Proof. intros H i. rewrite !aval_cons. destruct (Nat.eqb k i); [reflexivity|apply H]. Qed.

  Lemma aeq_swap k v k' v' a : k <> k' -> aeq ((k, v) :: (k', v') :: a) ((k', v') :: (k, v) :: a).
  Proof.
    intros Hne i. rewrite !aval_cons.
    destruct (Nat.eqb k i) eqn:E1; destruct (Nat.eqb k' i) eqn:E2; try reflexivity.
    apply Nat.eqb_eq in E1. apply Nat.eqb_eq in E2. exfalso. apply Hne. lia.
  Qed.

  (* the canonical assignment of [names] read off an arbitrary assignment *)
  Definition canon (names : list nat) (a : asg) : asg := map (fun i => (i, aval a i)) names.

  Lemma canon_keys names a : map fst (canon names a) = names.
  Proof. unfold canon. rewrite map_map. cbn [fst]. apply map_id. Qed.

  Lemma aval_canon names a i : In i names -> aval (canon names a) i = aval a i.
  Proof.
    induction names as [|n names IH]; intros Hin; [destruct Hin|].
    unfold canon. cbn [map]. fold (canon names a). rewrite aval_cons.
    destruct (Nat.eqb n i) eqn:E.
    - apply Nat.eqb_eq in E. subst n. reflexivity.
    - apply IH. destruct Hin as [Hn|Hin]; [|exact Hin].
      subst n. rewrite Nat.eqb_refl in E. discriminate.
  Qed.

  (* ------------------------------------------------------------------ *)
  (* 2. an entry depends only on the values of the tensor's own indices  *)
  (* ------------------------------------------------------------------ *)

  Lemma offset_ext sz idx a b :
    (forall i, In i idx -> aval a i = aval b i) -> offset sz idx a = offset sz idx b.
  Proof.
    unfold offset. generalize 0 as acc.
    induction idx as [|i idx IH]; intros acc H; cbn [fold_left]; [reflexivity|].
    rewrite (H i (or_introl eq_refl)). apply IH.
    intros j Hj. apply H. right. exact Hj.
  Qed.

  Lemma tget_ext sz t a b :
    (forall i, In i (t_idx t) -> aval a i = aval b i) -> tget sz t a = tget sz t b.
  Proof. intros H. unfold Einsum.tget. rewrite (offset_ext sz _ a b H). reflexivity. Qed.

  (* ------------------------------------------------------------------ *)
  (* 3. the row-major enumeration                                        *)
  (* ------------------------------------------------------------------ *)

  Lemma all_asg_cons_in sz i rest a :
    In a (all_asg sz (i :: rest)) <->
    exists v a', v < size_of sz i /\ In a' (all_asg sz rest) /\ a = (i, v) :: a'.
  Proof.
    cbn [all_asg]. rewrite in_flat_map. split.
    - intros [v [Hv Ha]]. apply in_map_iff in Ha. destruct Ha as [a' [Ha Ha']].
      apply in_seq in Hv. exists v, a'. repeat split; [lia|exact Ha'|symmetry; exact Ha].
    - intros [v [a' [Hv [Ha' Ha]]]]. exists v. split; [apply in_seq; lia|].
      apply in_map_iff. exists a'. split; [symmetry; exact Ha|exact Ha'].
  Qed.

  Lemma all_asg_keys sz names : forall a, In a (all_asg sz names) -> map fst a = names.
  Proof.
    induction names as [|i rest IH]; intros a Ha.
    - cbn [all_asg] in Ha. destruct Ha as [Ha|[]]. subst a. reflexivity.
    - apply all_asg_cons_in in Ha. destruct Ha as [v [a' [_ [Ha' Ha]]]]. subst a.
      cbn [map fst]. rewrite (IH a' Ha'). reflexivity.
  Qed.

  Lemma all_asg_range sz names :
    forall a, In a (all_asg sz names) -> forall i, In i names -> aval a i < size_of sz i.
  Proof.
    induction names as [|n rest IH]; intros a Ha i Hi; [destruct Hi|].
    apply all_asg_cons_in in Ha. destruct Ha as [v [a' [Hv [Ha' Ha]]]]. subst a.
    rewrite aval_cons. destruct (Nat.eqb n i) eqn:E.
    - apply Nat.eqb_eq in E. subst n. exact Hv.
    - apply (IH a' Ha'). destruct Hi as [Hn|Hi]; [|exact Hi].
      subst n. rewrite Nat.eqb_refl in E. discriminate.
  Qed.

  Lemma all_asg_length_cons sz i rest :
    length (all_asg sz (i :: rest)) = size_of sz i * length (all_asg sz rest).
  Proof. rewrite !all_asg_length. reflexivity. Qed.

  (* position in a concatenation of equal-length blocks *)
  Lemma nth_flat_map_blocks {B} (f : nat -> list B) (L : nat) (d : B) :
    (forall v, length (f v) = L) ->
    forall n s v r, v < n -> r < L ->
      nth (v * L + r) (flat_map f (seq s n)) d = nth r (f (s + v)) d.
  Proof.
    intros HL. induction n as [|n IH]; intros s v r Hv Hr; [lia|].
    cbn [seq flat_map]. destruct v as [|v].
    - rewrite Nat.mul_0_l, Nat.add_0_l, Nat.add_0_r.
      apply app_nth1. rewrite HL. exact Hr.
    - rewrite app_nth2 by (rewrite HL; lia).
      rewrite HL. replace (S v * L + r - L) with (v * L + r) by lia.
      rewrite IH by lia. replace (S s + v) with (s + S v) by lia. reflexivity.
  Qed.

  Lemma offset_acc sz a names :
    forall acc,
      fold_left (fun off i => off * size_of sz i + aval a i) names acc =
      acc * length (all_asg sz names) + offset sz names a.
  Proof.
    unfold offset. induction names as [|i rest IH]; intros acc.
    - cbn [fold_left all_asg length]. lia.
    - cbn [fold_left]. rewrite (IH (acc * size_of sz i + aval a i)).
      rewrite (IH (0 * size_of sz i + aval a i)).
      rewrite all_asg_length_cons. ring.
  Qed.

  Lemma nth_all_asg sz a (d : list (nat * nat)) names :
    (forall i, In i names -> aval a i < size_of sz i) ->
    offset sz names a < length (all_asg sz names) /\
    @nth (list (nat * nat)) (offset sz names a) (all_asg sz names) d = canon names a.
  Proof.
    induction names as [|i rest IH]; intros Hr.
    - split; [cbn; lia|reflexivity].
    - destruct IH as [IHlt IHnth]; [intros j Hj; apply Hr; right; exact Hj|].
      assert (Hv : aval a i < size_of sz i) by (apply Hr; left; reflexivity).
      assert (Hoff : offset sz (i :: rest) a =
                     aval a i * length (all_asg sz rest) + offset sz rest a).
      { unfold offset at 1. cbn [fold_left]. rewrite offset_acc. reflexivity. }
      rewrite Hoff. split.
      + rewrite all_asg_length_cons.
        assert (Hm : (aval a i + 1) * length (all_asg sz rest) <=
                     size_of sz i * length (all_asg sz rest))
          by (apply Nat.mul_le_mono_r; lia).
        lia.
      + cbn [all_asg].
        pose proof (nth_flat_map_blocks
                   (fun v => map (fun a0 : asg => (i, v) :: a0) (all_asg sz rest))
                   (length (all_asg sz rest)) d (fun v => map_length _ _)
                   (size_of sz i) 0 (aval a i) (offset sz rest a) Hv IHlt) as Hb.
        rewrite Nat.add_0_l in Hb.
        etransitivity; [exact Hb|]. clear Hb.
        rewrite (nth_indep _ d ((i, aval a i) :: d)) by (rewrite map_length; exact IHlt).
        rewrite (map_nth (fun a0 => (i, aval a i) :: a0)).
        change (canon (i :: rest) a) with ((i, aval a i) :: canon rest a).
        f_equal. exact IHnth.
  Qed.

  (* entries of the reference contraction *)
  Definition in_range (sz : list (nat * nat)) (names : list nat) (a : asg) : Prop :=
    forall i, In i names -> aval a i < size_of sz i.

  Lemma tget_einsum_spec sz ops out a :
    in_range sz out a ->
    tget sz (einsum_spec sz ops out) a =
    ksum (map (fun ac => kprod (map (fun t => tget sz t (canon out a ++ ac)) ops))
              (all_asg sz (contracted ops out))).
  Proof.
    intros Hr. destruct (nth_all_asg sz a [] out Hr) as [Hlt Hnth].
    unfold Einsum.tget at 1, Einsum.einsum_spec. cbn [Einsum.t_idx Einsum.t_data].
    match goal with |- nth _ (map ?F _) _ = _ => set (F0 := F) end.
    rewrite (nth_indep _ kzero (F0 [])) by (rewrite map_length; exact Hlt).
    rewrite (map_nth F0). rewrite Hnth. reflexivity.
  Qed.

  Lemma tget_transpose_to sz t out a :
    in_range sz out a -> tget sz (transpose_to sz t out) a = tget sz t (canon out a).
  Proof.
    intros Hr. destruct (nth_all_asg sz a [] out Hr) as [Hlt Hnth].
    unfold Einsum.tget at 1, Einsum.transpose_to. cbn [Einsum.t_idx Einsum.t_data].
    match goal with |- nth _ (map ?F _) _ = _ => set (F0 := F) end.
    rewrite (nth_indep _ kzero (F0 [])) by (rewrite map_length; exact Hlt).
    rewrite (map_nth F0). subst F0. cbv beta. f_equal. exact Hnth.
  Qed.

  (* ------------------------------------------------------------------ *)
  (* 4. finite sums and products in a commutative semiring               *)
  (* ------------------------------------------------------------------ *)

  Lemma ksum_nil : ksum [] = kzero.
  Proof. reflexivity. Qed.
  Lemma ksum_cons x l : ksum (x :: l) = kadd x (ksum l).
  Proof. reflexivity. Qed.
  Lemma kprod_nil : kprod [] = kone.
  Proof. reflexivity. Qed.
  Lemma kprod_cons x l : kprod (x :: l) = kmul x (kprod l).
  Proof. reflexivity. Qed.

  Lemma kadd_0_r a : kadd a kzero = a.
  Proof. rewrite kadd_comm. apply kadd_0_l. Qed.
  Lemma kmul_1_r a : kmul a kone = a.
  Proof. rewrite kmul_comm. apply kmul_1_l. Qed.

  Lemma kadd_swap4 a b c d : kadd (kadd a b) (kadd c d) = kadd (kadd a c) (kadd b d).
  Proof.
    rewrite <- (kadd_assoc a b (kadd c d)). rewrite (kadd_assoc b c d).
    rewrite (kadd_comm b c). rewrite <- (kadd_assoc c b d).
    rewrite (kadd_assoc a c (kadd b d)). reflexivity.
  Qed.

  Lemma ksum_app l1 l2 : ksum (l1 ++ l2) = kadd (ksum l1) (ksum l2).
  Proof.
    induction l1 as [|x l1 IH].
    - cbn [app]. rewrite ksum_nil, kadd_0_l. reflexivity.
    - rewrite <- app_comm_cons, !ksum_cons, IH. apply kadd_assoc.
  Qed.

  Lemma kprod_app l1 l2 : kprod (l1 ++ l2) = kmul (kprod l1) (kprod l2).
  Proof.
    induction l1 as [|x l1 IH].
    - cbn [app]. rewrite kprod_nil, kmul_1_l. reflexivity.
    - rewrite <- app_comm_cons, !kprod_cons, IH. apply kmul_assoc.
  Qed.

  Lemma ksum_flat_map {A} (f : A -> list K) l :
    ksum (flat_map f l) = ksum (map (fun x => ksum (f x)) l).
  Proof.
    induction l as [|x l IH]; [reflexivity|].
    cbn [flat_map map]. rewrite ksum_app, ksum_cons, IH. reflexivity.
  Qed.

  Lemma ksum_ext {A} (f g : A -> K) l :
    (forall x, In x l -> f x = g x) -> ksum (map f l) = ksum (map g l).
  Proof. intros H. f_equal. apply map_ext_in. exact H. Qed.

  Lemma ksum_map_add {A} (f g : A -> K) l :
    ksum (map (fun x => kadd (f x) (g x)) l) = kadd (ksum (map f l)) (ksum (map g l)).
  Proof.
    induction l as [|x l IH].
    - cbn [map]. rewrite ksum_nil, kadd_0_l. reflexivity.
    - cbn [map]. rewrite !ksum_cons, IH. apply kadd_swap4.
  Qed.

  Lemma ksum_map_zero {A} (l : list A) : ksum (map (fun _ => kzero) l) = kzero.
  Proof.
    induction l as [|x l IH]; [reflexivity|].
    cbn [map]. rewrite ksum_cons, IH. apply kadd_0_l.
  Qed.

  (* exchange of the order of summation *)
  Lemma ksum_swap {A B} (G : A -> B -> K) la lb :
    ksum (map (fun x => ksum (map (fun y => G x y) lb)) la) =
    ksum (map (fun y => ksum (map (fun x => G x y) la)) lb).
  Proof.
    induction la as [|x la IH].
    - cbn [map]. rewrite ksum_nil. symmetry. apply (ksum_map_zero lb).
    - cbn [map]. rewrite ksum_cons, IH.
      rewrite <- (ksum_map_add (fun y => G x y) (fun y => ksum (map (fun x0 => G x0 y) la)) lb).
      apply ksum_ext. intros y _. rewrite ksum_cons. reflexivity.
  Qed.

  (* distributivity: a factor moves into a sum *)
  Lemma ksum_mul_l c l : kmul c (ksum l) = ksum (map (kmul c) l).
  Proof.
    induction l as [|x l IH].
    - cbn [map]. rewrite ksum_nil. apply kmul_0_r.
    - cbn [map]. rewrite !ksum_cons, kmul_add_distr_l, IH. reflexivity.
  Qed.

  (* the sum-factorisation lemma: sum_{a,b} f a * g a b = sum_a f a * sum_b g a b *)
  Lemma ksum_factor {A B} (f : A -> K) (g : A -> B -> K) la lb :
    ksum (map (fun ab => kmul (f (fst ab)) (g (fst ab) (snd ab))) (list_prod la lb)) =
    ksum (map (fun a => kmul (f a) (ksum (map (g a) lb))) la).
  Proof.
    induction la as [|a la IH]; [reflexivity|].
    cbn [list_prod map]. rewrite map_app, ksum_app, IH, ksum_cons. f_equal.
    rewrite map_map. cbn [fst snd]. rewrite ksum_mul_l, map_map. reflexivity.
  Qed.

  (* ------------------------------------------------------------------ *)
  (* 5. sums over all assignments of a list of index names               *)
  (* ------------------------------------------------------------------ *)

  Lemma map_flat_map {A B C} (g : B -> C) (f : A -> list B) l :
    map g (flat_map f l) = flat_map (fun x => map g (f x)) l.
  Proof.
    induction l as [|x l IH]; [reflexivity|].
    cbn [flat_map]. rewrite map_app, IH. reflexivity.
  Qed.

  Lemma flat_map_flat_map {A B C} (g : B -> list C) (f : A -> list B) l :
    flat_map g (flat_map f l) = flat_map (fun x => flat_map g (f x)) l.
  Proof.
    induction l as [|x l IH]; [reflexivity|].
    cbn [flat_map]. rewrite flat_map_app, IH. reflexivity.
  Qed.

  Lemma flat_map_map {A B C} (g : B -> list C) (f : A -> B) l :
    flat_map g (map f l) = flat_map (fun x => g (f x)) l.
  Proof.
    induction l as [|x l IH]; [reflexivity|].
    cbn [flat_map map]. rewrite IH. reflexivity.
  Qed.

  Lemma all_asg_app sz n1 n2 :
    all_asg sz (n1 ++ n2) =
    flat_map (fun a1 => map (fun a2 => a1 ++ a2) (all_asg sz n2)) (all_asg sz n1).
  Proof.
    induction n1 as [|i n1 IH].
    - cbn [app all_asg flat_map]. rewrite map_id, app_nil_r. reflexivity.
    - rewrite <- app_comm_cons. cbn [all_asg]. rewrite IH.
      rewrite flat_map_flat_map. apply flat_map_ext. intros v.
      rewrite map_flat_map, flat_map_map. apply flat_map_ext. intros a1.
      rewrite map_map. reflexivity.
  Qed.

  Lemma sum_cons sz i names (F : list (nat * nat) -> K) :
    ksum (map F (all_asg sz (i :: names))) =
    ksum (map (fun v => ksum (map (fun a => F ((i, v) :: a)) (all_asg sz names)))
              (seq 0 (size_of sz i))).
  Proof.
    cbn [all_asg]. rewrite map_flat_map, ksum_flat_map.
    apply ksum_ext. intros v _. rewrite map_map. reflexivity.
  Qed.

  Lemma sum_app sz n1 n2 (F : list (nat * nat) -> K) :
    ksum (map F (all_asg sz (n1 ++ n2))) =
    ksum (map (fun a1 => ksum (map (fun a2 => F (a1 ++ a2)) (all_asg sz n2))) (all_asg sz n1)).
  Proof.
    rewrite all_asg_app, map_flat_map, ksum_flat_map.
    apply ksum_ext. intros a1 _. rewrite map_map. reflexivity.
  Qed.

  (* the order in which the summed index names are listed does not matter *)
  Lemma sum_perm sz n n' :
    Permutation n n' ->
    forall F : list (nat * nat) -> K, ext F ->
      ksum (map F (all_asg sz n)) = ksum (map F (all_asg sz n')).
  Proof.
    induction 1 as [|i n n' _ IH|x y n|n n' n'' _ IH1 _ IH2]; intros F HF.
    - reflexivity.
    - rewrite !sum_cons. apply ksum_ext. intros v _.
      apply IH. intros a b Hab. apply HF. apply aeq_cons. exact Hab.
    - destruct (Nat.eq_dec x y) as [Hxy|Hxy]; [subst y; reflexivity|].
      rewrite (sum_cons sz y (x :: n)), (sum_cons sz x (y :: n)).
      etransitivity.
      { apply ksum_ext. intros v _. apply (sum_cons sz x n). }
      rewrite (ksum_swap (fun v w => ksum (map (fun a => F ((y, v) :: (x, w) :: a)) (all_asg sz n)))).
      apply ksum_ext. intros w _. rewrite (sum_cons sz y n).
      apply ksum_ext. intros v _. apply ksum_ext. intros a _.
      apply HF. apply aeq_swap. intros E. apply Hxy. symmetry. exact E.
    - rewrite (IH1 F HF). apply IH2. exact HF.
  Qed.

  (* ------------------------------------------------------------------ *)
  (* 6. which index names are kept / summed                              *)
  (* ------------------------------------------------------------------ *)

  Lemma existsb_eqb_In i l : existsb (Nat.eqb i) l = true <-> In i l.
  Proof.
    rewrite existsb_exists. split.
    - intros [x [Hx E]]. apply Nat.eqb_eq in E. subst x. exact Hx.
    - intros H. exists i. split; [exact H|apply Nat.eqb_refl].
  Qed.

  Lemma contracted_In ops out i :
    In i (contracted ops out) <-> In i (flat_map t_idx ops) /\ ~ In i out.
  Proof.
    unfold Einsum.contracted. rewrite nodup_In, filter_In, negb_true_iff.
    rewrite <- (existsb_eqb_In i out). split.
    - intros [H1 H2]. split; [exact H1|]. rewrite H2. discriminate.
    - intros [H1 H2]. split; [exact H1|]. destruct (existsb (Nat.eqb i) out); [exfalso; apply H2|]; reflexivity.
  Qed.

  Lemma needed_In rest out part i :
    In i (needed rest out part) <->
    In i (flat_map t_idx part) /\ (In i out \/ In i (flat_map t_idx rest)).
  Proof.
    unfold Einsum.needed. rewrite nodup_In, filter_In, orb_true_iff, !existsb_eqb_In.
    reflexivity.
  Qed.

  Lemma contracted_NoDup ops out : NoDup (contracted ops out).
  Proof. apply NoDup_nodup. Qed.

  Lemma NoDup_app_disjoint {A} (l1 l2 : list A) :
    NoDup l1 -> NoDup l2 -> (forall x, In x l1 -> ~ In x l2) -> NoDup (l1 ++ l2).
  Proof.
    induction l1 as [|x l1 IH]; intros H1 H2 Hd; [exact H2|].
    rewrite <- app_comm_cons. inversion H1 as [|x' l' Hx Hl1]; subst.
    constructor.
    - rewrite in_app_iff. intros [Hin|Hin]; [exact (Hx Hin)|].
      exact (Hd x (or_introl eq_refl) Hin).
    - apply IH; [exact Hl1|exact H2|]. intros y Hy. apply Hd. right. exact Hy.
  Qed.

  Lemma flat_idx_snoc rest (t : tensor) :
    flat_map t_idx (rest ++ [t]) = flat_map t_idx rest ++ t_idx t.
  Proof. rewrite flat_map_app. cbn [flat_map]. rewrite app_nil_r. reflexivity. Qed.

  (* the summed names of the two-stage contraction are those of the one-stage contraction *)
  Lemma contracted_split rest out part :
    let keep := needed rest out part in
    forall T : tensor, t_idx T = keep ->
    Permutation (contracted (part ++ rest) out)
                (contracted (rest ++ [T]) out ++ contracted part keep).
  Proof.
    intros keep T HT.
    assert (Hkeep : forall i, In i keep <->
              In i (flat_map t_idx part) /\ (In i out \/ In i (flat_map t_idx rest)))
      by (intros i; apply needed_In).
    assert (Hc2 : forall i, In i (contracted (rest ++ [T]) out) <->
              (In i (flat_map t_idx rest) \/ In i keep) /\ ~ In i out).
    { intros i. rewrite contracted_In, flat_idx_snoc, in_app_iff, HT. reflexivity. }
    apply NoDup_Permutation.
    - apply contracted_NoDup.
    - apply NoDup_app_disjoint; [apply contracted_NoDup|apply contracted_NoDup|].
      intros i Hi2 Hi1. apply Hc2 in Hi2. apply contracted_In in Hi1.
      destruct Hi1 as [Hp Hnk]. destruct Hi2 as [[Hr|Hk] Hno]; [|exact (Hnk Hk)].
      apply Hnk. apply Hkeep. split; [exact Hp|right; exact Hr].
    - intros i. rewrite in_app_iff, Hc2, !contracted_In, flat_map_app, in_app_iff, Hkeep.
      destruct (in_dec Nat.eq_dec i out) as [Ho|Ho];
      destruct (in_dec Nat.eq_dec i (flat_map t_idx rest)) as [Hr|Hr];
      destruct (in_dec Nat.eq_dec i (flat_map t_idx part)) as [Hp|Hp]; tauto.
  Qed.

  (* ------------------------------------------------------------------ *)
  (* 7. contracting a sub-list first                                     *)
  (* ------------------------------------------------------------------ *)

  (* product of the operand entries selected by one assignment *)
  Definition pent (sz : list (nat * nat)) (ops : list tensor) (b : list (nat * nat)) : K :=
    kprod (map (fun t => tget sz t b) ops).

  Lemma pent_ext_on sz ops a b :
    (forall i, In i (flat_map t_idx ops) -> aval a i = aval b i) -> pent sz ops a = pent sz ops b.
  Proof.
    intros H. unfold pent. f_equal. apply map_ext_in. intros t Ht.
    apply tget_ext. intros i Hi. apply H. apply in_flat_map. exists t. split; assumption.
  Qed.

  Lemma pent_app sz l1 l2 b : pent sz (l1 ++ l2) b = kmul (pent sz l1 b) (pent sz l2 b).
  Proof. unfold pent. rewrite map_app. apply kprod_app. Qed.

  Lemma pent_ext sz ops ao : ext (fun ac => pent sz ops (ao ++ ac)).
  Proof.
    intros a b Hab. apply pent_ext_on. intros i _. apply aeq_app_l. exact Hab.
  Qed.

  Lemma aval_app3 (ao a2 a1 : list (nat * nat)) i :
    In i (map fst ao) \/ In i (map fst a2) -> aval (ao ++ a2 ++ a1) i = aval (ao ++ a2) i.
  Proof.
    intros H. destruct (in_dec Nat.eq_dec i (map fst ao)) as [Ho|Ho].
    - rewrite !aval_app_l by exact Ho. reflexivity.
    - destruct H as [H|H]; [contradiction|].
      rewrite !(aval_app_r ao) by exact Ho. apply aval_app_l. exact H.
  Qed.

  Theorem contract_two_data sz part rest out :
    einsum_spec sz (rest ++ [contract_step sz part (needed rest out part)]) out =
    einsum_spec sz (part ++ rest) out.
  Proof.
    set (keep := needed rest out part).
    set (T := contract_step sz part keep).
    assert (HT : t_idx T = keep) by reflexivity.
    assert (Hkeep : forall i, In i keep <->
              In i (flat_map t_idx part) /\ (In i out \/ In i (flat_map t_idx rest)))
      by (intros i; apply needed_In).
    assert (Hc2 : forall i, In i (contracted (rest ++ [T]) out) <->
              (In i (flat_map t_idx rest) \/ In i keep) /\ ~ In i out).
    { intros i. rewrite contracted_In, flat_idx_snoc, in_app_iff, HT. reflexivity. }
    unfold Einsum.einsum_spec at 1 2. f_equal.
    apply map_ext_in. intros ao Hao.
    pose proof (all_asg_keys sz out ao Hao) as Hko.
    change (fun ac => kprod (map (fun t => tget sz t (ao ++ ac)) (part ++ rest)))
      with (fun ac => pent sz (part ++ rest) (ao ++ ac)).
    change (fun ac => kprod (map (fun t => tget sz t (ao ++ ac)) (rest ++ [T])))
      with (fun ac => pent sz (rest ++ [T]) (ao ++ ac)).
    rewrite (sum_perm sz _ _ (contracted_split rest out part T HT)
                      (fun ac => pent sz (part ++ rest) (ao ++ ac)) (pent_ext sz _ ao)).
    rewrite sum_app. apply ksum_ext. intros a2 Ha2.
    pose proof (all_asg_keys sz _ a2 Ha2) as Hk2.
    (* split off the intermediate tensor *)
    rewrite pent_app. unfold pent at 2. cbn [map]. rewrite kprod_cons, kprod_nil, kmul_1_r.
    (* its entry is a sum over the inner contracted names *)
    assert (Hrange : in_range sz keep (ao ++ a2)).
    { intros i Hi. apply Hkeep in Hi. destruct Hi as [Hp Hor].
      destruct (in_dec Nat.eq_dec i out) as [Ho|Ho].
      - rewrite aval_app_l by (rewrite Hko; exact Ho).
        apply (all_asg_range sz out ao Hao i Ho).
      - rewrite aval_app_r by (rewrite Hko; exact Ho).
        assert (Hi2 : In i (contracted (rest ++ [T]) out)).
        { apply Hc2. split; [left; tauto|exact Ho]. }
        apply (all_asg_range sz _ a2 Ha2 i Hi2). }
    unfold T at 1. unfold Einsum.contract_step. rewrite (tget_einsum_spec sz part keep _ Hrange).
    rewrite ksum_mul_l, map_map. apply ksum_ext. intros a1 Ha1.
    pose proof (all_asg_keys sz _ a1 Ha1) as Hk1.
    fold (pent sz part (canon keep (ao ++ a2) ++ a1)).
    rewrite pent_app, (kmul_comm (pent sz part _)). f_equal.
    - (* remaining operands: they do not see the inner names *)
      apply pent_ext_on. intros i Hi. symmetry. apply aval_app3.
      rewrite Hko, Hk2. destruct (in_dec Nat.eq_dec i out) as [Ho|Ho]; [left; exact Ho|].
      right. apply Hc2. split; [left; exact Hi|exact Ho].
    - (* contracted operands: kept names read from outside, inner names from the inner sum *)
      apply pent_ext_on. intros i Hi.
      destruct (in_dec Nat.eq_dec i keep) as [Hk|Hk].
      + rewrite aval_app_l by (rewrite canon_keys; exact Hk).
        rewrite (aval_canon keep _ i Hk). symmetry. apply aval_app3.
        rewrite Hko, Hk2. destruct (in_dec Nat.eq_dec i out) as [Ho|Ho]; [left; exact Ho|].
        right. apply Hc2. split; [right; exact Hk|exact Ho].
      + rewrite aval_app_r by (rewrite canon_keys; exact Hk).
        assert (Ho : ~ In i out) by (intros Ho; apply Hk; apply Hkeep; tauto).
        assert (Hr : ~ In i (flat_map t_idx rest)) by (intros Hr; apply Hk; apply Hkeep; tauto).
        rewrite (aval_app_r ao) by (rewrite Hko; exact Ho).
        rewrite (aval_app_r a2); [reflexivity|].
        rewrite Hk2. intros Hi2. apply Hc2 in Hi2. tauto.
  Qed.

  (* entry-wise form *)
  Theorem contract_two_correct sz part rest out :
    forall a, in_range sz out a ->
      tget sz (einsum_spec sz (rest ++ [contract_step sz part (needed rest out part)]) out) a =
      tget sz (einsum_spec sz (part ++ rest) out) a.
  Proof. intros a _. rewrite contract_two_data. reflexivity. Qed.

  (* ------------------------------------------------------------------ *)
  (* 8. the reference contraction does not depend on the operand order   *)
  (* ------------------------------------------------------------------ *)

  Lemma flat_idx_perm (ops ops' : list tensor) i :
    Permutation ops ops' -> In i (flat_map t_idx ops) -> In i (flat_map t_idx ops').
  Proof.
    intros HP Hi. apply in_flat_map in Hi. destruct Hi as [t [Ht Hi]].
    apply in_flat_map. exists t. split; [exact (Permutation_in t HP Ht)|exact Hi].
  Qed.

  Lemma contracted_perm ops ops' out :
    Permutation ops ops' -> Permutation (contracted ops out) (contracted ops' out).
  Proof.
    intros HP. apply NoDup_Permutation; [apply contracted_NoDup|apply contracted_NoDup|].
    intros i. rewrite !contracted_In. split; intros [H1 H2]; (split; [|exact H2]).
    - exact (flat_idx_perm _ _ i HP H1).
    - exact (flat_idx_perm _ _ i (Permutation_sym HP) H1).
  Qed.

  Theorem einsum_spec_perm sz ops ops' out :
    Permutation ops ops' -> einsum_spec sz ops out = einsum_spec sz ops' out.
  Proof.
    intros HP. unfold Einsum.einsum_spec. f_equal. apply map_ext_in. intros ao _.
    change (fun ac => kprod (map (fun t => tget sz t (ao ++ ac)) ops))
      with (fun ac => pent sz ops (ao ++ ac)).
    change (fun ac => kprod (map (fun t => tget sz t (ao ++ ac)) ops'))
      with (fun ac => pent sz ops' (ao ++ ac)).
    rewrite (sum_perm sz _ _ (contracted_perm ops ops' out HP)
                      (fun ac : list (nat * nat) => pent sz ops (ao ++ ac)) (pent_ext sz ops ao)).
    apply ksum_ext. intros ac _. unfold pent.
    apply (kprod_perm K kone kmul kmul_comm kmul_assoc).
    apply Permutation_map. exact HP.
  Qed.

  (* ------------------------------------------------------------------ *)
  (* 9. picking and removing operand positions                           *)
  (* ------------------------------------------------------------------ *)

  Lemma combine_seq {A} (d : A) (l : list A) :
    forall s, combine (seq s (length l)) l = map (fun i => (i, nth (i - s) l d)) (seq s (length l)).
  Proof.
    induction l as [|x l IH]; intros s; [reflexivity|].
    cbn [length seq combine map]. rewrite Nat.sub_diag. cbn [nth]. f_equal.
    rewrite IH. apply map_ext_in. intros i Hi. apply in_seq in Hi.
    replace (i - s) with (S (i - S s)) by lia. reflexivity.
  Qed.

  Lemma filter_map_comm {A B} (f : B -> bool) (g : A -> B) l :
    filter f (map g l) = map g (filter (fun x => f (g x)) l).
  Proof.
    induction l as [|x l IH]; [reflexivity|].
    cbn [map filter]. destruct (f (g x)); cbn [map]; rewrite IH; reflexivity.
  Qed.

  Lemma filter_split_perm {A} (f : A -> bool) l :
    Permutation (filter f l ++ filter (fun x => negb (f x)) l) l.
  Proof.
    induction l as [|x l IH]; [constructor|].
    cbn [filter]. destruct (f x); cbn [negb].
    - rewrite <- app_comm_cons. constructor. exact IH.
    - apply Permutation_sym. apply Permutation_cons_app. apply Permutation_sym. exact IH.
  Qed.

  Lemma remove_positions_eq {A} (d : A) pos (l : list A) :
    remove_positions pos l =
    map (fun i => nth i l d) (filter (fun i => negb (existsb (Nat.eqb i) pos)) (seq 0 (length l))).
  Proof.
    unfold remove_positions. rewrite (combine_seq d l 0).
    rewrite filter_map_comm, map_map. cbn [fst snd].
    apply map_ext. intros i. rewrite Nat.sub_0_r. reflexivity.
  Qed.

  Lemma self_eq_map_nth {A} (d : A) (l : list A) :
    l = map (fun i => nth i l d) (seq 0 (length l)).
  Proof.
    transitivity (map snd (combine (seq 0 (length l)) l)).
    - clear d. generalize 0 as s. induction l as [|x l IH]; intros s; [reflexivity|].
      cbn [length seq combine map snd]. f_equal. apply IH.
    - rewrite (combine_seq d l 0), map_map. cbn [snd].
      apply map_ext. intros i. rewrite Nat.sub_0_r. reflexivity.
  Qed.

  Lemma pick_remove_perm {A} (d : A) pos (l : list A) :
    NoDup pos -> (forall i, In i pos -> i < length l) ->
    Permutation (pick_positions d pos l ++ remove_positions pos l) l.
  Proof.
    intros Hnd Hlt.
    rewrite (remove_positions_eq d). unfold pick_positions.
    set (g := fun i => nth i l d).
    set (inpos := fun i => existsb (Nat.eqb i) pos).
    assert (Hpos : Permutation pos (filter inpos (seq 0 (length l)))).
    { apply NoDup_Permutation; [exact Hnd|apply NoDup_filter; apply seq_NoDup|].
      intros i. rewrite filter_In, in_seq. unfold inpos. rewrite existsb_eqb_In.
      split; [intros Hi; split; [specialize (Hlt i Hi); lia|exact Hi]|intros [_ Hi]; exact Hi]. }
    rewrite (Permutation_map g Hpos). rewrite <- map_app.
    rewrite (self_eq_map_nth d l) at 3. fold g.
    apply Permutation_map. apply (filter_split_perm inpos).
  Qed.

  Lemma remove_positions_length {A} (d : A) pos (l : list A) :
    NoDup pos -> (forall i, In i pos -> i < length l) ->
    length (remove_positions pos l) = length l - length pos.
  Proof.
    intros Hnd Hlt. pose proof (Permutation_length (pick_remove_perm d pos l Hnd Hlt)) as H.
    rewrite app_length in H. unfold pick_positions in H. rewrite map_length in H. lia.
  Qed.

  (* ------------------------------------------------------------------ *)
  (* 10. a whole contraction path                                        *)
  (* ------------------------------------------------------------------ *)

  (* n = current number of operands: every step names distinct positions in range;
     at the end exactly one operand is left *)
  Fixpoint valid_path (path : list (list nat)) (n : nat) : Prop :=
    match path with
    | [] => n = 1
    | pos :: path' =>
        NoDup pos /\ (forall i, In i pos -> i < n) /\ valid_path path' (n - length pos + 1)
    end.

  Lemma contracted_nil ops out :
    (forall i, In i (flat_map t_idx ops) -> In i out) -> contracted ops out = [].
  Proof.
    intros H. destruct (contracted ops out) as [|i l] eqn:E; [reflexivity|].
    assert (Hi : In i (contracted ops out)) by (rewrite E; left; reflexivity).
    apply contracted_In in Hi. destruct Hi as [H1 H2]. exfalso. exact (H2 (H i H1)).
  Qed.

  (* a single operand whose indices all survive is only transposed *)
  Lemma einsum_spec_single sz t out :
    (forall i, In i (t_idx t) -> In i out) -> einsum_spec sz [t] out = transpose_to sz t out.
  Proof.
    intros H. unfold Einsum.einsum_spec, Einsum.transpose_to. f_equal.
    apply map_ext. intros ao. rewrite contracted_nil.
    - cbn [all_asg map]. rewrite ksum_cons, ksum_nil, kadd_0_r, kprod_cons, kprod_nil, kmul_1_r.
      rewrite app_nil_r. reflexivity.
    - intros i Hi. cbn [flat_map] in Hi. rewrite app_nil_r in Hi. exact (H i Hi).
  Qed.

  Theorem path_invariant sz out path :
    forall ops, valid_path path (length ops) ->
      exists t, eval_path sz path ops out = [t] /\
                einsum_spec sz [t] out = einsum_spec sz ops out /\
                (path <> [] -> forall i, In i (t_idx t) -> In i out).
  Proof.
    induction path as [|pos path IH]; intros ops Hv.
    - cbn [valid_path] in Hv. destruct ops as [|t [|t' ops]]; cbn [length] in Hv; try lia.
      exists t. split; [reflexivity|]. split; [reflexivity|]. intros Hne. exfalso. apply Hne. reflexivity.
    - cbn [valid_path] in Hv. destruct Hv as [Hnd [Hlt Hv]].
      cbn [Einsum.eval_path].
      set (d0 := {| Einsum.t_idx := []; Einsum.t_data := [] |} : tensor).
      set (part := pick_positions d0 pos ops).
      set (rest := remove_positions pos ops).
      set (T := contract_step sz part (needed rest out part)).
      assert (Hlen : length (rest ++ [T]) = length ops - length pos + 1).
      { rewrite app_length. cbn [length]. unfold rest.
        rewrite (remove_positions_length d0 pos ops Hnd Hlt). reflexivity. }
      rewrite <- Hlen in Hv.
      destruct (IH (rest ++ [T]) Hv) as [t [Hev [Hspec Hidx]]].
      exists t. split; [exact Hev|]. split.
      + rewrite Hspec. unfold T. rewrite contract_two_data.
        apply einsum_spec_perm. apply (pick_remove_perm d0 pos ops Hnd Hlt).
      + intros _. destruct path as [|pos' path'].
        * cbn [Einsum.eval_path] in Hev.
          destruct rest as [|r rest'].
          -- cbn [app] in Hev. injection Hev as Hev. subst t.
             intros i Hi. unfold T in Hi. cbn [Einsum.contract_step Einsum.einsum_spec Einsum.t_idx] in Hi.
             apply needed_In in Hi. destruct Hi as [_ [Hi|Hi]]; [exact Hi|destruct Hi].
          -- exfalso. rewrite <- app_comm_cons in Hev. injection Hev as _ Hev.
             destruct rest'; discriminate Hev.
        * apply Hidx. discriminate.
  Qed.

  Theorem path_contraction_correct sz out path ops :
    path <> [] -> valid_path path (length ops) ->
    exists t, eval_path sz path ops out = [t] /\
              transpose_to sz t out = einsum_spec sz ops out /\
              (forall a, in_range sz out a -> tget sz t a = tget sz (einsum_spec sz ops out) a).
  Proof.
    intros Hne Hv. destruct (path_invariant sz out path ops Hv) as [t [Hev [Hspec Hidx]]].
    specialize (Hidx Hne).
    assert (Htr : transpose_to sz t out = einsum_spec sz ops out).
    { rewrite <- (einsum_spec_single sz t out Hidx). exact Hspec. }
    exists t. split; [exact Hev|]. split; [exact Htr|].
    intros a Ha. rewrite <- Htr. rewrite (tget_transpose_to sz t out a Ha).
    apply tget_ext. intros i Hi. symmetry. apply aval_canon. exact (Hidx i Hi).
  Qed.
End EinsumPath.

(* the semiring laws are satisfiable: natural numbers *)
Example path_contraction_correct_nat sz out path (ops : list (tensor nat)) :
  path <> [] -> valid_path path (length ops) ->
  exists t, eval_path nat 0 1 Nat.add Nat.mul sz path ops out = [t] /\
            transpose_to nat 0 sz t out = einsum_spec nat 0 1 Nat.add Nat.mul sz ops out /\
            (forall a, in_range sz out a ->
               tget nat 0 sz t a = tget nat 0 sz (einsum_spec nat 0 1 Nat.add Nat.mul sz ops out) a).
Proof.
  apply (path_contraction_correct nat 0 1 Nat.add Nat.mul
           Nat.add_comm Nat.add_assoc Nat.add_0_l Nat.mul_comm Nat.mul_assoc
           Nat.mul_1_l Nat.mul_0_r Nat.mul_add_distr_l).
Qed.

Check contract_two_data.
Check contract_two_correct.
Check einsum_spec_perm.
Check path_invariant.
Check path_contraction_correct.
Check ksum_factor.
Print Assumptions contract_two_data.
Print Assumptions contract_two_correct.
Print Assumptions einsum_spec_perm.
Print Assumptions path_invariant.
Print Assumptions path_contraction_correct.
Print Assumptions ksum_factor.
