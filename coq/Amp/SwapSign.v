(* Model of DecayGroup.get_swap_factor (tf_pwa/amp/core.py): the sign given to the amplitude evaluated at permuted
   momenta of declared identical particles.  Definitions only.

   A permuted group is the list idx with idx[k] = position, in the declared group i, of the name j[k] standing at
   position k of the permuted tuple j (key[1] of the id_swap entry).  Bosons (2J even): factor 1.

   swap_factor     : the code AFTER the repair (patch_4): (-1)^(number of inversions of idx) = signature of the permutation
   swap_factor_old : the code before: walks the pairs (i[k], j[k]), skips a pair already seen in either order, and multiplies
                     by -1 for every remaining pair with i[k] <> j[k] *)
From Coq Require Import List ZArith Arith Bool Reals.
Import ListNotations.

Fixpoint inversions (l : list nat) : nat :=
  match l with
  | [] => 0
  | x :: t => length (filter (fun y => y <? x) t) + inversions t
  end.

Definition swap_factor (fermion : bool) (idx : list nat) : Z :=
  if fermion then (if Nat.even (inversions idx) then 1 else -1)%Z else 1%Z.

Definition pair_in (m n : nat) (used : list (nat * nat)) : bool :=
  existsb (fun p => (fst p =? m) && (snd p =? n)) used.

Fixpoint old_loop (pairs used : list (nat * nat)) (f : Z) : Z :=
  match pairs with
  | [] => f
  | (m, n) :: t =>
      if pair_in m n used || pair_in n m used then old_loop t used f
      else old_loop t ((m, n) :: used) (if m =? n then f else (- f)%Z)
  end.

Definition swap_factor_old (fermion : bool) (idx : list nat) : Z :=
  if fermion then old_loop (combine (seq 0 (length idx)) idx) [] 1%Z else 1%Z.

(* several identical groups: product of the factors (the names of different groups are disjoint) *)
Definition groups_factor (f : bool -> list nat -> Z) (gs : list (bool * list nat)) : Z :=
  fold_right Z.mul 1%Z (map (fun g => f (fst g) (snd g)) gs).

(* permutations of 0..n-1 and their composition: (compose s t)[k] = s[t[k]] *)
Fixpoint insert_all (x : nat) (l : list nat) : list (list nat) :=
  match l with
  | [] => [[x]]
  | y :: t => (x :: y :: t) :: map (cons y) (insert_all x t)
  end.
Fixpoint perms_of (l : list nat) : list (list nat) :=
  match l with
  | [] => [[]]
  | x :: t => flat_map (insert_all x) (perms_of t)
  end.
Definition perms (n : nat) : list (list nat) := perms_of (seq 0 n).
Definition compose (s t : list nat) : list nat := map (fun k => nth k s 0) t.

Definition list_eqb (a b : list nat) : bool := if list_eq_dec Nat.eq_dec a b then true else false.

(* the symmetrised (real component of the) amplitude of n identical particles at the permuted event tau:
   F(tau) = sum over sigma of eps(sigma) * a(sigma o tau), a = the unsymmetrised amplitude as a function of the assignment *)
Open Scope R_scope.
Definition sym_amp (eps : list nat -> Z) (n : nat) (a : list nat -> R) (tau : list nat) : R :=
  fold_right Rplus 0 (map (fun sigma => IZR (eps sigma) * a (compose sigma tau)) (perms n)).
