(* C04: the GENERIC helicity pipeline (Amp/Chain.v: LS couplings with Clebsch-Gordan radicals, barrier factors,
   D* functions, sum over the resonance helicity) specialised to a spin-0 parent and three spin-0 final particles
   with one resonance of spin J:   A -> R k,  R -> i j.   Definitions only. *)
From Coq Require Import Reals List ZArith QArith.
From TFV Require Import Base.RBase Shape.LineShapes Rot.Wigner Rot.CG Amp.Coupling Amp.Dalitz3 Amp.Unitary Amp.Chain.
Import ListNotations.
Open Scope R_scope.

(* g1, g2: the single LS couplings of the two decays ((l,s) = (J,J) and (J,0)); bw: the resonance propagator;
   (phi1, th1), (phi2, th2): helicity angles of the two vertices; q2,q02 / p2,p02: break-up momenta squared *)
Definition generic_chain0 (J : nat) (g1 g2 : C) (q2 q02 p2 p02 d : R) (bw : C) (phi1 th1 phi2 th2 : R) : C :=
  let J2 := (2 * Z.of_nat J)%Z in
  czsum (m_range J2) (fun lR =>
    Cmul (Cmul (vertex_amp 0 (H_sum 0 J2 0 [(Z.of_nat J, J2)] [g1] q2 q02 d lR 0) 0 lR 0 phi1 th1 0) bw)
         (vertex_amp J2 (H_sum J2 0 0 [(Z.of_nat J, 0%Z)] [g2] p2 p02 d 0 0) lR 0 0 phi2 th2 0)).

(* ---- production barrier AFTER the repair of tf_pwa.breit_wigner.Bprime_q2 (hunt round 2, C04 finding 1):
   the polynomial at the NOMINAL momentum is a normalisation constant and enters by its modulus (it is negative for
   odd L when q0^2 is sufficiently negative: nominal mass beyond the kinematic limit); the event dependent
   denominator is always kept.  Code: bp = |P_L(z0)| / P_L(z); sqrt(where(bp > 0, bp, 1)).
   (Shape.LineShapes.Bprime_q2 is the code before the repair; both agree whenever P_L(z0) >= 0, in particular
   for every q0^2 >= 0: Bprime_q2_abs_eq_old.) ---- *)
Definition bp_ratio_abs (L : nat) (q2 q02 d : R) : R := Rabs (bp L (q02 * d ^ 2)) / bp L (q2 * d ^ 2).
Definition Bprime_q2_abs (L : nat) (q2 q02 d : R) : R :=
  let r := bp_ratio_abs L q2 q02 d in sqrt (if Rlt_dec 0 r then r else 1).
Definition res_amp_core_abs (c : C) (J : nat) (q2 q02 p p0 m0R g0R d : R) (mR cth : R) : C :=
  let f := (-1) ^ J * (sqrt q2 ^ J * Bprime_q2_abs J q2 q02 d) * (p ^ J * Bprime J p p0 d) * legendre J cth in
  Cmul c (Cscal f (BWR mR m0R g0R p p0 J d)).
