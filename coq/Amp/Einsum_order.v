(* C05 (order ties): the transposition / reshape step of tf_pwa.einsum.tensor_einsum_reduce_sum.
   Every operand with index string i is transposed to sorted(i, key) and then RESHAPED to a
   broadcast shape laid out in the common order require_order = sorted(all indices, key) (size 1
   for the indices the operand lacks).  The reshape does not move data: it only decides how the
   broadcast product READS the operand, namely along require_order restricted to the operand's
   own indices.  With key = order[x] alone (before commit 64ae4f6) ties keep each operand's own
   relative order (Python's sort is stable), so the transposed layout and the layout the product
   reads can differ; with key = (order[x], x) they cannot.  Definitions only. *)
From Coq Require Import List Arith Bool.
From TFV Require Import Amp.Einsum.
Import ListNotations.

(* the `order` value of an index name (e.g. scaled by 100) *)
Definition key := nat -> nat.

(* stable insertion sort (like Python's sorted): the head is inserted into the sorted tail and
   stops in front of the first element it is <= to, so it stays in front of equal elements that
   followed it in the input *)
Fixpoint insert_by (le : nat -> nat -> bool) (x : nat) (l : list nat) : list nat :=
  match l with
  | [] => [x]
  | y :: l' => if le x y then x :: y :: l' else y :: insert_by le x l'
  end.
Definition sort_by (le : nat -> nat -> bool) (l : list nat) : list nat :=
  fold_right (insert_by le) [] l.

(* key = order only: the code before the repair *)
Definition le_old (ord : key) (a b : nat) : bool := ord a <=? ord b.
Definition sort_old (ord : key) : list nat -> list nat := sort_by (le_old ord).
(* key = (order, name): the repaired code *)
Definition le_new (ord : key) (a b : nat) : bool :=
  (ord a <? ord b) || ((ord a =? ord b) && (a <=? b)).
Definition sort_new (ord : key) : list nat -> list nat := sort_by (le_new ord).

Section EinsumOrder.
  Variable K : Type.
  Variable kzero kone : K.
  Variable kadd kmul : K -> K -> K.

  (* set(ein_s[0]) - {","} *)
  Definition all_idx (part : list (tensor K)) : list nat :=
    nodup Nat.eq_dec (flat_map (t_idx K) part).
  Definition require_order (srt : list nat -> list nat) (part : list (tensor K)) : list nat :=
    srt (all_idx part).

  (* the operand after tf.transpose to srt (t_idx t) and tf.reshape to the layout req: the data
     are those of the transposed operand, the index list is how the broadcast product reads it *)
  Definition relabel (sz : list (nat * nat)) (srt : list nat -> list nat) (req : list nat)
             (t : tensor K) : tensor K :=
    {| t_idx := filter (fun i => existsb (Nat.eqb i) (t_idx K t)) req;
       t_data := t_data K (transpose_to K kzero sz t (srt (t_idx K t))) |}.

  (* broadcast product + reduce_sum over the non-kept indices = reference contraction of the
     relabelled operands *)
  Definition reduce_sum_step (sz : list (nat * nat)) (srt : list nat -> list nat)
             (part : list (tensor K)) (keep : list nat) : tensor K :=
    einsum_spec K kzero kone kadd kmul sz
                (map (relabel sz srt (require_order srt part)) part) keep.
End EinsumOrder.

(* exact evaluation over complex rationals *)
Definition reduce_sum_step_q_old (ord : key) (sz : list (nat * nat)) (part : list (tensor Qc))
           (keep : list nat) : tensor Qc :=
  reduce_sum_step Qc qc_zero qc_one qc_add qc_mul sz (sort_old ord) part keep.
Definition reduce_sum_step_q_new (ord : key) (sz : list (nat * nat)) (part : list (tensor Qc))
           (keep : list nat) : tensor Qc :=
  reduce_sum_step Qc qc_zero qc_one qc_add qc_mul sz (sort_new ord) part keep.
