(* C03: linear superposition of decay chains and fit fractions.  Definitions only.
   A "point" is one (event, helicity combination); a chain amplitude is the list of its complex
   values over all points (the flattened amplitude tensor). *)
From Coq Require Import Reals List.
From TFV Require Import Shape.LineShapes Amp.Dalitz3.
Import ListNotations.
Open Scope R_scope.

Definition Czero : C := (0, 0).
(* pointwise sum of chain amplitudes *)
Fixpoint vadd (a b : list C) : list C :=
  match a, b with x :: a', y :: b' => Cadd x y :: vadd a' b' | _, _ => [] end.
Definition vzero (n : nat) : list C := repeat Czero n.
Definition vsum (n : nat) (chains : list (list C)) : list C := fold_right vadd (vzero n) chains.
Definition vscale (z : C) (a : list C) : list C := map (Cmul z) a.

(* full amplitude: sum over chains of coupling * unit-coupling amplitude *)
Definition amp_total (n : nat) (cs : list C) (units : list (list C)) : list C :=
  vsum n (map (fun p => vscale (fst p) (snd p)) (combine cs units)).
(* selecting a subset of chains (set_used_chains / set_used_res): keep flagged chains *)
Definition select {A} (flags : list bool) (l : list A) : list A :=
  map snd (filter fst (combine flags l)).

(* weighted integral of |amplitude|^2 over points; w = weight of the point's event *)
Fixpoint wnorm (w : list R) (a : list C) : R :=
  match w, a with x :: w', z :: a' => x * Cnorm2 z + wnorm w' a' | _, _ => 0 end.
(* interference integral: sum w * 2 Re(a conj b) *)
Fixpoint winter (w : list R) (a b : list C) : R :=
  match w, a, b with
  | x :: w', z :: a', y :: b' => x * (2 * (fst z * fst y + snd z * snd y)) + winter w' a' b'
  | _, _, _ => 0 end.

Definition rsum (l : list R) : R := fold_right Rplus 0 l.

(* fit fractions as the code defines them *)
Definition I_all (n : nat) (w : list R) (chains : list (list C)) : R := wnorm w (vsum n chains).
Definition FF_single (n : nat) (w : list R) (chains : list (list C)) (a : list C) : R :=
  wnorm w a / I_all n w chains.
Definition FF_pair (n : nat) (w : list R) (chains : list (list C)) (a b : list C) : R :=
  wnorm w (vadd a b) / I_all n w chains - FF_single n w chains a - FF_single n w chains b.

(* all unordered pairs of a list *)
Fixpoint pairs {A} (l : list A) : list (A * A) :=
  match l with [] => [] | x :: r => map (fun y => (x, y)) r ++ pairs r end.

Definition FF_total (n : nat) (w : list R) (chains : list (list C)) : R :=
  rsum (map (FF_single n w chains) chains) + rsum (map (fun p => FF_pair n w chains (fst p) (snd p)) (pairs chains)).

(* closeness of two amplitude vectors, component-wise (a conjunction, so that each conjunct is one
   small interval goal) *)
Fixpoint close_all (tol : R) (a b : list C) : Prop :=
  match a, b with
  | x :: a', y :: b' => Rabs (fst x - fst y) <= tol /\ Rabs (snd x - snd y) <= tol /\ close_all tol a' b'
  | [], [] => True
  | _, _ => False
  end.
