"""helpers to state real / complex correspondence goals for Coq-Interval"""
from fractions import Fraction

from qfmt import Rq, frac


def _tol(scale, rtol, atol):
    t = Fraction(atol).limit_denominator(10**40) + Fraction(rtol).limit_denominator(10**40) * abs(frac(scale))
    if t == 0:
        t = Fraction(1, 10**200)
    return t


def real_stmt(model, y, rtol=1e-11, atol=0.0, scale=None):
    t = _tol(y if scale is None else scale, rtol, atol)
    return "(Rabs (%s - %s) <= %s)%%R" % (model, Rq(y), Rq(t))


def cplx_stmt(model, z, rtol=1e-11, atol=0.0):
    z = complex(z)
    t = _tol(abs(z), rtol, atol)
    return "((Rabs (fst (%s) - %s) <= %s) /\\ (Rabs (snd (%s) - %s) <= %s))%%R" % (
        model, Rq(z.real), Rq(t), model, Rq(z.imag), Rq(t))


def tac(unfold, hi=False):
    return "repeat split; cbv [%s]; %s" % (unfold, "rclose_hi" if hi else "rclose")
