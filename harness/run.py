"""./check <property> [--tier quick|thorough] [--replay file]"""
import argparse
import importlib
import json
import os
import sys

sys.path.insert(0, os.path.dirname(os.path.abspath(__file__)))
import bootstrap  # noqa: E402,F401
import common  # noqa: E402


def main():
    ap = argparse.ArgumentParser()
    ap.add_argument("pid")
    ap.add_argument("--tier", default=os.environ.get("VERIF_TIER", "quick"), choices=["quick", "thorough"])
    ap.add_argument("--replay", default=None)
    ap.add_argument("--seed", type=int, default=int(os.environ.get("VERIF_SEED", "0")))
    a = ap.parse_args()
    if a.pid == "setup":
        ok, log = common.coq_make()
        print(log[-3000:])
        bad = common.hygiene()
        if bad:
            print("HYGIENE:", *bad, sep="\n")
        sys.exit(0 if ok and not bad else 1)
    mod = importlib.import_module("props.%s" % a.pid.lower())
    if a.replay:
        sys.exit(mod.replay(json.load(open(a.replay))))
    ctx = common.Ctx(a.pid, a.tier, a.seed)
    bootstrap.seed_all(a.seed * 1000003 + int(a.pid[1:]))
    try:
        rc = mod.run(ctx)
    except Exception as e:
        import traceback

        tb = traceback.format_exc()
        ctx.fail("harness", "exception", tb[-2500:], site="harness", fingerprint="exception")
        rc = common.finish(ctx, technique=getattr(mod, "TECHNIQUE", ""))
    sys.exit(rc)


if __name__ == "__main__":
    main()
