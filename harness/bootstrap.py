"""Environment for running the implementation (/repo working tree) from the harness.

Forces the interpreter to see /repo's *current working tree*, fixes seeds and
thread/env settings, and installs the NumPy-2 shim (DESIGN.md section 8).
Import this module before anything from tf_pwa.
"""
import os
import sys

REPO = os.environ.get("VERIF_REPO", "/repo")

os.environ.setdefault("PYTHONHASHSEED", "0")
os.environ["CUDA_VISIBLE_DEVICES"] = ""
os.environ.setdefault("TF_CPP_MIN_LOG_LEVEL", "3")
os.environ.setdefault("TF_ENABLE_ONEDNN_OPTS", "0")
os.environ.setdefault("MPLBACKEND", "Agg")
# hooks guard (no hook commits exist; the name is reserved, see MANIFEST.hooks)
os.environ.setdefault("TF_PWA_VERIF", "1")

if sys.path[0:1] != [REPO]:
    sys.path.insert(0, REPO)

import numpy as _np  # noqa: E402

# NumPy >= 2 removed np.Inf; tf_pwa/fit_improve.py:101 still uses it.  This is an
# environment incompatibility, not one of the 20 properties: shim, do not edit repo.
if not hasattr(_np, "Inf"):
    _np.Inf = _np.inf
if not hasattr(_np, "float_"):
    _np.float_ = _np.float64
if not hasattr(_np, "complex_"):
    _np.complex_ = _np.complex128


def seed_all(seed: int):
    import random

    random.seed(seed)
    _np.random.seed(seed % (2**32))
    try:
        import tensorflow as tf

        tf.random.set_seed(seed)
    except Exception:
        pass


def tf_quiet():
    import logging
    import warnings

    warnings.filterwarnings("ignore")
    logging.getLogger("tensorflow").setLevel(logging.ERROR)
    try:
        import tensorflow as tf

        tf.get_logger().setLevel("ERROR")
    except Exception:
        pass
