"""Regenerates the machine-written parts of DESIGN.md: the findings table of section 7 (from KNOWN_FINDINGS.json)
and section 12 (seeded changes, from harness/seeded_meta.py).  Run: /venv/bin/python harness/design_tables.py"""
import json, os, re, sys
V = os.path.dirname(os.path.dirname(os.path.abspath(__file__)))
sys.path.insert(0, os.path.join(V, "harness"))
import seeded_meta  # noqa: E402


def findings_table():
    k = json.load(open(os.path.join(V, "KNOWN_FINDINGS.json")))["findings"]
    nf = sum(1 for f in k if f["status"] == "fixed")
    no = sum(1 for f in k if f["status"] == "open")
    rows = ["| property | site | status | what failed |", "|---|---|---|---|"]
    for f in k:
        what = f["what"]
        if f["status"] == "fixed":
            what = re.sub(r"^fixed: property=\S+ \S+ ", "", what)
            st = "fixed `%s`" % f["commit"]
        else:
            st = "**open** (`%s`)" % f.get("fingerprint", "")
        rows.append("| %s | %s | %s | %s |" % (f["property"], f["site"], st, what.replace("|", "/")))
    return nf, no, "\n".join(rows)


def seeded_table():
    rows = ["| id | property | change | needs, in order to manifest | first run | now |", "|---|---|---|---|---|---|"]
    n = missed = 0
    for sid, m in sorted(seeded_meta.S.items()):
        if not os.path.isdir(os.path.join(V, "seeded", sid)):
            continue
        n += 1
        first = "missed" if m["detection"].startswith("missed") else "caught"
        missed += first == "missed"
        now = "caught" if "caught" in m["detection"] else m["detection"]
        rows.append("| %s | %s | %s | %s | %s | %s |" % (sid, m["property"], m["what"], m["needs"], first, now if now == "caught" else "**" + now + "**"))
    return n, missed, "\n".join(rows)


def replace_block(text, tag, body):
    a, b = "<!-- BEGIN %s -->" % tag, "<!-- END %s -->" % tag
    if a not in text:
        raise SystemExit("marker %s missing in DESIGN.md" % a)
    pre, rest = text.split(a, 1)
    _, post = rest.split(b, 1)
    return pre + a + "\n" + body + "\n" + b + post


if __name__ == "__main__":
    p = os.path.join(V, "DESIGN.md")
    t = open(p).read()
    nf, no, ft = findings_table()
    t = replace_block(t, "FINDINGS", "%d fixed, %d open.\n\n%s" % (nf, no, ft))
    n, missed, st = seeded_table()
    t = replace_block(t, "SEEDED", "%d seeded changes kept; %d of them were missed by the first version of the check that met them and are caught since the "
                      "check was strengthened (column 'first run').\n\n%s" % (n, missed, st))
    open(p, "w").write(t)
    print("findings %d/%d, seeded %d (first missed %d)" % (nf, no, n, missed))
