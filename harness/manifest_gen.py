"""Regenerates MANIFEST.json from the table below (kept valid at all times)."""
import json, os
V = os.path.dirname(os.path.dirname(os.path.abspath(__file__)))
ALL = ["C%02d" % i for i in range(1, 21)]
# pid -> (design_ref, level text, level_note, technique)
CLAIMED = {}
def claim(pid, text, note, technique, ref):
    CLAIMED[pid] = dict(text=text, note=note, technique=technique, ref=ref)

exec(open(os.path.join(V, "harness", "claims.py")).read())

NOT_YET = "check not built yet in this round (planned in DESIGN.md section 5); will be claimed when its Coq model, theorems and correspondence exist"
m = {
 "version": 1,
 "setup_cmd": "cd /verif && ./check setup",
 "hooks": {"guard": "TF_PWA_VERIF", "enable": "no in-repo hooks: every seam is reached through the public API or by wrapping functions from the harness process (env TF_PWA_VERIF=1 is set by the harness but read by nothing in /repo)",
           "baseline_off_cmd": "cd /repo && /venv/bin/python -m pytest -ra -q -p no:cacheprovider --timeout=900 --continue-on-collection-errors",
           "source_commits": [], "add_only": True},
 "engines": [{"name": "coq-proof+correspondence", "path": "/verif/coq , /verif/harness", "serves_properties": sorted(CLAIMED),
              "kind_free_text": "Coq 8.16.1 theorems about a hand-written Gallina model; the model is tied to /repo on every run by correspondence cases evaluated inside Coq (vm_compute for discrete values, Coq-Interval for real values)"}],
 "checks": [],
 "notes": "See DESIGN.md. KNOWN_FINDINGS.json lists open and fixed findings.",
 "not_applicable": [],
}
for pid in ALL:
    if pid in CLAIMED:
        c = CLAIMED[pid]
        m["checks"].append({
            "property_id": pid,
            "quick_cmd": "./check %s --tier quick" % pid,
            "thorough_cmd": "./check %s --tier thorough" % pid,
            "evidence_file": "/verif/evidence/%s.json" % pid,
            "replay_cmd_template": "./check %s --replay {path}" % pid,
            "engine": "coq-proof+correspondence",
            "level_claimed": {"category": "proof", "text": c["text"], "design_ref": c["ref"]},
            "level_note": c["note"],
            "technique": c["technique"],
        })
    else:
        m["not_applicable"].append({"property_id": pid, "reason": NOT_YET})
json.dump(m, open(os.path.join(V, "MANIFEST.json"), "w"), indent=1)
print("claimed:", sorted(CLAIMED))
