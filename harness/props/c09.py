"""C09 - uncertainties are first-order propagated from the inverse Hessian.

Theorems: coq/Props/Properties_C09.v (model coq/Lik/ErrProp.v).
Tie (every goal is closed inside Coq by Coq-Interval on exact dyadic inputs/outputs):
  * tf_pwa.err_num.NumberError operators (both operands uncertain / plain number on the right /
    __rpow__ / neg / log / exp / apply) and cal_err (given and numeric gradient) on random operands
    of both signs;
  * VarsManager.trans_error_matrix on random matrices and bound sets, and on the call made by a real
    BFGS fit;
  * a small real fit (ConfigLoader(dict), samples from tf_pwa.phasespace.PhaseSpaceGenerator):
    get_params_error -> ||H_impl V_impl - I||_inf <= 1e-6 and err_i = sqrt|V_ii| on the captured
    matrices; cal_fitfractions (method old and new) errors vs sqrt(g^T V g) with g from central
    differences of the FRACTION ITSELF (computed here from amp.partial_weight, not from the library's
    gradient); ConfigLoader.params_trans / ParamsTrans.get_error on differentiable expressions.
  * cal_err on numpy-ARRAY operands (element-wise tie, called twice, operands must be left untouched);
  * applications.cal_hesse_correct on cubic toy likelihoods at non-stationary points: every corrected entry against the
    finite-difference stencils hc_diag / hc_off of the model (exact on cubics, theorems), the VarsManager back at the fit point;
  * VarsManager.minimize / minimize_error on bounded toy problems: hess_inv = y'(x_fit) V_x y'(x_fit) with V_x the matrix the
    optimiser returned (captured through the documented callable-method hook), H V = I for the Hessian path;
  * on one FitFractions object three successive queries with two error matrices; ParamsTrans.get_error_matrix (tensor and
    list input) entry by entry against J V J^T; params_trans under mask_params; pre_trans constraints.
On break: operator / operand-sign grid against finite-difference first-order propagation in plain Python."""
import contextlib
import io
import math
import os
import random

import numpy as np

import common
from qfmt import Rq
from rcases import _tol

TECHNIQUE = ("Coq proof (Coquelicot is_derive for every operator rule, quotient rule, bound transforms; finite-sum algebra for "
             "J V J^T and H V = I) + Coq-Interval certified correspondence of NumberError/cal_err/trans_error_matrix/"
             "get_params_error/cal_fitfractions/params_trans with the code")

HEADER = ("From Coq Require Import Reals List ZArith.\nFrom Interval Require Import Tactic.\n"
          "From TFV Require Import Base.RBase Base.Tie Lik.ErrProp.\nImport ListNotations.\nOpen Scope R_scope.\n")
UNF = ("NE nval nerr rpw ne_add ne_sub ne_mul ne_div ne_pow ne_add_c ne_sub_c ne_mul_c ne_div_c ne_pow_c ne_pow_z ne_neg ne_rpow "
       "ne_log ne_exp ne_apply ne_apply_num quad_sum cal_err_grad upd cdiff cal_err_num dot mat_vec quad_form err_prop mget mcol "
       "mmul_ij delta inv_residual_row hesse_error err_prop_vec ff ff_grad ff_int ff_int_grad ff_grad_vec bt_two bt_lower bt_upper "
       "bt_two_d bt_lower_d bt_upper_d scale_row trans_error_matrix hc1 hc2 hc_diag hc_off jvjt_kl fst snd map seq length nth fold_right combine Nat.eqb")
PRELUDE = ("Ltac zfix := repeat match goal with |- context [(?a - ?b)%Z] => let z := eval vm_compute in (a - b)%Z in change (a - b)%Z with z end.\n"
           "Ltac c09 := cbv [" + UNF + "]; zfix; rclose.\n")
TAC = "c09"


def close(model, y, rtol=1e-12, atol=1e-300):
    if not math.isfinite(float(y)):
        # the implementation returned nan/inf where the model is a real number: an unprovable goal, reported as a mismatch
        return "(Rabs (%s) < 0)%%R" % model
    return "(Rabs (%s - %s) <= %s)%%R" % (model, Rq(y), Rq(_tol(y, rtol, atol)))


def le_stmt(model, bound):
    return "(%s <= %s)%%R" % (model, Rq(bound))


def ne(v, e):
    return "(%s, %s)" % (Rq(v), Rq(e))


def rlist(xs):
    return "[" + "; ".join(Rq(float(x)) for x in xs) + "]"


def rmat(m):
    return "[" + "; ".join(rlist(r) for r in m) + "]"


def quiet():
    return contextlib.redirect_stdout(io.StringIO())


# --------------------------------------------------------------------------- NumberError operators

def sgn(rnd, lo, hi, neg=True):
    x = rnd.uniform(lo, hi)
    return -x if (neg and rnd.random() < 0.5) else x


def fd1(f, x, h=1e-6):
    return (f(x + h) - f(x - h)) / (2 * h)


BIN = {
    "add": (lambda a, b: a + b, lambda x, y: x + y, "ne_add"),
    "sub": (lambda a, b: a - b, lambda x, y: x - y, "ne_sub"),
    "mul": (lambda a, b: a * b, lambda x, y: x * y, "ne_mul"),
    "div": (lambda a, b: a / b, lambda x, y: x / y, "ne_div"),
    "pow": (lambda a, b: a ** b, lambda x, y: x ** y, "ne_pow"),
}
CONST = {
    "add_c": (lambda a, c: a + c, lambda x, c: x + c, "ne_add_c"),
    "sub_c": (lambda a, c: a - c, lambda x, c: x - c, "ne_sub_c"),
    "mul_c": (lambda a, c: a * c, lambda x, c: x * c, "ne_mul_c"),
    "div_c": (lambda a, c: a / c, lambda x, c: x / c, "ne_div_c"),
    "pow_c": (lambda a, c: a ** c, lambda x, c: x ** c, "ne_pow_c"),
}


def first_order_fd(kind, op, x, ex, y, ey):
    """plain-Python finite-difference first-order propagation (used for the failing-input record and the search)"""
    try:
        if kind == "bin":
            f = BIN[op][1]
            d1 = fd1(lambda t: f(t, y), x); d2 = fd1(lambda t: f(x, t), y)
            return f(x, y), math.sqrt((d1 * ex) ** 2 + (d2 * ey) ** 2)
        if kind == "const":
            f = CONST[op][1]
            return f(x, y), abs(fd1(lambda t: f(t, y), x)) * ex
        if kind == "pow_z":
            return x ** y, abs(fd1(lambda t: t ** y, x)) * ex
        if kind == "rpow":
            return y ** x, abs(fd1(lambda t: y ** t, x)) * ex
        if kind == "neg":
            return -x, ex
        if kind == "log":
            return math.log(x), abs(fd1(math.log, x)) * ex
        if kind == "exp":
            return math.exp(x), abs(fd1(math.exp, x)) * ex
    except Exception:
        return None
    return None


def run_op(kind, op, x, ex, y, ey):
    """evaluate the implementation; returns (value, error) as floats"""
    from tf_pwa.err_num import NumberError
    a = NumberError(x, ex)
    if kind == "bin":
        r = BIN[op][0](a, NumberError(y, ey))
    elif kind == "const":
        r = CONST[op][0](a, y)
    elif kind == "pow_z":
        r = a ** int(y)
    elif kind == "rpow":
        r = y ** a
    elif kind == "neg":
        r = -a
    elif kind == "log":
        r = a.log()
    elif kind == "exp":
        r = a.exp()
    else:
        raise ValueError(kind)
    return float(r.value), float(r.error)


def model_op(kind, op, x, ex, y, ey):
    if kind == "bin":
        return "%s %s %s" % (BIN[op][2], ne(x, ex), ne(y, ey))
    if kind == "const":
        return "%s %s %s" % (CONST[op][2], ne(x, ex), Rq(y))
    if kind == "pow_z":
        return "ne_pow_z %s (%d)%%Z" % (ne(x, ex), int(y))
    if kind == "rpow":
        return "ne_rpow %s %s" % (Rq(y), ne(x, ex))
    return "ne_%s %s" % (kind, ne(x, ex))


def gen_operands(rnd, kind, op):
    ex = rnd.uniform(0.01, 0.5); ey = rnd.uniform(0.01, 0.5)
    if kind == "bin":
        if op == "pow":
            return rnd.uniform(0.3, 4.0), ex, sgn(rnd, 0.2, 3.0), ey
        return sgn(rnd, 0.2, 5.0), ex, sgn(rnd, 0.2, 5.0), ey
    if kind == "const":
        if op == "pow_c":
            return rnd.uniform(0.3, 4.0), ex, sgn(rnd, 0.2, 3.0), 0.0
        return sgn(rnd, 0.2, 5.0), ex, sgn(rnd, 0.2, 5.0), 0.0
    if kind == "pow_z":
        return sgn(rnd, 0.3, 3.0), ex, float(rnd.choice([-3, -2, -1, 0, 1, 2, 3, 4])), 0.0
    if kind == "rpow":
        return sgn(rnd, 0.2, 3.0), ex, rnd.uniform(0.2, 4.0), 0.0
    if kind == "log":
        return rnd.uniform(0.1, 6.0), ex, 0.0, 0.0
    if kind == "exp":
        return sgn(rnd, 0.1, 3.0), ex, 0.0, 0.0
    return sgn(rnd, 0.2, 5.0), ex, 0.0, 0.0


OPS = ([("bin", o) for o in BIN] + [("const", o) for o in CONST] +
       [("pow_z", "pow_z"), ("rpow", "rpow"), ("neg", "neg"), ("log", "log"), ("exp", "exp")])


def op_cases(ctx, rnd, n):
    cases = []
    for kind, op in OPS:
        for k in range(n):
            x, ex, y, ey = gen_operands(rnd, kind, op)
            if k == 0 and (kind, op) == ("bin", "pow"):
                x, ex, y, ey = 2.0, 0.1, 3.0, 0.2      # the F1 witness
            if k == 0 and (kind, op) == ("const", "mul_c"):
                y = -abs(y)                             # F2: negative constant factor
            if k == 0 and (kind, op) == ("bin", "div"):
                y = -abs(y)                             # F2: negative divisor
            meta = {"kind": kind, "op": op, "x": x, "ex": ex, "y": y, "ey": ey}
            try:
                v, e = run_op(kind, op, x, ex, y, ey)
            except Exception as exc:
                ctx.fail("number_error", "%s_%d" % (op, k), "operator raised %r" % (exc,), inp=meta, site="tf_pwa/err_num.py NumberError",
                         fingerprint=op + ":raise", failing_input=dict(meta, error=repr(exc)))
                continue
            meta["impl"] = [v, e]
            m = model_op(kind, op, x, ex, y, ey)
            ctx.count("op:%s:%s%s" % (op, "x<0" if x < 0 else "x>0", (",y<0" if y < 0 else ",y>0") if kind in ("bin", "const", "pow_z") else ""))
            cases.append(("op_%s_%d_v" % (op, k), close("fst (%s)" % m, v), TAC, dict(meta, part="value")))
            cases.append(("op_%s_%d_e" % (op, k), close("snd (%s)" % m, e), TAC, dict(meta, part="error")))
    # NumberError.apply with an explicit derivative, and with the built-in central difference
    from tf_pwa.err_num import NumberError
    for k in range(max(2, n // 2)):
        x = sgn(rnd, 0.2, 2.0); ex = rnd.uniform(0.01, 0.3)
        r = NumberError(x, ex).apply(lambda t: t * t * t - 2 * t, grad=lambda t: 3 * t * t - 2)
        m = "ne_apply (fun t => t * t * t - 2 * t) (fun t => 3 * t * t - 2) %s" % ne(x, ex)
        meta = {"kind": "apply", "op": "apply", "x": x, "ex": ex, "impl": [float(r.value), float(r.error)]}
        cases.append(("op_apply_%d_v" % k, close("fst (%s)" % m, float(r.value)), TAC, dict(meta, part="value")))
        cases.append(("op_apply_%d_e" % k, close("snd (%s)" % m, float(r.error)), TAC, dict(meta, part="error")))
        r = NumberError(x, ex).apply(lambda t: t * t * t - 2 * t, dx=1e-3)
        m = "ne_apply_num (fun t => t * t * t - 2 * t) %s %s" % (Rq(1e-3), ne(x, ex))
        meta = {"kind": "apply_num", "op": "apply_num", "x": x, "ex": ex, "impl": [float(r.value), float(r.error)]}
        cases.append(("op_applynum_%d_e" % k, close("snd (%s)" % m, float(r.error), rtol=1e-9), TAC, dict(meta, part="error")))
        ctx.count("op:apply")
    return cases


CALERR_FUNS = [
    ("x*y+z", lambda x, y, z: x * y + z, lambda x, y, z: [y, x, 1.0], "(fun l => nth 0 l 0 * nth 1 l 0 + nth 2 l 0)"),
    ("x/y-z*z", lambda x, y, z: x / y - z * z, lambda x, y, z: [1 / y, -x / y / y, -2 * z], "(fun l => nth 0 l 0 / nth 1 l 0 - nth 2 l 0 * nth 2 l 0)"),
    ("x*y*z", lambda x, y, z: x * y * z, lambda x, y, z: [y * z, x * z, x * y], "(fun l => nth 0 l 0 * nth 1 l 0 * nth 2 l 0)"),
]


def calerr_cases(ctx, rnd, n):
    from tf_pwa.err_num import NumberError, cal_err
    cases = []
    for k in range(n):
        name, f, g, coqf = CALERR_FUNS[k % len(CALERR_FUNS)]
        xs = [sgn(rnd, 0.3, 3.0) for _ in range(3)]
        es = [rnd.uniform(0.01, 0.3) for _ in range(3)]
        plain = rnd.randrange(0, 4)  # which argument (if any) is a plain number, not a NumberError
        args = [x if i == plain else NumberError(x, e) for i, (x, e) in enumerate(zip(xs, es))]
        es_eff = [0.0 if i == plain else e for i, e in enumerate(es)]
        meta = {"kind": "cal_err", "fun": name, "values": xs, "errors": es_eff}
        r = cal_err(f, *args, grad=g)
        gs = [float(t) for t in g(*xs)]
        m = "cal_err_grad %s %s %s" % (Rq(float(r.value)), rlist(gs), rlist(es_eff))
        cases.append(("calerr_g_%d" % k, close("snd (%s)" % m, float(r.error)), TAC, dict(meta, grad="given", impl=[float(r.value), float(r.error)])))
        args = [x if i == plain else NumberError(x, e) for i, (x, e) in enumerate(zip(xs, es))]
        r = cal_err(f, *args, dx=1e-3)
        m = "cal_err_num %s %s %s %s" % (coqf, rlist(xs), rlist(es_eff), Rq(1e-3))
        cases.append(("calerr_n_%d_v" % k, close("fst (%s)" % m, float(r.value)), TAC, dict(meta, grad="numeric", impl=[float(r.value), float(r.error)])))
        cases.append(("calerr_n_%d_e" % k, close("snd (%s)" % m, float(r.error), rtol=1e-9), TAC, dict(meta, grad="numeric", impl=[float(r.value), float(r.error)])))
        ctx.count("cal_err:%s:plain_arg=%s" % (name, plain if plain < 3 else "none"))
        # numpy-array operands (element-wise propagation): two successive calls on the SAME operands; every element of both results is
        # tied to the scalar model at the ORIGINAL operand values, and the operands must come back bit-identical
        if k < len(CALERR_FUNS) or k % 3 == 0:
            m = 2
            xa = [np.array([sgn(rnd, 0.3, 3.0) for _ in range(m)]) for _ in range(3)]
            ea = [np.array([rnd.uniform(0.01, 0.3) for _ in range(m)]) for _ in range(3)]
            x0 = [a.copy() for a in xa]
            ea_eff = [np.zeros(m) if i == plain else e for i, e in enumerate(ea)]
            args = [x if i == plain else NumberError(x, e) for i, (x, e) in enumerate(zip(xa, ea))]
            for call in range(2):
                r = cal_err(f, *args, dx=1e-3)
                rv = np.array(r.value, dtype=float); re_ = np.array(r.error, dtype=float)
                for j in range(m):
                    xs_j = [float(a[j]) for a in x0]; es_j = [float(e[j]) for e in ea_eff]
                    meta = {"kind": "cal_err", "fun": name, "operands": "numpy arrays", "call": call, "element": j, "values": xs_j, "errors": es_j,
                            "grad": "numeric", "impl": [float(rv[j]), float(re_[j])]}
                    mdl = "cal_err_num %s %s %s %s" % (coqf, rlist(xs_j), rlist(es_j), Rq(1e-3))
                    cases.append(("calerr_a_%d_%d_%d_v" % (k, call, j), close("fst (%s)" % mdl, float(rv[j]), rtol=1e-9), TAC, meta))
                    cases.append(("calerr_a_%d_%d_%d_e" % (k, call, j), close("snd (%s)" % mdl, float(re_[j]), rtol=1e-9), TAC, meta))
            ctx.count("cal_err:%s:array_operands" % name)
            after = [np.array(a._value if isinstance(a, NumberError) else a, dtype=float) for a in args]
            if not all(np.array_equal(a, b) for a, b in zip(after, x0)):
                ctx.fail("cal_err", "calerr_a_%d_state" % k, "cal_err changed its numpy-array operands in place", inp=None, site=SITES["cal_err"],
                         fingerprint="cal_err:operand_mutated",
                         failing_input={"fun": name, "dx": 1e-3, "operands_before": [a.tolist() for a in x0], "operands_after_two_calls": [a.tolist() for a in after]})
    return cases


# --------------------------------------------------------------------------- cal_hesse_correct on cubic toy likelihoods

class CubicFCN:
    """NLL(v) = sum b_i v_i + sum A_ij v_i v_j + sum c_i v_i^3 + d v_0 v_1 v_2 + q v_0^2 v_1 with the interface cal_hesse_correct uses
    (vm, get_params, __call__, nll_grad_hessian)"""

    def __init__(self, b, A, c, d, q, point):
        import tensorflow as tf
        from tf_pwa.variable import VarsManager
        self.b, self.A, self.c, self.d, self.q = b, A, c, d, q
        self.names = ["v%d" % i for i in range(len(b))]
        self.vm = VarsManager(dtype=tf.float64)
        for nm, x in zip(self.names, point):
            self.vm.add_real_var(nm, x)

    def get_params(self, trainable_only=False):
        return self.vm.get_all_dic(trainable_only)

    def _set(self, x):
        self.vm.set_all(x if isinstance(x, dict) else list(x))

    def _f(self):
        v = [self.vm.variables[nm] for nm in self.names]
        n = len(v)
        y = sum(self.b[i] * v[i] for i in range(n)) + sum(self.A[i][j] * v[i] * v[j] for i in range(n) for j in range(n))
        y = y + sum(self.c[i] * v[i] * v[i] * v[i] for i in range(n)) + self.d * v[0] * v[1] * v[2] + self.q * v[0] * v[0] * v[1]
        return y

    def __call__(self, x={}):
        self._set(x)
        return float(self._f())

    def nll_grad_hessian(self, x={}):
        import tensorflow as tf
        self._set(x)
        var = self.vm.trainable_variables
        with tf.GradientTape(persistent=True) as t0:
            with tf.GradientTape() as t1:
                y = self._f()
            g = t1.gradient(y, var)
        h = tf.stack([tf.stack(t0.gradient(gi, var, unconnected_gradients="zero")) for gi in g])
        return y, tf.stack(g), h

    def coq(self):
        n = len(self.b)
        v = ["nth %d l 0" % i for i in range(n)]
        t = ["%s * %s" % (Rq(self.b[i]), v[i]) for i in range(n)]
        t += ["%s * %s * %s" % (Rq(self.A[i][j]), v[i], v[j]) for i in range(n) for j in range(n)]
        t += ["%s * %s * %s * %s" % (Rq(self.c[i]), v[i], v[i], v[i]) for i in range(n)]
        t += ["%s * %s * %s * %s" % (Rq(self.d), v[0], v[1], v[2]), "%s * %s * %s * %s" % (Rq(self.q), v[0], v[0], v[1])]
        return "(fun l => " + " + ".join(t) + ")"


def hesse_correct_cases(ctx, rnd, n):
    """get_params_error(method="correct", correct_params=[...]) replaces rows of the Hessian by finite differences (step 1e-3): on a
    cubic NLL both stencils are exact (C09_hesse_correct_*_exact_on_cubics), so every corrected entry must be the model's stencil value -
    also at points whose gradient is far from zero - and the parameters must be back at the fit point afterwards"""
    from tf_pwa.applications import cal_hesse_correct
    cases = []
    for k in range(n):
        nv = 3
        M = [[rnd.uniform(-1, 1) for _ in range(nv)] for _ in range(nv)]
        A = (np.array(M) @ np.array(M).T + np.eye(nv)).tolist()
        b = [rnd.uniform(-2, 2) for _ in range(nv)]
        c = [rnd.uniform(-0.3, 0.3) for _ in range(nv)]
        d, q = rnd.uniform(-0.5, 0.5), rnd.uniform(-0.5, 0.5)
        point = [rnd.uniform(-0.3, 0.3) for _ in range(nv)]
        fcn = CubicFCN(b, A, c, d, q, point)
        corr = rnd.sample(fcn.names, rnd.choice([1, 2, 3]))
        with quiet():
            _, g, h0 = fcn.nll_grad_hessian(dict(zip(fcn.names, point)))
            h = np.array(cal_hesse_correct(fcn, dict(zip(fcn.names, point)), corr), dtype=float)
        after = fcn.get_params()
        eig = np.linalg.eigvalsh(np.array(h0))
        if eig.min() <= 0:
            ctx.count("hesse_correct:hessian_not_positive_definite(skipped)")
            continue
        ctx.count("hesse_correct:n_corrected=%d" % len(corr))
        base = {"kind": "cal_hesse_correct", "b": b, "A": A, "c": c, "d": d, "q": q, "point": point, "correct_params": corr,
                "gradient_at_point": [float(t) for t in g], "autodiff_hessian": np.array(h0).tolist(), "impl_hessian": h.tolist()}
        idxs = [fcn.names.index(nm) for nm in corr]
        f = fcn.coq()
        for i in idxs:
            for j in range(nv):
                if j in idxs and i > j:
                    continue
                mdl = ("hc_diag %s %s %s %d" % (f, rlist(point), Rq(1e-3), i)) if i == j else ("hc_off %s %s %s %d %d" % (f, rlist(point), Rq(1e-3), i, j))
                meta = dict(base, entry=[i, j], impl=float(h[i][j]), exact_second_derivative=float(np.array(h0)[i][j]))
                cases.append(("hc%d_%d_%d" % (k, i, j), close(mdl, float(h[i][j]), rtol=0.0, atol=1e-8 * max(1.0, abs(float(np.array(h0)[i][j])))), TAC, meta))
                if abs(h[i][j] - h[j][i]) > 0:
                    ctx.fail("cal_hesse_correct", "hc%d_%d_%d_sym" % (k, i, j), "corrected Hessian not symmetric", site=SITES["cal_hesse_correct"],
                             fingerprint="hesse_correct:asymmetric", failing_input=meta)
        shift = max(abs(float(after[nm]) - x) for nm, x in zip(fcn.names, point))
        if shift > 0:
            ctx.fail("cal_hesse_correct", "hc%d_state" % k, "cal_hesse_correct left the parameters away from the fit point (largest shift %g)" % shift,
                     site=SITES["cal_hesse_correct"], fingerprint="hesse_correct:state",
                     failing_input=dict(base, params_after={nm: float(after[nm]) for nm in fcn.names}, largest_shift=shift))
    return cases


# --------------------------------------------------------------------------- VarsManager.minimize / minimize_error

def minimize_cases(ctx, rnd, n):
    """a toy NLL f(y) = 1/2 (y-m)^T A (y-m) + c/12 sum (y_i-m_i)^4 of bounded parameters, minimised through VarsManager.minimize with a callable
    method (the hook of its signature) that runs scipy BFGS and records what the optimiser returned in the fit variables x:
      ret.hess_inv = y'(x_fit) V_x y'(x_fit) (trans_error_matrix model with the derivative AT x_fit);
      minimize_error without a matrix: V = inverse of the Hessian in the physical parameters (H analytic, H V = I), errors sqrt|V_ii|"""
    import tensorflow as tf
    from scipy.optimize import minimize as sp_min
    from tf_pwa.variable import VarsManager
    cases = []
    for k in range(n):
        nv = rnd.choice([2, 3])
        names = ["q%d" % i for i in range(nv)]
        vm = VarsManager(dtype=tf.float64)
        bounds, m, start = {}, [], []
        for i, nm in enumerate(names):
            kind = "two" if i == 0 else rnd.choice(["two", "lower", "upper", "none"])   # at least one two-sided bound
            if kind == "two":
                a = rnd.uniform(-2, 0.5); w = rnd.uniform(0.6, 3); bounds[nm] = (a, a + w)
                m.append(a + w * rnd.uniform(0.2, 0.8)); start.append(a + w * rnd.uniform(0.3, 0.7))
            elif kind == "lower":
                a = rnd.uniform(-2, 2); bounds[nm] = (a, None)
                m.append(a + rnd.uniform(0.3, 2)); start.append(a + rnd.uniform(0.3, 2))
            elif kind == "upper":
                bb = rnd.uniform(-0.9, 2); bounds[nm] = (None, bb)
                m.append(bb - rnd.uniform(0.3, 2)); start.append(bb - rnd.uniform(0.3, 2))
            else:
                m.append(rnd.uniform(-1, 1)); start.append(rnd.uniform(-1, 1))
            vm.add_real_var(nm, start[-1])
            ctx.count("minimize:bound=" + kind)
        with quiet():
            vm.set_bound(bounds)
        M = np.array([[rnd.uniform(-1, 1) for _ in range(nv)] for _ in range(nv)])
        A = M @ M.T + np.eye(nv)
        c4 = rnd.uniform(0.5, 2.0)
        At = tf.constant(A, dtype=tf.float64); mt = tf.constant(m, dtype=tf.float64)

        def fcn():
            y = tf.stack([vm.variables[nm] for nm in names]) - mt
            return 0.5 * tf.reduce_sum(y * tf.linalg.matvec(At, y)) + c4 / 12 * tf.reduce_sum(y ** 4)

        raw = {}

        def meth(f2, x0, **kw):
            r = sp_min(f2, x0, jac=True, method="BFGS")
            raw["x"] = [float(t) for t in r.x]; raw["V"] = np.array(r.hess_inv, dtype=float)
            return r

        with quiet():
            ret = vm.minimize(fcn, method=meth)
        y_fit = [float(t) for t in ret.x]
        out = np.array(ret.hess_inv, dtype=float)
        meta = {"kind": "minimize", "bounds": {kk: list(v) for kk, v in bounds.items()}, "names": names, "minimum": m, "A": A.tolist(), "c4": c4,
                "x_fit(optimiser)": raw["x"], "V_x(optimiser)": raw["V"].tolist(), "y_fit": y_fit, "impl_hess_inv": out.tolist()}
        cases += tem_goals("min%d" % k, names, bounds, raw["V"], raw["x"], out, meta)
        # errors from the matrix minimize() returned
        err1 = [float(t) for t in vm.minimize_error(fcn, ret)]
        for i in range(nv):
            cases.append(("min%d_err%d" % (k, i), close("nth %d (hesse_error %s) 0" % (i, rmat(out)), err1[i], rtol=1e-11), TAC, dict(meta, errors=err1)))
        # errors from the exact Hessian (no matrix from the optimiser, as after L-BFGS-B)
        ret.hess_inv = None
        err2 = [float(t) for t in vm.minimize_error(fcn, ret)]
        V = np.array(ret.hess_inv, dtype=float)
        H = A + c4 * np.diag((np.array(y_fit) - np.array(m)) ** 2)
        meta2 = {"kind": "minimize_error", "bounds": meta["bounds"], "names": names, "y_fit": y_fit, "H(analytic, physical parameters)": H.tolist(),
                 "impl_hess_inv": V.tolist(), "impl_errors": err2, "expected_errors": np.sqrt(np.diag(np.linalg.inv(H))).tolist()}
        for i in range(nv):
            cases.append(("mine%d_inv_row%d" % (k, i), le_stmt("inv_residual_row %s %s %d" % (rmat(H), rmat(V), i), 1e-8), TAC, dict(meta2, row=i)))
            cases.append(("mine%d_err%d" % (k, i), close("nth %d (hesse_error %s) 0" % (i, rmat(V)), err2[i], rtol=1e-11), TAC, dict(meta2, row=i)))
    return cases


# --------------------------------------------------------------------------- trans_error_matrix

def dydx_model(bound, x):
    a, b = bound
    if a is not None and b is not None:
        return "bt_two_d %s %s %s" % (Rq(a), Rq(b), Rq(x))
    if a is not None:
        return "bt_lower_d %s" % Rq(x)
    if b is not None:
        return "bt_upper_d %s" % Rq(x)
    return "1"


def tem_goals(prefix, names, bounds, V, x, out, meta, rtol=1e-11):
    d = "[" + "; ".join(dydx_model(bounds.get(nm, (None, None)), xi) for nm, xi in zip(names, x)) + "]"
    m = "trans_error_matrix %s %s" % (d, rmat(V))
    scale = float(np.max(np.abs(out))) or 1.0
    cases = []
    for i in range(len(names)):
        for j in range(len(names)):
            cases.append(("%s_%d_%d" % (prefix, i, j), close("mget (%s) %d %d" % (m, i, j), float(out[i][j]), rtol=0.0, atol=rtol * scale), TAC,
                          dict(meta, entry=[i, j])))
    return cases


def tem_cases(ctx, rnd, n):
    from tf_pwa.variable import VarsManager
    cases = []
    for k in range(n):
        nv = rnd.choice([2, 3, 4])
        vm = VarsManager()
        names = ["p%d" % i for i in range(nv)]
        bounds = {}
        for nm in names:
            vm.add_real_var(nm, value=rnd.uniform(-1, 1))
            kind = rnd.choice(["two", "lower", "upper", "none"])
            if kind == "two":
                a = rnd.uniform(-2, 0.5); bounds[nm] = (a, a + rnd.uniform(0.2, 3))
            elif kind == "lower":
                bounds[nm] = (rnd.uniform(-2, 2), None)
            elif kind == "upper":
                # Bound(None, b) raises IndexError for b < -1 (sympy finds no inverse); observation O-C09-1, outside this property
                bounds[nm] = (None, rnd.uniform(-0.9, 2))
            ctx.count("trans_error_matrix:bound=" + kind)
        with quiet():
            vm.set_bound(bounds)
        A = np.array([[rnd.uniform(-1, 1) for _ in range(nv)] for _ in range(nv)])
        V = A @ A.T + 0.1 * np.eye(nv)
        x = [rnd.uniform(-2.5, 2.5) for _ in range(nv)]
        out = np.array(vm.trans_error_matrix(V, x))
        meta = {"kind": "trans_error_matrix", "bounds": {kk: list(v) for kk, v in bounds.items()}, "V": V.tolist(), "x": x, "impl": out.tolist()}
        cases += tem_goals("tem%d" % k, names, bounds, V, x, out, meta)
    return cases


# --------------------------------------------------------------------------- a small real fit

def make_config(variant, pre_trans=None):
    from tf_pwa.config_loader import ConfigLoader
    part = {
        "$top": {"A": {"J": 0, "P": -1, "mass": 1.0}},
        "$finals": {"B": {"J": 0, "P": -1, "mass": 0.1}, "C": {"J": 0, "P": -1, "mass": 0.1}, "D": {"J": 0, "P": -1, "mass": 0.1}},
        "R_BD": {"J": 0, "P": 1, "mass": 0.6, "width": 0.08},
    }
    decay = {"A": [["R_BC", "D"], ["R_BD", "C"]], "R_BC": ["B", "C"], "R_BD": ["B", "D"]}
    if variant == 0:     # two resonances, bounded mass (two-sided) and width (lower) floating: 4 free parameters
        part["R_BC"] = {"J": 0, "P": 1, "mass": 0.5, "width": 0.05, "float": "mg", "mass_min": 0.35, "mass_max": 0.65, "width_min": 0.005}
        truth = {"R_BC_mass": 0.5, "R_BC_width": 0.05, "A->R_BD.CR_BD->B.D_total_0r": 0.8, "A->R_BD.CR_BD->B.D_total_0i": 0.7}
    else:                # three resonances, one floating mass (upper bound): 5 free parameters
        part["R_BC"] = {"J": 0, "P": 1, "mass": 0.5, "width": 0.05, "float": "m", "mass_max": 0.7}
        part["R_CD"] = {"J": 0, "P": 1, "mass": 0.45, "width": 0.06}
        decay["A"].append(["R_CD", "B"]); decay["R_CD"] = ["C", "D"]
        truth = {"R_BC_mass": 0.5, "A->R_BD.CR_BD->B.D_total_0r": 0.8, "A->R_BD.CR_BD->B.D_total_0i": 0.7,
                 "A->R_CD.BR_CD->C.D_total_0r": 0.6, "A->R_CD.BR_CD->C.D_total_0i": -1.1}
    d = {"data": {"dat_order": ["B", "C", "D"]}, "decay": decay, "particle": part,
         "constrains": {"decay": {"fix_chain_idx": 0, "fix_chain_val": 1.0}}}
    if pre_trans:
        d["constrains"]["pre_trans"] = {k: dict(v) for k, v in pre_trans.items()}
    with quiet():
        config = ConfigLoader(d)
        config.get_amplitude()
    return config, truth


def gen_events(config, n, seed):
    import tensorflow as tf
    from tf_pwa.phasespace import PhaseSpaceGenerator
    np.random.seed(seed); tf.random.set_seed(seed)
    ps = PhaseSpaceGenerator(1.0, [0.1, 0.1, 0.1]).generate(n)
    return config.data.cal_angle([np.array(p) for p in ps])


def fractions_of(amp, phsp, combos):
    """fit fractions computed in the harness from per-event weights of chain subsets"""
    import tensorflow as tf
    with quiet():
        pw = amp.partial_weight(phsp, combine=[list(c) for c in combos])
    return [float(tf.reduce_sum(w)) for w in pw]


def fit_cases(ctx, rnd, variant, seed, ndata=400, nphsp=1500):
    import tensorflow as tf
    import tf_pwa.model.model as mm
    from tf_pwa.data import data_mask
    from tf_pwa.variable import VarsManager
    cases = []
    tag = "f%d_%d" % (variant, seed)
    config, truth = make_config(variant)
    with quiet():
        config.set_params(truth)
    amp = config.get_amplitude()
    vm = amp.vm
    phsp = gen_events(config, nphsp, seed + 1)
    big = gen_events(config, ndata * 50, seed + 2)
    w = amp(big).numpy()
    u = np.random.RandomState(seed + 3).rand(len(w)) * w.max()
    idx = np.where(u < w)[0][:ndata]
    msk = np.zeros(len(w), bool); msk[idx] = True
    data = data_mask(big, msk)
    # start away from the truth
    names = list(vm.trainable_vars)
    with quiet():
        config.set_params({k: v * rnd.uniform(0.97, 1.03) for k, v in truth.items()})

    cap = {"tem": []}
    orig_h = mm.FCN.nll_grad_hessian
    orig_t = VarsManager.trans_error_matrix

    def wrap_h(self, *a, **k):
        r = orig_h(self, *a, **k)
        cap["H"] = np.array(r[2], dtype=float)
        return r

    def wrap_t(self, hess_inv, xvals):
        out = orig_t(self, hess_inv, xvals)
        cap["tem"].append((np.array(hess_inv, dtype=float), [float(t) for t in xvals],
                           {k: (b.lower, b.upper) for k, b in self.bnd_dic.items()}, list(self.trainable_vars), np.array(out, dtype=float)))
        return out

    mm.FCN.nll_grad_hessian = wrap_h
    VarsManager.trans_error_matrix = wrap_t
    try:
        with quiet():
            res = config.fit([data], [phsp], method="BFGS", print_init_nll=False)
        ctx.count("fit:variant%d:success=%s" % (variant, bool(res.success)))
        # ---- layer: bound transformation of the BFGS inverse Hessian (the call made by fit_scipy)
        for t, (Vx, xv, bnds, tv, out) in enumerate(cap["tem"][:1]):
            meta = {"kind": "fit.trans_error_matrix", "variant": variant, "bounds": {k: list(v) for k, v in bnds.items()}, "x": xv}
            cases += tem_goals("%s_tem%d" % (tag, t), tv, bnds, Vx, xv, out, meta)
            ctx.count("fit:trans_error_matrix_call")
        # ---- layer: Hessian -> inverse -> errors
        for method in ("correct", "hesse"):
            cap.pop("H", None)
            with quiet():
                err = config.get_params_error(res, [data], [phsp]) if method == "correct" else config.get_params_error(res, [data], [phsp], method=method)
            H = cap.get("H"); V = np.array(config.inv_he, dtype=float)
            n = len(names)
            eig = np.linalg.eigvalsh((H + H.T) / 2)
            meta = {"kind": "get_params_error", "variant": variant, "method": method, "names": names, "H": H.tolist(), "V": V.tolist(),
                    "errors": [float(err[k]) for k in names], "min_eig_H": float(eig.min())}
            if eig.min() <= 0:
                ctx.count("fit:hessian_not_positive_definite(skipped)")
                ctx.notes.append("variant %d: Hessian not positive definite (min eig %g) - outside the property's hypothesis, skipped" % (variant, eig.min()))
                continue
            ctx.count("fit:get_params_error:%s:n=%d" % (method, n))
            for i in range(n):
                cases.append(("%s_%s_inv_row%d" % (tag, method, i), le_stmt("inv_residual_row %s %s %d" % (rmat(H), rmat(V), i), 1e-6), TAC, dict(meta, row=i)))
                cases.append(("%s_%s_err%d" % (tag, method, i), close("nth %d (hesse_error %s) 0" % (i, rmat(V)), float(err[names[i]]), rtol=1e-11), TAC, dict(meta, row=i)))
        # ---- get_params_error(correct_params=[...]) (finite-difference rows, cal_hesse_correct): the parameters must be back at the fit
        #      point afterwards (everything below - fit fractions, params_trans - is evaluated at the current parameters)
        before = {k: float(v) for k, v in config.get_params().items()}
        corr = [names[0], names[-1]]
        with quiet():
            config.get_params_error(res, [data], [phsp], method="correct", correct_params=corr)
        after = {k: float(v) for k, v in config.get_params().items()}
        shift = max(abs(after[k] - before[k]) for k in before)
        ctx.count("fit:get_params_error:correct_params=2:state")
        if shift > 0:
            ctx.fail("cal_hesse_correct", "%s_correct_state" % tag, "get_params_error(method='correct', correct_params=%r) left the parameters away from the fit point (largest shift %g)" % (corr, shift),
                     site=SITES["cal_hesse_correct"], fingerprint="hesse_correct:state",
                     failing_input={"variant": variant, "correct_params": corr, "params_before": before, "params_after": after, "largest_shift": shift})
            with quiet():
                config.set_params(before)   # keep the later layers at the fit point
        with quiet():
            err_hesse = config.get_params_error(res, [data], [phsp], method="hesse")
        V = np.array(config.inv_he, dtype=float)
        # ---- layer: fit-fraction errors vs sqrt(g^T V g), g = central differences of the fraction itself
        nres = 2 if variant == 0 else 3
        resn = [str(c.inner[0]) for c in amp.decay_group.chains]
        combos = [(i,) for i in range(nres)] + [(i, j) for i in range(nres) for j in range(i)] + [tuple(range(nres))]
        theta = {k: float(v) for k, v in config.get_params().items() if k in names}

        def fracs_at(th):
            vm.set_all(th)
            ints = dict(zip(combos, fractions_of(amp, phsp, combos)))
            tot = ints[tuple(range(nres))]
            fr = {}
            for i in range(nres):
                fr[resn[i]] = ints[(i,)] / tot
            for i in range(nres):
                for j in range(i):
                    fr[(resn[i], resn[j])] = ints[(i, j)] / tot - fr[resn[i]] - fr[resn[j]]
            fr["sum_diag"] = sum(fr[resn[i]] for i in range(nres))
            return fr

        h = 1e-5
        grads = {}
        f0 = fracs_at(theta)
        for k in names:
            tp = dict(theta); tp[k] += h
            tm = dict(theta); tm[k] -= h
            fp, fm = fracs_at(tp), fracs_at(tm)
            for key in f0:
                grads.setdefault(key, []).append((fp[key] - fm[key]) / (2 * h))
        vm.set_all(theta)
        for method in ("old", "new", "new_reintegrated"):
            with quiet():
                if method == "new_reintegrated":
                    # the accumulating FitFractions object is integrated a second time (second sample / new parameters in real use):
                    # values AND errors must again be those of the sample just integrated
                    fe = config.cal_fitfractions(res.params, mcdata=phsp, method="new")
                    with config.get_amplitude().temp_params(res.params):
                        fe.integral(phsp, batch=max(1, nphsp // 3))
                    frac, ferr = fe.get_frac()
                else:
                    fe = config.cal_fitfractions(res.params, mcdata=phsp, method=method)
                    frac, ferr = fe
            queries = [(method, V, frac, ferr)]
            if method == "new":
                # the SAME FitFractions object is queried again: with another error matrix, then once more with the first one
                # (get_frac_grad in between); every query must be sqrt(g^T V g) of the matrix of THAT query
                B = np.array([[rnd.uniform(-1, 1) for _ in range(len(names))] for _ in range(len(names))])
                V2 = 2.0 * V + 0.05 * float(np.mean(np.diag(V))) * (B @ B.T)
                with quiet():
                    f2, e2 = fe.get_frac(error_matrix=V2)
                    fe.get_frac_grad()
                    f3, e3 = fe.get_frac(error_matrix=V)
                queries += [("new_query2", V2, f2, e2), ("new_query3", V, f3, e3)]
            for method, Vq, frac, ferr in queries:
              for key in frac:
                  hk = key if key in f0 else (key[1], key[0]) if isinstance(key, tuple) else key
                  if hk not in f0:
                      ctx.notes.append("fraction key %r not reproduced by the harness" % (key,))
                      continue
                  g = grads[hk]
                  cid = "%s_ff_%s_%s" % (tag, method, "_".join(key) if isinstance(key, tuple) else key)
                  meta = {"kind": "cal_fitfractions", "variant": variant, "method": method, "fraction": str(key), "impl_fraction": float(frac[key]),
                          "harness_fraction": f0[hk], "impl_error": float(ferr[key]), "harness_gradient": g, "V": Vq.tolist(),
                          "harness_error": float(np.sqrt(np.dot(np.dot(Vq, g), g)))}
                  ctx.count("fit:fraction_error:%s:%s" % (method, "interference" if isinstance(key, tuple) else "diag" if key != "sum_diag" else "sum_diag"))
                  cases.append((cid + "_v", close(Rq(f0[hk]), float(frac[key]), rtol=1e-9, atol=1e-12), "rclose", dict(meta, part="value")))
                  cases.append((cid + "_e", close("err_prop %s %s" % (rmat(Vq), rlist(g)), float(ferr[key]), rtol=2e-5, atol=1e-9), TAC, dict(meta, part="error")))
        # ---- layer: user expressions under the error-propagation context
        import tensorflow as tf
        exprs = [
            ("a*b+sin(c)", lambda a, b, c: a * b + math.sin(c), lambda a, b, c: a * b + tf.sin(c)),
            ("a/(b*b+1)-c*a", lambda a, b, c: a / (b * b + 1) - c * a, lambda a, b, c: a / (b * b + 1) - c * a),
            ("exp(a)*c", lambda a, b, c: math.exp(a) * c, lambda a, b, c: tf.exp(a) * c),
        ]
        use = names[:3] if len(names) >= 3 else names
        th = [theta[k] for k in use]
        for (ename, pyf, tff) in exprs:
            with quiet():
                with config.params_trans() as pt:
                    y = tff(*[pt[k] for k in use])
                e = float(pt.get_error(y))
            g = []
            for k in names:
                if k in use:
                    i = use.index(k)
                    tp = list(th); tp[i] += 1e-6
                    tm = list(th); tm[i] -= 1e-6
                    g.append((pyf(*tp) - pyf(*tm)) / 2e-6)
                else:
                    g.append(0.0)
            meta = {"kind": "params_trans", "variant": variant, "expression": ename, "variables": use, "values": th, "impl_error": e, "harness_gradient": g}
            ctx.count("fit:params_trans:" + ename)
            cases.append(("%s_pt_%d" % (tag, exprs.index((ename, pyf, tff))), close("err_prop %s %s" % (rmat(V), rlist(g)), e, rtol=1e-6, atol=1e-12), TAC, meta))
        # vector form: sqrt diag (J V J^T)
        with quiet():
            with config.params_trans() as pt:
                ys = tf.stack([exprs[0][2](*[pt[k] for k in use]), exprs[1][2](*[pt[k] for k in use])])
            ev = [float(t) for t in pt.get_error(ys)]
        J = []
        for (ename, pyf, tff) in exprs[:2]:
            row = []
            for k in names:
                if k in use:
                    i = use.index(k)
                    tp = list(th); tp[i] += 1e-6
                    tm = list(th); tm[i] -= 1e-6
                    row.append((pyf(*tp) - pyf(*tm)) / 2e-6)
                else:
                    row.append(0.0)
            J.append(row)
        for r in range(2):
            cases.append(("%s_ptv_%d" % (tag, r), close("nth %d (err_prop_vec %s %s) 0" % (r, rmat(J), rmat(V)), ev[r], rtol=1e-6, atol=1e-12), TAC,
                          {"kind": "params_trans", "variant": variant, "expression": "vector[%d]" % r, "impl_error": ev[r], "harness_gradient": J[r]}))
        ctx.count("fit:params_trans:vector")

        def fd_grad(pyf, th_):
            row = []
            for k in names:
                if k in use:
                    i = use.index(k)
                    tp = list(th_); tp[i] += 1e-6
                    tm = list(th_); tm[i] -= 1e-6
                    row.append((pyf(*tp) - pyf(*tm)) / 2e-6)
                else:
                    row.append(0.0)
            return row

        # covariance of several derived quantities, ParamsTrans.get_error_matrix: a vector tensor (3 expressions, 3 != number of
        # variables) and the same expressions as a list; every entry against (J V J^T)_kl
        J3 = [fd_grad(pyf, th) for (_, pyf, _) in exprs]
        for form in ("tensor", "list"):
            with quiet():
                with config.params_trans() as pt:
                    yl = [tff(*[pt[k] for k in use]) for (_, _, tff) in exprs]
                    arg = tf.stack(yl) if form == "tensor" else yl
                C = np.array(pt.get_error_matrix(arg), dtype=float)
            scale = float(np.max(np.abs(C))) or 1.0
            meta = {"kind": "params_trans", "variant": variant, "expression": "get_error_matrix(%s of %d expressions)" % (form, len(exprs)),
                    "variables": use, "values": th, "impl_matrix": C.tolist(), "harness_jacobian": J3}
            if C.shape != (3, 3):
                ctx.fail("params_trans", "%s_ptm_%s_shape" % (tag, form), "get_error_matrix returned shape %r" % (C.shape,), site=SITES["params_trans"],
                         fingerprint="params_trans:error_matrix", failing_input=meta)
                continue
            for a in range(3):
                for b in range(3):
                    cases.append(("%s_ptm_%s_%d_%d" % (tag, form, a, b), close("jvjt_kl %s %s %d %d" % (rmat(J3), rmat(V), a, b), float(C[a][b]), rtol=0.0, atol=2e-6 * scale),
                                  TAC, dict(meta, entry=[a, b])))
            ctx.count("fit:params_trans:error_matrix:" + form)
        # a masked parameter (pt.mask_params) is a constant inside the expression: value at the masked number, no contribution to the error
        mk = use[1] if len(use) > 1 else use[0]
        mval = round((th[use.index(mk)] * 1.25 + 0.1) * 64) / 64   # dyadic: exact on any float route into the mask
        thm = list(th); thm[use.index(mk)] = mval
        for (ename, pyf, tff) in exprs[:2]:
            with quiet():
                with config.params_trans() as pt:
                    with pt.mask_params({mk: mval}):
                        y = tff(*[pt[k] for k in use])
                yv = float(y); e = float(pt.get_error(y))
            g = fd_grad(pyf, thm); g[names.index(mk)] = 0.0
            meta = {"kind": "params_trans", "variant": variant, "expression": ename + " with %s masked" % mk, "variables": use, "values": th, "masked": {mk: mval},
                    "impl_value": yv, "expected_value": pyf(*thm), "impl_error": e, "harness_gradient": g}
            ctx.count("fit:params_trans:masked")
            cid = "%s_ptmask_%d" % (tag, exprs.index((ename, pyf, tff)))
            cases.append((cid + "_v", close(Rq(pyf(*thm)), yv, rtol=1e-12, atol=1e-300), "rclose", dict(meta, part="value")))
            cases.append((cid + "_e", close("err_prop %s %s" % (rmat(V), rlist(g)), e, rtol=1e-6, atol=1e-12), TAC, dict(meta, part="error")))
        # ---- a pre_trans constraint (reported parameter = k * variable + b): same likelihood, same reported value, so the reported
        #      uncertainty must be the same as without the constraint.  Stated rule: the regular stream has no pre_trans configurations;
        #      ONE such configuration per run (first variant-1 fit), its get_params_error part is the open finding pre_trans:error_of_raw_variable
        if variant == 1 and not ctx.pretrans_done:
            ctx.pretrans_done = True
            key = "R_BC_mass"; kk, bb = 2.0, 0.1
            ref_err = float(err_hesse[key])
            config2, _ = make_config(variant, pre_trans={key: {"model": "linear", "k": kk, "b": bb}})
            with quiet():
                config2.set_params(dict(res.params))
                val2 = float(config2.get_params()[key])
                err2 = config2.get_params_error(dict(res.params), [data], [phsp], method="hesse")
                with config2.params_trans() as pt2:
                    y2 = pt2[key] * 1.0
                pv, pe = float(y2), float(pt2.get_error(y2))
            metap = {"kind": "params_trans", "variant": variant, "expression": "pt[%r] with pre_trans linear k=%g b=%g" % (key, kk, bb),
                     "reported_value": theta[key], "reported_value_with_pre_trans": val2, "error_without_pre_trans": ref_err,
                     "impl_value": pv, "impl_error": pe, "get_params_error_with_pre_trans": float(err2[key])}
            ctx.count("fit:pre_trans:params_trans")
            cases.append(("%s_pretrans_pt_v" % tag, close(Rq(theta[key]), pv, rtol=1e-9), "rclose", dict(metap, part="value")))
            cases.append(("%s_pretrans_pt_e" % tag, close("nth %d (hesse_error %s) 0" % (names.index(key), rmat(V)), pe, rtol=1e-6), TAC, dict(metap, part="error")))
            ctx.count("fit:pre_trans:get_params_error(open finding)")
            if abs(val2 - theta[key]) > 1e-9 * abs(theta[key]) or abs(float(err2[key]) - ref_err) > 1e-6 * ref_err:
                ctx.fail("get_params_error", "%s_pretrans_err" % tag,
                         "with pre_trans {%s: linear k=%g b=%g} the reported value is %r (without: %r) but the reported error is %r (without: %r, ratio %g)"
                         % (key, kk, bb, val2, theta[key], float(err2[key]), ref_err, float(err2[key]) / ref_err),
                         site="tf_pwa/config_loader/config_loader.py ConfigLoader.get_params_error with a pre_trans constraint",
                         fingerprint="pre_trans:error_of_raw_variable", failing_input=metap)
    finally:
        mm.FCN.nll_grad_hessian = orig_h
        VarsManager.trans_error_matrix = orig_t
    return cases


# --------------------------------------------------------------------------- search on break

def search(ctx, fails):
    """operator x operand-sign grid on the implementation, compared with finite-difference first-order
    propagation computed in plain Python (independent of the Coq model)"""
    for kind, op in OPS:
        for sx in (1, -1):
            for sy in (1, -1):
                x, ex, y, ey = 2.0 * sx, 0.1, 3.0 * sy, 0.2
                if kind == "bin" and op == "pow" or (kind == "const" and op == "pow_c"):
                    x = abs(x)
                if kind == "rpow":
                    y = abs(y)
                if kind == "log":
                    x = abs(x)
                if kind in ("const", "pow_z", "rpow", "neg", "log", "exp"):
                    ey = 0.0
                try:
                    v, e = run_op(kind, op, x, ex, y, ey)
                except Exception as exc:
                    return {"op": op, "x": x, "ex": ex, "y": y, "ey": ey, "error": repr(exc)}
                ref = first_order_fd(kind, op, x, ex, y, ey)
                if ref is None:
                    continue
                if abs(e - ref[1]) > 1e-5 * max(1.0, abs(ref[1])) or e < 0:
                    return {"op": op, "x": x, "ex": ex, "y": y, "ey": ey, "impl_value": v, "impl_error": e,
                            "first_order_error(finite differences)": ref[1]}
    return None


SITES = {
    "cal_err": "tf_pwa/err_num.py cal_err",
    "trans_error_matrix": "tf_pwa/variable.py VarsManager.trans_error_matrix",
    "fit.trans_error_matrix": "tf_pwa/variable.py VarsManager.trans_error_matrix",
    "get_params_error": "tf_pwa/config_loader/config_loader.py get_params_error / tf_pwa/applications.py cal_hesse_error",
    "cal_fitfractions": "tf_pwa/fitfractions.py cal_fitfractions / FitFractions.get_frac_grad",
    "params_trans": "tf_pwa/params_trans.py ParamsTrans.get_error / get_error_matrix / __getitem__",
    "cal_hesse_correct": "tf_pwa/applications.py cal_hesse_correct",
    "minimize": "tf_pwa/variable.py VarsManager.minimize",
    "minimize_error": "tf_pwa/variable.py VarsManager.minimize_error",
}


def FP_SUFFIX(meta):
    """sub-fingerprint of the scenario families added after the first build (the original families keep the bare kind)"""
    e = str(meta.get("expression", ""))
    if meta.get("kind") == "params_trans":
        if e.startswith("get_error_matrix"):
            return ":error_matrix"
        if "masked" in e:
            return ":mask_params"
        if "pre_trans" in e:
            return ":pre_trans"
    if meta.get("kind") == "cal_err" and meta.get("operands") == "numpy arrays":
        return ":array_operands"
    if meta.get("kind") == "cal_fitfractions" and str(meta.get("method", "")).startswith("new_query"):
        return ":repeated_query"
    return ""


def run(ctx):
    rnd = random.Random(ctx.seed * 1000003 + 9)
    ctx.rule = ("seeded random operands |x| in [0.2,5] of both signs (base > 0 for real powers, any sign for integer powers), errors in [0.01,0.5], "
                "plain numbers on the right and on the left (__rpow__); random SPD matrices and bound sets for trans_error_matrix; 400-event toy fits "
                "(2 and 3 spin-0 resonances, 4-5 free parameters incl. bounded mass/width); distinct = distinct (layer, inputs); "
                "non-trivial = both operands/matrices non-degenerate (no zero error, no identity transform only); cal_err also on numpy-array operands "
                "(two calls per operand set); cubic 3-parameter toy likelihoods at points with |v_i| <= 0.3 (gradient not zero) for cal_hesse_correct with 1-3 "
                "corrected parameters; bounded 2-3 parameter toy minimisations (first parameter two-sided) for VarsManager.minimize/minimize_error; "
                "per fit: get_params_error(correct_params) state, three queries of one FitFractions object, get_error_matrix of 3 expressions, mask_params; "
                "pre_trans configurations are NOT in the regular stream: exactly one (first variant-1 fit, R_BC_mass -> 2 x + 0.1) per run, whose "
                "get_params_error part is the open finding pre_trans:error_of_raw_variable")
    common.theorem_stage(ctx)
    quick = ctx.tier == "quick"
    os.chdir(ctx.dir)   # cal_hesse_error writes error_matrix.npy into the working directory
    cases = op_cases(ctx, rnd, 4 if quick else 40)
    ctx.log("operator cases", len(cases))
    cases += calerr_cases(ctx, rnd, 6 if quick else 60)
    cases += tem_cases(ctx, rnd, 3 if quick else 30)
    cases += hesse_correct_cases(ctx, rnd, 3 if quick else 30)
    cases += minimize_cases(ctx, rnd, 3 if quick else 20)
    ctx.log("+cal_err, trans_error_matrix, cal_hesse_correct, minimize cases", len(cases))
    ctx.pretrans_done = False
    for variant, seed in ([(0, 11), (1, 23)] if quick else [(0, 11), (1, 23), (0, 37), (1, 41), (0, 59), (1, 67)]):
        try:
            cases += fit_cases(ctx, rnd, variant, seed + 100 * ctx.seed)
        except Exception as exc:
            import traceback
            ctx.fail("fit", "variant%d" % variant, "real-fit layer raised: " + traceback.format_exc()[-1500:], site="harness", fingerprint="fit:raise",
                     failing_input={"variant": variant, "seed": seed, "error": repr(exc)})
        ctx.log("+fit variant %d cases" % variant, len(cases))
    ctx.evaluations += len(cases)
    for c in cases:
        m = c[3]
        ctx.distinct.add((m.get("kind"), m.get("op", m.get("fun", m.get("method", m.get("expression", "")))), c[0]))
    for c in cases[:: max(1, len(cases) // 6)]:
        ctx.sample({"case": c[0], "goal": c[1][:300], "meta": {k: v for k, v in c[3].items() if k not in ("H", "V", "harness_gradient")}})
    res = common.coq_cases(ctx, "errprop", HEADER, [c[:3] for c in cases], per_file=10, case_timeout=60, prelude=PRELUDE)
    for cid, stmt, t, meta in cases:
        if res[cid] == "OK":
            continue
        kind = meta.get("kind")
        if kind in ("bin", "const", "pow_z", "rpow", "neg", "log", "exp", "apply", "apply_num"):
            ref = first_order_fd(kind, meta["op"], meta["x"], meta["ex"], meta.get("y", 0.0), meta.get("ey", 0.0)) if kind not in ("apply", "apply_num") else None
            fi = dict(meta, first_order_by_finite_differences=list(ref) if ref else None, coq_result=res[cid])
            ctx.fail("number_error", cid, "NumberError %s: implementation %s not within tolerance of the first-order rule (%s)" % (meta["op"], meta["part"], res[cid]),
                     inp=meta, site="tf_pwa/err_num.py NumberError", fingerprint=meta["op"], failing_input=fi)
        else:
            fi = {k: v for k, v in meta.items()}
            fi["coq_result"] = res[cid]
            ctx.fail(kind, cid, "%s: implementation value not within tolerance of the model (%s)" % (kind, res[cid]), inp=None,
                     site=SITES.get(kind, kind), fingerprint=str(kind) + FP_SUFFIX(meta), failing_input=fi)
    if ctx.failures:
        import collections
        summ = collections.Counter("%s | %s" % (f.get("site"), f.get("fingerprint")) for f in ctx.failures)
        for key, cnt in sorted(summ.items()):
            ctx.log("failures: %d x %s" % (cnt, key), len(cases))
    return common.finish(ctx, search=search, technique=TECHNIQUE, extra_assumptions=[
        "real-number model; float rounding absorbed by rtol 1e-12 (operators), 1e-9 (central differences inside cal_err/apply), 1e-11 (matrices)",
        "fit-fraction gradients are central differences (h=1e-5) of the fraction computed by the harness from amp.partial_weight: rtol 2e-5 on the error",
        "matrix inversion (np.linalg.inv/pinv, force_pos_def) is numeric: only H V = I (inf-norm residual <= 1e-6) and err = sqrt|diag V| are certified, "
        "on fits whose Hessian is positive definite (others are skipped and counted)",
        "TensorFlow tape gradients inside ParamsTrans are compared with finite differences of the same expression evaluated in Python (rtol 1e-6)",
        "reflected operators other than __rpow__ do not exist (number + NumberError raises TypeError): nothing to check",
    ])


def replay(rep):
    import json
    fi = rep.get("failing_input") or {}
    print(json.dumps(rep, indent=1, default=str)[:6000])
    kind = fi.get("kind")
    if kind in ("bin", "const", "pow_z", "rpow", "neg", "log", "exp"):
        v, e = run_op(kind, fi["op"], fi["x"], fi["ex"], fi.get("y", 0.0), fi.get("ey", 0.0))
        ref = first_order_fd(kind, fi["op"], fi["x"], fi["ex"], fi.get("y", 0.0), fi.get("ey", 0.0))
        print("implementation now: value %r error %r ; first order (finite differences): %r" % (v, e, ref))
        return 0 if ref and abs(e - ref[1]) <= 1e-5 * max(1.0, abs(ref[1])) else 1
    if "op" in fi and "impl_error" in fi:
        return 1
    return 0
