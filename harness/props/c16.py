"""C16 - parameter constraints survive every sequence of updates.

Theorems: coq/Props/Properties_C16.v (state machine coq/State/VarsManager.v, bound transforms
coq/Lik/Bound.v).

Tie: seeded operation histories are executed on the real tf_pwa.variable.VarsManager; after every
operation the observable state (get_all_dic, trainable_vars, get_all_val, complex_vars, same_list,
bnd_dic keys, vm.polar) is compared *inside Coq* (vm_compute) with the Gallina state machine run on
the same operations.  Numbers the code computes (random draws, cos/sin/sqrt/atan2, |r|, p+pi, bound
transforms) are captured from the implementation, handed to the model as oracle values, and their
contracts are separate Coq-Interval goals.  Bound.get_x2y/get_y2x/get_dydx/get_d2ydx2: Coq-Interval
goals at sampled points.

Invariants of the property itself (tied names read equal, one trainable name per tf.Variable, fixed
values untouched by bulk/random operations, get_all_dic -> set_all identity, polar/Cartesian/standard
form keeps the complex value) are evaluated directly on the implementation after every operation of
every history.  Streams: "clean" (config order, then arbitrary interleavings; the model's own
[clean_hist] must classify every history of this stream as safe), "SC" (component-name ties with a
negative shared radius followed by standard_complex, which must leave such parameters alone) and one
stream per known finding (F7 component-name ties, F11 merged/overlapping groups, F12 overlapping
complex groups, F14 coordinate operations on a complex parameter with exactly one fixed component).
Masks (vm.mask_params) are exercised inside the histories as self-contained probes (enter, read /
write back / nest, leave): they must not change the stored state, tied names must read the same value
under a mask, nested masks add up."""
import json
import math
import random
from fractions import Fraction

import common
from qfmt import Rq, frac

TECHNIQUE = ("Coq proof (induction over operation histories of a Gallina state machine; Coquelicot is_derive for the bound "
             "slopes) + Coq-evaluated (vm_compute) step-by-step correspondence with VarsManager on random histories + "
             "Coq-Interval goals for trig/bound oracle values + direct invariant evaluation on the implementation")

HEADER = ("From Coq Require Import List String ZArith QArith Bool.\nFrom TFV Require Import State.VarsManager.\n"
          "Import ListNotations.\nOpen Scope string_scope.\nOpen Scope list_scope.\nOpen Scope Q_scope.\n")
RHEADER = ("From Coq Require Import Reals List ZArith.\nFrom Interval Require Import Tactic.\n"
           "From TFV Require Import Base.RBase Base.Tie Lik.Bound.\nOpen Scope R_scope.\n")

SITE_F7 = "VarsManager.xy2rp_all with set_same on component names"
SITE_F11 = "VarsManager.set_same merging or overlapping tie groups"
SITE_F12 = "VarsManager.rp2xy/xy2rp with overlapping complex tie groups"
SITE_F14 = "VarsManager.rp2xy/xy2rp/std_polar on a complex parameter with one fixed component"
KNOWN_STREAM = {"F7": (SITE_F7, "F7", ("polar",)), "F11": (SITE_F11, "F11", ("tied",)), "F12": (SITE_F12, "F12", ("polar",)),
                "F14": (SITE_F14, "F14", ("fixed",))}
COORD = ("rp2xy", "xy2rp", "rp2xy_all", "xy2rp_all", "std_polar", "std_polar_all", "standard_complex")


# --------------------------------------------------------------------------- Coq printing

def cq(x):
    f = frac(x)
    if f.numerator < 0:
        return "((%d)#%d)" % (f.numerator, f.denominator)
    return "(%d#%d)" % (f.numerator, f.denominator)


def cs(n):
    assert '"' not in n
    return '"%s"' % n


def cb(b):
    return "true" if b else "false"


def clist(xs):
    return "[" + ";".join(xs) + "]"


def cpair(a, b):
    return "(%s,%s)" % (a, b)


def copt(x):
    return "None" if x is None else "(Some %s)" % x


def cnames(ns):
    return clist([cs(n) for n in ns])


def cflip(fl):
    return copt(None if fl is None else cpair(cq(fl[0]), cq(fl[1])))


# --------------------------------------------------------------------------- running the implementation

class Skip(Exception):
    """operation not applicable in the current implementation state (only during shrinking)"""


def snap(vm):
    return {
        "dic": {k: float(v) for k, v in vm.get_all_dic().items()},
        "train": list(vm.trainable_vars),
        "vals": [float(x) for x in vm.get_all_val()],
        "cplx": {k: bool(v) for k, v in vm.complex_vars.items()},
        "same": [list(g) for g in vm.same_list],
        "bnd": list(vm.bnd_dic.keys()),
        "polar": bool(vm.polar),
        "ids": {k: id(v) for k, v in vm.variables.items()},
    }


def cobs(o):
    return "(mkobs %s %s %s %s %s %s %s)" % (
        clist([cpair(cs(k), cq(v)) for k, v in o["dic"].items()]),
        cnames(o["train"]),
        clist([cq(v) for v in o["vals"]]),
        clist([cpair(cs(k), cb(v)) for k, v in o["cplx"].items()]),
        clist([cnames(g) for g in o["same"]]),
        cnames(o["bnd"]),
        cb(o["polar"]),
    )


def cval(o, n):
    r, i = o["dic"][n + "r"], o["dic"][n + "i"]
    if o["cplx"][n]:
        return complex(r * math.cos(i), r * math.sin(i))
    return complex(r, i)


class Exec:
    """executes operation specs on a real VarsManager, records Coq ops + observations + oracle
    contracts, and evaluates the property's invariants on the implementation after every step"""

    def __init__(self):
        import warnings
        warnings.filterwarnings("ignore")
        from tf_pwa.variable import VarsManager
        self.vm = vm = VarsManager(dtype="float64")
        self.steps = []      # (spec, coq op, obs)
        self.trig = []       # (kind, before, after)
        self.bcalls = []     # (kind(lo,up), method, arg, result)
        self.viol = []       # {"inv","step","op","detail"}
        self.calls = []
        self.stdcalls = []
        self.obs_counts = {}
        o_xy, o_rp, o_std = vm.xy2rp, vm.rp2xy, vm.std_polar

        def comp(n):
            return (float(vm.variables[n + "r"].numpy()), float(vm.variables[n + "i"].numpy()))

        def xy2rp(n):
            fl, b = vm.complex_vars[n], comp(n)
            o_xy(n)
            self.calls.append((True, n, bool(fl), b, comp(n), vm.variables[n + "r"] is vm.variables[n + "i"]))

        def rp2xy(n):
            fl, b = vm.complex_vars[n], comp(n)
            o_rp(n)
            self.calls.append((False, n, bool(fl), b, comp(n), vm.variables[n + "r"] is vm.variables[n + "i"]))

        o_ang = vm._std_polar_angle
        self.ang_in = None

        def ang(p, *a, **kw):
            self.ang_in = float(p.numpy()) if hasattr(p, "numpy") else float(p)
            return o_ang(p, *a, **kw)

        def std_polar(n):
            k = len(self.calls)
            self.ang_in = None
            o_std(n)
            mid = self.calls[k][4]
            fin = comp(n)
            # the phase handed to _std_polar_angle is the one after the r<0 branch (p + pi)
            pin = self.ang_in if self.ang_in is not None else fin[1]
            self.stdcalls.append((n, mid, (fin[0], pin) if mid[0] < 0 else None, fin[1], pin))

        vm.xy2rp, vm.rp2xy, vm.std_polar, vm._std_polar_angle = xy2rp, rp2xy, std_polar, ang
        self.prev = snap(vm)

    # ---- helpers
    def rd(self, n):
        return float(self.vm.variables[n].numpy())

    def bound_x2y(self, n, v):
        b = self.vm.bnd_dic[n]
        y = b.get_x2y(v)
        self.bcalls.append(((b.lower, b.upper), "x2y", float(v), float(y)))
        return y

    def need(self, cond):
        if not cond:
            raise Skip()

    # ---- one operation
    def apply(self, spec):
        vm = self.vm
        k = spec[0]
        self.calls, self.stdcalls = [], []
        V, C = vm.variables, vm.complex_vars
        if k == "add_real":
            _, n, val, rng, tr = spec
            vm.add_real_var(n, val, tuple(rng) if rng else None, tr)
            op = "AddReal %s %s %s %s" % (cs(n), cq(self.rd(n)), cb(val is not None), cb(tr))
        elif k == "add_complex":
            _, n, pol, tr, fv = spec
            vm.add_complex_var(n, pol, tr, tuple(fv))
            op = "AddComplex %s %s %s %s %s" % (cs(n), copt(None if pol is None else cb(pol)), cb(tr), cq(self.rd(n + "r")), cq(self.rd(n + "i")))
        elif k == "set_fix":
            _, n, val, unfix = spec
            self.need(n in V)
            if val is not None and n in vm.bnd_dic:
                b = vm.bnd_dic[n]
                self.bcalls.append(((b.lower, b.upper), "y2x", float(val), float(b.get_y2x(val))))
            vm.set_fix(n, val, unfix)
            op = "SetFix %s %s %s %s" % (cs(n), copt(None if val is None else cq(val)), cq(self.rd(n)), cb(unfix))
        elif k == "set_bound":
            _, n, a, b = spec
            vm.set_bound({n: (a, b)}, overwrite=True)
            op = "SetBound %s" % cnames([n])
        elif k == "remove_bound":
            vm.remove_bound()
            op = "RemoveBound"
        elif k == "set_same":
            _, ns, cx = spec
            self.need(all(((n + "r") in V and (n + "i") in V and n in C) if cx else (n in V) for n in ns))
            vm.set_same(list(ns), cx)
            op = "SetSame %s %s" % (cnames(ns), cb(cx))
        elif k == "share_r":
            _, ns = spec
            self.need(ns and all(n in C and (n + "r") in V and (n + "i") in V for n in ns))
            vm.set_share_r(list(ns))
            op = "ShareR %s %s" % (cnames(ns), self.conv_oracle())
        elif k == "set":
            _, n, v, vif = spec
            self.need(n in V)
            vb = self.bound_x2y(n, v) if (vif and n in vm.bnd_dic) else v
            vm.set(n, v, val_in_fit=vif)
            op = "SetV %s %s %s %s" % (cs(n), cq(v), cq(vb), cb(vif))
        elif k == "set_all_dict":
            _, d, vif = spec
            d = {n: v for n, v in d.items() if n in V}
            kv = [cpair(cs(n), cpair(cq(v), cq(self.bound_x2y(n, v) if (vif and n in vm.bnd_dic) else v))) for n, v in d.items()]
            vm.set_all(dict(d), val_in_fit=vif)
            op = "SetAllDict %s %s" % (clist(kv), cb(vif))
        elif k == "set_all_list":
            _, vals, vif = spec
            nt = len(vm.trainable_vars)
            vals = [vals[i % len(vals)] for i in range(nt)] if vals else [0.5] * nt
            kv = [cpair(cq(v), cq(self.bound_x2y(n, v) if (vif and n in vm.bnd_dic) else v)) for n, v in zip(vm.trainable_vars, vals)]
            vm.set_all(list(vals), val_in_fit=vif)
            op = "SetAllList %s %s" % (clist(kv), cb(vif))
        elif k in ("roundtrip_dict", "roundtrip_pdf"):
            d = vm.get_all_dic()
            if k == "roundtrip_pdf":
                from types import SimpleNamespace
                from tf_pwa.amp.amp import AbsPDF
                me = SimpleNamespace(vm=vm)
                d = AbsPDF.get_params(me)
                AbsPDF.set_params(me, dict(d))
            else:
                vm.set_all(dict(d))
            kv = [cpair(cs(n), cpair(cq(float(v)), cq(float(v)))) for n, v in d.items()]
            op = "SetAllDict %s false" % clist(kv)
        elif k == "roundtrip_list":
            x = vm.get_all_val()
            vm.set_all(list(x))
            op = "SetAllList %s false" % clist([cpair(cq(float(v)), cq(float(v))) for v in x])
        elif k == "roundtrip_fit":
            x = [float(v) for v in vm.get_all_val(True)]
            for n, xv in zip(vm.trainable_vars, x):
                if n in vm.bnd_dic:
                    b = vm.bnd_dic[n]
                    self.bcalls.append(((b.lower, b.upper), "y2x", self.rd(n), xv))
            kv = [cpair(cq(v), cq(self.bound_x2y(n, v) if n in vm.bnd_dic else v)) for n, v in zip(vm.trainable_vars, x)]
            vm.set_all(list(x), val_in_fit=True)
            op = "SetAllList %s true" % clist(kv)
        elif k == "refresh":
            self.need(not any(b.lower is None and b.upper is None for b in vm.bnd_dic.values()))
            vm.refresh_vars()
            op = "Refresh %s" % clist([cpair(cs(n), cq(float(v))) for n, v in vm.get_all_dic().items()])
        elif k in ("rp2xy", "xy2rp"):
            _, n = spec
            self.need(n in C and (n + "r") in V and (n + "i") in V)
            (vm.rp2xy if k == "rp2xy" else vm.xy2rp)(n)
            c = self.calls[0]
            op = "Conv %s %s %s" % (cb(k == "xy2rp"), cs(n), cpair(cq(c[4][0]), cq(c[4][1])))
        elif k in ("rp2xy_all", "xy2rp_all"):
            _, ns = spec
            self.need(all(n in C for n in (ns or [])) and all((n + "r") in V and (n + "i") in V for n in C))
            (vm.rp2xy_all if k == "rp2xy_all" else vm.xy2rp_all)(list(ns) if ns else None)
            op = "ConvAll %s %s %s" % (cb(k == "xy2rp_all"), cnames(ns or []), self.conv_oracle())
        elif k == "std_polar":
            _, n = spec
            self.need(n in C and (n + "r") in V and (n + "i") in V)
            vm.std_polar(n)
            _, mid, fl, pw, _ = self.stdcalls[0]
            op = "StdPolar %s %s %s %s" % (cs(n), cpair(cq(mid[0]), cq(mid[1])), cflip(fl), cq(pw))
        elif k in ("std_polar_all", "standard_complex"):
            self.need(all((n + "r") in V and (n + "i") in V for n in C))
            (vm.std_polar_all if k == "std_polar_all" else vm.standard_complex)()
            o = clist([cpair(cs(n), cpair(cpair(cpair(cq(mid[0]), cq(mid[1])), cflip(fl)), cq(pw))) for n, mid, fl, pw, _ in self.stdcalls])
            op = "%s %s" % ("StdPolarAll" if k == "std_polar_all" else "StandardComplex", o)
        elif k == "mask_probe":
            # enter mask_params, look / write back / nest, leave: the stored state must not change
            _, mask, mode, inner = spec
            # one name per tf.Variable (two different mask values for one object would be an ill-posed request)
            seen, m2, i2 = [], {}, {}
            for d_in, d_out in ((mask, m2), (inner, i2)):
                for n, v in d_in.items():
                    if n in V and not any(V[n] is o for o in seen):
                        seen.append(V[n])
                        d_out[n] = v
            mask, inner = m2, i2
            self.need(mask)
            self.mask_report = []
            with vm.mask_params(dict(mask)):
                self.mask_look(mask)
                if mode == "roundtrip":
                    vm.set_all(dict(vm.get_all_dic()))
                elif mode == "roundtrip_pdf":
                    from types import SimpleNamespace
                    from tf_pwa.amp.amp import AbsPDF
                    me = SimpleNamespace(vm=vm)
                    AbsPDF.set_params(me, dict(AbsPDF.get_params(me)))
                elif mode == "nested" and inner:
                    with vm.mask_params(dict(inner)):
                        self.mask_look(dict(mask, **inner))
                    self.mask_look(mask)
            op = "SetAllDict [] false"
        elif k == "remove_var":
            _, n = spec
            self.need((n in C and (n + "r") in V and (n + "i") in V) or (n not in C and n in V))
            vm.remove_var(n)
            op = "RemoveVar %s" % cs(n)
        elif k == "rename_var":
            _, a, b, cx = spec
            if cx:
                self.need(a in C and (a + "r") in V and (a + "i") in V)
            else:
                self.need(a in V and (not V[a].trainable or a in vm.trainable_vars))
            vm.rename_var(a, b, cx)
            op = "RenameVar %s %s %s" % (cs(a), cs(b), cb(cx))
        else:
            raise ValueError(k)
        post = snap(vm)
        self.collect_trig()
        self.invariants(spec, self.prev, post)
        self.steps.append((spec, op, post))
        self.prev = post
        return op

    def mask_look(self, mask):
        """what the model sees (vm.read) under the active masks: a masked name reads the mask value, and
        so does every name tied to it (sharing its tf.Variable); all other names read their stored value"""
        vm = self.vm
        want = {}
        for n, v in mask.items():
            for m, var in vm.variables.items():
                if var is vm.variables[n]:
                    want[m] = float(v)
        for m, var in vm.variables.items():
            got = float(vm.read(m).numpy())
            exp = want.get(m, float(var.numpy()))
            if got != exp:
                self.mask_report.append("%s reads %r under mask %s, expected %r%s" % (
                    m, got, mask, exp, " (tied to a masked name)" if (m in want and m not in mask) else ""))

    def conv_oracle(self):
        return clist([cpair(cs(c[1]), cpair(cq(c[4][0]), cq(c[4][1]))) for c in self.calls])

    def collect_trig(self):
        for (target, n, fl, b, a, aliased) in self.calls:
            if fl == target or aliased:
                continue
            self.trig.append(("xy2rp" if target else "rp2xy", b, a))
        for (n, mid, fl, pw, pin) in self.stdcalls:
            if fl is not None:
                self.trig.append(("flip", mid, fl))
            self.trig.append(("wrap", (pin,), (pw,)))

    # ---- the property's invariants, evaluated on the implementation
    def invariants(self, spec, pre, post):
        k = spec[0]
        step = len(self.steps)

        def bad(inv, detail):
            self.viol.append({"inv": inv, "step": step, "op": list(spec), "detail": detail})

        dic = post["dic"]
        # tied names read the same value
        for g in post["same"]:
            reals = [n for n in g if n in dic]
            if len(set(dic[n] for n in reals)) > 1:
                bad("tied", "group %s reads %s" % (g, {n: dic[n] for n in reals}))
            for suf in ("r", "i"):
                cn = [n + suf for n in g if n in post["cplx"] and (n + suf) in dic]
                if len(set(dic[n] for n in cn)) > 1:
                    bad("tied", "complex group %s reads %s" % (g, {n: dic[n] for n in cn}))
        # a tied group counts once among the free parameters
        tr = post["train"]
        if len(set(tr)) != len(tr):
            bad("count", "trainable_vars has duplicates: %s" % tr)
        oid = [post["ids"].get(n) for n in tr]
        if len(set(oid)) != len(oid):
            bad("count", "two trainable names share one tf.Variable: %s" % tr)
        # fixed parameters: untouched by bulk / random / coordinate operations
        if k in ("set_all_list", "refresh", "roundtrip_list", "roundtrip_fit", "set", "set_all_dict", "roundtrip_dict", "roundtrip_pdf",
                 "rp2xy", "xy2rp", "rp2xy_all", "xy2rp_all", "std_polar", "std_polar_all", "standard_complex", "set_bound", "remove_bound"):
            free_ids = {pre["ids"][n] for n in pre["train"] if n in pre["ids"]}
            named = set()
            if k == "set":
                named = {pre["ids"].get(spec[1])}
            elif k == "set_all_dict":
                named = {pre["ids"].get(n) for n in spec[1]}
            comps = {c + s for c in pre["cplx"] for s in ("r", "i")}
            for n, v in pre["dic"].items():
                if n not in dic:
                    continue
                if k in ("set", "set_all_dict"):
                    protected = pre["ids"][n] not in named
                elif k in ("rp2xy", "xy2rp", "rp2xy_all", "xy2rp_all", "std_polar", "std_polar_all", "standard_complex"):
                    protected = n not in comps and pre["ids"][n] not in {pre["ids"].get(c) for c in comps}
                elif k in ("roundtrip_dict", "roundtrip_pdf", "roundtrip_list", "set_bound", "remove_bound"):
                    protected = True
                elif k == "roundtrip_fit":
                    protected = pre["ids"][n] not in free_ids
                else:
                    protected = pre["ids"][n] not in free_ids
                if protected and dic[n] != v:
                    bad("roundtrip" if k.startswith("roundtrip") else "fixed", "%s changed %r -> %r by %s" % (n, v, dic[n], k))
            if k == "roundtrip_fit":
                # x = get_all_val(True); set_all(x, True): identity (to rounding) for every free parameter inside its range
                for t in pre["train"]:
                    b = self.vm.bnd_dic.get(t)
                    lo = -math.inf if (b is None or b.lower is None) else b.lower
                    hi = math.inf if (b is None or b.upper is None) else b.upper
                    v = pre["dic"].get(t)
                    if v is not None and t in dic and lo <= v <= hi and abs(dic[t] - v) > 1e-8 * (1 + abs(v)):
                        bad("roundtrip", "%s changed %r -> %r by get_all_val(True)/set_all(.,True)" % (t, v, dic[t]))
        # masks: nothing stored changes, tied names read the same value, nested masks add up
        if k == "mask_probe":
            for n, v in pre["dic"].items():
                if n in dic and dic[n] != v:
                    bad("roundtrip", "%s changed %r -> %r by mask_params(%s) + %s" % (n, v, dic[n], spec[1], spec[2]))
            for msg in self.mask_report[:3]:
                bad("tied" if "tied to a masked" in msg else "mask", msg)
        # a tie request never changes a fixed parameter (unless it ties fixed parameters of different values)
        if k == "set_same" and post["same"]:
            free_ids = {pre["ids"][n] for n in pre["train"] if n in pre["ids"]}
            grp = post["same"][-1]
            for suf in (("r", "i") if spec[2] else ("",)):
                names = [n + suf for n in grp if (n + suf) in pre["dic"] and (n + suf) in dic]
                fx = [n for n in names if pre["ids"][n] not in free_ids]
                if len({pre["dic"][n] for n in fx}) == 1:
                    for n in fx:
                        if dic[n] != pre["dic"][n]:
                            bad("fixed", "fixed %s changed %r -> %r by set_same(%s)" % (n, pre["dic"][n], dic[n], list(spec[1])))
        # fixing a name takes its tf.Variable out of the free list (also when the name is tied)
        if k == "set_fix" and not spec[3] and spec[1] in post["ids"]:
            if post["ids"][spec[1]] in {post["ids"].get(n) for n in post["train"]}:
                bad("fixed", "set_fix(%s) leaves its tf.Variable in the free list %s" % (spec[1], post["train"]))
        # a coordinate operation on a complex parameter with exactly one fixed component moves that component
        if k in COORD:
            free_ids = {pre["ids"][n] for n in pre["train"] if n in pre["ids"]}
            for c in pre["cplx"]:
                r_, i_ = c + "r", c + "i"
                if r_ in pre["ids"] and i_ in pre["ids"] and r_ in dic and i_ in dic:
                    fr, fi = pre["ids"][r_] not in free_ids, pre["ids"][i_] not in free_ids
                    if fr != fi:
                        n = r_ if fr else i_
                        if dic[n] != pre["dic"][n]:
                            bad("fixed", "fixed component %s of %s (other component free) changed %r -> %r by %s" % (n, c, pre["dic"][n], dic[n], k))
        # coordinate changes / standard form keep the complex value
        if k in ("rp2xy", "xy2rp", "rp2xy_all", "xy2rp_all", "std_polar", "std_polar_all", "standard_complex"):
            for c in pre["cplx"]:
                if c in post["cplx"] and (c + "r") in dic and (c + "i") in dic and (c + "r") in pre["dic"]:
                    z0, z1 = cval(pre, c), cval(post, c)
                    if abs(z1 - z0) > 1e-9 * (1 + abs(z0)):
                        bad("polar", "%s: %r -> %r by %s" % (c, z0, z1, k))
            done = [spec[1]] if k == "std_polar" else (list(post["cplx"]) if k == "std_polar_all" else [])
            for c in done:
                if dic[c + "r"] < 0:
                    bad("std_r_nonneg", "%s has r=%r after %s" % (c, dic[c + "r"], k))
                if not (-math.pi <= dic[c + "i"] < math.pi):
                    bad("std_range", "%s has phase %r outside [-pi, pi) after %s" % (c, dic[c + "i"], k))


def run_specs(specs, skip_invalid=False):
    ex = Exec()
    for sp in specs:
        try:
            ex.apply(sp)
        except Skip:
            if not skip_invalid:
                raise
        except Exception:
            if not skip_invalid:
                raise
    return ex


def shrink(specs, inv, budget=150):
    """delta-debugging by dropping operations while the same invariant still fails"""
    def fails(sp):
        try:
            ex = run_specs(sp, skip_invalid=True)
        except Exception:
            return False
        return any(v["inv"] == inv for v in ex.viol)

    cur = list(specs)
    n = 0
    changed = True
    while changed and n < budget:
        changed = False
        for i in range(len(cur) - 1, -1, -1):
            cand = cur[:i] + cur[i + 1:]
            n += 1
            if fails(cand):
                cur = cand
                changed = True
            if n >= budget:
                break
    return cur


# --------------------------------------------------------------------------- generators

NICE = [k / 16.0 for k in range(-40, 41) if k != 0]
POS = [k / 16.0 for k in range(1, 41)]
WIDE = [k / 8.0 for k in range(-80, 81) if abs(k) > 25]  # phases beyond +-pi


class Gen:
    """produces the next operation from the current implementation state (names, flags, ties)"""

    def __init__(self, rnd, ex):
        self.rnd, self.ex, self.nv, self.nc = rnd, ex, 0, 0

    @property
    def vm(self):
        return self.ex.vm

    def do(self, spec):
        self.ex.apply(spec)

    # -- helpers on the implementation state
    def grouped(self):
        return {n for g in self.vm.same_list for n in g}

    def comps(self):
        return {c + s for c in self.vm.complex_vars for s in ("r", "i")}

    def real_names(self):
        cp = self.comps()
        return [n for n in self.vm.variables if n not in cp]

    def untied_cplx(self):
        gr = self.grouped()
        return [c for c in self.vm.complex_vars if c not in gr and c + "r" not in gr and c + "i" not in gr
                and c + "r" in self.vm.variables and c + "i" in self.vm.variables]

    def partially_fixed(self, c):
        """exactly one of the two component objects of c is in the free list (known finding F14)"""
        vm = self.vm
        if c + "r" not in vm.variables or c + "i" not in vm.variables:
            return False
        free = [vm.variables[m] for m in vm.trainable_vars if m in vm.variables]
        fr = not any(vm.variables[c + "r"] is v for v in free)
        fi = not any(vm.variables[c + "i"] is v for v in free)
        return fr != fi

    # -- config phases
    def create(self, nreal, ncplx):
        r = self.rnd
        for _ in range(nreal):
            n = "v%d" % self.nv
            self.nv += 1
            m = r.random()
            if m < 0.45:
                self.do(("add_real", n, r.choice(NICE), None, True))
            elif m < 0.6:
                self.do(("add_real", n, r.choice(NICE), None, False))
            elif m < 0.8:
                self.do(("add_real", n, None, None, True))
            else:
                self.do(("add_real", n, None, [1.0, 2.0], True))
        for _ in range(ncplx):
            n = "c%d" % self.nc
            self.nc += 1
            pol = r.choice([None, None, True, False])
            if r.random() < 0.25:
                self.do(("add_complex", n, pol, False, [r.choice(NICE), r.choice(NICE)]))
            else:
                self.do(("add_complex", n, pol, True, [1.0, 0.0]))

    def fix_free(self, k):
        r, vm = self.rnd, self.vm
        for _ in range(k):
            names = list(vm.variables)
            if not names:
                return
            n = r.choice(names)
            m = r.random()
            if m < 0.4:
                self.do(("set_fix", n, None, False))
            elif m < 0.75:
                self.do(("set_fix", n, r.choice(NICE), False))
            else:
                self.do(("set_fix", n, None, True))

    def tie(self, k):
        r, vm = self.rnd, self.vm
        for _ in range(k):
            if r.random() < 0.55:
                reals = self.real_names()
                if len(reals) < 2:
                    continue
                ns = r.sample(reals, r.choice([2, 2, 3]) if len(reals) >= 3 else 2)
                hit = {i for n in ns for i, g in enumerate(vm.same_list) if n in g}
                if len(hit) > 1:
                    continue
                self.do(("set_same", ns, False))
            else:
                cs_ = self.untied_cplx()
                if len(cs_) < 2:
                    continue
                self.do(("set_same", r.sample(cs_, 2 if len(cs_) < 3 else r.choice([2, 3])), True))

    def bound(self, k):
        r = self.rnd
        for _ in range(k):
            reals = self.real_names()
            if not reals:
                return
            n = r.choice(reals)
            v = self.ex.rd(n)
            kind = r.choice(["two", "two", "lo", "up"])
            lo = math.floor(v * 4) / 4 - r.choice([0.25, 0.5, 1.0])
            hi = math.ceil(v * 4) / 4 + r.choice([0.25, 0.5, 1.0])
            if kind == "up" and hi <= -0.75:
                kind = "two"  # Bound(None, b) with b <= -1 cannot be constructed (sympy solve returns []): observation, see report
            self.do(("set_bound", n, lo if kind != "up" else None, hi if kind != "lo" else None))

    # -- value phase
    def value_op(self, allow_coord=True):
        r, vm = self.rnd, self.vm
        names = list(vm.variables)
        cps = [c for c in vm.complex_vars if c + "r" in vm.variables and c + "i" in vm.variables]
        kinds = ["set", "set", "set_all_dict", "set_all_list", "refresh", "roundtrip_dict", "roundtrip_list", "roundtrip_pdf", "roundtrip_fit",
                 "mask_probe"]
        if cps:
            kinds += ["set_phase"]
        if cps and (allow_coord or getattr(self, "allow_sc", False)):
            kinds += ["standard_complex"]
        if allow_coord and cps:
            # EXCLUSION (known finding F14): no rp2xy / xy2rp / std_polar on a parameter with exactly one fixed component
            ok = [c for c in cps if not self.partially_fixed(c)]
            if ok:
                kinds += ["rp2xy", "xy2rp", "std_polar", "std_polar"]
            if len(ok) == len(cps):
                kinds += ["rp2xy_all", "xy2rp_all", "std_polar_all", "rp2xy_all", "xy2rp_all"]
            cps = ok
        k = r.choice(kinds)
        if not names:
            return
        if k == "set":
            n = r.choice(names)
            vif = r.random() < 0.3
            self.do(("set", n, r.choice(NICE), vif))
        elif k == "set_phase":
            c = r.choice([c for c in vm.complex_vars if c + "i" in vm.variables])
            self.do(("set", c + "i", r.choice(WIDE), False))
            if r.random() < 0.5:
                self.do(("set", c + "r", -r.choice(POS), False))
        elif k == "mask_probe":
            ns = r.sample(names, r.randrange(1, min(3, len(names)) + 1))
            rest = [n for n in names if n not in ns]
            inner = {n: r.choice(NICE) for n in r.sample(rest, min(len(rest), r.randrange(1, 3)))} if rest else {}
            self.do(("mask_probe", {n: r.choice([0.0, 0.0, r.choice(NICE)]) for n in ns},
                     r.choice(["read", "roundtrip", "roundtrip_pdf", "nested", "nested"]), inner))
        elif k == "set_all_dict":
            ns = r.sample(names, r.randrange(1, min(5, len(names)) + 1))
            self.do(("set_all_dict", {n: r.choice(NICE) for n in ns}, r.random() < 0.2))
        elif k == "set_all_list":
            self.do(("set_all_list", [r.choice(NICE) for _ in range(max(1, len(vm.trainable_vars)))], r.random() < 0.2))
        elif k in ("rp2xy", "xy2rp", "std_polar"):
            self.do((k, r.choice(cps)))
        elif k in ("rp2xy_all", "xy2rp_all"):
            self.do((k, None if r.random() < 0.7 else r.sample(cps, r.randrange(1, len(cps) + 1))))
        else:
            self.do((k,))

    def probe(self):
        """distinct values into every free parameter, then the invariants are evaluated"""
        nt = len(self.vm.trainable_vars)
        if nt:
            self.do(("set_all_list", [0.0625 * (i + 1) + 3.0 for i in range(nt)], False))

    def interleave_op(self):
        """config-type operations after the value phase has started (arbitrary interleavings)"""
        r, vm = self.rnd, self.vm
        m = r.random()
        if m < 0.2:
            self.create(1 if r.random() < 0.6 else 0, 1 if r.random() < 0.5 else 0)
        elif m < 0.4:
            self.fix_free(1)
        elif m < 0.55:
            self.tie(1)
        elif m < 0.65:
            self.bound(1)
        elif m < 0.72:
            self.do(("remove_bound",))
        elif m < 0.82:
            gr = self.grouped()
            cand = [n for n in self.real_names() if n not in gr] + self.untied_cplx()
            if cand:
                self.do(("remove_var", r.choice(cand)))
        elif m < 0.92:
            gr = self.grouped()
            if r.random() < 0.5:
                cand = [n for n in self.real_names() if n not in gr and (not vm.variables[n].trainable or n in vm.trainable_vars)]
                if cand:
                    self.do(("rename_var", r.choice(cand), "w%d" % self.nv, False))
                    self.nv += 1
            else:
                cand = self.untied_cplx()
                if cand:
                    self.do(("rename_var", r.choice(cand), "d%d" % self.nc, True))
                    self.nc += 1
        else:
            self.value_op()


def gen_clean(rnd, length):
    ex = Exec()
    g = Gen(rnd, ex)
    g.create(rnd.randrange(1, 5), rnd.randrange(0, 4))
    g.fix_free(rnd.randrange(0, 4))
    g.tie(rnd.randrange(0, 4))
    g.bound(rnd.choice([0, 0, 1, 1, 2]))
    nval = max(2, (length - len(ex.steps)) // 2)
    for _ in range(nval):
        g.value_op()
    g.probe()
    while len(ex.steps) < length - 1:
        g.interleave_op() if rnd.random() < 0.45 else g.value_op()
    g.probe()
    g.do(("roundtrip_dict",))
    return ex


def gen_f7(rnd, length):
    """component-name ties (set_same on 'ar','br' / set_share_r) followed by coordinate changes"""
    ex = Exec()
    g = Gen(rnd, ex)
    pol = rnd.choice([True, False])
    for n in ("c0", "c1"):
        g.do(("add_complex", n, pol, True, [1.0, 0.0]))
    g.nc = 2
    g.create(rnd.randrange(0, 2), rnd.randrange(0, 2))
    z = (rnd.choice(POS), rnd.choice(POS))
    g.do(("set_all_dict", {"c0r": z[0], "c0i": z[1], "c1r": z[0], "c1i": z[1]}, False))
    m = rnd.random()
    if m < 0.45:
        g.do(("set_same", ["c0r", "c1r"], False))
        g.do(("set_same", ["c0i", "c1i"], False))
    elif m < 0.6:
        g.do(("set_same", ["c0r", "c1r"], False))
    else:
        g.do(("share_r", ["c0", "c1"]))
        if rnd.random() < 0.5:
            g.do(("set", "c0r", -rnd.choice(POS), False))
    for _ in range(max(3, length - len(ex.steps))):
        if rnd.random() < 0.6:
            g.do((rnd.choice(["rp2xy_all", "xy2rp_all"]), None)) if rnd.random() < 0.7 else g.do(("std_polar_all",))
        else:
            g.value_op()
    return ex


def gen_f11(rnd, length):
    """set_same requests that merge two existing groups or chain complex ties through a member"""
    ex = Exec()
    g = Gen(rnd, ex)
    if rnd.random() < 0.5:
        for i in range(4):
            g.do(("add_real", "v%d" % i, float(i + 1), None, True))
        g.nv = 4
        g.do(("set_same", ["v0", "v1"], False))
        g.do(("set_same", ["v2", "v3"], False))
        g.do(("set_same", [rnd.choice(["v0", "v1"]), "v3"], False))
    else:
        for n in ("c0", "c1", "c2"):
            g.do(("add_complex", n, True, True, [1.0, 0.0]))
        g.nc = 3
        if rnd.random() < 0.5:
            g.do(("set_same", ["c1", "c0"], True))
            g.do(("set_same", ["c2", "c0"], True))
        else:
            g.do(("set_same", ["c0", "c1"], True))
            g.do(("set_same", ["c2", "c0"], True))
    g.probe()
    for _ in range(max(2, length - len(ex.steps) - 1)):
        g.value_op(allow_coord=False)
    g.probe()
    return ex


def gen_f12(rnd, length):
    """two complex tie groups sharing a member (coef_head pattern), then coordinate changes"""
    ex = Exec()
    g = Gen(rnd, ex)
    pol = rnd.choice([True, False])
    for n in ("c0", "c1", "c2"):
        g.do(("add_complex", n, pol, True, [1.0, 0.0]))
    g.nc = 3
    g.do(("set_same", ["c0", "c1"], True))
    g.do(("set_same", ["c0", "c2"] if rnd.random() < 0.6 else ["c1", "c2"], True))
    g.do(("set_all_dict", {"c0r": rnd.choice(POS), "c0i": rnd.choice(POS)}, False))
    for _ in range(max(3, length - len(ex.steps))):
        if rnd.random() < 0.6:
            g.do((rnd.choice(["rp2xy_all", "xy2rp_all"]), None))
        else:
            g.value_op()
    return ex


def gen_sc(rnd, length):
    """component-name ties (shared radius via set_share_r, shared phase / both components via set_same on
    'ar','br' / 'ai','bi') with a NEGATIVE radius at the group head, then standard_complex() between value
    operations: standard_complex must leave every parameter with a tied component alone, so that the
    complex value of every member and the ties survive.  No other coordinate operation (those are F7)."""
    ex = Exec()
    g = Gen(rnd, ex)
    names = ["c0", "c1"] + (["c2"] if rnd.random() < 0.4 else [])
    for n in names:
        g.do(("add_complex", n, True, True, [1.0, 0.0]))
    g.nc = len(names)
    g.allow_sc = True
    g.create(rnd.randrange(0, 2), rnd.randrange(0, 2))
    m = rnd.random()
    if m < 0.4:
        g.do(("share_r", list(names)))
    elif m < 0.6:
        g.do(("set_same", [n + "r" for n in names], False))
    elif m < 0.8:
        g.do(("set_same", [n + "i" for n in names], False))
    else:
        g.do(("set_same", [n + "r" for n in names], False))
        g.do(("set_same", [n + "i" for n in names], False))
    def negative_head():
        d = {"c0r": -rnd.choice(POS)}
        for n in names:
            d[n + "i"] = rnd.choice(NICE + WIDE)
            if rnd.random() < 0.5:
                d[n + "r"] = rnd.choice([-1, 1]) * rnd.choice(POS)
        g.do(("set_all_dict", d, False))
        g.do(("set", "c0r", -rnd.choice(POS), False))
    negative_head()
    g.do(("standard_complex",))
    for _ in range(max(3, length - len(ex.steps))):
        m = rnd.random()
        if m < 0.4:
            g.do(("standard_complex",))
        elif m < 0.6:
            negative_head()
        else:
            g.value_op(allow_coord=False)
    g.do(("standard_complex",))
    return ex


def gen_f14(rnd, length):
    """a complex parameter with exactly one fixed component, then coordinate operations"""
    ex = Exec()
    g = Gen(rnd, ex)
    pol = rnd.choice([True, True, False])
    g.do(("add_complex", "c0", pol, True, [1.0, 0.0]))
    g.nc = 1
    g.create(rnd.randrange(0, 2), rnd.randrange(0, 2))
    g.do(("set_fix", "c0" + rnd.choice(["r", "i"]), rnd.choice(POS), False))
    for _ in range(max(3, length - len(ex.steps))):
        if rnd.random() < 0.6:
            free = [n for n in ("c0r", "c0i") if n in ex.vm.trainable_vars]
            if free:
                g.do(("set", free[0], rnd.choice(NICE), False))
            k = rnd.choice(["rp2xy_all", "xy2rp_all", "std_polar_all", "rp2xy", "xy2rp", "std_polar"])
            g.do((k, None) if k.endswith("_all") and k != "std_polar_all" else ((k,) if k == "std_polar_all" else (k, "c0")))
        else:
            g.value_op(allow_coord=False)
    return ex


GENS = {"clean": gen_clean, "SC": gen_sc, "F7": gen_f7, "F11": gen_f11, "F12": gen_f12, "F14": gen_f14}

# fixed minimal reproducers of the open known findings (KNOWN_FINDINGS.json).  The KNOWN-FINDING
# line is produced by these histories only, i.e. it disappears when the reproducer stops failing.
FIXED = {
    # OPEN finding F15 (found by the thorough tier, 2026-10-01): a tie group that was EXTENDED keeps a first name that is not the name
    # left in trainable_vars (set_same appends the caller's list, not head-first); a later set_same that brings in a FIXED parameter
    # then sees an "untrainable head", skips the assignment of the fixed value and leaves the group free: the fixed parameter is
    # overwritten by the group's value and floats with it
    "clean": [
        [("add_real", "v1", 2.125, None, True), ("add_real", "v2", -2.4375, None, True), ("add_real", "v3", None, [1.0, 2.0], True),
         ("set_same", ["v2", "v1"], False), ("set_same", ["v1", "v3"], False), ("add_real", "v4", None, [1.0, 2.0], True),
         ("set_fix", "v4", -0.1875, False), ("rename_var", "v4", "w5", False), ("add_real", "v6", 2.25, None, True),
         ("set_same", ["w5", "v6", "v1"], False)],
    ],
    "F7": [
        [("add_complex", "a", False, True, [1.0, 0.0]), ("add_complex", "b", False, True, [1.0, 0.0]),
         ("set_all_dict", {"ar": 3.0, "ai": 4.0, "br": 3.0, "bi": 4.0}, False),
         ("set_same", ["ar", "br"], False), ("set_same", ["ai", "bi"], False), ("xy2rp_all", None)],
        [("add_complex", "a", True, True, [1.0, 0.0]), ("add_complex", "b", True, True, [1.0, 0.0]),
         ("share_r", ["a", "b"]), ("set_all_dict", {"ar": 2.0, "ai": 0.5, "bi": 1.0}, False), ("rp2xy_all", None)],
    ],
    "F11": [
        [("add_real", "a", 1.0, None, True), ("add_real", "b", 2.0, None, True), ("add_real", "c", 3.0, None, True),
         ("add_real", "d", 4.0, None, True), ("set_same", ["a", "b"], False), ("set_same", ["c", "d"], False),
         ("set_same", ["b", "d"], False), ("set", "a", 9.0, False)],
        [("add_complex", "a0", True, True, [1.0, 0.0]), ("add_complex", "a1", True, True, [1.0, 0.0]),
         ("add_complex", "a2", True, True, [1.0, 0.0]), ("set_same", ["a1", "a0"], True), ("set_same", ["a2", "a0"], True),
         ("set_all_list", [7.0, 0.25], False)],
    ],
    "F12": [
        [("add_complex", "h", True, True, [1.0, 0.0]), ("add_complex", "j1", True, True, [1.0, 0.0]),
         ("add_complex", "j2", True, True, [1.0, 0.0]), ("set_same", ["h", "j1"], True), ("set_same", ["h", "j2"], True),
         ("set_all_dict", {"hr": 2.0, "hi": 0.5}, False), ("rp2xy_all", None)],
    ],
    "F14": [
        [("add_complex", "a", True, True, [1.0, 0.0]), ("set_fix", "ai", 0.5, False), ("set", "ar", 2.0, False), ("rp2xy_all", None)],
        [("add_complex", "a", True, True, [1.0, 0.0]), ("set_fix", "ai", 0.5, False), ("set", "ar", -2.0, False), ("std_polar_all",)],
    ],
}


# --------------------------------------------------------------------------- bound transform cases

def bound_cases(ctx, rnd, n, extra_calls):
    """Bound.get_x2y / get_y2x / get_dydx / get_d2ydx2 vs coq/Lik/Bound.v at sampled points"""
    from tf_pwa.variable import Bound
    cases = []
    UNF = ("bx2y2 bx2y_lo bx2y_up by2x2 by2x_lo by2x_up bdydx2 bdydx_lo bdydx_up bd2y2 bd2y_lo bd2y_up "
           "bclamp2 bclamp_lo bclamp_up basin")
    tac = "cbv [%s]; rclose" % UNF

    def stmt(expr, y, tol):
        return "(Rabs (%s - %s) <= %s)%%R" % (expr, Rq(y), Rq(Fraction(tol).limit_denominator(10 ** 30)))

    def add(cid, kind, a, b, meth, arg, val):
        A, B, X = (Rq(a) if a is not None else None), (Rq(b) if b is not None else None), Rq(arg)
        suffix = {"two": "2 %s %s" % (A, B), "lo": "_lo %s" % A, "up": "_up %s" % B}[kind]
        dsuffix = {"two": "2 %s %s" % (A, B), "lo": "_lo", "up": "_up"}[kind]
        expr = {"x2y": "bx2y%s %s" % (suffix, X), "y2x": "by2x%s %s" % (suffix, X),
                "dydx": "bdydx%s %s" % (dsuffix, X), "d2ydx2": "bd2y%s %s" % (dsuffix, X)}[meth]
        tol = 1e-9 * (1 + abs(val))
        if meth == "y2x":
            scale = 1.0 + abs(arg) + (abs(a) if a is not None else 0.0) + (abs(b) if b is not None else 0.0)
            near = any(e is not None and arg != e and abs(arg - e) < 1e-9 * scale for e in (a, b))
            # the inverse is ill-conditioned at the end points (asin / sqrt): compare after mapping back
            fwd = "bx2y%s (%s)" % (suffix, expr)
            yc = arg if a is None or arg >= a else a
            yc = yc if b is None or yc <= b else b
            cases.append((cid + "_back", stmt("bx2y%s %s" % (suffix, Rq(val)), yc, 1e-9 * (1 + abs(yc))), tac,
                          {"bound": [a, b], "method": "get_x2y(get_y2x(y))", "arg": arg, "impl": val}))
            tol = 2e-6 * (1 + abs(val))
            if near:
                # within 1e-9 of an end point but not on it: the clamp / arcsine branch cannot be decided by
                # interval arithmetic at 90 bits; the mapped-back goal above (no branch) still ties the value
                ctx.count("bound:%s:y2x_direct_goal_skipped_near_endpoint" % kind)
                return
        cases.append((cid, stmt(expr, val, tol), tac, {"bound": [a, b], "method": "get_" + meth, "arg": arg, "impl": val}))
        ctx.count("bound:%s:%s" % (kind, meth))

    for k in range(n):
        kind = ["two", "lo", "up"][k % 3]
        a = rnd.choice(NICE) if kind != "up" else None
        b = (rnd.choice([v for v in NICE if v > -0.9]) if kind == "up" else (a + rnd.choice(POS) if kind == "two" else None))
        bd = Bound(a, b)
        x = rnd.uniform(-1.4, 1.4) if kind == "two" else rnd.choice([1, 1, -1]) * rnd.uniform(0.05, 4.0)
        y = bd.get_x2y(x)
        add("b%d_x2y" % k, kind, a, b, "x2y", x, y)
        add("b%d_dydx" % k, kind, a, b, "dydx", x, bd.get_dydx(x))
        add("b%d_d2" % k, kind, a, b, "d2ydx2", x, bd.get_d2ydx2(x))
        lo = a if a is not None else b - 5.0
        hi = b if b is not None else a + 5.0
        m = k % 4
        yy = rnd.uniform(lo + 0.01 * (hi - lo), hi - 0.01 * (hi - lo)) if m < 2 else (lo - rnd.choice(POS) if m == 2 else hi + rnd.choice(POS))
        if (m == 2 and a is None) or (m == 3 and b is None):
            yy = rnd.uniform(lo + 0.01 * (hi - lo), hi - 0.01 * (hi - lo))
        add("b%d_y2x" % k, kind, a, b, "y2x", yy, bd.get_y2x(yy))
    for j, ((a, b), meth, arg, val) in enumerate(extra_calls):
        kind = "two" if (a is not None and b is not None) else ("lo" if a is not None else "up")
        add("h%d_%s" % (j, meth), kind, a, b, meth, arg, val)
    return cases


def trig_cases(trig):
    cases = []
    for j, (kind, b, a) in enumerate(trig):
        if kind == "xy2rp":
            (x, y), (r, p) = b, a
            tol = Rq(Fraction(1e-11 * (1 + abs(r))).limit_denominator(10 ** 30))
            st = "(Rabs (%s * cos %s - %s) <= %s /\\ Rabs (%s * sin %s - %s) <= %s /\\ 0 <= %s)%%R" % (
                Rq(r), Rq(p), Rq(x), tol, Rq(r), Rq(p), Rq(y), tol, Rq(r))
            tac = "split; [|split]; [interval with (i_prec 90) | interval with (i_prec 90) | lra]"
        elif kind == "rp2xy":
            (r, p), (x, y) = b, a
            tol = Rq(Fraction(1e-11 * (1 + abs(r))).limit_denominator(10 ** 30))
            st = "(Rabs (%s * cos %s - %s) <= %s /\\ Rabs (%s * sin %s - %s) <= %s)%%R" % (
                Rq(r), Rq(p), Rq(x), tol, Rq(r), Rq(p), Rq(y), tol)
            tac = "split; interval with (i_prec 90)"
        elif kind == "wrap":
            (p,), (pw,) = b, a
            tol = Rq(Fraction(1e-11 * (1 + abs(p))).limit_denominator(10 ** 30))
            st = "(Rabs (cos %s - cos %s) <= %s /\\ Rabs (sin %s - sin %s) <= %s /\\ - PI <= %s /\\ %s < PI)%%R" % (
                Rq(pw), Rq(p), tol, Rq(pw), Rq(p), tol, Rq(pw), Rq(pw))
            tac = "repeat split; interval with (i_prec 90)"
        else:
            (r, p), (r2, p2) = b, a
            tol = Rq(Fraction(1e-12 * (1 + abs(p))).limit_denominator(10 ** 30))
            st = "(%s < 0 /\\ %s = - %s /\\ Rabs (%s - (%s + PI)) <= %s)%%R" % (Rq(r), Rq(r2), Rq(r), Rq(p2), Rq(p), tol)
            tac = "split; [lra | split; [lra | interval with (i_prec 90)]]"
        cases.append(("t%d_%s" % (j, kind), st, tac, {"kind": kind, "before": b, "after": a}))
    return cases


# --------------------------------------------------------------------------- search / run / replay

def search(ctx, fails):
    """the model and the implementation disagree, or a theorem no longer checks: look for a history on
    which the implementation violates one of the property's invariants (clean stream only)"""
    rnd = random.Random(ctx.seed * 1000003 + 1600)
    budget = 150 if ctx.tier == "quick" else 1500
    for k in range(budget):
        try:
            ex = gen_clean(rnd, rnd.randrange(8, 50))
        except Exception as e:
            return {"history": None, "error": "implementation raised %r on a clean-stream history" % (e,)}
        if ex.viol:
            v = ex.viol[0]
            sp = shrink([s[0] for s in ex.steps], v["inv"])
            ex2 = run_specs(sp, skip_invalid=True)
            return {"history": sp, "invariant": v["inv"], "detail": (ex2.viol or [v])[0]["detail"]}
    return None


def hist_stmt(ex, stream):
    body = clist(["(%s,%s)" % (op, cobs(o)) for (_, op, o) in ex.steps])
    # clean: the model classifies the history as safe; F14: no tie pattern involved (only the correspondence);
    # SC / F7 / F11 / F12: the model classifies the history as containing an excluded tie pattern
    fn = {"clean": "check_clean", "F14": "check_hist"}.get(stream, "check_known")
    return "(%s %s = true)" % (fn, body), body


def run(ctx):
    rnd = random.Random(ctx.seed * 1000003 + 16)
    quick = ctx.tier == "quick"
    ctx.rule = ("seeded histories of VarsManager operations executed on the real class. Clean stream = create, fix/free, tie, bound (the order "
                "config_loader.add_constraints applies them), value operations (set/set_all dict+list/refresh/rp2xy/xy2rp/_all/std_polar/_all/"
                "standard_complex/get-set round trips incl. AbsPDF.get_params/set_params), then arbitrary interleavings incl. add/fix/free/tie/bound/"
                "remove_bound/rename_var/remove_var (fix/free also on tied names, ties also between polar and Cartesian parameters and with fixed "
                "members, phases beyond +-pi, mask_params probes: read / get-set round trip / nested mask inside a mask); length 5-40 quick, up to 200 "
                "thorough. EXCLUSION RULE of the clean stream (= the model's "
                "tie_safe, evaluated inside Coq for every clean history): tie requests on real names must name distinct existing non-component names "
                "touching at most one existing group (no merging: F11); tie requests with cplx=True must name distinct untied complex parameters "
                "(no overlapping/chained complex groups: F11/F12); no set_share_r and no set_same on component names of complex "
                "parameters (F7); no rp2xy/xy2rp/std_polar(_all) while the addressed complex parameter has exactly one fixed component (F14; "
                "standard_complex, which skips such parameters, stays in); rename/remove only untied names; upper-only bounds "
                "b<=-1 are not generated (Bound cannot be constructed). Stream SC (must pass): component-name ties (set_share_r, set_same on r / i / both "
                "component names) x negative radius at the group head x standard_complex() between value operations. Known-finding streams F7/F11/F12/F14 "
                "contain exactly the excluded patterns, each "
                "headed by fixed minimal reproducers. One Coq obligation per history (all steps compared) + one per sampled trig/bound oracle value; "
                "distinct = distinct operation-kind sequences and distinct bound cases")
    common.theorem_stage(ctx)
    plan = [("clean", 200 if quick else 1000), ("SC", 24 if quick else 120), ("F7", 12 if quick else 60), ("F11", 10 if quick else 40),
            ("F12", 10 if quick else 40), ("F14", 8 if quick else 40)]
    cases, meta, trig, bcalls = [], {}, [], []
    obs_counts = {}
    still_fails = {}
    nshrunk = [0]

    def register(cid, stream, ex, fixed):
        nonlocal trig, bcalls
        known0 = KNOWN_STREAM.get(stream)
        if known0 is not None:
            reproduces = any(v["inv"] in known0[2] for v in ex.viol)
            if (fixed and not reproduces) or (not fixed and not still_fails.get(stream)):
                # the known finding no longer reproduces on this tree: the model's transcription of that
                # pattern is outdated, so its correspondence cases are skipped (the KNOWN-FINDING line is gone);
                # invariant violations on the remaining variants are still reported below, as new
                ctx.count("stream:%s:skipped_no_longer_reproduces" % stream)
                ctx.notes.append("known finding %s does not reproduce on %s: update model / KNOWN_FINDINGS.json" % (stream, cid))
            else:
                st, _ = hist_stmt(ex, stream)
                cases.append((cid, st, "vm_compute; reflexivity"))
                meta[cid] = (stream, ex)
        else:
            st, _ = hist_stmt(ex, stream)
            cases.append((cid, st, "vm_compute; reflexivity"))
            meta[cid] = (stream, ex)
        ctx.evaluations += len(ex.steps)
        ctx.count("stream:" + stream + (":fixed_reproducer" if fixed else ""))
        ctx.count("len:%03d-%03d" % (len(ex.steps) // 20 * 20, len(ex.steps) // 20 * 20 + 19))
        for sp, _, _ in ex.steps:
            ctx.count("op:" + sp[0])
        ctx.distinct.add((stream, tuple(sp[0] for sp, _, _ in ex.steps)))
        trig += ex.trig
        bcalls += ex.bcalls
        for kk, vv in ex.obs_counts.items():
            obs_counts[kk] = obs_counts.get(kk, 0) + vv
        # invariants of the property on the implementation
        seen = set()
        for v in ex.viol:
            if v["inv"] in seen:
                continue
            seen.add(v["inv"])
            ctx.count("invariant_violation:%s:%s" % (stream, v["inv"]))
            specs = [list(s[0]) for s in ex.steps]
            known = KNOWN_STREAM.get(stream)
            expected = known is not None and v["inv"] in known[2]
            if fixed and expected:
                still_fails[stream] = True
                ctx.fail("invariant:" + v["inv"], cid, v["detail"], inp={"stream": stream}, site=known[0], fingerprint=known[1],
                         failing_input={"history": specs[: v["step"] + 1], "invariant": v["inv"], "detail": v["detail"]})
            elif expected and still_fails.get(stream):
                ctx.count("known_pattern_variant_violation:" + stream)
            else:
                nshrunk[0] += 1
                sp = specs[: v["step"] + 1]
                if nshrunk[0] <= 5:  # minimise the first few, report the rest as found
                    sp = shrink(sp, v["inv"], budget=120 if quick else 400)
                ctx.fail("invariant:" + v["inv"], cid, v["detail"], inp={"stream": stream}, site="VarsManager." + v["op"][0],
                         fingerprint="inv:" + v["inv"], failing_input={"history": sp, "invariant": v["inv"], "detail": v["detail"]})

    for stream, hs in FIXED.items():
        for j, specs in enumerate(hs):
            register("%s_fixed%d" % (stream, j), stream, run_specs(specs), True)
    for stream, n in plan:
        for k in range(n):
            if quick:
                length = rnd.randrange(5, 41)
            else:
                length = rnd.randrange(5, 41) if k % 4 else rnd.randrange(40, 201)
            try:
                ex = GENS[stream](rnd, length)
            except Exception as e:
                import traceback
                ctx.fail("implementation", "%s_%d" % (stream, k), "history execution raised: %s" % traceback.format_exc()[-1200:],
                         site="VarsManager", fingerprint="raise:" + type(e).__name__, failing_input={"stream": stream, "error": repr(e)})
                continue
            register("%s_%d" % (stream, k), stream, ex, False)
    ctx.log("histories executed:", len(cases), "ops:", ctx.evaluations)
    for kk, vv in obs_counts.items():
        ctx.count("observation:" + kk, vv)
    for cid in list(meta)[:2] + [c for c in meta if c.startswith("F7")][:1]:
        stream, ex = meta[cid]
        ctx.sample({"case": cid, "ops": [op for _, op, _ in ex.steps][:12], "last_obs": {k: v for k, v in ex.steps[-1][2].items() if k != "ids"}})
    res = common.coq_cases(ctx, "hist", HEADER, cases, per_file=max(4, len(cases) // 96), timeout=3000, case_timeout=600)
    bad = [cid for cid, _, _ in cases if res[cid] != "OK"]
    if bad:
        exprs = []
        for cid in bad[:10]:
            _, body = hist_stmt(meta[cid][1], meta[cid][0])
            exprs += ["first_bad %s" % body, "clean_hist %s" % body]
        outs, rc, err = common.coq_eval(ctx, "diag", HEADER, exprs)
        for j, cid in enumerate(bad[:10]):
            stream, ex = meta[cid]
            d = outs[2 * j: 2 * j + 2] if len(outs) >= 2 * j + 2 else ["?", "?"]
            detail = "model and implementation differ (%s): first_bad (step, component 1=dic 2=trainable 3=get_all_val 4=complex_vars 5=same_list 6=bnd 7=polar) %s; clean_hist %s" % (
                res[cid], " ".join(d[0].split()), " ".join(d[1].split()))
            stepno = None
            import re as _re
            mm = _re.search(r"\((-?\d+)%?Z?,", d[0].replace(" ", ""))
            if mm and int(mm.group(1)) >= 0:
                stepno = int(mm.group(1))
            site = "VarsManager." + (ex.steps[stepno][0][0] if stepno is not None and stepno < len(ex.steps) else "history")
            ctx.fail("state_machine", cid, detail, inp={"stream": stream, "ops": [s[0] for s in ex.steps][: (stepno or 0) + 1]}, site=site,
                     fingerprint="model:" + site, failing_input=None)
        for cid in bad[10:]:
            ctx.fail("state_machine", cid, "model and implementation differ (%s)" % res[cid], site="VarsManager.history", fingerprint="model", failing_input=None)
    # oracle contracts
    ntr = 500 if quick else 5000
    if len(trig) > ntr:
        trig = random.Random(ctx.seed + 7).sample(trig, ntr)
    tc = trig_cases(trig)
    for c in tc:
        ctx.count("oracle:" + c[3]["kind"])
    nb = 24 if quick else 240
    if len(bcalls) > nb * 3:
        bcalls = random.Random(ctx.seed + 8).sample(bcalls, nb * 3)
    bc = bound_cases(ctx, rnd, nb, bcalls)
    ctx.evaluations += len(tc) + len(bc)
    for c in bc:
        ctx.distinct.add(("bound", str(c[3])))
    if bc:
        ctx.sample({"case": bc[0][0], "goal": bc[0][1][:300], "meta": bc[0][3]})
    if tc:
        ctx.sample({"case": tc[0][0], "goal": tc[0][1][:300], "meta": tc[0][3]})
    res = common.coq_cases(ctx, "oracle", RHEADER + "From Coq Require Import Lra.\n", [c[:3] for c in tc + bc], per_file=25, case_timeout=60)
    for cid, st, tac, m in tc:
        if res[cid] != "OK":
            ctx.fail("oracle_contract", cid, "values assigned by %s do not satisfy the conversion contract (%s)" % (m["kind"], res[cid]), inp=m,
                     site="VarsManager." + ("std_polar" if m["kind"] in ("flip", "wrap") else m["kind"]), fingerprint="oracle:" + m["kind"],
                     failing_input=dict(m, note=("phase handed to _std_polar_angle (before) and phase stored afterwards (after): not the same angle "
                                                 "in [-pi, pi)") if m["kind"] == "wrap" else "complex value not preserved by this single conversion"))
    for cid, st, tac, m in bc:
        if res[cid] != "OK":
            ctx.fail("bound", cid, "Bound.%s differs from the documented transform (%s)" % (m["method"], res[cid]), inp=m,
                     site="Bound." + m["method"], fingerprint="bound:" + m["method"], failing_input=m)
    return common.finish(ctx, search=search, technique=TECHNIQUE, extra_assumptions=[
        "oracle values (random draws, cos/sin/sqrt/atan2, |r|, p+pi, sympy bound transforms) are captured from the implementation and given to the "
        "state machine; their contracts are hypotheses of the value-preservation theorems and are checked per sampled call by Coq-Interval (atol 1e-11)",
        "ties: proved for requests that neither merge nor overlap existing groups and do not tie component names (the model's tie_safe); outside that class "
        "the refutation theorems apply (known findings F7, F11, F12)",
        "coordinate operations on a complex parameter with exactly one fixed component (known finding F14) are outside the clean stream: value "
        "preservation and 'fixed component untouched' cannot both hold there",
        "masks (vm.mask_params) are not part of the Coq state machine: their invariants (stored state untouched, tied names read the same "
        "value, nested masks add up) are evaluated directly on the implementation inside the histories"])


def replay(rep):
    print(json.dumps({k: v for k, v in rep.items() if k != "broken"}, indent=1, default=str))
    fi = rep.get("failing_input") or {}
    h = fi.get("history")
    if h:
        ex = run_specs([tuple(x) for x in h], skip_invalid=True)
        print("re-executed %d operations on the implementation" % len(ex.steps))
        for _, op, o in ex.steps:
            print("  ", op[:160])
        print("final:", {k: v for k, v in ex.steps[-1][2].items() if k != "ids"})
        print("invariant violations now:", json.dumps(ex.viol, indent=1, default=str) if ex.viol else "none")
    return 0
