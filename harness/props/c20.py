"""C20 - samplers, histograms and adaptive bins reproduce their targets.

Theorems: coq/Props/Properties_C20.v (model coq/Samp/Samplers.v, coq/Samp/Bins.v).
Tie (every case is a kernel-checked Coq goal on exact dyadic inputs / outputs):
  * LinearInterp.cal_coeffs / solve / integral / __call__, BWGenerator, InterpND.generate (per-axis
    sqrt transform) : Coq-Interval goals |model - implementation| <= tol, plus the round trip
    integral(solve(u)) = u * int_all on the implementation's own values;
  * InterpND tables / cell choice / __call__, AdaptiveBound bounds, get_bool_mask, split_data,
    Hist1D.histogram, multi_sampling (synthetic streams and ConfigLoader.generate_toy /
    generate_toy_p with the RNG and the proposal stream captured): exact rational evaluation of
    the model inside Coq (vm_compute) compared with what the code returned.
Statistical part (chi^2 of generated samples, false-alarm 1e-9): thorough tier / search support only, except the
acceptance-rejection mean test of density_cases (6.1 sigma, decides).
Direct (model-independent) checks: InterpND/InterpNDHist cell probabilities vs integral of the interpolant, AdaptiveBound
one-bin-per-event and near-equal populations, Hist1D +/- vs histogram of the merged sample, scale_to aliasing,
applications.gen_data particle order.  Open findings (fixed reproducers): multi_sampling / bound-from-accepted-batch,
AdaptiveBound.base_bound / absolute-1e-6-pad.
"""
import contextlib
import io
import math
import random
from fractions import Fraction

import numpy as np

import common
from qfmt import Qq, Rq, frac
from rcases import real_stmt, tac

TECHNIQUE = ("Coq proof (induction over bin chains / oracle batch streams, field/nra, atan_tan, sqrt) + Coq-evaluated "
             "exact-rational correspondence (vm_compute) and Coq-Interval certified correspondence of the samplers")

HEADER_R = ("From Coq Require Import Reals List ZArith.\nFrom Interval Require Import Tactic.\n"
            "From TFV Require Import Base.RBase Base.Tie Samp.Samplers.\nImport ListNotations.\nOpen Scope R_scope.\n")
HEADER_Q = ("From Coq Require Import QArith Qabs ZArith List Bool.\nFrom TFV Require Import Samp.Samplers Samp.Bins.\n"
            "Import ListNotations.\n")
UNF = ("li_solve li_integral li_call li_int_all li_total li_int_step solve_from integral_from call_from solve_steps integral_steps bin_solve bin_cum "
       "bin_int rmax lx0 lx1 lk lb fst snd cal_coeffs clampk nth bw_call bw_integral bw_int_all bw_kxmin bw_solve nd_axis nd_coeff")
TAC = tac(UNF)
VM = "vm_compute; reflexivity"
EPS_LI = 1e-10


# ----------------------------------------------------------------------------- small printers
def qlist(xs):
    return "[" + "; ".join(Qq(x) for x in xs) + "]"


def blist(bs):
    return "[" + ";".join("true" if b else "false" for b in bs) + "]"


def nlist(ns):
    return "[" + ";".join("%d" % int(n) for n in ns) + "]%nat"


def rbins(x, k, b):
    """list of (x0,x1,k,b) from the implementation's own arrays"""
    return "[" + "; ".join("(%s, %s, %s, %s)" % (Rq(x[i]), Rq(x[i + 1]), Rq(k[i]), Rq(b[i])) for i in range(len(k))) + "]"


def rsteps(x, k, b, ist):
    """list of ((x0,x1,k,b), int_step) from the implementation's own arrays"""
    return "[" + "; ".join("((%s, %s, %s, %s), %s)" % (Rq(x[i]), Rq(x[i + 1]), Rq(k[i]), Rq(b[i]), Rq(ist[i])) for i in range(len(k))) + "]"


def rlist(xs):
    return "[" + "; ".join(Rq(v) for v in xs) + "]"


# ----------------------------------------------------------------------------- LinearInterp
def gen_grid(rnd, kind):
    n = rnd.randrange(2, 7)
    x0 = rnd.uniform(-2, 2)
    xs = [x0]
    for _ in range(n):
        xs.append(xs[-1] + rnd.choice([0.25, 0.5, 1.0, rnd.uniform(0.1, 1.5)]))
    if kind == "positive":
        ys = [rnd.uniform(0.2, 3.0) for _ in xs]
    elif kind == "zeros":      # non-negative with zero nodes (never two adjacent zeros at the end)
        ys = [rnd.choice([0.0, rnd.uniform(0.3, 3.0)]) for _ in xs]
        ys[-1] = rnd.uniform(0.3, 2.0)
        ys[0] = rnd.uniform(0.3, 2.0) if rnd.random() < 0.5 else ys[0]
    elif kind == "flat":       # exact flat pieces (k == 0 branch) and sub-epsilon slopes (clamped)
        ys = [rnd.uniform(0.5, 2.0)]
        for i in range(n):
            r = rnd.random()
            ys.append(ys[-1] if r < 0.4 else (ys[-1] + 1e-11 * (xs[i + 1] - xs[i]) if r < 0.6 else rnd.uniform(0.5, 2.0)))
    elif kind == "tiny":       # slopes just above the clamp (1.5e-10 .. 3e-8): the naive inverse (sqrt(D)-b)/k cancels there
        ys = [rnd.uniform(0.5, 2.0)]
        for i in range(n):
            sl = rnd.choice([-1.0, 1.0]) * 10 ** rnd.uniform(-9.8, -7.5)
            ys.append(ys[-1] + sl * (xs[i + 1] - xs[i]) if rnd.random() < 0.7 else rnd.uniform(0.5, 2.0))
    else:                      # integer-ish
        ys = [float(rnd.randrange(0, 4)) for _ in xs]
        ys[-1] = max(ys[-1], 1.0)
        ys[-2] = max(ys[-2], 1.0)
    return np.array(xs), np.array(ys)


LI_KINDS = ["positive", "zeros", "tiny", "flat", "int"]
LI_CORPUS = [
    # slope 2e-10, just above the clamp: (sqrt(D)-b)/k lost 4e-7 of the cumulative function before the cancellation-free inverse
    ("corpus-tiny-slope", [0.0, 1.0, 2.0], [1.0, 1.0 + 2e-10, 1.0 + 4e-10]),
    # zero first node whose discriminant at u = 0 rounds to -2.2e-16 (nan before /repo commit 4bd73c9)
    ("corpus-zero-node", [-1.4625430235503951, -0.17613579183826933, 0.9931486747289904], [0.0, 0.9886863694964385, 1.6376747351482408]),
    # leading zero-integral bin: u = 0 sits exactly on int_step[0] = 0 (digitize side: must skip the empty bin)
    ("corpus-zero-bin", [0.0, 1.0, 2.0, 3.0], [0.0, 0.0, 1.0, 2.0]),
    # inner zero-integral bin and a zero node inside
    ("corpus-inner-zero-bin", [0.0, 0.5, 1.5, 2.0, 3.0], [1.0, 0.0, 0.0, 2.0, 1.0]),
]


def li_cases(ctx, rnd, n_grids, n_u):
    from tf_pwa.generator.linear_interpolation import LinearInterp
    cases = []
    for g in range(n_grids + len(LI_CORPUS)):
        kind = LI_KINDS[g % len(LI_KINDS)]
        x, y = gen_grid(rnd, kind)
        if g >= n_grids:
            kind, x, y = LI_CORPUS[g - n_grids]
            x, y = np.array(x), np.array(y)
        ctx.count("li_grid:" + kind)
        li = LinearInterp(x, y)
        k, b, ist = [np.array(a, dtype=float) for a in (li.k, li.b, li.int_step)]
        meta0 = {"function": "LinearInterp", "x": x.tolist(), "y": y.tolist()}
        scale = float(np.max(np.abs(y)) + np.max(np.abs(x)) + 1)
        # L0: cal_coeffs vs model from the node lists
        cc = "cal_coeffs %s %s %s" % (Rq(EPS_LI), rlist(x), rlist(y))
        for i in range(len(k)):
            cases.append(("liK%d_%d" % (g, i), real_stmt("lk (nth %d (%s) (0,0,0,0))" % (i, cc), k[i], rtol=1e-11, atol=1e-13), TAC,
                          dict(meta0, site="LinearInterp.cal_coeffs", what="k[%d]" % i, impl=float(k[i]))))
            cases.append(("liB%d_%d" % (g, i), real_stmt("lb (nth %d (%s) (0,0,0,0))" % (i, cc), b[i], rtol=1e-11, atol=1e-12 * scale), TAC,
                          dict(meta0, site="LinearInterp.cal_coeffs", what="b[%d]" % i, impl=float(b[i]))))
        bins = rbins(x, k, b)
        steps = rsteps(x, k, b, ist)
        for i in range(len(k)):
            cases.append(("liS%d_%d" % (g, i), real_stmt("nth %d (li_int_step 0 %s) 0" % (i, bins), ist[i], rtol=1e-11, atol=1e-12 * scale), TAC,
                          dict(meta0, site="LinearInterp.cal_coeffs", what="int_step[%d]" % i, impl=float(ist[i]))))
        tot = float(li.int_all)
        cases.append(("liT%d" % g, real_stmt("li_int_all %s" % bins, tot, rtol=1e-11, atol=1e-12 * scale), TAC,
                      dict(meta0, site="LinearInterp.cal_coeffs", what="int_all", impl=tot)))
        # u = 0 and u = 1 on every grid, incl. zero node values: the discriminant is then exactly 0 in the reals
        # (clamped at 0 by the code since commit 4bd73c9; before, its float value could round below 0 -> nan)
        us = [rnd.random() for _ in range(n_u)] + [0.0, 1.0]
        xr = float(x[-1] - x[0])
        for j, u in enumerate(us):
            sv = float(li.solve(np.array([u]))[0])
            if not math.isfinite(sv):
                ctx.fail("tie:LinearInterp.solve", "liV%d_%d" % (g, j), "solve(%r) is not finite: %r" % (u, sv), inp=meta0, site="LinearInterp.solve", fingerprint="LinearInterp.solve",
                         failing_input={"call": "LinearInterp(x, y).solve([u])", "x": x.tolist(), "y": y.tolist(), "u": u, "solve": str(sv), "expected_range": [float(x[0]), float(x[-1])]})
                continue
            # where the density at the returned point (nearly) vanishes the cumulative function is flat and its
            # inverse is conditioned like sqrt(eps): 1e-6 of the range there, 1e-9 elsewhere
            dens = float(li(np.array([sv]))[0])
            v_tol = (1e-9 if dens > 1e-3 * float(np.max(y)) else 1e-6) * xr
            cases.append(("liV%d_%d" % (g, j), real_stmt("solve_steps %s (%s * %s)" % (steps, Rq(u), Rq(tot)), sv, rtol=0, atol=v_tol), TAC,
                          dict(meta0, site="LinearInterp.solve", u=u, impl=sv)))
            iv = float(li.integral(np.array([sv]))[0])
            cases.append(("liI%d_%d" % (g, j), real_stmt("integral_steps %s %s" % (steps, Rq(sv)), iv, rtol=1e-11, atol=1e-12 * abs(tot)), TAC,
                          dict(meta0, site="LinearInterp.integral", x=sv, impl=iv)))
            # round trip on the implementation's own values, certified: integral(solve(u)) = u*int_all, in range
            cases.append(("liR%d_%d" % (g, j),
                          "(Rabs (%s - %s * %s) <= %s /\\ %s <= %s <= %s)%%R" % (Rq(iv), Rq(u), Rq(tot), Rq(Fraction(1, 10 ** 9) * frac(abs(tot))), Rq(x[0] - v_tol), Rq(sv), Rq(x[-1] + v_tol)),
                          "split; [|split]; interval with (i_prec 90)",
                          dict(meta0, site="LinearInterp.solve", what="round trip integral(solve(u)) = u*int_all and range", u=u, solve=sv, integral=iv, int_all=tot)))
            ctx.distinct.add(("li", g, j))
        for j in range(max(2, n_u // 2)):
            xv = rnd.uniform(float(x[0]), float(x[-1]))
            iv = float(li.integral(np.array([xv]))[0])
            cases.append(("liJ%d_%d" % (g, j), real_stmt("integral_steps %s %s" % (steps, Rq(xv)), iv, rtol=1e-11, atol=1e-12 * abs(tot)), TAC,
                          dict(meta0, site="LinearInterp.integral", x=xv, impl=iv)))
            cv = float(li(np.array([xv]))[0])
            cases.append(("liC%d_%d" % (g, j), real_stmt("li_call %s %s" % (bins, Rq(xv)), cv, rtol=1e-11, atol=1e-12 * scale), TAC,
                          dict(meta0, site="LinearInterp.__call__", x=xv, impl=cv)))
        # exactly at an inner node (digitize side) for integral and __call__
        if len(x) > 2:
            xv = float(x[rnd.randrange(1, len(x) - 1)])
            iv = float(li.integral(np.array([xv]))[0]); cv = float(li(np.array([xv]))[0])
            cases.append(("liN%d" % g, real_stmt("integral_steps %s %s" % (steps, Rq(xv)), iv, rtol=1e-11, atol=1e-12 * abs(tot)), TAC,
                          dict(meta0, site="LinearInterp.integral", x=xv, impl=iv, what="at node")))
            cases.append(("liM%d" % g, real_stmt("li_call %s %s" % (bins, Rq(xv)), cv, rtol=1e-11, atol=1e-12 * scale), TAC,
                          dict(meta0, site="LinearInterp.__call__", x=xv, impl=cv, what="at node")))
    return cases


# ----------------------------------------------------------------------------- BWGenerator
def bw_cases(ctx, rnd, n, n_u):
    from tf_pwa.generator.breit_wigner import BWGenerator
    cases = []
    for g in range(n):
        m0 = rnd.uniform(0.3, 3.0); g0 = rnd.uniform(0.01, 0.6)
        mmin = m0 + rnd.uniform(-1.5, 0.5)
        mmax = mmin + rnd.uniform(0.05, 2.0)
        bw = BWGenerator(m0, g0, mmin, mmax)
        args = "%s %s %s %s" % (Rq(m0), Rq(g0), Rq(mmin), Rq(mmax))
        meta0 = {"function": "BWGenerator", "m0": m0, "gamma0": g0, "m_min": mmin, "m_max": mmax}
        ctx.count("bw_generator")
        ia = float(bw.int_all)
        cases.append(("bwA%d" % g, real_stmt("bw_int_all %s" % args, ia, rtol=1e-11), TAC, dict(meta0, site="BWGenerator.__init__", what="int_all", impl=ia)))
        cases.append(("bwK%d" % g, real_stmt("bw_kxmin %s %s %s" % (Rq(m0), Rq(g0), Rq(mmin)), float(bw.kxmin), rtol=1e-11, atol=1e-14), TAC,
                      dict(meta0, site="BWGenerator.__init__", what="kxmin", impl=float(bw.kxmin))))
        for j in range(n_u):
            u = rnd.random() if j else 0.0
            sv = float(bw.solve(np.array([u]))[0])
            cases.append(("bwV%d_%d" % (g, j), real_stmt("bw_solve %s %s" % (args, Rq(u)), sv, rtol=1e-9, atol=1e-11), TAC,
                          dict(meta0, site="BWGenerator.solve", u=u, impl=sv)))
            iv = float(bw.integral(np.array([sv]))[0]); i0 = float(bw.integral(np.array([mmin]))[0])
            cases.append(("bwI%d_%d" % (g, j), real_stmt("bw_integral %s %s %s" % (Rq(m0), Rq(g0), Rq(sv)), iv, rtol=1e-11, atol=1e-13), TAC,
                          dict(meta0, site="BWGenerator.integral", x=sv, impl=iv)))
            cv = float(bw(np.array([sv]))[0])
            cases.append(("bwC%d_%d" % (g, j), real_stmt("bw_call %s %s %s" % (Rq(m0), Rq(g0), Rq(sv)), cv, rtol=1e-11), TAC,
                          dict(meta0, site="BWGenerator.__call__", x=sv, impl=cv)))
            cases.append(("bwR%d_%d" % (g, j),
                          "(Rabs (%s - %s - %s * %s) <= %s /\\ %s <= %s <= %s)%%R" % (Rq(iv), Rq(i0), Rq(u), Rq(ia), Rq(Fraction(1, 10 ** 9) * frac(abs(ia))), Rq(mmin - 1e-9), Rq(sv), Rq(mmax + 1e-9)),
                          "split; [|split]; interval with (i_prec 90)",
                          dict(meta0, site="BWGenerator.solve", what="round trip integral(solve(u)) - integral(m_min) = u*int_all and range", u=u, solve=sv, integral=iv, int_all=ia)))
            ctx.distinct.add(("bw", g, j))
    return cases


# ----------------------------------------------------------------------------- InterpND
@contextlib.contextmanager
def capture_np_random():
    """np.random.random is an oracle: record what it returned to the code"""
    real = np.random.random
    rec = []

    def fake(*a, **k):
        r = real(*a, **k)
        rec.append(np.array(r))
        return r
    np.random.random = fake
    try:
        yield rec
    finally:
        np.random.random = real


def product_bits(n):
    import itertools
    return [list(t) for t in itertools.product([0, 1], repeat=n)]


def cell_volumes(grids):
    vol = np.ones([len(a) - 1 for a in grids])
    for j, a in enumerate(grids):
        sh = [1] * len(grids); sh[j] = -1
        vol = vol * np.diff(np.asarray(a, dtype=float)).reshape(sh)
    return vol


def nd_cell_probability_check(ctx, cid, grids, z, int_all, meta0, site):
    """probability of a cell under generate() (sum of its corner weights / total) against the exact integral of the
    multilinear interpolant over that cell (mean of the corner values * cell volume) / total integral"""
    import itertools
    nd = len(grids)
    ctx.evaluations += 1
    w = int_all.reshape([2 ** nd] + [len(a) - 1 for a in grids]).sum(axis=0)
    mean = np.zeros_like(w)
    for sl in itertools.product([slice(0, -1), slice(1, None)], repeat=nd):
        mean = mean + z[sl] / 2 ** nd
    ex = mean * cell_volumes(grids)
    pw, pe = w / w.sum(), ex / ex.sum()
    if not np.allclose(pw, pe, rtol=1e-12, atol=1e-14):
        i = np.unravel_index(int(np.argmax(np.abs(pw - pe))), pw.shape)
        ctx.fail("interp_nd", cid, "generate() selects cell %s with probability %.6g, the interpolated density integrates to %.6g there" % (list(map(int, i)), pw[i], pe[i]),
                 inp=meta0, site=site, fingerprint="cell-volume",
                 failing_input=dict(meta0, call="%s: P(cell) from int_all vs integral of __call__ over the cell" % meta0["function"], cell=[int(k) for k in i],
                                    probability_generate=float(pw[i]), probability_density=float(pe[i])))
        return False
    return True


def ndhist_cases(ctx, g, grids, z, gq, meta0):
    """InterpNDHist (piecewise constant = max corner per cell): int_step = cumsum(coeffs * cell volume)"""
    from tf_pwa.generator.interp_nd import InterpNDHist
    import itertools
    h = InterpNDHist(grids, z)
    meta = dict(meta0, function="InterpNDHist")
    co = np.array(h.coeffs, dtype=float)
    mx = np.zeros_like(co)
    for sl in itertools.product([slice(0, -1), slice(1, None)], repeat=len(grids)):
        mx = np.maximum(mx, z[sl])
    ctx.evaluations += 1
    ctx.count("interp_nd_hist:dim=%d" % len(grids))
    if not np.array_equal(co, mx):
        ctx.fail("interp_nd", "nhC%d" % g, "InterpNDHist.coeffs is not the largest corner value of each cell", inp=meta, site="InterpNDHist.build_coeffs", fingerprint="coeffs",
                 failing_input=dict(meta, coeffs=co.tolist(), expected=mx.tolist()))
    ist = np.array(h.int_step, dtype=float)
    # cell probabilities against the density InterpNDHist.__call__ describes (coeffs on the cell)
    w = np.diff(np.concatenate([[0.0], ist])).reshape(co.shape)
    ex = co * cell_volumes(grids)
    if not np.allclose(w / w.sum(), ex / ex.sum(), rtol=1e-12, atol=1e-14):
        i = np.unravel_index(int(np.argmax(np.abs(w / w.sum() - ex / ex.sum()))), w.shape)
        ctx.fail("interp_nd", "nhV%d" % g, "InterpNDHist.generate() selects cell %s with probability %.6g, the density integrates to %.6g there" % (list(map(int, i)), (w / w.sum())[i], (ex / ex.sum())[i]),
                 inp=meta, site="InterpNDHist.intgral_step", fingerprint="cell-volume",
                 failing_input=dict(meta, call="InterpNDHist: P(cell) from int_step vs coeffs * cell volume", cell=[int(k) for k in i],
                                    probability_generate=float((w / w.sum())[i]), probability_density=float((ex / ex.sum())[i])))
    tol = Qq(Fraction(1, 10 ** 12) * frac(float(abs(ist[-1])) + 1))
    return [("nhS%d" % g, "qlist_close (qcumsum 0 (ndh_weights %s %s)) %s %s = true" % (gq, qlist(co.flatten()), qlist(ist), tol), VM,
             dict(meta, site="InterpNDHist.intgral_step", what="int_step = cumsum(max corner * cell volume)", impl=ist.tolist()))]


def nd_cases(ctx, rnd, n_grids, n_ev):
    """returns (q_cases, r_cases)"""
    from tf_pwa.generator.interp_nd import InterpND
    qc, rc = [], []
    for g in range(n_grids):
        nd = [1, 2, 2, 3, 2][g % 5]
        grids = []
        for d in range(nd):
            m = rnd.randrange(2, 4 if nd < 3 else 3)
            a = [rnd.uniform(-1, 1)]
            for _ in range(m - 1):
                a.append(a[-1] + rnd.choice([0.5, 1.0, rnd.uniform(0.2, 1.3)]))
            grids.append(np.array(a))
        shape = [len(a) for a in grids]
        if g == 1:   # the deterministic corner-order probe: one cell, a single non-zero mixed corner
            grids = [np.array([0.0, 1.0]), np.array([0.0, 1.0])]; shape = [2, 2]
            z = np.array([[0.0, 0.0], [1.0, 0.0]])
        elif g == 0:  # the deterministic cell-volume probe: constant density on nodes 0, 1, 3 (first cell must get 1/3, not 1/2)
            grids = [np.array([0.0, 1.0, 3.0])]; shape = [3]
            z = np.array([1.0, 1.0, 1.0])
        else:
            z = np.array([rnd.choice([0.0, rnd.uniform(0.1, 2.0), float(rnd.randrange(1, 4))]) for _ in range(int(np.prod(shape)))]).reshape(shape)
            if z.sum() == 0:
                z.flat[0] = 1.0
        ctx.count("interp_nd:dim=%d" % nd)
        f = InterpND(grids, z)
        meta0 = {"function": "InterpND", "xs": [a.tolist() for a in grids], "z": z.tolist()}
        nodes = nlist(shape)
        zq = qlist(z.flatten())
        ia = np.array(f.int_all).flatten()
        ist = np.array(f.int_step)
        # tables: int_all exact, int_step = cumsum within rounding, transform table (corner pairing)
        gq = "[" + ";".join(qlist(a) for a in grids) + "]"
        tol_a = Qq(Fraction(1, 10 ** 12) * frac(float(abs(ist[-1])) + 1))
        # corner weights = z / 2^n * cell volume (the model of the repaired intgral_step; the grids are non-uniform)
        qc.append(("ndA%d" % g, "qlist_close (nd_int_all_vol %s %s) %s %s = true" % (gq, zq, qlist(ia), tol_a), VM,
                   dict(meta0, site="InterpND.intgral_step", what="int_all = corner value / 2^n * cell volume", impl=ia.tolist())))
        qc.append(("ndS%d" % g, "qlist_close (qcumsum 0 (nd_int_all_vol %s %s)) %s %s = true" % (gq, zq, qlist(ist), tol_a), VM,
                   dict(meta0, site="InterpND.intgral_step", what="int_step", impl=ist.tolist())))
        # the property itself, independent of the model: probability of every cell = integral of the interpolant over it
        nd_cell_probability_check(ctx, "ndV%d" % g, grids, z, np.array(f.int_all), meta0, "InterpND.intgral_step")
        qc += ndhist_cases(ctx, g, grids, z, gq, meta0)
        co = np.array(f.coeffs)
        bits_impl = [[1 if (co[p, j, 0] == 0.0 and co[p, j, 1] == 1.0) else (0 if (co[p, j, 0] == 1.0 and co[p, j, 1] == -1.0) else 7) for j in range(nd)] for p in range(2 ** nd)]
        tbl = "[" + ";".join(blist([bb == 1 for bb in row]) for row in bits_impl) + "]"
        ok_tbl = all(bb in (0, 1) for row in bits_impl for bb in row)
        qc.append(("ndT%d" % g, ("map (bits_coeff %d) (seq 0 %d) = %s" % (nd, 2 ** nd, tbl)) if ok_tbl else "false = true", VM,
                   dict(meta0, site="InterpND.build_coeffs", what="coeffs table (corner p -> per-axis transform)", impl=co.tolist())))
        # generate with the RNG captured
        with capture_np_random() as rec:
            out = np.array(f.generate(n_ev))
        if len(rec) != 2 or rec[0].shape != (n_ev, nd) or rec[1].shape != (n_ev,):
            ctx.fail("interp_nd", "ndG%d" % g, "InterpND.generate drew an unexpected random stream: %s" % [r.shape for r in rec], inp=meta0,
                     site="InterpND.generate", fingerprint="rng-stream", failing_input=dict(meta0, shapes=[list(r.shape) for r in rec]))
            continue
        U, V = rec[0], rec[1]   # U is the uniform *before* the code's sqrt: x = np.sqrt(random)
        nb = int(np.prod([s - 1 for s in shape]))
        pb = product_bits(nd)
        for e in range(n_ev):
            v = float(V[e] * ist[-1])       # the code's own product
            # harness mirror of the model's discrete choice; Coq checks the mirror against the model
            bi = 0
            for s in ist[:-1]:
                if s <= v:
                    bi += 1
                else:
                    break
            p, cell = bi // nb, bi % nb
            ci = list(np.unravel_index(cell, [s - 1 for s in shape]))
            sel = "(%d%%nat, [%s])" % (p, ";".join("(%s,%d%%nat)" % ("true" if pb[p][j] else "false", ci[j]) for j in range(nd)))
            qc.append(("ndP%d_%d" % (g, e), "nd_select_eqb (nd_select %s %s %s) %s = true" % (nodes, qlist(ist), Qq(v), sel), VM,
                       dict(meta0, site="InterpND.generate", what="cell / corner choice", v=v, mirror=[int(p), [int(c) for c in ci]])))
            for j in range(nd):
                xmin, xmax = float(grids[j][ci[j]]), float(grids[j][ci[j] + 1])
                rc.append(("ndX%d_%d_%d" % (g, e, j),
                           real_stmt("nd_axis %s %s %s %s" % ("true" if pb[p][j] else "false", Rq(float(U[e, j])), Rq(xmin), Rq(xmax)), float(out[e, j]), rtol=1e-11, atol=1e-12), TAC,
                           dict(meta0, site="InterpND.generate", what="axis %d of event" % j, u=float(U[e, j]), v=v, corner=int(p), cell=[int(c) for c in ci], impl=float(out[e, j]))))
            ctx.distinct.add(("nd", g, e))
        # __call__ (multilinear interpolation) at random points and at the generated points
        pts = [[rnd.uniform(float(a[0]), float(a[-1])) for a in grids] for _ in range(3)] + [out[e].tolist() for e in range(min(2, n_ev))]
        for j, pt in enumerate(pts):
            val = float(np.array(f([np.array([c]) for c in pt])).reshape(-1)[0])
            qc.append(("ndC%d_%d" % (g, j), "Qle_bool (Qabs (nd_call [%s] %s %s - %s)) %s = true" % (
                ";".join(qlist(a) for a in grids), zq, qlist(pt), Qq(val), Qq(Fraction(1, 10 ** 11) * frac(abs(val) + 1))), VM,
                dict(meta0, site="InterpND.__call__", x=pt, impl=val)))
    return qc, rc


# ----------------------------------------------------------------------------- AdaptiveBound
def qpoints(cols):
    """cols: array (ndim, n) -> Coq list of points"""
    return "[" + ";".join(qlist(cols[:, i]) for i in range(cols.shape[1])) + "]"


def qboxes(bounds):
    return "[" + ";".join("[" + ";".join("(%s,%s)" % (Qq(l), Qq(r)) for l, r in zip(np.atleast_1d(lb), np.atleast_1d(rb))) + "]" for lb, rb in bounds) + "]"


AB_KINDS = ["uniform", "gauss", "grid", "f32big", "tiny", "f64big"]
LAYOUTS = [(1, 3), (1, [[4]]), (1, [[2], [3]]), (2, [[2, 2]]), (2, [[3, 2]]), (2, [[2, 2], [2, 2]]), (3, [[2, 2, 2]]), (2, [[2, 3], [2, 1]]), (1, 5), (3, [[2, 1, 3]])]


def level_pops(leaf_pops, sizes):
    """populations per level: list of (parent, size, children) from the leaf populations"""
    out = []
    groups = list(leaf_pops)
    for s in reversed(sizes):
        parents = [sum(groups[i:i + s]) for i in range(0, len(groups), s)]
        for i, par in enumerate(parents):
            out.append((par, s, groups[i * s:(i + 1) * s]))
        groups = parents
    return out


def ab_cases(ctx, rnd, n_cases, n_pts):
    from tf_pwa.adaptive_bins import AdaptiveBound
    qc = []
    for g in range(n_cases):
        ndim, bins = LAYOUTS[g % len(LAYOUTS)]
        n = rnd.randrange(max(8, n_pts // 3), n_pts)
        # regular stream (stated rule): float64 data of size O(1) whose distinct values are > 1e-4 apart, the regime in which the
        # code's ABSOLUTE 1e-6 pad of the upper edges is both representable and harmless.  Outside it (float32 data >= 32, float64
        # data >= 1.7e10, data closer than 1e-6) the code loses events / balance: open finding, fixed reproducer ab_known_case.
        kind = AB_KINDS[(g + g // len(LAYOUTS)) % 3]
        def col(draw):   # distinct values, gaps well above the code's 1e-6 edge offset
            while True:
                c = [draw() for _ in range(n)]
                sc = sorted(c)
                if min(b_ - a_ for a_, b_ in zip(sc, sc[1:])) > 1e-4:
                    return c
        if kind == "uniform":
            data = np.array([col(lambda: rnd.uniform(-1, 3)) for _ in range(ndim)])
        elif kind == "gauss":
            data = np.array([col(lambda: rnd.gauss(0.5, 1.0)) for _ in range(ndim)])
        elif kind == "grid":   # distinct multiples of 1/64 (exact dyadics)
            data = np.array([[v / 64.0 for v in rnd.sample(range(-300, 600), n)] for _ in range(ndim)])
        elif kind == "f32big":   # float32 values 1000 .. 4000 (masses in MeV): half an ulp is 1.2e-4, an absolute 1e-6 pad is lost
            data = np.array([[v / 2.0 for v in rnd.sample(range(2000, 8000), n)] for _ in range(ndim)], dtype=np.float32)
        elif kind == "tiny":     # values below 4e-6, distinct multiples of 2^-30: an absolute 1e-6 pad is a quarter of the range
            data = np.array([[v * 2.0 ** -30 for v in rnd.sample(range(0, 4000), n)] for _ in range(ndim)])
        else:                    # float64 values 1e10 .. 1e11, distinct multiples of 1024
            data = np.array([[v * 1024.0 for v in rnd.sample(range(10 ** 7, 10 ** 8), n)] for _ in range(ndim)])
        ctx.count("adaptive:%s:dim=%d" % (kind, ndim))
        dmin, dmax = float(data.min()), float(data.max())
        span = dmax - dmin
        arg = data[0] if isinstance(bins, int) else data
        ab = AdaptiveBound(arg, bins)
        bounds = ab.get_bounds()
        masks = [np.array(m, dtype=bool) for m in ab.get_bool_mask(data)]
        probe = np.array([[rnd.uniform(dmin - 0.2 * span, dmax + 0.2 * span) for _ in range(12)] for _ in range(ndim)], dtype=data.dtype)
        # a probe sitting exactly on implementation edges: half-open semantics
        for j in range(min(4, len(bounds))):
            lb, rb = bounds[rnd.randrange(len(bounds))]
            probe[:, j] = np.atleast_1d(lb) if j % 2 == 0 else np.atleast_1d(rb)
        pmasks = [np.array(m, dtype=bool) for m in ab.get_bool_mask(probe)]
        nss = [[bins]] if isinstance(bins, int) else bins
        meta0 = {"function": "AdaptiveBound", "bins": bins, "ndim": ndim, "n": n, "data": data.tolist()}
        # model of the code as it is: upper edges = percentile / max + 1e-6 (oracle `up` instantiated with up_old)
        stmt = "adaptive_case_ok %d [%s] %s %s [%s] %s [%s] = true" % (
            ndim, ";".join(nlist(ns) for ns in nss), qpoints(data), qboxes(bounds), ";".join(blist(m) for m in masks), qpoints(probe), ";".join(blist(m) for m in pmasks))
        qc.append(("abM%d" % g, stmt, VM, dict(meta0, site="AdaptiveBound.get_bool_mask", what="bounds = model split; masks = half-open boxes; each base event in exactly one bin",
                                               bounds=[[np.atleast_1d(l).tolist(), np.atleast_1d(r).tolist()] for l, r in bounds])))
        # split_data returns exactly the masked columns (plain array comparison, nothing to model)
        parts = ab.split_data(data)
        ok = len(parts) == len(masks) and all(np.array_equal(np.array(p), data[..., m]) for p, m in zip(parts, masks))
        ctx.evaluations += 1
        per_event = np.sum(np.array(masks, dtype=int), axis=0)
        if not ok or sum(int(m.sum()) for m in masks) != n or np.any(per_event != 1):
            lost = [int(i) for i in np.where(per_event != 1)[0][:5]]
            ctx.fail("adaptive_bins", "abD%d" % g, "split_data does not return each event exactly once (events %s are in %s bins)" % (lost, [int(per_event[i]) for i in lost]),
                     inp=meta0, site="AdaptiveBound.split_data", fingerprint="split_data",
                     failing_input=dict(meta0, call="AdaptiveBound(data, bins).get_bool_mask(data): number of bins holding each event", dtype=str(data.dtype),
                                        part_sizes=[int(np.array(p).shape[-1]) for p in parts], mask_sizes=[int(m.sum()) for m in masks],
                                        events_not_in_exactly_one_bin=[data[:, i].tolist() for i in lost]))
        # near-equal populations (distinct values): every split node within one of equal
        sizes = [s for ns in nss for s in ns]
        pops = [int(m.sum()) for m in masks]
        _, datas = ab.get_bounds_data()
        pops2 = [int(np.array(d).shape[-1]) for d in datas]
        trip = level_pops(pops, sizes)
        # the property itself (distinct values): every child within one of parent / size
        badp = [(par, s_, c) for par, s_, ch in trip for c in ch if abs(s_ * c - par) > s_]
        ctx.evaluations += 1
        if badp:
            ctx.fail("adaptive_bins", "abQ%d" % g, "populations are not near-equal: a node of %d events split in %d has a child of %d" % badp[0], inp=meta0,
                     site="AdaptiveBound.single_split_bound", fingerprint="populations",
                     failing_input=dict(meta0, call="AdaptiveBound(data, bins): bin populations (distinct values)", dtype=str(data.dtype), populations=pops))
        st = "forallb (fun t => pop_within_one (fst (fst t)) (snd (fst t)) (snd t)) [%s] = true /\\ %s = %s" % (
            ";".join("((%d,%d),%d)%%Z" % (par, s, c) for par, s, ch in trip for c in ch), nlist(pops), nlist(pops2))
        qc.append(("abP%d" % g, st, "split; vm_compute; reflexivity", dict(meta0, site="AdaptiveBound.single_split_bound", what="populations within one of equal at every split", populations=pops, data_chain=pops2)))
        ctx.distinct.add(("ab", g))
    return qc


SITE_F4 = "AdaptiveBound.base_bound"
FP_F4 = "absolute-1e-6-pad"


def ab_known_case(ctx):
    """the shape excluded from the regular stream, one fixed input: float32 values 1000 .. 1039 (half an ulp is 3e-5, so
    max + 1e-6 == max and the half-open last bin [.., max) does not contain the largest event of either dimension)"""
    from tf_pwa.adaptive_bins import AdaptiveBound
    a = np.array([(17 * i) % 40 for i in range(40)], dtype=np.float32) + np.float32(1000.0)
    data = np.stack([a, a[::-1].copy()])
    bins = [[2, 2]]
    ab = AdaptiveBound(data, bins)
    per_event = np.sum(np.array(ab.get_bool_mask(data), dtype=int), axis=0)
    ctx.evaluations += 1
    ctx.count("adaptive:float32 1e3 (known finding probe)")
    if np.any(per_event != 1):
        lost = [int(i) for i in np.where(per_event != 1)[0]]
        meta = {"function": "AdaptiveBound", "bins": bins, "dtype": "float32", "data": data.tolist()}
        ctx.fail("adaptive_bins", "abF4", "float32 data 1000..1039: %d of 40 events lie in no bin (events %s): max + 1e-6 == max in float32 and the bins are half open" % (len(lost), lost),
                 inp=meta, site=SITE_F4, fingerprint=FP_F4,
                 failing_input=dict(meta, call="AdaptiveBound(data, [[2, 2]]).get_bool_mask(data): number of bins holding each event", events_in_no_bin=[data[:, i].tolist() for i in lost],
                                    sum_of_populations=int(per_event.sum()), expected=40))


# ----------------------------------------------------------------------------- Hist1D.histogram
def hist_cases(ctx, rnd, n_cases, n_ev):
    import warnings
    from tf_pwa.histogram import Hist1D
    qc = []
    for g in range(n_cases):
        n = rnd.randrange(5, n_ev)
        kind = ["dyadic", "float", "none", "negative", "cancel"][g % 5]
        m = np.array([rnd.uniform(-0.5, 2.5) for _ in range(n)])
        if kind == "dyadic":
            w = np.array([rnd.randrange(0, 33) / 8.0 for _ in range(n)])
        elif kind == "float":
            w = np.array([rnd.uniform(0.0, 3.0) for _ in range(n)])
        elif kind in ("negative", "cancel"):
            w = np.array([rnd.randrange(-16, 33) / 8.0 for _ in range(n)])
        else:
            w = None
        if g % 2 == 0:
            nb = rnd.randrange(2, 9)
            kw = {"bins": nb, "range": (0.0, 2.0)}
        else:
            edges = sorted(set([0.0, 2.0] + [rnd.randrange(1, 16) / 8.0 for _ in range(rnd.randrange(1, 6))]))
            kw = {"bins": np.array(edges)}
            # some events exactly on edges (half-open / last-closed semantics)
            for j in range(min(3, n)):
                m[j] = rnd.choice(edges)
        if kind == "cancel":
            # one bin holds events whose weights sum to exactly zero (signal-minus-sideband): occupied, not empty
            ed = np.linspace(0.0, 2.0, kw["bins"] + 1) if g % 2 == 0 else kw["bins"]
            kb = rnd.randrange(len(ed) - 1)
            lo, hi = float(ed[kb]), float(ed[kb + 1])
            inside = (m >= lo) & (m < hi) if kb < len(ed) - 2 else (m >= lo) & (m <= hi)
            m[inside] = -0.4  # out of range
            grp = rnd.choice([[1.0, -1.0], [1.0, -0.5, -0.5], [2.5, -2.5, 0.75, -0.75]])
            for j, wj in enumerate(grp):
                m[n - 1 - j] = lo + (hi - lo) * rnd.choice([0.25, 0.5, 0.625, 0.75])
                w[n - 1 - j] = wj
        ctx.count("hist:%s:%s" % (kind, "uniform" if g % 2 == 0 else "edges"))
        with warnings.catch_warnings():
            warnings.simplefilter("ignore")
            h = Hist1D.histogram(m, weights=w, **kw)
        es = np.array(h.binning, dtype=float); cnt = np.array(h.count, dtype=float); err = np.array(h.error, dtype=float)
        if np.any(np.isnan(err)) or not np.all(np.isfinite(cnt)):
            ctx.fail("tie:Hist1D.histogram", "hsH%d" % g, "histogram returns nan", inp=None, site="Hist1D.histogram", fingerprint="Hist1D.histogram",
                     failing_input={"call": "Hist1D.histogram(m, weights=w, **kw)", "m": m.tolist(), "w": None if w is None else w.tolist(), "kw": str(kw), "count": cnt.tolist(), "error": [str(e) for e in err]})
            continue
        ww = np.ones(n) if w is None else w
        empty = [bool(np.isinf(e)) for e in err]
        errs = [0.0 if np.isinf(e) else float(e) for e in err]
        exact = kind in ("dyadic", "none", "negative", "cancel")
        sc = float(np.sum(np.abs(ww))) + 1
        atol = Fraction(0) if exact else Fraction(1, 10 ** 12) * frac(sc)
        atol2 = Fraction(1, 10 ** 11) * frac(float(np.sum(ww * ww)) + 1)
        evs = "[" + ";".join("(%s,%s)" % (Qq(a), Qq(b)) for a, b in zip(m, ww)) + "]"
        meta0 = {"function": "Hist1D.histogram", "m": m.tolist(), "weights": None if w is None else w.tolist(), "kw": {k: (v.tolist() if hasattr(v, "tolist") else v) for k, v in kw.items()}}
        qc.append(("hsH%d" % g, "hist_case_ok %s %s %s %s %s %s %s = true" % (qlist(es), evs, qlist(cnt), qlist(errs), blist(empty), Qq(atol), Qq(atol2)), VM,
                   dict(meta0, site="Hist1D.histogram", what="count = sum of weights per bin; error^2 = sum of squared weights (inf on empty bins)", count=cnt.tolist(), error=[str(e) for e in err])))
        # conservation on the implementation's own output, in-range events
        inr = (m >= es[0]) & (m <= es[-1])
        sw = sum((frac(v) for v in ww[inr]), Fraction(0)); sw2 = sum((frac(v) ** 2 for v in ww[inr]), Fraction(0))
        st = "Qle_bool (Qabs (qsum %s - %s)) %s && Qle_bool (Qabs (qsum (map (fun e => e * e) %s) - %s)) %s = true" % (
            qlist(cnt), Qq(sw), Qq(atol), qlist(errs), Qq(sw2), Qq(atol2))
        qc.append(("hsC%d" % g, st, VM, dict(meta0, site="Hist1D.histogram", what="sum of counts = sum of in-range weights; sum of error^2 = sum of squared in-range weights",
                                            count=cnt.tolist(), sum_w=float(sw), sum_w2=float(sw2))))
        ctx.distinct.add(("hist", g))
    return qc


# ----------------------------------------------------------------------------- Hist1D algebra: + , - , scale_to
def hist_algebra_cases(ctx, rnd, n_cases, n_ev):
    """h(a) + h(b) must be the histogram of the merged sample (count, error, empty-bin marker) although empty bins carry
    error = inf; scale_to must rescale the histogram and nothing else (no write into the caller's arrays)"""
    import warnings
    from tf_pwa.histogram import Hist1D, WeightedData
    qc = []

    def comp(h):
        err = np.array(h.error, dtype=float)
        return np.array(h.count, dtype=float), np.where(np.isinf(err), 0.0, err), [bool(b_) for b_ in np.isinf(err)]
    for g in range(n_cases):
        nb = rnd.randrange(2, 9)
        kw = {"bins": nb, "range": (0.0, 2.0)}

        def sample(sparse):
            n = rnd.randrange(1, 5) if sparse else rnd.randrange(5, n_ev)
            m = np.array([rnd.uniform(0.0, 2.0) for _ in range(n)])
            w = np.array([rnd.randrange(-8, 33) / 8.0 for _ in range(n)]) if rnd.random() < 0.7 else None
            return m, w
        (m1, w1), (m2, w2) = sample(g % 2 == 0), sample(g % 3 != 1)
        with warnings.catch_warnings():
            warnings.simplefilter("ignore")
            h1 = Hist1D.histogram(m1, weights=w1, **kw); h2 = Hist1D.histogram(m2, weights=w2, **kw)
            c1, e1, f1 = comp(h1); c2, e2, f2 = comp(h2)
            ww1 = np.ones(len(m1)) if w1 is None else w1
            ww2 = np.ones(len(m2)) if w2 is None else w2
            meta0 = {"function": "Hist1D.__add__/__sub__", "m1": m1.tolist(), "w1": ww1.tolist(), "m2": m2.tolist(), "w2": ww2.tolist(), "kw": kw}
            for sign, nm in ((True, "add"), (False, "sub")):
                hs = (h1 + h2) if sign else (h1 - h2)
                cs, es, fs = comp(hs)
                if np.any(np.isnan(np.array(hs.error, dtype=float))):
                    ctx.fail("tie:Hist1D.__%s__" % nm, "ha%s%d" % (nm, g), "error is nan", inp=meta0, site="Hist1D.__add__", fingerprint="Hist1D.__add__", failing_input=dict(meta0, error=[str(v) for v in hs.error]))
                    continue
                ctx.count("hist_%s:one_sided_empty=%s" % (nm, any(a_ != b_ for a_, b_ in zip(f1, f2))))
                atol2 = Fraction(1, 10 ** 11) * frac(float(np.sum(ww1 * ww1) + np.sum(ww2 * ww2)) + 1)
                qc.append(("ha%s%d" % (nm, g), "hist_add_case_ok %s %s %s %s %s %s %s %s %s %s 0 %s = true" % (
                    qlist(c1), qlist(e1), blist(f1), qlist(c2), qlist(e2), blist(f2), "true" if sign else "false", qlist(cs), qlist(es), blist(fs), Qq(atol2)), VM,
                    dict(meta0, site="Hist1D.__add__", what="h1 %s h2: counts, squared errors in quadrature (an empty bin adds nothing), empty only where both are" % ("+" if sign else "-"),
                         count=cs.tolist(), error=[str(v) for v in hs.error])))
                # the property itself: the same as histogramming the merged sample (second sample with weights -w for __sub__)
                hm = Hist1D.histogram(np.concatenate([m1, m2]), weights=np.concatenate([ww1, ww2 if sign else -ww2]), **kw)
                cm, em, fm = comp(hm)
                ctx.evaluations += 1
                if fm != fs or not np.allclose(cm, cs, rtol=0, atol=1e-12) or not np.allclose(em, es, rtol=1e-12, atol=1e-12):
                    sw2 = float(np.sum(ww1 * ww1) + np.sum(ww2 * ww2))
                    ctx.fail("hist_algebra", "hm%s%d" % (nm, g), "h1 %s h2 differs from the histogram of the merged sample (sum of squared weights %r, sum of finite error^2 %r)" % ("+" if sign else "-", sw2, float(np.sum(es * es))),
                             inp=meta0, site="Hist1D.__add__", fingerprint="empty-bin-inf",
                             failing_input=dict(meta0, call="Hist1D.histogram(m1, weights=w1, **kw) %s Hist1D.histogram(m2, weights=w2, **kw)  vs  histogram of the merged sample" % ("+" if sign else "-"),
                                                error_of_sum=[str(v) for v in hs.error], error_of_merged=[str(v) for v in hm.error], sum_w2=sw2))
            # ---- scale_to
            wa = np.array([rnd.randrange(1, 33) / 8.0 for _ in range(len(m1))]); wa0 = wa.copy()
            wb = np.array([rnd.randrange(1, 33) / 8.0 for _ in range(len(m2))]); wb0 = wb.copy()
            ha = WeightedData(m1, weights=wa, **kw); hb = WeightedData(m2, weights=wb, **kw)
            cnt0, err0 = np.array(ha.count, dtype=float).copy(), np.array(ha.error, dtype=float).copy()
            sc = float(ha.scale_to(hb))
            cc = np.array([1.0, 2.0, 3.0]); ee = np.array([1.0, 1.5, 2.0]); cc0, ee0 = cc.copy(), ee.copy()
            ed = np.array([0.0, 1.0, 2.0, 3.0])
            sc2 = float(Hist1D(ed, cc, ee).scale_to(Hist1D(ed, 2 * cc0, ee0)))
        ctx.evaluations += 1
        ctx.count("hist_scale_to")
        meta1 = {"function": "WeightedData.scale_to / Hist1D.scale_to", "m": m1.tolist(), "weights": wa0.tolist(), "other_m": m2.tolist(), "other_weights": wb0.tolist(), "kw": kw}
        exp_sc = float(np.sum(wb0)) / float(np.sum(wa0))
        if not (np.array_equal(wa, wa0) and np.array_equal(wb, wb0) and np.array_equal(cc, cc0) and np.array_equal(ee, ee0)):
            ctx.fail("hist_algebra", "hz%d_alias" % g, "scale_to wrote into the caller's arrays: sum of the caller's weights %r -> %r, Hist1D count array %s -> %s" % (float(wa0.sum()), float(wa.sum()), cc0.tolist(), cc.tolist()),
                     inp=meta1, site="Hist1D.scale_to", fingerprint="in-place",
                     failing_input=dict(meta1, call="h = WeightedData(m, weights=w, **kw); h.scale_to(WeightedData(other_m, weights=other_weights, **kw)); w unchanged?",
                                        weights_after=wa.tolist(), hist1d_count_before=cc0.tolist(), hist1d_count_after=cc.tolist()))
        if not (abs(sc - exp_sc) <= 1e-12 * exp_sc and abs(sc2 - 2.0) < 1e-12 and np.allclose(ha.count, cnt0 * sc, rtol=1e-13, atol=0) and np.allclose(ha.error, err0 * sc, rtol=1e-13, atol=0)
                and np.allclose(ha.weights, wa0 * sc, rtol=1e-13, atol=0) and abs(float(np.sum(ha.count)) - float(np.sum(wb0))) <= 1e-11 * float(np.sum(wb0))):
            ctx.fail("hist_algebra", "hz%d_scale" % g, "scale_to: factor %r (expected %r) or scaled arrays wrong" % (sc, exp_sc), inp=meta1, site="Hist1D.scale_to", fingerprint="scale",
                     failing_input=dict(meta1, call="WeightedData.scale_to", factor=sc, expected_factor=exp_sc, count=np.array(ha.count).tolist()))
        ctx.distinct.add(("hista", g))
    return qc


# ----------------------------------------------------------------------------- applications.gen_data
def gen_data_cases(ctx, rnd, orders, n_mc=600, n_data=60):
    """file based toy generation: the amplitude must be evaluated on the very momenta (particle by particle, in the order
    `particles` of the file) that are returned"""
    import os, tempfile
    import tensorflow as tf
    from tf_pwa.applications import gen_data
    cfg = toy_config("BWR", mass=0.5, width=0.08)
    amp = cfg.get_amplitude()
    outs = {str(p_): p_ for p_ in amp.decay_group.outs}
    with contextlib.redirect_stdout(io.StringIO()):
        pp = cfg.generate_phsp_p(n_mc)
    pp = {str(k): np.array(v, dtype=float) for k, v in pp.items()}
    for t, order in enumerate(orders):
        ctx.count("gen_data:order=%s" % "".join(order))
        ctx.evaluations += 1
        rows = np.stack([pp[nm] for nm in order], axis=1).reshape(-1, 4)
        seen = {}

        class Spy:
            decay_group = amp.decay_group

            def __call__(self, data):
                seen["data"] = data
                return amp(data)
        d = tempfile.mkdtemp(prefix="c20_gen_data_")
        mcfile = os.path.join(d, "phsp.dat")
        np.savetxt(mcfile, rows)
        try:
            tf.random.set_seed(ctx.seed * 101 + t)
            with contextlib.redirect_stdout(io.StringIO()):
                toy = gen_data(Spy(), Ndata=n_data, mcfile=mcfile, particles=[outs[nm] for nm in order])
        finally:
            os.remove(mcfile); os.rmdir(d)
        file_p = {nm: pp[nm] for nm in order}   # np.savetxt writes %.18e: exact round trip
        meta = {"function": "applications.gen_data", "particles": list(order), "Ndata": n_data, "mc_events": n_mc}
        used = seen.get("data")
        bad = None
        for nm in order:
            got = np.array(used["particle"][outs[nm]]["p"], dtype=float)
            if got.shape != file_p[nm].shape or not np.allclose(got, file_p[nm], rtol=1e-12, atol=1e-12):
                bad = nm
                break
        if bad is not None:
            k = int(np.argmax(np.abs(np.array(used["particle"][outs[bad]]["p"], dtype=float) - file_p[bad]).sum(axis=1)))
            ctx.fail("toy_density", "gd%d_order" % t, "gen_data(particles=%s) evaluates the amplitude with the momentum of another particle in the place of %s" % (list(order), bad),
                     inp=meta, site="applications.gen_data", fingerprint="particles-order",
                     failing_input=dict(meta, call="gen_data(amp, Ndata, mcfile, particles=order): momentum of particle %s in the data handed to amp(.) vs in the file" % bad, event=k,
                                        p_used=np.array(used["particle"][outs[bad]]["p"], dtype=float)[k].tolist(), p_in_file=file_p[bad][k].tolist()))
        # returned toy: exactly Ndata events, each one an event of the file (particle by particle)
        ok = True
        for nm in order:
            got = np.array(toy["particle"][outs[nm]]["p"], dtype=float)
            keys = set(tuple(r) for r in file_p[nm].round(9).tolist())
            if got.shape != (n_data, 4) or any(tuple(r) not in keys for r in got.round(9).tolist()):
                ok = False
        if not ok:
            ctx.fail("toy_count", "gd%d_ret" % t, "gen_data does not return Ndata events of the file", inp=meta, site="applications.gen_data", fingerprint="returned-events", failing_input=meta)
        ctx.distinct.add(("gen_data", t))


# ----------------------------------------------------------------------------- acceptance-rejection: the density
SITE_F3 = "multi_sampling"
FP_F3 = "bound-from-accepted-batch"


def density_cases(ctx, quick):
    """the sample follows the density (z-test of the mean at two-sided false alarm 1e-9 = 6.1 sigma) for density 2x on [0,1].
    Regular stream: a valid bound is supplied (max_weight >= sup of the weights: exact acceptance-rejection, C20_valid_bound_kept),
    or max_weight=None with a first batch of >= 1000 candidates of a density whose top 1% has probability >= 0.0199 (the chance that no
    candidate comes within 1% of the supremum is < 1e-8.7 per run... the 1.01 margin then makes the batch bound a valid one).
    Excluded by this rule (open finding F3): max_weight=None where the first batch may finish the request without a candidate
    near the supremum (tiny N, narrow spikes): one fixed reproducer below."""
    import tensorflow as tf
    import tf_pwa.generator.generator as G

    def phsp(n):
        return {"x": tf.random.uniform((n,), dtype=tf.float64)}

    def amp(d):
        return d["x"]

    def run(N, reps, **kw):
        xs = []
        for _ in range(reps):
            d, _st = G.multi_sampling(phsp, amp, N, display=False, **kw)
            x = np.array(d["x"])
            if x.shape[0] != N:
                return None, x.shape[0]
            xs.append(x)
        xs = np.concatenate(xs)
        return xs, (float(xs.mean()) - 2.0 / 3.0) / math.sqrt(1.0 / 18.0 / len(xs))
    plan = [("given", 3000, 2, {"max_weight": tf.constant(1.0, dtype=tf.float64)}), ("given", 1, 600, {"max_weight": tf.constant(1.25, dtype=tf.float64)}),
            ("none", 3000, 2, {})]
    if not quick:
        plan += [("given", 7, 3000, {"max_weight": tf.constant(1.0, dtype=tf.float64)}), ("none", 20000, 3, {})]
    for t, (mode, N, reps, kw) in enumerate(plan):
        tf.random.set_seed(ctx.seed * 7919 + t)
        xs, z = run(N, reps, **kw)
        ctx.evaluations += 1
        ctx.count("density:%s:N=%d" % (mode, N))
        meta = {"function": "multi_sampling", "density": "w(x) = x on uniform x in [0,1]", "N": N, "repetitions": reps, "max_weight": mode, "tf_seed": ctx.seed * 7919 + t}
        if xs is None:
            ctx.fail("toy_count", "dn%d" % t, "returned %d events" % z, inp=meta, site="multi_sampling", fingerprint="count", failing_input=meta)
        elif abs(z) > 6.1:
            ctx.fail("toy_density", "dn%d" % t, "mean of the sample %.5f, model 0.66667: %.1f sigma" % (float(xs.mean()), z), inp=meta, site="multi_sampling", fingerprint="density",
                     failing_input=dict(meta, call="multi_sampling(phsp, amp, N, max_weight=...): mean of x", sample_mean=float(xs.mean()), expected_mean=2.0 / 3.0, sigmas=z))
        ctx.distinct.add(("density", t))
    # ---- the excluded shape, fixed reproducer (open finding): N = 1, max_weight = None
    tf.random.set_seed(20200301)
    xs, z = run(1, 1500)
    ctx.evaluations += 1
    ctx.count("density:none:N=1 (known finding probe)")
    if xs is not None and abs(z) > 6.1:
        meta = {"function": "multi_sampling", "density": "w(x) = x on uniform x in [0,1]", "N": 1, "repetitions": 1500, "max_weight": None, "tf_seed": 20200301}
        ctx.fail("toy_density", "dnF3", "max_weight=None, N=1: every candidate is accepted with probability 1/1.01 whatever its weight; mean of 1500 one-event toys %.4f, model 0.6667 (%.1f sigma)" % (float(xs.mean()), z),
                 inp=meta, site=SITE_F3, fingerprint=FP_F3,
                 failing_input=dict(meta, call="multi_sampling(phsp, amp, 1, display=False) x 1500: mean of x", sample_mean=float(xs.mean()), expected_mean=2.0 / 3.0, sigmas=z))


# ----------------------------------------------------------------------------- multi_sampling
def _leaf_rows(data):
    """per-event identity: bytes of the rows of every array leaf of the data structure"""
    from tf_pwa.data import flatten_dict_data
    if isinstance(data, dict):
        fl = flatten_dict_data(data)
        leaves = [np.array(fl[k]) for k in sorted(fl.keys(), key=str)]
    else:
        leaves = [np.array(data)]
    leaves = [a.reshape(a.shape[0], -1) for a in leaves if a.ndim >= 1 and a.dtype.kind == "f"]
    n = leaves[0].shape[0]
    leaves = [a for a in leaves if a.shape[0] == n]
    return [b"".join(a[i].tobytes() for a in leaves) for i in range(n)]


def traced_multi_sampling(real_ms, phsp, amp, N, **kw):
    """run the code's multi_sampling with the proposal stream, the weights and every uniform
    number it draws recorded (RNG = oracle)"""
    import tensorflow as tf
    rec = {"N": int(N), "max_N": int(kw.get("max_N", 200000)), "force": bool(kw.get("force", True)),
           "M0": None if kw.get("max_weight") is None else float(kw.get("max_weight")), "batches": []}
    depth = [0]
    real_uniform = tf.random.uniform

    def phsp2(n):
        depth[0] += 1
        try:
            d = phsp(n)
        finally:
            depth[0] -= 1
        rec["batches"].append({"n": int(n), "rows": _leaf_rows(d), "thin": None})
        return d

    def amp2(d):
        depth[0] += 1
        try:
            w = amp(d)
        finally:
            depth[0] -= 1
        rec["batches"][-1]["w"] = np.array(w, dtype=float)
        return w

    def uni(shape, *a, **k):
        r = real_uniform(shape, *a, **k)
        if depth[0] == 0 and rec["batches"]:
            b = rec["batches"][-1]
            if "u" not in b:
                b["u"] = np.array(r, dtype=float)
            else:
                b["thin"] = np.array(r, dtype=float)
        return r
    tf.random.uniform = uni
    try:
        with contextlib.redirect_stdout(io.StringIO()):
            ret, status = real_ms(phsp2, amp2, N, **kw)
    finally:
        tf.random.uniform = real_uniform
    rec["ret_rows"] = _leaf_rows(ret)
    rec["N_gen"] = int(status[0].N_gen); rec["N_total"] = int(status[0].N_total); rec["final_M"] = float(status[1])
    return ret, status, rec


def ms_stmt(rec):
    """Coq statement: the model run on the recorded oracle streams returns the same events (ids),
    the same final bound and asked for the same batch sizes"""
    ids = {}
    batches = []
    nid = 0
    for b in rec["batches"]:
        evs = []
        for row, w, u in zip(b["rows"], b["w"], b["u"]):
            ids[row] = nid
            evs.append("(%d%%nat,%s,%s)" % (nid, Qq(w), Qq(u)))
            nid += 1
        batches.append("Build_batch nat [%s] %s" % (";".join(evs), qlist(b["thin"]) if b["thin"] is not None else "[]"))
    out = [ids.get(r, 10 ** 9) for r in rec["ret_rows"]]
    m0 = "None" if rec["M0"] is None else "(Some %s)" % Qq(rec["M0"])
    return "ms_case_ok %d%%nat (%d)%%Z %s %s [%s] %s %s [%s]%%Z = true" % (
        rec["N"], rec["max_N"], m0, "true" if rec["force"] else "false", ";".join(batches), nlist(out), Qq(rec["final_M"]),
        ";".join("(%d)" % b["n"] for b in rec["batches"]))


def ms_meta(rec, site, extra=None):
    d = {"function": site, "N": rec["N"], "max_N": rec["max_N"], "force": rec["force"], "max_weight_in": rec["M0"],
         "batch_sizes": [b["n"] for b in rec["batches"]], "thinned_at": [i for i, b in enumerate(rec["batches"]) if b["thin"] is not None],
         "returned": len(rec["ret_rows"]), "N_gen": rec["N_gen"], "N_total": rec["N_total"], "final_max_weight": rec["final_M"], "site": site}
    d.update(extra or {})
    return d


def direct_ms_checks(ctx, rec, cid, site, meta):
    """the property itself on the implementation's run (independent of the Coq model)"""
    ok = True
    n_ret = len(rec["ret_rows"])
    if rec["force"] and n_ret != rec["N"]:
        ctx.fail("toy_count", cid + "_count", "returned %d events, requested %d" % (n_ret, rec["N"]), inp=meta, site=site, fingerprint="count",
                 failing_input=dict(meta, returned=n_ret))
        ok = False
    if not rec["force"] and n_ret < rec["N"]:
        ctx.fail("toy_count", cid + "_count", "returned %d < requested %d events" % (n_ret, rec["N"]), inp=meta, site=site, fingerprint="count", failing_input=dict(meta, returned=n_ret))
        ok = False
    # no accepted event has a weight above the bound M_b of its batch: an accepted event has u*M_b < w,
    # so for the returned events of one batch  max w <= M_b < min w/u  must hold
    ret = set(rec["ret_rows"])
    for i, b in enumerate(rec["batches"]):
        sel = [j for j, r in enumerate(b["rows"]) if r in ret]
        if len(sel) < 2:
            continue
        wmax = max(float(b["w"][j]) for j in sel)
        lim = min(float(b["w"][j]) / float(b["u"][j]) if b["u"][j] > 0 else float("inf") for j in sel)
        if not wmax < lim * (1 + 1e-12):
            ctx.fail("toy_bound", cid + "_bound", "batch %d: an accepted event has weight %r but the bound was below %r" % (i, wmax, lim), inp=meta, site=site, fingerprint="bound",
                     failing_input=dict(meta, batch=i, max_accepted_weight=wmax, bound_upper_limit=lim))
            ok = False
            break
    if len(set(rec["ret_rows"])) != n_ret:
        ctx.fail("toy_count", cid + "_dup", "an event is returned twice", inp=meta, site=site, fingerprint="duplicate", failing_input=meta)
        ok = False
    return ok


def synthetic_ms(ctx, rnd, n_runs):
    """multi_sampling driven by a scripted proposal: ids as data, weights with spikes that make the
    bound grow (thinning), given / absent initial bound, force on and off"""
    import tensorflow as tf
    import tf_pwa.generator.generator as G
    qc = []
    for r in range(n_runs):
        N = rnd.choice([9, 20, 45, 60])
        max_N = rnd.choice([7, 15, 40, 200000])
        force = (r % 4 != 3)
        mode = ["none", "small", "large", "none"][r % 4]
        M0 = None if mode == "none" else (0.3 if mode == "small" else 4.0)
        counter = [0]
        spike_at = rnd.randrange(1, 4)
        calls = [0]
        seedr = rnd.randrange(10 ** 9)

        def phsp(n):
            a = np.arange(counter[0], counter[0] + n, dtype=np.float64)
            counter[0] += n
            return tf.constant(a)

        def amp(d):
            rr = random.Random(seedr + calls[0])
            n = int(d.shape[0])
            w = np.array([rr.uniform(0.05, 1.0) for _ in range(n)])
            if calls[0] in (spike_at, spike_at + 2) and n > 0:
                w[rr.randrange(n)] = rr.uniform(1.5, 3.0) + 0.5 * calls[0]
            calls[0] += 1
            return tf.constant(w)
        kw = dict(max_N=max_N, force=force, display=False)
        if M0 is not None:
            kw["max_weight"] = tf.constant(M0, dtype=tf.float64)
        ret, status, rec = traced_multi_sampling(G.multi_sampling, phsp, amp, N, **kw)
        meta = ms_meta(rec, "multi_sampling", {"scenario": "synthetic weights, initial bound %s" % mode})
        ctx.count("multi_sampling:%s:force=%s:thinned=%s" % (mode, force, bool(meta["thinned_at"])))
        direct_ms_checks(ctx, rec, "msS%d" % r, "multi_sampling", meta)
        qc.append(("msS%d" % r, ms_stmt(rec), VM, meta))
        ctx.distinct.add(("ms", r))
    return qc


_CFG = {}


def toy_config(model="BWR", **params):
    from tf_pwa.utils import create_test_config
    key = (model, tuple(sorted(params.items())))
    if key not in _CFG:
        _CFG[key] = create_test_config(model, dict(params), {})
    return _CFG[key]


def toy_cases(ctx, rnd, plan):
    """ConfigLoader.generate_toy / generate_toy_p on a small A -> R_BC D model; multi_sampling is wrapped
    from the harness so that the run is compared event by event with the model"""
    import tf_pwa.config_loader.sample as S
    import tf_pwa.generator.generator as G
    from tf_pwa.data import data_shape
    qc = []
    real_ms = G.multi_sampling
    for t, (fn, N, max_N, width) in enumerate(plan):
        cfg = toy_config("BWR", mass=0.5, width=width)
        recs = []

        def wrapped(phsp, amp, N_, **kw):
            ret, status, rec = traced_multi_sampling(real_ms, phsp, amp, N_, **kw)
            recs.append(rec)
            return ret, status
        S.multi_sampling = wrapped
        try:
            with contextlib.redirect_stdout(io.StringIO()):
                data = getattr(cfg, fn)(N, max_N=max_N)
        finally:
            S.multi_sampling = real_ms
        n_out = int(data_shape(data))
        ctx.count("%s:N=%d" % (fn, N))
        meta = {"function": "ConfigLoader.%s" % fn, "N": N, "max_N": max_N, "resonance_width": width, "returned": n_out}
        if n_out != N:
            ctx.fail("toy_count", "toy%d_count" % t, "%s(N=%d) returned %d events" % (fn, N, n_out), inp=meta, site="ConfigLoader.%s" % fn, fingerprint="count", failing_input=meta)
        if len(recs) != 1:
            ctx.fail("toy_count", "toy%d_trace" % t, "%s did not go through multi_sampling exactly once (%d)" % (fn, len(recs)), inp=meta, site="ConfigLoader.%s" % fn, fingerprint="trace", failing_input=meta)
            continue
        rec = recs[0]
        meta = ms_meta(rec, "ConfigLoader.%s" % fn, meta)
        if _leaf_rows(data) != rec["ret_rows"]:
            ctx.fail("toy_count", "toy%d_ret" % t, "%s returns something else than multi_sampling's sample" % fn, inp=meta, site="ConfigLoader.%s" % fn, fingerprint="passthrough", failing_input=meta)
        direct_ms_checks(ctx, rec, "toy%d" % t, "ConfigLoader.%s" % fn, meta)
        # physical events: weights finite and non-negative (the bound logic relies on it)
        allw = np.concatenate([b["w"] for b in rec["batches"]])
        if not (np.all(np.isfinite(allw)) and np.all(allw >= 0)):
            ctx.fail("toy_count", "toy%d_w" % t, "non-finite or negative weight", inp=meta, site="ConfigLoader.%s" % fn, fingerprint="weights", failing_input=meta)
        qc.append(("toy%d" % t, ms_stmt(rec), VM, meta))
        ctx.distinct.add(("toy", t))
    return qc


# ----------------------------------------------------------------------------- statistical support
def chi2_linear(seed, n=200000, nb=40):
    """chi^2 of LinearInterp.generate against its own density in equal-probability bins"""
    from scipy import stats
    from tf_pwa.generator.linear_interpolation import LinearInterp
    rs = random.Random(seed)
    x, y = gen_grid(rs, "positive")
    li = LinearInterp(x, y)
    st = np.random.get_state(); np.random.seed(seed % (2 ** 32))
    s = li.generate(n)
    np.random.set_state(st)
    edges = li.solve(np.linspace(0, 1, nb + 1)); edges[0] = x[0]; edges[-1] = x[-1]
    # expected from the density itself (trapezoid exact for a piecewise-linear function on sub-intervals)
    grid = np.unique(np.concatenate([edges, x]))
    mid = 0.5 * (grid[1:] + grid[:-1])
    cell = li(mid) * (grid[1:] - grid[:-1])
    exp = np.array([cell[(mid > a) & (mid < b)].sum() for a, b in zip(edges[:-1], edges[1:])])
    exp = exp / exp.sum() * n
    obs, _ = np.histogram(s, edges)
    c2 = float(((obs - exp) ** 2 / exp).sum())
    return c2, nb - 1, float(stats.chi2.sf(c2, nb - 1)), {"x": x.tolist(), "y": y.tolist()}


def chi2_interp_nd(seed, n=200000):
    """first moments of InterpND.generate against the moments of the interpolated density, 2-D one cell"""
    from tf_pwa.generator.interp_nd import InterpND
    rs = random.Random(seed)
    z = np.array([[rs.uniform(0, 1), rs.uniform(0, 3)], [rs.uniform(2, 5), rs.uniform(0, 1)]])
    f = InterpND([np.array([0.0, 1.0]), np.array([0.0, 1.0])], z)
    st = np.random.get_state(); np.random.seed(seed % (2 ** 32))
    s = f.generate(n)
    np.random.set_state(st)
    tot = z.sum() / 4
    # E[x0] for the bilinear density: corners with x0 high weigh 2/3, low 1/3
    e0 = ((z[1, 0] + z[1, 1]) * (2 / 3) + (z[0, 0] + z[0, 1]) * (1 / 3)) / 4 / tot
    e1 = ((z[0, 1] + z[1, 1]) * (2 / 3) + (z[0, 0] + z[1, 0]) * (1 / 3)) / 4 / tot
    sd = math.sqrt(1 / 12.0 / n) * 1.2
    zs = [float((s[:, 0].mean() - e0) / sd), float((s[:, 1].mean() - e1) / sd)]
    return zs, {"z": z.tolist(), "expected_means": [float(e0), float(e1)], "sample_means": s.mean(axis=0).tolist()}


def chi2_toy(seed, n=3000):
    """chi^2 of a generated toy's m(BC) spectrum against the model density (weighted phase space) in adaptive bins"""
    from scipy import stats
    from tf_pwa.adaptive_bins import AdaptiveBound
    from tf_pwa.data import data_index
    cfg = toy_config("BWR", mass=0.5, width=0.08)
    with contextlib.redirect_stdout(io.StringIO()):
        toy = cfg.generate_toy(n)
        ph = cfg.generate_phsp(60 * n)
    key = [k for k in toy["particle"].keys() if str(k) == "(B, C)"][0]
    mt = np.array(toy["particle"][key]["m"]); mp = np.array(ph["particle"][key]["m"])
    w = np.array(cfg.get_amplitude()(ph))
    nb = 25
    ab = AdaptiveBound(mt, nb)
    bounds = ab.get_bounds()
    edges = np.array([float(np.atleast_1d(b[0])[0]) for b in bounds] + [float(np.atleast_1d(bounds[-1][1])[0])])
    edges[0] = min(edges[0], mp.min()) - 1e-9; edges[-1] = max(edges[-1], mp.max()) + 1e-9
    obs, _ = np.histogram(mt, edges)
    sw, _ = np.histogram(mp, edges, weights=w); sw2, _ = np.histogram(mp, edges, weights=w * w)
    scale = n / w.sum()
    exp = sw * scale; var = exp + sw2 * scale ** 2
    c2 = float(((obs - exp) ** 2 / var).sum())
    return c2, nb - 1, float(stats.chi2.sf(c2, nb - 1)), {"N": n, "bins": nb}


def statistical_support(ctx, seeds):
    """search support only: recorded in the evidence notes, never decides"""
    out = []
    for s in seeds:
        c2, ndf, p, info = chi2_linear(s)
        out.append({"sampler": "LinearInterp.generate", "chi2": c2, "ndf": ndf, "p": p, "alarm": p < 1e-9, "input": info})
        zs, info = chi2_interp_nd(s)
        # two-sided normal tail 1e-9 ~ 6.1 sigma
        out.append({"sampler": "InterpND.generate", "z_scores": zs, "alarm": max(abs(z) for z in zs) > 6.1, "input": info})
    c2, ndf, p, info = chi2_toy(seeds[0])
    out.append({"sampler": "ConfigLoader.generate_toy", "chi2": c2, "ndf": ndf, "p": p, "alarm": p < 1e-9, "input": info})
    return out


# ----------------------------------------------------------------------------- search on break
def search(ctx, fails):
    """direct tests of the algebraic identities on the implementation, steered by the broken layer"""
    from tf_pwa.generator.linear_interpolation import LinearInterp
    from tf_pwa.generator.breit_wigner import BWGenerator
    from tf_pwa.adaptive_bins import AdaptiveBound
    from tf_pwa.histogram import Hist1D
    sites = " ".join(str(f.get("site")) for f in fails)
    rnd = random.Random(ctx.seed * 1000003 + 2020)
    if "LinearInterp" in sites or not sites.strip():
        for t in range(300):
            kind = LI_KINDS[t % len(LI_KINDS)]
            x, y = gen_grid(rnd, kind)
            li = LinearInterp(x, y)
            u = np.array([rnd.random() for _ in range(20)] + [0.0, 1.0])
            s = li.solve(u); back = li.integral(s)
            bad = np.where((np.abs(back - u * li.int_all) > 1e-8 * abs(li.int_all)) | (s < x[0] - 1e-9) | (s > x[-1] + 1e-9) | ~np.isfinite(s))[0]
            if len(bad):
                i = int(bad[0])
                return {"call": "LinearInterp(x,y): integral(solve(u)) vs u*int_all", "x": x.tolist(), "y": y.tolist(), "u": float(u[i]), "solve": float(s[i]),
                        "integral_of_solve": float(back[i]), "u_times_int_all": float(u[i] * li.int_all), "range": [float(x[0]), float(x[-1])]}
            # the integral must be the integral of __call__ (trapezoid exact on each bin)
            tot = sum(0.5 * (float(li(np.array([x[i]]))[0]) + float(li(np.array([np.nextafter(x[i + 1], x[i])]))[0])) * (x[i + 1] - x[i]) for i in range(len(x) - 1))
            if abs(tot - li.int_all) > 1e-8 * abs(tot):
                return {"call": "LinearInterp(x,y): int_all vs trapezoid sum of __call__", "x": x.tolist(), "y": y.tolist(), "int_all": float(li.int_all), "trapezoid": float(tot)}
    if "BWGenerator" in sites:
        for t in range(300):
            m0 = rnd.uniform(0.3, 3); g0 = rnd.uniform(0.01, 0.6); a = m0 - rnd.uniform(0, 1); b = a + rnd.uniform(0.1, 2)
            bw = BWGenerator(m0, g0, a, b)
            u = np.array([rnd.random() for _ in range(20)])
            s = bw.solve(u); back = bw.integral(s) - bw.integral(a)
            bad = np.where((np.abs(back - u * bw.int_all) > 1e-8 * abs(bw.int_all)) | (s < a - 1e-9) | (s > b + 1e-9))[0]
            if len(bad):
                i = int(bad[0])
                return {"call": "BWGenerator(m0,gamma0,m_min,m_max): integral(solve(u))-integral(m_min) vs u*int_all", "m0": m0, "gamma0": g0, "m_min": a, "m_max": b,
                        "u": float(u[i]), "solve": float(s[i]), "lhs": float(back[i]), "rhs": float(u[i] * bw.int_all)}
            # integral' = __call__ (central difference)
            xm = rnd.uniform(a, b); h = 1e-5
            d = float((bw.integral(xm + h) - bw.integral(xm - h)) / (2 * h))
            if abs(d - float(bw(xm))) > 1e-5 * abs(d):
                return {"call": "BWGenerator: d/dx integral vs __call__", "m0": m0, "gamma0": g0, "x": xm, "derivative": d, "density": float(bw(xm))}
    if "InterpND" in sites:
        for s in range(5):
            zs, info = chi2_interp_nd(ctx.seed * 17 + s, n=100000)
            if max(abs(z) for z in zs) > 6.1:
                return dict(info, call="InterpND(xs=[[0,1],[0,1]], z).generate(100000).mean(0) vs means of the interpolated density", z_scores=zs)
    if "AdaptiveBound" in sites:
        for t in range(200):
            ndim, bins = LAYOUTS[t % len(LAYOUTS)]
            n = rnd.randrange(10, 60)
            data = np.array([[rnd.uniform(-1, 3) for _ in range(n)] for _ in range(ndim)])
            ab = AdaptiveBound(data[0] if isinstance(bins, int) else data, bins)
            masks = np.array(ab.get_bool_mask(data))
            cnt = masks.sum(axis=0)
            if np.any(cnt != 1):
                i = int(np.where(cnt != 1)[0][0])
                return {"call": "AdaptiveBound(data,bins).get_bool_mask(data): number of bins holding event %d" % i, "bins": bins, "data": data.tolist(), "event": data[:, i].tolist(), "n_bins_containing": int(cnt[i])}
            bounds = ab.get_bounds()
            for lb_, rb_ in bounds:      # a point on an upper edge belongs to the neighbour only (half-open)
                for pt in (np.atleast_1d(rb_).astype(float), np.atleast_1d(lb_).astype(float)):
                    c = int(np.array(ab.get_bool_mask(pt.reshape(ndim, 1))).sum())
                    if c > 1:
                        return {"call": "AdaptiveBound(data,bins).get_bool_mask(point on a bin edge): number of bins holding it", "bins": bins, "data": data.tolist(), "point": pt.tolist(), "n_bins_containing": c}
            pops = masks.sum(axis=1)
            if isinstance(bins, int) and pops.max() - pops.min() > 1:
                return {"call": "AdaptiveBound(data,bins): populations", "bins": bins, "data": data.tolist(), "populations": pops.tolist()}
    if "Hist1D" in sites:
        for t in range(300):
            n = rnd.randrange(5, 40)
            m = np.array([rnd.uniform(0, 2) for _ in range(n)]); w = np.array([rnd.randrange(-8, 33) / 8.0 for _ in range(n)])
            nb = rnd.randrange(2, 9)
            h = Hist1D.histogram(m, bins=nb, range=(0.0, 2.0), weights=w)
            e2 = np.where(np.isinf(h.error), 0.0, h.error ** 2)
            if abs(h.count.sum() - w.sum()) > 1e-9 or abs(e2.sum() - (w * w).sum()) > 1e-9:
                return {"call": "Hist1D.histogram(m, bins=%d, range=(0,2), weights=w)" % nb, "m": m.tolist(), "w": w.tolist(), "sum_count": float(h.count.sum()), "sum_w": float(w.sum()),
                        "sum_error2": float(e2.sum()), "sum_w2": float((w * w).sum())}
    if "multi_sampling" in sites or "ConfigLoader" in sites:
        import tensorflow as tf
        import tf_pwa.generator.generator as G
        for t in range(60):
            N = rnd.randrange(5, 120); max_N = rnd.choice([7, 30, 200000])
            seen = []
            cnt = [0]

            def phsp(n):
                a = np.arange(cnt[0], cnt[0] + n, dtype=np.float64)
                cnt[0] += n
                return tf.constant(a)

            def amp(d):
                w = np.random.RandomState(len(seen)).uniform(0.01, 1 + len(seen), size=int(d.shape[0]))
                seen.append(w)
                return tf.constant(w)
            ret, status, rec = traced_multi_sampling(G.multi_sampling, phsp, amp, N, max_N=max_N, display=False)
            if len(rec["ret_rows"]) != N:
                return {"call": "multi_sampling(phsp, amp, N=%d, max_N=%d)" % (N, max_N), "returned": len(rec["ret_rows"]), "requested": N}
            retset = set(rec["ret_rows"])
            for i, b in enumerate(rec["batches"]):
                sel = [j for j, r_ in enumerate(b["rows"]) if r_ in retset]
                if len(sel) >= 2:
                    wmax = max(float(b["w"][j]) for j in sel); lim = min(float(b["w"][j]) / max(float(b["u"][j]), 1e-300) for j in sel)
                    if not wmax < lim * (1 + 1e-12):
                        return {"call": "multi_sampling(phsp, amp, N=%d, max_N=%d): accepted weight above the acceptance bound" % (N, max_N), "batch": i,
                                "max_accepted_weight": wmax, "bound_is_below": lim}
    return None


# ----------------------------------------------------------------------------- driver
def run(ctx):
    rnd = random.Random(ctx.seed * 1000003 + 20)
    bootstrap_quiet()
    ctx.rule = ("seeded random monotone grids with non-negative node values (positive / with zero nodes / exactly flat and sub-epsilon slopes / small integers), "
                "u uniform plus u=0; BW windows around and beside the pole; 1-3 dimensional InterpND grids incl. a one-cell mixed-corner probe, RNG captured; "
                "AdaptiveBound layouts (int, [[n]], nested, 1-3 dims) on uniform / gaussian / distinct dyadic data plus probes on the edges; histograms with dyadic, float, negative, "
                "absent weights, uniform and explicit edges, events on edges and out of range; multi_sampling with scripted weight spikes, given/absent bound, force on/off; "
                "generate_toy / generate_toy_p of an A->R_BC D model with small max_N so that thinning happens.  distinct = distinct (object, input) cases; "
                "non-trivial = every case compares a computed value, none is constant.  Added in the fixer round: LinearInterp slopes just above the clamp (1.5e-10..3e-8); "
                "InterpND / InterpNDHist cell probabilities on non-uniform grids against the integral of the interpolant (model: corner value / 2^n * cell volume); AdaptiveBound direct one-bin-per-event and "
                "near-equal-population checks (model: oracle `up` for the upper edges, instantiated with the code's + 1e-6); Hist1D + and - against the histogram of the merged "
                "sample with one-sided empty bins, scale_to without writing into the caller's arrays; applications.gen_data with non-alphabetical particle orders (amplitude evaluated "
                "on the momenta that are returned); acceptance-rejection density z-test (6.1 sigma) with a valid supplied bound and with max_weight=None on >= 1000 first-batch candidates.  "
                "Excluded from the regular stream by rule: max_weight=None where the first batch can complete the request without a candidate near the supremum (N=1, narrow spikes) - "
                "one fixed reproducer (site multi_sampling, fingerprint bound-from-accepted-batch); AdaptiveBound data outside float64 / size O(1) / gaps > 1e-4 (float32 >= 32, float64 >= 1.7e10, "
                "values closer than 1e-6), where the absolute 1e-6 pad is lost or unbalances the bins - one fixed reproducer (site AdaptiveBound.base_bound, fingerprint absolute-1e-6-pad); sub-epsilon slopes |k| <= 1e-10 of LinearInterp are modelled as the clamp the code applies")
    common.theorem_stage(ctx)
    q = ctx.tier == "quick"
    rcases_, qcases_ = [], []
    rcases_ += li_cases(ctx, rnd, 8 if q else 60, 3 if q else 8)
    ctx.log("LinearInterp cases", len(rcases_))
    rcases_ += bw_cases(ctx, rnd, 4 if q else 40, 3 if q else 6)
    ctx.log("+BWGenerator cases", len(rcases_))
    nq, nr = nd_cases(ctx, rnd, 5 if q else 30, 4 if q else 10)
    qcases_ += nq; rcases_ += nr
    ctx.log("+InterpND cases", len(qcases_), len(rcases_))
    qcases_ += ab_cases(ctx, rnd, 10 if q else 60, 40 if q else 120)
    ab_known_case(ctx)
    ctx.log("+AdaptiveBound cases", len(qcases_))
    qcases_ += hist_cases(ctx, rnd, 12 if q else 120, 40 if q else 150)
    ctx.log("+Hist1D cases", len(qcases_))
    qcases_ += hist_algebra_cases(ctx, rnd, 8 if q else 80, 30 if q else 100)
    ctx.log("+Hist1D algebra cases", len(qcases_))
    gen_data_cases(ctx, rnd, [["D", "B", "C"], ["B", "C", "D"]] if q else [["D", "B", "C"], ["B", "C", "D"], ["C", "D", "B"], ["B", "D", "C"]])
    density_cases(ctx, q)
    ctx.log("gen_data / density checks done")
    qcases_ += synthetic_ms(ctx, rnd, 8 if q else 60)
    ctx.log("+multi_sampling cases", len(qcases_))
    plan = [("generate_toy", 60, 25, 0.05), ("generate_toy_p", 77, 30, 0.05), ("generate_toy", 50, 100000, 0.2)]
    if not q:
        plan += [("generate_toy", 300, 60, 0.3), ("generate_toy_p", 500, 100, 0.3), ("generate_toy_p", 123, 100000, 0.1), ("generate_toy", 200, 40, 0.1)]
    qcases_ += toy_cases(ctx, rnd, plan)
    ctx.log("+toy cases", len(qcases_))
    ctx.evaluations += len(rcases_) + len(qcases_)
    allc = rcases_ + qcases_
    for c in allc[:: max(1, len(allc) // 6)]:
        ctx.sample({"case": c[0], "goal": c[1][:300], "meta": {k: (v if len(str(v)) < 200 else str(v)[:200] + "...") for k, v in c[3].items()}})
    res = common.coq_cases(ctx, "c20r", HEADER_R, [c[:3] for c in rcases_], per_file=12, case_timeout=240)
    ctx.log("real-valued goals done")
    big = [c for c in qcases_ if c[0].startswith(("ms", "toy"))]
    small = [c for c in qcases_ if not c[0].startswith(("ms", "toy"))]
    res.update(common.coq_cases(ctx, "c20q", HEADER_Q, [c[:3] for c in small], per_file=6, case_timeout=300))
    res.update(common.coq_cases(ctx, "c20m", HEADER_Q, [c[:3] for c in big], per_file=1, case_timeout=600))
    ctx.log("exact goals done")
    for cid, stmt, t, meta in allc:
        if res.get(cid) != "OK":
            site = meta.get("site", meta.get("function"))
            fi = None
            if "round trip" in str(meta.get("what", "")) or cid.startswith(("hsC",)):
                fi = dict(meta, coq_result=res.get(cid))   # the goal states the property on the implementation's own values
            ctx.fail("tie:" + str(site), cid, "implementation differs from the model / identity fails (%s): %s" % (res.get(cid), meta.get("what", "")),
                     inp={k: (v if len(str(v)) < 2000 else str(v)[:2000] + "...") for k, v in meta.items()}, site=site, fingerprint=str(site), failing_input=fi)
    if not q:
        try:
            stat = statistical_support(ctx, [ctx.seed * 7 + 1, ctx.seed * 7 + 2, ctx.seed * 7 + 3])
            for s in stat:
                ctx.notes.append("statistical support (does not decide): %s" % ({k: v for k, v in s.items() if k != "input"},))
                ctx.count("stat_alarm" if s["alarm"] else "stat_ok")
        except Exception as e:  # support only
            ctx.notes.append("statistical support raised %r" % (e,))
    return common.finish(ctx, search=search, technique=TECHNIQUE, extra_assumptions=[
        "RNG (tf.random.uniform, np.random.random) is an oracle: its numbers are captured and fed to the model; uniformity/independence is not proved "
        "(acceptance region theorem + thorough-tier chi^2 at false alarm 1e-9 as support only)",
        "np.percentile is an oracle in the partition theorem (hypothesis: cut values in order between the bounds of the split box); the tie uses numpy's linear-interpolation percentile on exact rationals",
        "real-number / exact-rational model; float rounding absorbed by rtol 1e-11 (solve: 1e-9 of the grid range; accept decisions u*M < w are compared exactly: a flip needs |u*M-w| < 1 ulp)",
        "AdaptiveBound: the upper-edge offset is an oracle `up` in the theorems (x < up x, monotone); the tie instantiates it with the code's up_old x = x + 1e-6 on exact rationals, "
        "valid while fl(x + 1e-6) > x (float64 data below 1.7e10)",
        "applications.gen_data: only the pairing amplitude-input = returned momenta and the count are checked (exact array comparison), its accept-reject loop is not modelled; "
        "acceptance-rejection density: z-test at 6.1 sigma (false alarm 1e-9 per test), RNG seeded per case",
        "not modelled: LinearInterpImportance/interp_sample (rejection on top of LinearInterp), importance_f branch of multi_sampling, binning_shape_function/adaptive_shape"])


def bootstrap_quiet():
    try:
        import bootstrap
        bootstrap.tf_quiet()
    except Exception:
        pass


def replay(rep):
    import json
    print(json.dumps(rep, indent=1, default=str)[:6000])
    fi = rep.get("failing_input") or {}
    call = str(fi.get("call", ""))
    if call.startswith("LinearInterp") and "u" in fi:
        from tf_pwa.generator.linear_interpolation import LinearInterp
        li = LinearInterp(np.array(fi["x"]), np.array(fi["y"]))
        s = li.solve(np.array([fi["u"]]))
        print("impl now: solve(u) =", float(s[0]), " integral(solve(u)) =", float(li.integral(s)[0]), " u*int_all =", fi["u"] * float(li.int_all))
    return 0
