"""C05 - every evaluation strategy returns the same density and likelihood.

Model: coq/Amp/Einsum.v (reference semantics of an index expression, contraction path), evaluated
EXACTLY over complex rationals inside Coq.
Tie:
 (E) tf_pwa.einsum.einsum on generated expressions (2-5 operands, rank<=4, sizes 1..3, ellipsis batch, size-1 axes)
     = einsum_spec; a raise is a decline (accepted), a different value is not; tie-prone expressions (the same index
     set permuted over the operands) are a fixed share of the stream;
 (R) tf_pwa.einsum.tensor_einsum_reduce_sum with an explicit order table (ties included) = the model of that step
     (Amp/Einsum_order.v: transposition by the key (order, name), reshape, broadcast product, reduce_sum), which
     C05_reduce_sum_step_correct proves equal to the reference contraction;
 (B) every contraction the amplitude builder emits (captured by wrapping tf_pwa.amp.core.einsum) = einsum_spec, and
     the density rebuilt inside Coq from these chain tensors = the default eager density;
 (S) each selectable strategy (amp_model/preprocessor pairs, use_tf_function, jit_compile, no_id_cached, lazy_call, second
     call through the id cache) reports that same Coq-rebuilt density;
 (L) cached_int / cached_amp likelihood models give the default NLL and gradient (line-shape parameters fixed).
Fixed rows of the second hunt round (pinned_strategy_configs / pinned_likelihood_configs): a moving parent with restricted
helicities (random_z default of p4_directly), a gls-cpv decay (couplings applied once by cached_shape), a Flatte line shape
with floating couplings evaluated after the trainable parameters moved since preprocessing (cached_shape must not freeze it),
cp_particles (OPEN), force_min_l decays under cached_int, the cached integral built as the first evaluation of a fresh
amplitude (bw_l), a polarised parent under the cached likelihood models (OPEN)."""
import itertools
import math
import random
import string

import numpy as np

import ampkit
import common
from qfmt import Qq, frac

TECHNIQUE = "Coq model of einsum semantics evaluated exactly (vm_compute over complex rationals) + theorems on path contraction; strategies tied to the same Coq-rebuilt density"

HEADER = ("From Coq Require Import List ZArith QArith Qabs.\nFrom TFV Require Import Amp.Einsum Amp.Einsum_order.\nImport ListNotations.\nOpen Scope Q_scope.\n")


def qc(z):
    z = complex(z)
    return "(%s, %s)" % (Qq(z.real), Qq(z.imag))


def canon(expr, arrays):
    """expression + numpy operands -> (sizes, [(idx list, flat data)], out idx list) with index letters mapped
    to naturals, the ellipsis expanded to batch indices, and broadcast (size-1 against size-n) axes dropped."""
    lhs, out = expr.split("->")
    subs = lhs.split(",")
    letters = {}

    def name(ch):
        if ch not in letters:
            letters[ch] = len(letters)
        return letters[ch]
    # expand ellipsis: number of batch axes of an operand = ndim - explicit letters
    ops = []
    nb_max = 0
    for s, a in zip(subs, arrays):
        a = np.asarray(a)
        ex = s.replace("...", "")
        nb = a.ndim - len(ex) if "..." in s else 0
        nb_max = max(nb_max, nb)
        ops.append((s, a, nb))
    batch_names = ["#%d" % i for i in range(nb_max)]
    sizes = {}
    cops = []
    for s, a, nb in ops:
        ex = s.replace("...", "")
        idx = batch_names[nb_max - nb:] + list(ex) if "..." in s else list(ex)
        for ch, n in zip(idx, a.shape):
            sizes[ch] = max(sizes.get(ch, 1), n)
        cops.append((idx, a))
    outl = (batch_names + list(out.replace("...", ""))) if "..." in out else list(out)
    res = []
    for idx, a in cops:
        keep = [k for k, (ch, n) in enumerate(zip(idx, a.shape)) if not (n == 1 and sizes[ch] > 1)]
        a2 = a.reshape([a.shape[k] for k in keep]) if keep else a.reshape(())
        res.append(([name(idx[k]) for k in keep], np.asarray(a2).reshape(-1)))
    outn = [name(ch) for ch in outl]
    sz = {name(ch): n for ch, n in sizes.items()}
    return sz, res, outn


def coq_einsum_case(expr, arrays, result, tol):
    sz, ops, outn = canon(expr, arrays)
    szs = "[" + "; ".join("(%d, %d)" % (k, v) for k, v in sorted(sz.items())) + "]%nat"
    opss = "[" + "; ".join("{| t_idx := [%s]%%nat; t_data := [%s] |}" % ("; ".join(map(str, idx)), "; ".join(qc(z) for z in data)) for idx, data in ops) + "]"
    outs = "[%s]%%nat" % "; ".join(map(str, outn))
    resl = "[" + "; ".join(qc(z) for z in np.asarray(result).reshape(-1)) + "]"
    return "qcs_close %s (t_data _ (einsum_q %s %s %s)) %s = true" % (Qq(tol), szs, opss, outs, resl)


def gen_expr(rnd):
    nletters = rnd.randrange(2, 6)
    letters = string.ascii_lowercase[:nletters]
    sizes = {ch: rnd.choice([1, 2, 2, 3]) for ch in letters}
    nops = rnd.randrange(2, 5)
    batch = rnd.choice([0, 1, 1])
    bsize = rnd.choice([1, 2])
    subs = []
    for _ in range(nops):
        k = rnd.randrange(0, min(4, nletters) + 1)
        subs.append("".join(rnd.sample(letters, k)))
    used = sorted(set("".join(subs)))
    nout = rnd.randrange(0, len(used) + 1) if used else 0
    out = "".join(rnd.sample(used, nout)) if used else ""
    arrays = []
    for s in subs:
        shape = ([bsize] if batch else []) + [sizes[ch] for ch in s]
        a = np.array([complex(rnd.uniform(-1, 1), rnd.uniform(-1, 1)) for _ in range(int(np.prod(shape)) if shape else 1)]).reshape(shape)
        arrays.append(a)
    pre = "..." if batch else ""
    expr = ",".join(pre + s for s in subs) + "->" + pre + out
    return expr, arrays


def gen_tie_expr(rnd, pinned=False):
    """the same index set in a different order in every operand, with size-1 axes and a one-letter output:
    the contracted indices then get equal places in tf_pwa.einsum.ordered_indices (regression of the
    transposition inconsistency repaired in /repo 64ae4f6)"""
    if pinned:
        subs, out, sizes, batch, bsize = ["cbda", "bc", "cad", "dbac"], "b", {"a": 1, "b": 2, "c": 2, "d": 2}, 1, 1
    else:
        letters = "abcd"[: rnd.choice([3, 4])]
        sizes = {ch: rnd.choice([2, 2, 3]) for ch in letters}
        sizes[rnd.choice(letters)] = rnd.choice([1, 2])
        nops = rnd.randrange(2, 5)
        subs = []
        for _ in range(nops):
            k = rnd.randrange(2, len(letters) + 1)
            subs.append("".join(rnd.sample(letters, k)))
        used = sorted(set("".join(subs)))
        out = rnd.choice(used)
        batch, bsize = rnd.choice([0, 1]), rnd.choice([1, 2])
    arrays = []
    for s in subs:
        shape = ([bsize] if batch else []) + [sizes[ch] for ch in s]
        arrays.append(np.array([complex(rnd.uniform(-1, 1), rnd.uniform(-1, 1)) for _ in range(int(np.prod(shape)))]).reshape(shape))
    pre = "..." if batch else ""
    return ",".join(pre + s for s in subs) + "->" + pre + out, arrays


def reduce_sum_step_cases(ctx, rnd, n):
    """(S) one call of tf_pwa.einsum.tensor_einsum_reduce_sum with an explicit order table (ties included) against the
    model of that step, Amp/Einsum_order.v reduce_sum_step_q_new (transposition by the sort key (order, name), reshape
    into the common order, broadcast product, reduce_sum); theorem C05_reduce_sum_step_correct says the model step is
    the reference contraction."""
    import tensorflow as tf
    from tf_pwa.einsum import tensor_einsum_reduce_sum
    cases = []
    for k in range(n):
        letters = "abcd"[: rnd.choice([2, 3, 4])]
        sizes = {ch: rnd.choice([1, 2, 2, 3]) for ch in letters}
        order = {ch: rnd.choice([0, 1, 1, 2, 2.5]) for ch in letters}  # ties are the point
        nops = rnd.randrange(2, 4)
        subs = ["".join(rnd.sample(letters, rnd.randrange(1, len(letters) + 1))) for _ in range(nops)]
        used = sorted(set("".join(subs)))
        out = sorted(rnd.sample(used, rnd.randrange(0, len(used) + 1)), key=lambda x: (order[x], x))
        arrays = [np.array([complex(rnd.uniform(-1, 1), rnd.uniform(-1, 1)) for _ in range(int(np.prod([sizes[ch] for ch in s_])))]).reshape([sizes[ch] for ch in s_]) for s_ in subs]
        expr = ",".join(subs) + "->" + "".join(out)
        ref = np.einsum(expr, *arrays)
        try:
            got = np.array(tensor_einsum_reduce_sum(expr, *[tf.constant(a) for a in arrays], order=order))
        except Exception:
            ctx.count("reduce_sum_step_declined")
            continue
        ctx.evaluations += 1
        ctx.count("reduce_sum_step_ties=%d" % int(len(set(order[ch] for ch in used)) < len(used)))
        ctx.distinct.add(("S", expr, tuple(sorted(order.items())), tuple(a.shape for a in arrays)))
        nm = lambda ch: ord(ch) - ord("a")
        szs = "[" + "; ".join("(%d, %d)" % (nm(ch), sizes[ch]) for ch in letters) + "]%nat"
        ords = "(fun i => match i with " + " | ".join("%d => %d" % (nm(ch), int(order[ch] * 100)) for ch in letters) + " | _ => 0 end)%nat"
        opss = "[" + "; ".join("{| t_idx := [%s]%%nat; t_data := [%s] |}" % ("; ".join(str(nm(ch)) for ch in s_), "; ".join(qc(z) for z in a.reshape(-1))) for s_, a in zip(subs, arrays)) + "]"
        outs = "[%s]%%nat" % "; ".join(str(nm(ch)) for ch in out)
        tol = 1e-12 * max(1.0, float(np.abs(ref).max()) if ref.size else 1.0)
        meta = {"layer": "reduce_sum_step", "expr": expr, "order": {c_: order[c_] for c_ in letters}, "shapes": [list(a.shape) for a in arrays],
                "operands": [[str(z) for z in a.reshape(-1)] for a in arrays], "impl": [str(z) for z in got.reshape(-1)], "numpy": [str(z) for z in ref.reshape(-1)]}
        if got.size != ref.size:
            cases.append(("S%d" % k, "false = true", "reflexivity", meta))
            continue
        resl = "[" + "; ".join(qc(z) for z in got.reshape(-1)) + "]"
        cases.append(("S%d" % k, "qcs_close %s (t_data _ (reduce_sum_step_q_new %s %s %s %s)) %s = true" % (Qq(tol), ords, szs, opss, outs, resl), "vm_compute; reflexivity", meta))
    return cases


def einsum_function_cases(ctx, rnd, n):
    import tensorflow as tf
    from tf_pwa.einsum import einsum
    cases = []
    ntie = max(12, n // 4)
    for k in range(n + ntie):
        if k < n:
            expr, arrays = gen_expr(rnd)
        else:
            expr, arrays = gen_tie_expr(rnd, pinned=(k == n))
            ctx.count("einsum_tie_prone")
        ref = np.einsum(expr, *arrays)
        try:
            got = np.array(einsum(expr, *[tf.constant(a) for a in arrays]))
        except Exception as e:
            ctx.count("einsum_declined")  # a raise is a decline: callers fall back to tf.einsum
            continue
        ctx.count("einsum_ops=%d" % len(arrays)); ctx.count("einsum_batch=%d" % int("..." in expr))
        ctx.evaluations += 1
        ctx.distinct.add(("E", expr, tuple(a.shape for a in arrays)))
        if got.shape != ref.shape and got.size == ref.size:
            got = got.reshape(ref.shape)
        tol = 1e-12 * max(1.0, float(np.abs(ref).max()) if ref.size else 1.0)
        meta = {"layer": "einsum_function", "expr": expr, "shapes": [list(a.shape) for a in arrays], "operands": [[str(z) for z in a.reshape(-1)] for a in arrays],
                "impl": [str(z) for z in got.reshape(-1)], "numpy": [str(z) for z in ref.reshape(-1)]}
        if got.size != ref.size:
            cases.append(("E%d" % k, "false = true", "reflexivity", meta))
            continue
        cases.append(("E%d" % k, coq_einsum_case(expr, arrays, got, tol), "vm_compute; reflexivity", meta))
    return cases


class Capture:
    """wrap the einsum name used by the amplitude builder"""

    def __init__(self):
        import tf_pwa.amp.core as core
        self.core = core
        self.orig = core.einsum
        self.calls = []

    def __enter__(self):
        def wrapped(expr, *args, **kw):
            r = self.orig(expr, *args, **kw)
            self.calls.append((expr, [np.array(a) for a in args], np.array(r)))
            return r
        self.core.einsum = wrapped
        return self

    def __exit__(self, *a):
        self.core.einsum = self.orig


def configs(rnd):
    from props.c03 import configs as c3
    return c3(rnd, "quick")


STRATEGIES = [
    ("cached_amp", {"amp_model": "cached_amp", "preprocessor": "cached_amp"}),
    ("cached_shape", {"amp_model": "cached_shape", "preprocessor": "cached_shape"}),
    ("base_factor", {"amp_model": "base_factor", "preprocessor": "cached_angle"}),
    ("p4_directly", {"amp_model": "p4_directly", "preprocessor": "p4_directly"}),
    ("tf_function", {"use_tf_function": True}),
    ("tf_function_no_id", {"use_tf_function": True, "no_id_cached": True}),
    ("jit_compile", {"use_tf_function": True, "jit_compile": True}),
    ("lazy_call", {"lazy_call": True}),
]


def cc_config():
    """4-body cascades, every vertex parity violating, spinning finals, written heavy-first (the builder then needs
    cyclic transposes), charge conjugation applied on the helicity couplings (cp_trans: False)"""
    pb = {"p_break": True}
    cfg = {
        "data": {"dat_order": ["B", "C", "D", "E"], "cp_trans": False},
        "decay": {"A": [["R1", "E", pb], ["R3", "B", pb]], "R1": [["D", "R2", pb]], "R2": ["B", "C", pb], "R3": [["R4", "E", pb]], "R4": ["C", "D", pb]},
        "particle": {"$top": {"A": {"J": 1, "P": -1, "mass": 6.0}},
                     "$finals": {"B": {"J": 1, "P": -1, "mass": 1.0}, "C": {"J": 0.5, "P": -1, "mass": 1.0}, "D": {"J": 0.5, "P": -1, "mass": 0.5}, "E": {"J": 0, "P": -1, "mass": 0.5}},
                     "R1": {"J": 1, "P": 1, "mass": 4.5, "width": 0.5}, "R2": {"J": 1.5, "P": 1, "mass": 3.0, "width": 0.5},
                     "R3": {"J": 1, "P": 1, "mass": 3.5, "width": 0.5}, "R4": {"J": 1, "P": 1, "mass": 2.0, "width": 0.5}},
    }
    mf = {k: v["mass"] for k, v in cfg["particle"]["$finals"].items()}
    return cfg, 6.0, mf, ((("B", "C"), "D"), "E")


# ------------------------------------------------------------------ fixed configurations of the second hunt round
PMF = {"B": 0.5, "C": 0.14, "D": 0.14}
EAGER = ("cached_amp", "cached_shape", "base_factor", "p4_directly")


def pinned_strategy_configs():
    """(tag, cfg, M0, mf, tree, extra, spec).  spec: only = strategies run in the quick tier, boost = lab velocity of the
    whole event, set = parameter values set on top of the random couplings, move = the trainable parameters change between
    preprocessing and evaluation, no_rebuild = the density is
    not |sum of chain tensors|^2, known = strategy -> OPEN finding (site, fingerprint)"""
    out = []
    # moving parent with restricted helicities: the direction of the z axis matters (random_z default of the data section)
    res = {"R_BC": {"pair": "R_BC", "J": 1, "P": -1, "mass": 0.9, "width": 0.05}, "R_CD": {"pair": "R_CD", "J": 2, "P": 1, "mass": 0.7, "width": 0.3}}
    cfg = ampkit.three_body_config(1.9, PMF, res, top=(1, -1), decay_opts={k: {"p_break": True} for k in res})
    cfg["particle"]["$top"]["A"]["spins"] = [-1, 1]
    out.append(("boost", cfg, 1.9, PMF, None, None, {"only": ("cached_amp", "p4_directly"), "boost": [0.01, 0.0, 0.02]}))
    # CP-violating helicity couplings (decay model gls-cpv), events of charge +1 only
    res = {"R_BC": {"pair": "R_BC", "J": 1, "P": -1, "mass": 0.9, "width": 0.05}, "R_CD": {"pair": "R_CD", "J": 2, "P": 1, "mass": 0.7, "width": 0.3}}
    cfg = ampkit.three_body_config(1.9, PMF, res, top=(1, -1), decay_opts={"R_BC": {"p_break": True, "model": "gls-cpv"}})
    out.append(("glscpv", cfg, 1.9, PMF, None, None, {"only": ("cached_amp", "cached_shape", "base_factor")}))
    # a line shape whose floating parameters live in a list (Flatte couplings g_i): evaluated after the trainable
    # parameters moved away from the values they had when the data were preprocessed
    res = {"R_BC": {"pair": "R_BC", "J": 1, "P": -1, "mass": 0.9, "model": "Flatte", "mass_list": [[0.5, 0.14], [0.6, 0.6]]},
           "R_CD": {"pair": "R_CD", "J": 0, "P": 1, "mass": 0.6, "width": 0.3}}
    cfg = ampkit.three_body_config(1.9, PMF, res)
    out.append(("flatte", cfg, 1.9, PMF, None, None, {"only": ("cached_amp", "cached_shape", "base_factor"), "move": True, "set": {"R_BC_g_0": 0.5, "R_BC_g_1": 0.3}}))
    # cp_particles symmetrisation (the CP-swapped amplitude is added): OPEN finding for the cached strategies
    mf = {"B": 0.3, "C": 0.3, "D": 0.14}
    res = {"R_BD": {"pair": "R_BD", "J": 1, "P": -1, "mass": 0.9, "width": 0.1}, "R_BC": {"pair": "R_BC", "J": 0, "P": 1, "mass": 1.0, "width": 0.3}}
    cfg = ampkit.three_body_config(1.9, mf, res, data_opts={"cp_particles": [["B", "C"]]})
    cfg["particle"]["$finals"]["D"]["C"] = 1  # its own antiparticle
    kn = ("cached strategies (cached_amp / cached_shape / base_factor) with cp_particles", "cp_particles:cached")
    out.append(("cpswap", cfg, 1.9, mf, None, None, {"only": ("cached_amp", "cached_shape", "base_factor", "p4_directly"), "no_rebuild": True,
                                                      "known": {"cached_amp": kn, "cached_shape": kn, "base_factor": kn}}))
    return out


def pinned_likelihood_configs(tier="quick"):
    """(tag, cfg, M0, mf, spec).  spec: models = likelihood models compared with the default one, set = parameter values
    set on top of the random couplings, known = model -> OPEN finding, int_first = also build the cached integral
    (experimental.opt_int.cached_int_mc) as the FIRST evaluation of a fresh amplitude"""
    out = []
    fin = {"B": (0.5, 1), "C": (0.5, 1), "D": (0, -1)}
    # R_BC -> B C with (l,s) = (1,0),(0,1),(1,1),(2,1): the first coupling does not have the minimal l
    res = {"R_BC": {"pair": "R_BC", "J": 1, "P": -1, "mass": 0.9, "width": 0.1}, "R_BD": {"pair": "R_BD", "J": 0.5, "P": 1, "mass": 1.0, "width": 0.2}}
    cfg = ampkit.three_body_config(1.9, PMF, res, fin=fin)
    cfg["decay"]["R_BC"] = ["B", "C", {"p_break": True}]
    out.append(("lfirst", cfg, 1.9, PMF, {"models": (), "int_first": True}))
    import copy
    cfg2 = copy.deepcopy(cfg)
    cfg2["decay"]["R_BC"] = ["B", "C", {"p_break": True, "force_min_l": True}]
    out.append(("forceminl", cfg2, 1.9, PMF, {"models": ("cached_int", "cached_amp")}))
    if tier == "thorough":
        # the option on every decay, the production vertices with l in {0,1,2} as well (vector parent, weak decay)
        cfg3 = copy.deepcopy(cfg2)
        cfg3["particle"]["$top"]["A"]["J"] = 1
        cfg3["decay"]["A"] = [[i[0], i[1], {"p_break": True, "force_min_l": True}] for i in cfg3["decay"]["A"]]
        cfg3["decay"]["R_BD"] = ["B", "D", {"p_break": True, "force_min_l": True}]
        out.append(("forceminl_all", cfg3, 1.9, PMF, {"models": ("cached_int", "cached_amp")}))
        cfg4 = copy.deepcopy(cfg3)
        for k in ("R_BC", "R_BD"):
            cfg4["decay"][k] = [i for i in cfg4["decay"][k] if not isinstance(i, dict)] + [{"p_break": True}]
        cfg4["decay"]["A"] = [[i[0], i[1], {"p_break": True}] for i in cfg4["decay"]["A"]]
        out.append(("lfirst_all", cfg4, 1.9, PMF, {"models": ("cached_int", "cached_amp"), "int_first": "also"}))
    # polarised spin-1/2 parent (density matrix rho): OPEN finding for the cached likelihood models
    mf = {"B": 0.938, "C": 0.494, "D": 0.139}
    res = {"R_BC": {"pair": "R_BC", "J": 1.5, "P": -1, "mass": 1.52, "width": 0.05}, "R_CD": {"pair": "R_CD", "J": 1, "P": -1, "mass": 0.892, "width": 0.05}}
    cfg = ampkit.three_body_config(2.286, mf, res, top=(0.5, 1), fin={"B": (0.5, 1), "C": (0, -1), "D": (0, -1)}, decay_opts={k: {"p_break": True} for k in res})
    cfg["particle"]["$top"]["A"]["polarization"] = "vector"
    kn = ("cached likelihood models (cached_int / cached_amp) with a polarised parent (polarization: vector)", "polarization:cached_likelihood")
    out.append(("polar", cfg, 2.286, mf, {"models": ("cached_int", "cached_amp"), "known": {"cached_int": kn, "cached_amp": kn},
                                          "set": {"A_polarization_px": 0.3, "A_polarization_py": -0.2, "A_polarization_pz": 0.6}}))
    return out


def cal_data(config, p4, extra):
    data = config.data.cal_angle(p4, **extra) if extra else config.data.cal_angle(p4)
    for k, v in (extra or {}).items():
        try:
            data[k] = v
        except Exception:
            pass
    return data


def strategy_density(cfg, opts, pars, p4, extra=None, pars_pre=None):
    """pars_pre: the parameter values at the time the data are preprocessed (default: the evaluation values)"""
    from tf_pwa.config_loader import ConfigLoader
    from tf_pwa.data import LazyCall
    import copy
    c = copy.deepcopy(cfg)
    c["data"].update(opts)
    config = ConfigLoader(c)
    amp = config.get_amplitude()
    amp.set_params(pars_pre if pars_pre is not None else pars)
    data = cal_data(config, p4, extra)
    amp.set_params(pars)
    first = np.array(amp(data.eval() if isinstance(data, LazyCall) and not hasattr(amp, "cached_fun") else data))
    second = np.array(amp(data.eval() if isinstance(data, LazyCall) and not hasattr(amp, "cached_fun") else data))
    return first, second


def builder_and_strategy_cases(ctx, rnd, tier, cases, tags=None):
    from tf_pwa.config_loader import ConfigLoader
    nev = 2
    import copy
    todo = [(tag, cfg, M0, mf, None, None, {}) for tag, cfg, M0, mf, _tree in configs(rnd) if _tree is None]
    ccfg, cM0, cmf, ctree = cc_config()
    todo.append(("cc4", ccfg, cM0, cmf, ctree, {"charge_conjugation": np.array([-1.0, 1.0])}, {}))
    # charge conjugation applied on the MOMENTA (cp_trans at its default): every strategy has to reflect the charge -1 events
    c2 = copy.deepcopy(ccfg); c2["data"].pop("cp_trans", None)
    todo.append(("cc4cp", c2, cM0, cmf, ctree, {"charge_conjugation": np.array([-1.0, 1.0])}, {}))
    # CP-violating chain couplings (is_cp: total * (1 + charge * delta)): the per-event charge reaches the couplings
    c3_ = copy.deepcopy(c2); c3_["decay_chain"] = {"$all": {"is_cp": True}}
    kn_iscp = ("amp_model cached_shape with CP-violating chain couplings (is_cp) and charge -1 events", "cached_shape:is_cp")
    todo.append(("cc4iscp", c3_, cM0, cmf, ctree, {"charge_conjugation": np.array([-1.0, 1.0])}, {"known": {"cached_shape": kn_iscp}}))
    # declared identical (spin-0) particles: the symmetrised amplitude
    imf = {"B": 0.5, "C": 0.14, "D": 0.14}
    ires = {"R_BC": {"pair": "R_BC", "J": 1, "P": -1, "mass": 0.9, "width": 0.05}, "R_CD": {"pair": "R_CD", "J": 0, "P": 1, "mass": 0.6, "width": 0.3}}
    kn_ident = ("cached strategies (cached_amp / cached_shape / base_factor) with declared identical particles", "identical_particles:cached")
    todo.append(("ident", ampkit.three_body_config(1.9, imf, ires, data_opts={"identical_particles": [["C", "D"]]}), 1.9, imf, None, None,
                 {"no_rebuild": True, "known": {k: kn_ident for k in ("cached_amp", "cached_shape", "base_factor")}}))
    todo += pinned_strategy_configs()
    for tag, cfg, M0, mf, tree, extra, spec in todo:
        if tags is not None and tag not in tags:
            continue  # (debugging aid: a subset of the rows)
        config = ConfigLoader(cfg)
        amp = config.get_amplitude()
        pars = ampkit.random_params(amp, rnd)
        if spec.get("set"):
            amp.set_params(spec["set"]); pars = {k: float(v) for k, v in amp.get_params().items()}
        pars_pre = None
        if spec.get("move"):
            # only trainable parameters move (what a fit does between the preprocessing of the data and an evaluation)
            pars_pre = dict(pars)
            for k in amp.vm.trainable_vars:
                pars_pre[k] = 0.6 * pars[k] + 0.25
        if tag == "cc4iscp":
            pp = dict(amp.get_params())
            for k in pp:
                if "delta" in k:
                    pp[k] = rnd.uniform(-0.5, 0.5)
            amp.set_params(pp); pars = {k: float(v) for k, v in amp.get_params().items()}
        p4 = ampkit.gen_events(M0, mf, nev, rnd.randrange(10 ** 6)) if tree is None else ampkit.gen_tree_events(tree, mf, M0, nev, rnd.randrange(10 ** 6))
        if spec.get("boost"):
            p4 = ampkit.lorentz_transform(p4, boost=spec["boost"])
        data = cal_data(config, p4, extra)
        with Capture() as cap:
            dens = np.array(amp(data))
        meta0 = {"config": cfg, "params": {k: float(v) for k, v in pars.items()}, "events": {k: v.tolist() for k, v in p4.items()}}
        if pars_pre is not None:
            meta0["params_at_preprocessing"] = {k: float(v) for k, v in pars_pre.items()}
        # chain tensors through the public seam (set_used_chains); the einsum captures feed layer B only,
        # because the builder falls back to tf.einsum when the custom routine declines
        chain_tensors, _full = ampkit.chain_amps(amp, data)
        for n, (expr, args, r) in enumerate(cap.calls):
            tol = 1e-12 * max(1e-300, float(np.abs(r).max()))
            cases.append(("B_%s_%d" % (tag, n), coq_einsum_case(expr, args, r, tol), "vm_compute; reflexivity",
                          dict(meta0, layer="builder_einsum", expr=expr, shapes=[list(a.shape) for a in args])))
            ctx.distinct.add(("B", tag, expr))
            ctx.count("builder_expr:" + expr)
        ctx.evaluations += len(cap.calls)
        # density rebuilt in Coq from the chain tensors (event by event)
        rebuilt = []
        for e in range(nev):
            if spec.get("no_rebuild"):
                # the symmetrised density is not |sum of chain tensors|^2: the strategies are compared with the default density itself
                rebuilt.append(None)
                continue
            chains = "[" + "; ".join("[" + "; ".join(qc(z) for z in np.asarray(t[e]).reshape(-1)) + "]" for t in chain_tensors) + "]"
            rebuilt.append(chains)
            tol = 1e-11 * max(1e-300, float(dens[e]))
            cases.append(("Dq_%s_e%d" % (tag, e), "Qle_bool (Qabs (density_q %s - %s)) %s = true" % (chains, Qq(float(dens[e])), Qq(tol)),
                          "vm_compute; reflexivity", dict(meta0, layer="density_from_chain_tensors", event=e, impl_density=float(dens[e]))))
        # strategies: all must report the density rebuilt above
        for sname, opts in STRATEGIES:
            try:
                if extra is not None and sname == "lazy_call":
                    continue  # lazy data carry the extras through LazyCall.extra: covered by C18
                if tier == "quick" and tag in ("cc4cp", "cc4iscp") and sname in ("tf_function", "tf_function_no_id", "jit_compile"):
                    continue  # graph compilation of the 4-body cascade is exercised on cc4 (and on these two in the thorough tier)
                if tier == "quick" and spec.get("only") and sname not in spec["only"]:
                    continue  # fixed configurations: the cells named in the spec (the whole row in the thorough tier)
                first, second = strategy_density(cfg, opts, pars, p4, extra, pars_pre)
            except Exception as ex:
                ctx.count("strategy_error:" + sname)
                ctx.notes.append("strategy %s on %s raised %r" % (sname, tag, type(ex).__name__))
                if extra is not None:
                    # a strategy that raises on the charge-conjugation data declines (not applicable there): observation O4,
                    # e.g. base_factor + allow_cc raises a broadcasting error in get_factor_angle_helicity_amp
                    ctx.count("strategy_declined_with_extras:" + sname)
                    continue
                cases.append(("S_%s_%s_raise" % (tag, sname), "false = true", "reflexivity",
                              dict(meta0, layer="strategy", strategy=sname, options=opts, error=repr(ex))))
                continue
            ctx.count("strategy:" + sname)
            ctx.evaluations += 2
            # OPEN findings, reported from the fixed configurations that name them only (every other (config, strategy) cell is regular):
            known = spec.get("known", {}).get(sname)
            for which, val in (("first", first), ("second", second)):
                for e in range(nev):
                    tol = 1e-9 * max(1e-300, float(dens[e]))
                    ref = ("density_q %s" % rebuilt[e]) if rebuilt[e] is not None else Qq(float(dens[e]))
                    meta = dict(meta0, layer="strategy", strategy=sname, options=opts, call=which, event=e, impl_density=float(val[e]), default_density=float(dens[e]))
                    if known:
                        meta["known"] = known
                        if which == "second" or e > 0:
                            continue  # one obligation per known cell
                    cases.append(("S_%s_%s_%s_e%d" % (tag, sname, which, e),
                                  "Qle_bool (Qabs (%s - %s)) %s = true" % (ref, Qq(float(val[e])), Qq(tol)), "vm_compute; reflexivity", meta))
                    ctx.distinct.add(("S", tag, sname, which, e))


def likelihood_cases(ctx, rnd, cases, tags=None, tier="quick"):
    """cached_int / cached_amp likelihood models vs the default one: same NLL and gradient (line shape fixed)"""
    import copy
    from tf_pwa.config_loader import ConfigLoader
    todo = [(tag, cfg, M0, mf, {"models": ("cached_int", "cached_amp")}) for tag, cfg, M0, mf, _tree in configs(rnd)[:2]]
    todo += pinned_likelihood_configs(tier)
    for tag, cfg, M0, mf, spec in todo:
        if tags is not None and tag not in tags:
            continue
        data_p4 = ampkit.gen_events(M0, mf, 12, rnd.randrange(10 ** 6))
        phsp_p4 = ampkit.gen_events(M0, mf, 30, rnd.randrange(10 ** 6))
        vals = {}
        pars = None
        for name, opts in (("default", {}), ("cached_int", {"cached_int": True}), ("cached_amp", {"cached_amp": True})):
            if name != "default" and name not in spec["models"]:
                continue
            c = copy.deepcopy(cfg); c["data"].update(opts)
            config = ConfigLoader(c)
            amp = config.get_amplitude()
            if pars is None:
                pars = ampkit.random_params(amp, rnd)
                pars.update(spec.get("set", {}))
            amp.set_params(pars)
            if spec.get("int_first") and name == "default":
                # the cached integral as the FIRST evaluation of this fresh amplitude (nothing has fixed any lazily
                # initialised attribute yet) against the default density summed over the same events, evaluated by
                # another fresh object
                from tf_pwa.experimental.opt_int import cached_int_mc
                phsp = config.data.cal_angle(phsp_p4)
                got = float(cached_int_mc(amp.decay_group, phsp)())
                config0 = ConfigLoader(copy.deepcopy(cfg)); amp0 = config0.get_amplitude(); amp0.set_params(pars)
                ref0 = float(np.sum(np.array(amp0(config0.data.cal_angle(phsp_p4)))))
                meta = {"layer": "likelihood_strategy", "config": cfg, "model": "experimental.opt_int.cached_int_mc as the first evaluation of a fresh amplitude",
                        "params": {k: float(v) for k, v in pars.items()}, "events": {k: v.tolist() for k, v in phsp_p4.items()},
                        "default": ["sum of the default density", ref0], "value": ["cached integral", got]}
                cases.append(("L_%s_int_first" % tag, "Qle_bool (Qabs (%s - %s)) %s = true" % (Qq(ref0), Qq(got), Qq(1e-9 * max(1.0, abs(ref0)))), "vm_compute; reflexivity", meta))
                ctx.evaluations += 1
                ctx.distinct.add(("L", tag, "int_first"))
                if spec["int_first"] is True:
                    break  # this row is the direct integral only
            data = config.data.cal_angle(data_p4); phsp = config.data.cal_angle(phsp_p4)
            try:
                fcn = config.get_fcn([[data], [phsp], None, None], batch=7)
                nll, grad = fcn.nll_grad({})
                names = list(fcn.vm.trainable_vars)
                vals[name] = (float(nll), dict(zip(names, [float(g) for g in np.array(grad)])))
            except Exception as ex:
                ctx.notes.append("likelihood model %s on %s raised %r" % (name, tag, ex))
                vals[name] = None
        ref = vals.get("default")
        if ref is None:
            continue
        for name in spec["models"]:
            v = vals.get(name)
            meta = {"layer": "likelihood_strategy", "config": cfg, "model": name, "default": ref, "value": v,
                    "params": {k: float(x) for k, x in pars.items()}, "data_events": {k: x.tolist() for k, x in data_p4.items()}, "phsp_events": {k: x.tolist() for k, x in phsp_p4.items()}}
            known = spec.get("known", {}).get(name)
            if known:
                meta["known"] = known
                meta["detail"] = "likelihood model %s: NLL %.8g, default model %.8g" % (name, v[0] if v else float("nan"), ref[0])
            if v is None:
                cases.append(("L_%s_%s" % (tag, name), "false = true", "reflexivity", meta))
                continue
            items = [(ref[0], v[0])] + [(ref[1][k], v[1].get(k, float("nan"))) for k in ref[1]]
            goal = " && ".join("Qle_bool (Qabs (%s - %s)) %s" % (Qq(a), Qq(b), Qq(1e-8 * max(1.0, abs(a)))) for a, b in items if math.isfinite(b))
            if any(not math.isfinite(b) for _, b in items):
                goal = "false"
            cases.append(("L_%s_%s" % (tag, name), "(%s)%%bool = true" % goal, "vm_compute; reflexivity", meta))
            ctx.evaluations += 1
            ctx.distinct.add(("L", tag, name))


def search(ctx, fails):
    for f in fails:
        m = f.get("input") or {}
        if m.get("layer") == "reduce_sum_step" and m.get("impl") != m.get("numpy"):
            return {"call": "tf_pwa.einsum.tensor_einsum_reduce_sum(expr, *operands, order=order)", "expr": m["expr"], "order": m["order"], "shapes": m["shapes"], "operands": m["operands"],
                    "tensor_einsum_reduce_sum": m["impl"], "numpy.einsum": m["numpy"]}
        if m.get("layer") == "einsum_function" and m.get("impl") != m.get("numpy"):
            return {"expr": m["expr"], "shapes": m["shapes"], "operands": m["operands"], "tf_pwa.einsum": m["impl"], "numpy.einsum": m["numpy"]}
        if m.get("layer") == "strategy" and "impl_density" in m:
            if abs(m["impl_density"] - m["default_density"]) > 1e-9 * abs(m["default_density"]):
                return {k: m[k] for k in ("config", "params", "params_at_preprocessing", "events", "strategy", "options", "call", "event", "impl_density", "default_density") if k in m}
        if m.get("layer") == "strategy" and "error" in m:
            return {k: m[k] for k in ("config", "params", "events", "strategy", "options", "error")}
        if m.get("layer") == "likelihood_strategy":
            return {k: m[k] for k in ("config", "model", "default", "value", "params", "events", "data_events", "phsp_events") if k in m}
    return None


def run(ctx):
    rnd = random.Random(ctx.seed * 1000003 + 5)
    ctx.rule = ("einsum grammar: 2-4 operands, rank<=4, sizes {1,2,3}, optional ellipsis batch (size 1/2); builder expressions captured on spin-0 / spin-1/2 / vector configs; "
                "strategy matrix x 2 events x first/second call on spin configs, a 4-body parity-violating cascade with charge -1 events (conjugation on the couplings, on the momenta, and with CP-violating is_cp couplings), a declared-identical pair and fixed rows "
                "(boosted parent with restricted helicities, gls-cpv decay, Flatte with floating couplings moved after preprocessing, cp_particles; eager cached / p4 cells in quick, the whole row in thorough); "
                "cached_int/cached_amp NLL+gradient on spin configs, force_min_l decays, a polarised parent, and the cached integral built first on a fresh amplitude; distinct = distinct expressions / (config,strategy,call,event)")
    common.theorem_stage(ctx)
    cases = einsum_function_cases(ctx, rnd, 60 if ctx.tier == "quick" else 600)
    ctx.log("einsum cases", len(cases))
    cases += reduce_sum_step_cases(ctx, random.Random(ctx.seed * 1000003 + 505), 30 if ctx.tier == "quick" else 300)
    builder_and_strategy_cases(ctx, rnd, ctx.tier, cases)
    ctx.log("builder+strategy cases", len(cases))
    likelihood_cases(ctx, rnd, cases, tier=ctx.tier)
    for c in cases[:: max(1, len(cases) // 4)]:
        ctx.sample({"case": c[0], "goal": c[1][:300], "layer": c[3].get("layer")})
    res = common.coq_cases(ctx, "c05", HEADER, [c[:3] for c in cases], per_file=25, case_timeout=120)
    for cid, stmt, tac, meta in cases:
        if res[cid] != "OK":
            if meta.get("known"):
                ctx.fail(meta["layer"], cid, meta.get("detail") or "strategy %s: density %.6g, default evaluation %.6g" % (meta["strategy"], meta["impl_density"], meta["default_density"]), inp=meta,
                         site=meta["known"][0], fingerprint=meta["known"][1], failing_input={k: v for k, v in meta.items() if k != "known"})
                continue
            ctx.fail(meta["layer"], cid, "value differs from the reference semantics at layer %s (%s)" % (meta["layer"], res[cid]), inp=meta,
                     site="strategy:" + str(meta.get("strategy", meta["layer"])), fingerprint=str(meta.get("strategy", meta["layer"])))
    return common.finish(ctx, search=search, technique=TECHNIQUE, extra_assumptions=[
        "graph / XLA compilation and tf.data batching are runtime: tied numerically (rtol 1e-9), the model cannot exhibit a miscompilation",
        "opt_einsum.contract_path is an oracle (any permutation path); the custom routine's result is compared with the path-independent reference"])


def replay(rep):
    return ampkit.replay_failing_input(rep)
