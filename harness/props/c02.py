"""C02 - the density does not depend on unphysical bookkeeping conventions.

Theorems: coq/Props/Properties_C02.v (chain-order invariance of the amplitude sum; a common conjugated
Wigner D matrix on the final-state or on the parent helicity index drops out of the helicity sum, 2j<=8).
Tie: for configurations with spinning final states (incl. spin 1/2) the same events and parameters (by name)
are evaluated under every convention: permuted chain lists (hence every choice of reference chain),
align_ref in {first chain, center_mass}, random_z, center_mass, only_left_angle.  For each variant the
superposition layer (full tensor = sum of chain tensors, C03 model) is certified, and the variant's
density is certified equal to the base convention's density (Coq-Interval on the code's values).
Massless final particles (photon, `spins: [-1, 1]`; also with declared-identical particles): the drop-out theorems need the
full helicity range, a restricted one is preserved only by a pure z rotation (C02_massless_alignment_is_phase); the check
certifies beta = 0 on every aligned angle of the massless particle (layer massless_alignment).
Pinned scenarios: order of a resonance list (different l_min of the two decays of the mother resonance), cp_particles
(align_ref, chain order with the CP partner chain undeclared; z axis with a moving parent = OPEN finding)."""
import copy
import itertools
import math
import random

import numpy as np

import ampkit
import common
from qfmt import Rq
from props import c03

TECHNIQUE = "Coq proof (permutation invariance, Wigner-D unitarity on either index, a z rotation is a phase on every helicity, 2j<=8) + certified comparison of the code under every convention, superposition layer tied to the model"

HEADER = c03.HEADER
RT = c03.RT


def base_configs(rnd):
    out = []
    # spin-1/2 parent and final baryon (weak decay), three pairings
    mf = {"B": 0.938, "C": 0.494, "D": 0.139}; M0 = 2.286
    res = {"R_BC": {"pair": "R_BC", "J": 1.5, "P": -1, "mass": 1.52, "width": 0.05}, "R_BD": {"pair": "R_BD", "J": 1.5, "P": 1, "mass": 1.232, "width": 0.117},
           "R_CD": {"pair": "R_CD", "J": 1, "P": -1, "mass": 0.892, "width": 0.05}}
    out.append(("half", res, (0.5, 1), {"B": (0.5, 1), "C": (0, -1), "D": (0, -1)}, True, M0, mf))
    # vector parent, two spinning finals
    mf = {"B": 0.78, "C": 0.94, "D": 0.14}; M0 = 3.5
    res = {"R_BC": {"pair": "R_BC", "J": 0.5, "P": 1, "mass": 2.0, "width": 0.2}, "R_BD": {"pair": "R_BD", "J": 1, "P": 1, "mass": 1.23, "width": 0.14},
           "R_CD": {"pair": "R_CD", "J": 0.5, "P": -1, "mass": 1.44, "width": 0.3}}
    out.append(("vecspin", res, (0.5, 1), {"B": (1, -1), "C": (0.5, 1), "D": (0, -1)}, True, M0, mf))
    # two identical vector particles (declared identical: the symmetrised copy goes through cal_angle_from_momentum_id_swap,
    # which has to honour the same conventions); all three pairings present, so the chain set is closed under the exchange
    mf = {"B": 2.01, "C": 2.01, "D": 0.14}; M0 = 4.6
    res = {"R_BD": {"pair": "R_BD", "J": 1, "P": 1, "mass": 2.42, "width": 0.03}, "R_BC": {"pair": "R_BC", "J": 1, "P": 1, "mass": 4.2, "width": 0.1},
           "R_CD": {"pair": "R_CD", "J": 1, "P": 1, "mass": 2.46, "width": 0.05}}
    out.append(("ident", res, (1, -1), {"B": (1, -1), "C": (1, -1), "D": (0, -1)}, False, M0, mf, {"identical_particles": [["B", "C"]]}))
    # massless vector final particle (photon: helicities restricted by `spins: [-1, 1]`).  Its alignment has to be a pure z rotation
    # (C02_massless_alignment_is_phase): a reference frame that mixes helicities (the canonical frame) gets truncated to the allowed ones
    mf = {"B": 0.0, "C": 0.49, "D": 0.14}; M0 = 3.1
    res = {"R_CD": {"pair": "R_CD", "J": 2, "P": 1, "mass": 1.5, "width": 0.1}, "R_BC": {"pair": "R_BC", "J": 1, "P": 1, "mass": 1.4, "width": 0.2},
           "R_BD": {"pair": "R_BD", "J": 1, "P": 1, "mass": 1.2, "width": 0.1}}
    out.append(("photon", res, (1, -1), {"B": (1, -1), "C": (0, -1), "D": (0, -1)}, False, M0, mf, None, {"B": {"spins": [-1, 1]}}))
    # photon + two declared-identical scalars (J/psi -> gamma pi0 pi0): identical particles force the parent-rest-frame reference
    # also in the default alignment
    mf = {"B": 0.0, "C": 0.135, "D": 0.135}; M0 = 3.097
    res = {"R_CD": {"pair": "R_CD", "J": 2, "P": 1, "mass": 1.27, "width": 0.18}, "R_BC": {"pair": "R_BC", "J": 1, "P": -1, "mass": 0.78, "width": 0.1}}
    out.append(("photon_ident", res, (1, -1), {"B": (1, -1), "C": (0, -1), "D": (0, -1)}, False, M0, mf, {"identical_particles": [["C", "D"]]},
                {"B": {"spins": [-1, 1]}}))
    return out


# quick tier: the massless configurations run a reduced matrix with a moving parent only (every option acts there)
QUICK_MASSLESS = {"photon": ("perm0_base", "perm0_align_center_mass", "perm0_random_z_off", "perm0_center_mass", "perm0_random_z_off+align_cm",
                             "perm1_base", "perm1_align_cm+center_mass"),
                  "photon_ident": ("perm0_base", "perm0_random_z_off", "perm0_center_mass", "perm0_align_center_mass", "perm1_base")}


def variants(res, rnd):
    names = list(res)
    perms = [names, names[::-1], names[1:] + names[:1]]
    perms = [p_ for i, p_ in enumerate(perms) if p_ not in perms[:i]]
    opts = [("base", {}), ("align_center_mass", {"align_ref": "center_mass"}), ("random_z", {"random_z": True}),
            ("center_mass", {"center_mass": True}), ("only_left_angle", {"only_left_angle": True}),
            ("random_z_off", {"random_z": False}),
            ("align_cm+center_mass", {"align_ref": "center_mass", "center_mass": True}),
            ("random_z_off+align_cm", {"random_z": False, "align_ref": "center_mass"})]
    out = []
    for pi, order in enumerate(perms):
        for oname, o in opts:
            if pi > 0 and oname not in ("base", "align_center_mass", "align_cm+center_mass"):
                continue
            out.append(("perm%d_%s" % (pi, oname), order, o))
    return out


ACASES = []
RTOL = 1e-10  # relative tolerance on densities of two conventions
AHEADER = ("From Coq Require Import Reals.\nFrom Interval Require Import Tactic.\nFrom TFV Require Import Rot.DHom Amp.CascadeTie.\nOpen Scope R_scope.\n")


def _su2(a, b, g):
    uz = lambda t: np.array([[np.exp(-0.5j * t), 0], [0, np.exp(0.5j * t)]])  # noqa: E731
    c, s_ = math.cos(b / 2), math.sin(b / 2)
    return uz(a) @ np.array([[c, -s_], [s_, c]]) @ uz(g)


def _euler_of(U):
    """Euler angles (a, b, g) with U = +Rz(a)Ry(b)Rz(g) exactly on the right SU(2) sheet (g may leave (-pi, pi])"""
    b = 2 * math.atan2(abs(U[1, 0]), abs(U[0, 0]))
    if abs(U[1, 0]) > 1e-9 and abs(U[0, 0]) > 1e-9:
        apg, amg = 2 * np.angle(U[1, 1]), 2 * np.angle(U[1, 0])
    elif abs(U[0, 0]) > 1e-9:
        apg, amg = 2 * np.angle(U[1, 1]), 0.0
    else:
        apg, amg = 0.0, 2 * np.angle(U[1, 0])
    a, g = (apg + amg) / 2, (apg - amg) / 2
    if abs(_su2(a, b, g) + U).max() < abs(_su2(a, b, g) - U).max():
        g += 2 * math.pi
    return float(a), float(b), float(g)


def align_elements(data, nev, spin_finals):
    """alignment element of every (chain, spinning final particle): Euler angles stored by cal_angle in aligned_angle
    (identity for the reference)"""
    out = {}
    for ch in data["decay"]:
        decs = [k for k in data["decay"][ch] if hasattr(k, "core")]
        key_ch = tuple(sorted(str(d) for d in decs))
        for dec in decs:
            for o in dec.outs:
                if str(o) not in spin_finals:
                    continue
                x = data["decay"][ch][dec][o]
                if "aligned_angle" in x:
                    aa = x["aligned_angle"]
                    ang = [[float(np.array(aa[k])[e]) for k in ("alpha", "beta", "gamma")] for e in range(nev)]
                else:
                    ang = [[0.0, 0.0, 0.0] for _ in range(nev)]
                out[(key_ch, str(o))] = ang
    return out


def alignment_cases(ctx, tag, vname, frame, base_el, el, nev, meta0):
    """hypothesis of C02_reference_change_is_common_matrix on the code's aligned angles: W_base(chain) * G = W_variant(chain)
    with ONE G for all chains (G is read off the first chain, the other chains are the test)"""
    finals = sorted(set(k[1] for k in el))
    for f in finals:
        keys = sorted(k for k in el if k[1] == f and k in base_el)
        if len(keys) < 2:
            continue
        for e in range(nev):
            k0 = keys[0]
            G = np.linalg.inv(_su2(*base_el[k0][e])) @ _su2(*el[k0][e])
            ga, gb, gg = _euler_of(G)
            for k in keys[1:]:
                ax, bx, gx = base_el[k][e]
                ay, by_, gy = el[k][e]
                M = _su2(ax, bx, gx) @ _su2(ga, gb, gg)
                N = _su2(ay, by_, gy)
                if abs(M + N).max() < abs(M - N).max():
                    gy += 2 * math.pi
                    N = -N
                err = float(abs(M - N).max())
                cid = "A_%s_%s_%s_%s_%d_e%d" % (tag, vname.replace("+", "_"), frame, f, keys.index(k), e)
                ACASES.append((cid, "align_ok %s %s %s %s %s %s %s %s %s %s" % tuple(Rq(v) for v in (1e-10, ax, bx, gx, ga, gb, gg, ay, by_, gy)), "align_tac",
                               dict(meta0, layer="alignment", final=f, chain=list(k[0]), event=e, base_aligned=[ax, bx, gx], variant_aligned=[ay, by_, gy],
                                    common_G_euler=[ga, gb, gg], su2_mismatch=err)))
                ctx.count("alignment:common_matrix")
                ctx.evaluations += 1
                ctx.distinct.add((tag, vname, frame, "alignment", f, k[0], e))


def massless_cases(ctx, cases, tag, vname, frame, el, nev, meta0, massless):
    """hypothesis of C02_massless_alignment_is_phase on the code's aligned angles: the alignment of a massless final particle
    (restricted helicities) is a pure z rotation, beta = 0 (the stored beta is 2 atan2(|x10|, |x11|) of a product of boosts with
    rapidity ~ 18, hence the tolerance)"""
    for k in sorted(el):
        if k[1] not in massless:
            continue
        for e in range(nev):
            be = el[k][e][1]
            cases.append(("M_%s_%s_%s_%s_%d_e%d" % (tag, vname.replace("+", "_"), frame, k[1], sorted(el).index(k), e),
                          "(Rabs (%s) <= %s)%%R" % (Rq(be), Rq(1e-6)), "interval with (i_prec 90)",
                          dict(meta0, layer="massless_alignment", final=k[1], chain=list(k[0]), event=e, aligned=list(el[k][e]))))
            ctx.count("alignment:massless_is_phase")
            ctx.evaluations += 1
            ctx.distinct.add((tag, vname, frame, "massless_alignment", k, e))


def run_base(ctx, rnd, tag, res, top, fin, weak, M0, mf, cases, nev, dopts=None, fextra=None):
    from tf_pwa.config_loader import ConfigLoader
    massless = [k for k in fin if mf[k] == 0.0]
    only = QUICK_MASSLESS.get(tag) if ctx.tier == "quick" else None
    p4 = ampkit.gen_events(M0, mf, nev, rnd.randrange(10 ** 6))
    # also a boosted copy: the parent moves, so random_z / center_mass actually do something
    vel = np.array([0.2, -0.3, 0.4])
    p4m = ampkit.lorentz_transform(p4, boost=vel)
    base = None
    pars = None
    for vname, order, opts in variants(res, rnd):
        if only is not None and vname not in only:
            continue
        r2 = {k: res[k] for k in order}
        cfg = ampkit.three_body_config(M0, mf, r2, top=top, fin=fin, decay_opts=({k: {"p_break": True} for k in r2} if weak else None), data_opts=dict(opts, **(dopts or {})))
        for k, v in (fextra or {}).items():
            cfg["particle"]["$finals"][k].update(v)
        config = ConfigLoader(cfg)
        amp = config.get_amplitude()
        if pars is None:
            pars = ampkit.random_params(amp, rnd)
        amp.set_params(pars)
        ctx.count("variant:" + vname.split("_", 1)[1])
        for frame, q4 in (("rest", p4), ("moving", p4m)):
            if only is not None and frame == "rest":
                continue
            data = config.data.cal_angle(q4)
            dens = np.array(amp(data))
            per, full = ampkit.chain_amps(amp, data)
            ncomp = int(np.prod(full.shape[1:]))
            meta0 = {"config": cfg, "params": {k: float(v) for k, v in pars.items()}, "events": {k: v.tolist() for k, v in q4.items()}, "variant": vname, "frame": frame}
            ctx.evaluations += nev
            if base is None or (frame, "x") not in base:
                pass
            key = frame
            spin_finals = [k for k, v in fin.items() if v[0] != 0]
            el = align_elements(data, nev, spin_finals)
            if massless:
                massless_cases(ctx, cases, tag, vname, frame, el, nev, meta0, massless)
                el = {k: v for k, v in el.items() if k[1] not in massless}
            if vname == "perm0_base":
                base = base or {}
                base[key] = dens
                base[key + "_cfg"] = cfg
                base[key + "_el"] = el
            elif vname in (("perm1_base", "perm0_align_center_mass") if ctx.tier == "quick" else
                           ("perm1_base", "perm2_base", "perm0_align_center_mass", "perm1_align_center_mass")):
                alignment_cases(ctx, tag, vname, frame, base[key + "_el"], el, 1 if ctx.tier == "quick" else nev, meta0)
            # superposition layer for this convention (event 0)
            tol = 1e-12 * max(1e-30, float(np.abs(full).max()))
            cases.append(("S_%s_%s_%s" % (tag, vname.replace("+", "_"), frame),
                          "close_all %s (vsum %d [%s]) %s" % (Rq(tol), ncomp, "; ".join(c03.clist(pc[0]) for pc in per), c03.clist(full[0])), RT,
                          dict(meta0, layer="superposition")))
            # (align_ref=center_mass with a moving parent is a regular cell since /repo 1d717fd: the reference is built in the parent rest frame)
            for e in range(nev):
                b = float(base[key][e])
                cases.append(("V_%s_%s_%s_e%d" % (tag, vname.replace("+", "_"), frame, e),
                              "(Rabs (%s - %s) <= %s)%%R" % (Rq(float(dens[e])), Rq(b), Rq(RTOL * abs(b))), "interval with (i_prec 90)",
                              dict(meta0, layer="convention_invariance", event=e, density=float(dens[e]), base_density=b, base_config=base[key + "_cfg"])))
                ctx.distinct.add((tag, vname, frame, e))


def known_reproducers(ctx):
    """two fixed reproducers of OPEN findings (reported as KNOWN-FINDING while they still fail); both configurations are
    excluded from the regular stream: every regular config declares the daughters of one topology in ONE order and, when
    identical particles are declared, uses a chain set closed under their exchange"""
    from tf_pwa.config_loader import ConfigLoader
    # (1) two chains of the same topology that declare their daughters in opposite order, spin-1/2 final particle
    mf = {"B": 0.938, "C": 0.494, "D": 0.139}; M0 = 2.286
    p4 = ampkit.gen_events(M0, mf, 2, 7)

    def cfg1(order):
        pb = {"p_break": True}
        dec = {"A": [[r, {"R1": "D", "R2": "D", "R3": "C"}[r], pb] for r in order], "R1": ["B", "C"], "R2": ["C", "B"], "R3": ["B", "D"]}
        return {"data": {"dat_order": ["B", "C", "D"]}, "decay": dec,
                "particle": {"$top": {"A": {"J": 0.5, "P": 1, "mass": M0}},
                             "$finals": {"B": {"J": 0.5, "P": 1, "mass": mf["B"]}, "C": {"J": 0, "P": -1, "mass": mf["C"]}, "D": {"J": 0, "P": -1, "mass": mf["D"]}},
                             "R1": {"J": 1.5, "P": -1, "mass": 1.52, "width": 0.05}, "R2": {"J": 0.5, "P": 1, "mass": 1.6, "width": 0.1},
                             "R3": {"J": 1.5, "P": 1, "mass": 1.232, "width": 0.117}}}
    pars = None; vals = []
    for order in (["R1", "R2", "R3"], ["R2", "R1", "R3"]):
        c = ConfigLoader(cfg1(order)); amp = c.get_amplitude()
        if pars is None:
            pars = ampkit.random_params(amp, random.Random(3))
        amp.set_params(pars)
        vals.append(np.array(amp(c.data.cal_angle(p4))))
    dev = float(np.abs(vals[1] / vals[0] - 1).max())
    ctx.count("known_reproducer:opposite_daughter_order:%s" % ("fails" if dev > 1e-6 else "passes"))
    if dev > 1e-6:
        ctx.fail("convention_invariance", "known_opposite_daughter_order", "density depends on chain order: rel. deviation %.3g" % dev,
                 site="tf_pwa chains of one topology declaring their daughters in opposite order", fingerprint="opposite_daughter_order",
                 failing_input={"config_order_1": cfg1(["R1", "R2", "R3"]), "config_order_2": cfg1(["R2", "R1", "R3"]), "params": pars,
                                "events": {k: v.tolist() for k, v in p4.items()}, "densities": [vals[0].tolist(), vals[1].tolist()]})
    # (2) identical spin-1 particles with a chain set that is not closed under their exchange (repaired in /repo 4749fab: kept as a
    #     regression case; the finding is registered as fixed, so a failure here is a VIOLATION again)
    mf = {"B": 0.5, "C": 0.5, "D": 0.14}; M0 = 2.5
    p4 = ampkit.gen_events(M0, mf, 2, 7)

    def cfg2(order):
        res = {"R_BD": {"pair": "R_BD", "J": 1, "P": 1, "mass": 1.2, "width": 0.1}, "R_BC": {"pair": "R_BC", "J": 2, "P": 1, "mass": 1.5, "width": 0.2}}
        return ampkit.three_body_config(M0, mf, {k: res[k] for k in order}, top=(1, -1), fin={"B": (1, -1), "C": (1, -1), "D": (0, -1)},
                                        data_opts={"identical_particles": [["B", "C"]]})
    pars = None; vals = []
    for order in (["R_BD", "R_BC"], ["R_BC", "R_BD"]):
        c = ConfigLoader(cfg2(order)); amp = c.get_amplitude()
        if pars is None:
            pars = ampkit.random_params(amp, random.Random(3))
        amp.set_params(pars)
        vals.append(np.array(amp(c.data.cal_angle(p4))))
    dev = float(np.abs(vals[1] / vals[0] - 1).max())
    ctx.count("known_reproducer:identical_unclosed_chain_set:%s" % ("fails" if dev > 1e-6 else "passes"))
    if dev > 1e-6:
        ctx.fail("convention_invariance", "known_identical_unclosed", "density depends on chain order: rel. deviation %.3g" % dev,
                 site="tf_pwa identical particles with a chain set not closed under the exchange", fingerprint="identical_unclosed_chain_set",
                 failing_input={"config_order_1": cfg2(["R_BD", "R_BC"]), "config_order_2": cfg2(["R_BC", "R_BD"]), "params": pars,
                                "events": {k: v.tolist() for k, v in p4.items()}, "densities": [vals[0].tolist(), vals[1].tolist()]})


def _pair_cases(ctx, cases, tag, vname, cfg_a, cfg_b, p4, nev, frame="rest", site=None, fingerprint=None, open_finding=False):
    """density of cfg_b against cfg_a (same parameters by name, same events): one certified comparison per event; with
    open_finding the comparison is made here and a deviation is reported under the given site / fingerprint"""
    from tf_pwa.config_loader import ConfigLoader
    pars = None; vals = []
    for c in (cfg_a, cfg_b):
        config = ConfigLoader(copy.deepcopy(c)); amp = config.get_amplitude()
        if pars is None:
            pars = ampkit.random_params(amp, random.Random(5))
        assert set(amp.get_params()) == set(pars), "the two conventions must have the same parameters by name"
        amp.set_params(pars)
        vals.append(np.array(amp(config.data.cal_angle(p4))))
        ctx.evaluations += nev
    ctx.count("pinned:" + tag + ":" + vname)
    ev = {k: v.tolist() for k, v in p4.items()}
    if open_finding:
        dev = float(np.abs(vals[1] / vals[0] - 1).max())
        ctx.count("known_reproducer:%s:%s" % (fingerprint, "fails" if dev > 1e-6 else "passes"))
        if dev > 1e-6:
            ctx.fail("convention_invariance", "known_" + fingerprint, "density depends on the convention: rel. deviation %.3g" % dev, site=site, fingerprint=fingerprint,
                     failing_input={"base_config": cfg_a, "variant_config": cfg_b, "variant": vname, "params": pars, "events": ev,
                                    "densities": [vals[0].tolist(), vals[1].tolist()]})
        return
    for e in range(nev):
        a, b = float(vals[0][e]), float(vals[1][e])
        meta = {"config": cfg_b, "base_config": cfg_a, "params": {k: float(v) for k, v in pars.items()}, "events": ev, "variant": vname, "frame": frame,
                "layer": "convention_invariance", "event": e, "density": b, "base_density": a}
        if site:
            meta["site"] = site; meta["fingerprint"] = fingerprint
        cases.append(("P_%s_%s_e%d" % (tag, vname, e), "(Rabs (%s - %s) <= %s)%%R" % (Rq(b), Rq(a), Rq(RTOL * abs(a))), "interval with (i_prec 90)", meta))
        ctx.distinct.add((tag, vname, frame, e))


def pinned_scenarios(ctx, cases):
    """fixed configurations outside the three-body generator"""
    nev = 2 if ctx.tier == "quick" else 5
    # (1) the ORDER OF A RESONANCE LIST permutes the chain list: A -> X E, X(2+) -> R_BC D, R_BC: [Y1, Y2] against [Y2, Y1].
    #     X -> Y1 D has l_min = 0, X -> Y2 D has l_min = 1: the running width of X must not take its l from the first declared decay
    pb = {"p_break": True}
    m4 = {"B": 0.94, "C": 0.78, "D": 0.5, "E": 0.14}

    def cfg_list(order):
        return {"data": {"dat_order": ["B", "C", "D", "E"]},
                "decay": {"A": [["X", "E", pb]], "X": [["R_BC", "D", pb]], "R_BC": [["B", "C", pb]]},
                "particle": {"$top": {"A": {"J": "1/2", "P": 1, "mass": 4.0}},
                             "$finals": {"B": {"J": "1/2", "P": 1, "mass": m4["B"]}, "C": {"J": 1, "P": 1, "mass": m4["C"]},
                                         "D": {"J": "1/2", "P": 1, "mass": m4["D"]}, "E": {"J": "1/2", "P": 1, "mass": m4["E"]}},
                             "X": {"J": 2, "P": 1, "mass": 3.2, "width": 0.3}, "R_BC": list(order),
                             "Y1": {"J": "3/2", "P": -1, "mass": 2.0, "width": 0.2}, "Y2": {"J": "1/2", "P": 1, "mass": 2.2, "width": 0.2}}}
    p4 = ampkit.gen_tree_events(((("B", "C"), "D"), "E"), m4, 4.0, nev, 11)
    _pair_cases(ctx, cases, "reslist", "resonance_list_reversed", cfg_list(["Y1", "Y2"]), cfg_list(["Y2", "Y1"]), p4, nev)

    # self-conjugate final states (data option cp_particles: the CP image of the amplitude is added)
    mcp = {"B": 0.139, "C": 0.139, "D": 3.0}

    def cfg_cp(**dopts):
        return {"data": dict({"dat_order": ["B", "C", "D"], "cp_particles": [["B", "C"]]}, **dopts),
                "decay": {"A": [["Zp", "C"], ["D", "rho"], ["Zm", "B"]], "Zp": ["B", "D"], "Zm": ["C", "D"], "rho": ["B", "C", {"c_break": False}]},
                "particle": {"$top": {"A": {"J": 1, "P": -1, "C": -1, "mass": 4.6}},
                             "$finals": {"B": {"J": 0, "P": -1, "mass": mcp["B"]}, "C": {"J": 0, "P": -1, "mass": mcp["C"]},
                                         "D": {"J": 1, "P": -1, "C": -1, "mass": mcp["D"]}},
                             "Zp": {"J": 1, "P": 1, "mass": 3.9, "width": 0.05}, "Zm": {"J": 1, "P": 1, "mass": 3.9, "width": 0.05},
                             "rho": {"J": 0, "P": 1, "C": 1, "mass": 0.9, "width": 0.3}}}
    p4 = ampkit.gen_events(4.6, mcp, nev, 13)
    # (2) alignment to the parent rest frame against the first chain, parent at rest, fixed z axis
    _pair_cases(ctx, cases, "cp", "align_center_mass", cfg_cp(random_z=False), cfg_cp(random_z=False, align_ref="center_mass"), p4, nev)
    # (3) OPEN finding: z axis along a moving parent against the fixed z axis (DecayGroup.get_amp3 reverses the parent's spin index too,
    #     cp_swap_p negates the momenta in the lab frame)
    p4m = ampkit.lorentz_transform(p4, boost=np.array([0.3, -0.2, 0.5]))
    _pair_cases(ctx, cases, "cp", "random_z_off", cfg_cp(), cfg_cp(random_z=False), p4m, nev, frame="moving",
                site="tf_pwa cp_particles: choice of the z axis / center_mass with a moving parent", fingerprint="cp_particles_parent_axis", open_finding=True)

    # (4) chain order with cp_particles when the CP partner chain is not declared (it is generated by the symmetrisation): spin-1/2 CP partners
    mpp = {"B": 0.938, "C": 0.938, "D": 0.78}

    def cfg_cp2(order):
        dec = {"R_BD": ["R_BD", "C"], "R_BC": ["R_BC", "D"]}
        return {"data": {"dat_order": ["B", "C", "D"], "cp_particles": [["B", "C"]], "random_z": False},
                "decay": {"A": [dec[k] for k in order], "R_BD": ["B", "D"], "R_BC": ["B", "C"]},
                "particle": {"$top": {"A": {"J": 1, "P": -1, "mass": 3.1}},
                             "$finals": {"B": {"J": "1/2", "P": 1, "mass": mpp["B"]}, "C": {"J": "1/2", "P": 1, "mass": mpp["C"]},
                                         "D": {"J": 1, "P": -1, "C": -1, "mass": mpp["D"]}},
                             "R_BD": {"J": "3/2", "P": -1, "mass": 1.9, "width": 0.1}, "R_BC": {"J": 1, "P": 1, "mass": 2.0, "width": 0.2}}}
    p4 = ampkit.gen_events(3.1, mpp, nev, 17)
    _pair_cases(ctx, cases, "cp", "chain_order_partner_undeclared", cfg_cp2(["R_BD", "R_BC"]), cfg_cp2(["R_BC", "R_BD"]), p4, nev,
                site="tf_pwa cp_particles with the CP partner chain not declared", fingerprint="cp_partner_chain_undeclared")


def search(ctx, fails):
    for f in fails:
        m = f.get("input") or {}
        if m.get("layer") == "alignment" and m["su2_mismatch"] > 1e-8:
            return {k: m[k] for k in m if k != "layer"}
        if m.get("layer") == "massless_alignment" and abs(m["aligned"][1]) > 1e-6:
            return dict({k: m[k] for k in m if k != "layer"}, expected="beta = 0: the alignment of a massless particle is a rotation about its momentum")
        if m.get("layer") == "convention_invariance" and abs(m["density"] - m["base_density"]) > RTOL * abs(m["base_density"]):
            return {"base_config": m["base_config"], "variant_config": m["config"], "variant": m["variant"], "frame": m["frame"], "params": m["params"],
                    "events": m["events"], "event": m["event"], "density_variant": m["density"], "density_base": m["base_density"]}
    return c03.search(ctx, fails)


def run(ctx):
    del ACASES[:]
    ctx.extra_targets = ["Amp/CascadeTie.vo"]
    rnd = random.Random(ctx.seed * 1000003 + 2)
    ctx.rule = ("base configs: spin-1/2 weak decay (3/2, 3/2, 1 resonances), spin-1/2 -> vector + spin-1/2 + scalar, vector -> two declared-identical vectors + scalar (all pairings); variants: 3 chain orders x {base, align_ref=center_mass} + "
                "{random_z, center_mass, only_left_angle, random_z+align_ref} ; each in the parent rest frame and with a moving parent; distinct = (config, variant, frame, event); "
                "+ vector -> photon (spins -1, 1) + 2 scalars, without and with the scalars declared identical (quick: reduced matrix, moving parent only); "
                "pinned: 4-body resonance list order (l_min 0 / 1), cp_particles x {align_ref, undeclared partner chain order, z axis of a moving parent (open finding)}")
    common.theorem_stage(ctx)
    cases = []
    nev = 2 if ctx.tier == "quick" else 5
    for (tag, res, top, fin, weak, M0, mf, *rest) in base_configs(rnd):
        run_base(ctx, rnd, tag, res, top, fin, weak, M0, mf, cases, nev, dopts=(rest[0] if rest else None), fextra=(rest[1] if len(rest) > 1 else None))
        ctx.sample({"config_tag": tag, "resonances": res, "top": top, "finals": fin})
    known_reproducers(ctx)
    pinned_scenarios(ctx, cases)
    for c in cases[:: max(1, len(cases) // 4)]:
        ctx.sample({"case": c[0], "goal": c[1][:300], "layer": c[3].get("layer")}, cap=10)
    res_ = common.coq_cases(ctx, "c02", HEADER, [c[:3] for c in cases], per_file=10, case_timeout=60)
    res_.update(common.coq_cases(ctx, "c02a", AHEADER, [c[:3] for c in ACASES], per_file=2, case_timeout=120))
    cases = cases + ACASES
    for cid, stmt, tac, meta in cases:
        if res_[cid] != "OK":
            ctx.fail(meta["layer"], cid, "layer %s does not check (%s)" % (meta["layer"], res_[cid]), inp=meta,
                     site=meta.get("site") or "convention:" + meta.get("variant", ""), fingerprint=meta.get("fingerprint") or meta["layer"])
    return common.finish(ctx, search=search, technique=TECHNIQUE, extra_assumptions=[
        "that a change of reference IS one common D matrix is a theorem of the model (C02_reference_change_is_common_matrix, from the group law D(UV)=D(U)D(V), all j); that the CODE's Euler angles of two conventions differ by one common rotation is decided by the certified comparison of the code under the conventions",
        "rtol 1e-10 on densities; |beta| <= 1e-6 for the alignment of a massless particle"])


def replay(rep):
    return ampkit.replay_failing_input(rep)
