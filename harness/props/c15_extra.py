"""C15 extension - the registered particle models BWR_LS2 and MultiBWR (tf_pwa/amp/split_ls.py).

Model: coq/Shape/LineShapes2.v, theorems: coq/Props/Properties_C15b.v.
`cases(ctx, rnd, quick)` returns correspondence cases (case_id, statement, tactic, meta) in the format
props/c15.py feeds to common.coq_cases; the Coq header needs EXTRA_HEADER appended to c15.HEADER.

The real registered models are built through ConfigLoader, parameters are set through the variable
manager (amp.set_params), and evaluated with float64 tensors
  * directly:  Particle.get_ls_amp(m, ls, q2, q02, d)  and  Particle.__call__(m)
  * through the LS-decay: ParticleDecayLS.get_ls_amp(data, data_p)  (= g_ls_i * R_i, with q2/q02 computed by the decay).
Layers (each goal is small): break-up momenta -> sub-resonance propagators (the BWR2 values the implementation
itself computed, recorded by wrapping the module-level name) -> barrier factors -> polar coefficients ->
weighted sum (on numbers) -> decay-level product (on numbers); plus one end-to-end goal per coupling when small.

Observations modelled as quirks (see LineShapes2.v): BWR_LS2.__call__ uses l = 0; MultiBWR uses min l for every running width.
Hunt round 2 (repairs /verif/build/fix2_C15): every MultiBWR member is normalised at its OWN mass (multi_doms_own), the decay's
q02 is taken at the first member's mass (was: the unrelated configured "mass" - a Python float routed through float32 - or,
without one, the mean mass of the first data batch); the LS-decay evaluates R_i(m) whatever has_barrier_factor says
(ls_decay_amp_opt; was: has_barrier_factor=False returned the bare g_ls, i.e. R_i = 1).
"""
import math
import random

import numpy as np

import common
from qfmt import Rq
from rcases import cplx_stmt, real_stmt, tac

EXTRA_HEADER = "From TFV Require Import Shape.LineShapes2.\n"
HEADER = ("From Coq Require Import Reals List ZArith.\nFrom Interval Require Import Tactic.\n"
          "From TFV Require Import Base.RBase Base.Tie Shape.LineShapes.\nImport ListNotations.\nOpen Scope R_scope.\n")
UNF = ("rmax BWR_LS2 BWR_LS2_call ls_decay_amp ls_decay_amp_opt multi_doms_own MultiBWR_own multi_ref_mass polar Csum lmin hd Nat.min multi_doms multi_mix MultiBWR_from MultiBWR "
       "multi_bw_doms MultiBW_doc MultiBW_code BW bw_xy "
       "ls_barrier combine nth fold_right BWR2 Gamma2 Bprime_q2 bp_ratio bp polyval bprime_table "
       "Cscal Csqrt_real Cmul Cadd Cinv fst snd fold_left map Nat.mul Nat.add get_relative_p2")
TAC = tac(UNF)

BWR2_RTOL = 1e-8     # tf complex sqrt is only ~1e-8 accurate (same tolerance as the BWR2 particle cases of c15.py)
F32_RTOL = 1e-6      # Python-float q02 routed through float32 by tf.cast (decay path of MultiBWR with a configured mass)
D = 3.0

SPIN_SETS = [  # (J^P of R, spins of its daughters B, C) -> number of ls couplings
    ((1, -1), {"B": (0, -1), "C": (0, -1)}),          # 1 coupling (l = 1)
    ((1, 1), {"B": (1, -1), "C": (0, -1)}),           # 2 couplings
    ((1, 1), {"B": (1, -1), "C": (1, -1)}),           # 3 couplings
    ((0, 1), {"B": (0, -1), "C": (0, -1)}),           # 1 coupling (l = 0)
    ((2, 1), {"B": (1, -1), "C": (1, -1)}),           # more
]


def T(x):
    import tensorflow as tf
    return tf.constant([x], dtype=tf.float64)


def f1(x):
    return float(np.array(x).reshape(-1)[0])


def c1(x):
    return complex(np.array(x).reshape(-1)[0])


def Cq(z):
    z = complex(z)
    return "(%s, %s)" % (Rq(z.real), Rq(z.imag))


def nat_list(ls):
    return "[%s]%%nat" % "; ".join(str(int(l)) for l in ls)


class Recorder:
    """records the calls of tf_pwa.amp.split_ls.BWR2 made by the implementation (capture only)"""

    def __init__(self):
        import tf_pwa.amp.split_ls as sl
        self.sl = sl
        self.orig = sl.BWR2
        self.calls = []

    def __enter__(self):
        orig = self.orig

        def rec(m, m0, g0, q2, q02, l, d):
            out = orig(m, m0, g0, q2, q02, l, d)
            self.calls.append({"m0": f1(m0), "g0": f1(g0), "l": int(l), "d": float(d), "q02_is_pyfloat": isinstance(q02, float), "out": c1(out)})
            return out
        self.sl.BWR2 = rec
        return self

    def __exit__(self, *a):
        self.sl.BWR2 = self.orig
        return False


def build(model, spin_k, mf, extra, dopts=None):
    import ampkit
    from tf_pwa.config_loader import ConfigLoader
    (JR, PR), fb = SPIN_SETS[spin_k % len(SPIN_SETS)]
    res = {"R_BC": dict({"pair": "R_BC", "J": JR, "P": PR, "model": model}, **extra)}
    fin = {"B": fb["B"], "C": fb["C"], "D": (0, -1)}
    cfg = ampkit.three_body_config(2.2, mf, res, top=(1, -1), fin=fin, decay_opts={"R_BC": {"p_break": True}})
    if dopts:
        cfg["decay"]["R_BC"] = list(cfg["decay"]["R_BC"]) + [dict(dopts)]   # options of the decay R_BC -> B C itself
    config = ConfigLoader(cfg)
    amp = config.get_amplitude()
    part = [p for p in amp.decay_group.resonances if str(p) == "R_BC"][0]
    return amp, part, part.decay[0], fin


def hbf_name(has_bf):
    return "" if has_bf else ", has_barrier_factor=False"


def set_g_ls(amp, rnd):
    g = {}
    for kk in amp.get_params():
        if kk.startswith("R_BC->") and "g_ls" in kk and not kk.endswith("_0r") and not kk.endswith("_0i"):
            g[kk] = rnd.uniform(0.3, 2.0) if kk.endswith("r") else rnd.uniform(-3.0, 3.0)
    amp.set_params(g)


def decay_level(part, dec, m, mf):
    """ParticleDecayLS.get_ls_amp on one event; returns (outputs per coupling, g_ls, |q|2, |q0|2 left in the data dict)"""
    import warnings
    data = {}
    data_p = {part: {"m": T(m)}, dec.outs[0]: {"m": T(mf["B"])}, dec.outs[1]: {"m": T(mf["C"])}}
    with warnings.catch_warnings():
        warnings.simplefilter("ignore")
        out = np.array(dec.get_ls_amp(data, data_p)).reshape(-1)
    g = np.array(dec.get_g_ls()).reshape(-1)
    return [complex(v) for v in out], [complex(v) for v in g], f1(data["|q|2"]), f1(data["|q0|2"]), isinstance(data["|q0|2"], float)


def bwr_ls2_cases(ctx, rnd, n):
    from tf_pwa.amp.core import get_relative_p2 as grp2
    cases = []
    for k in range(n):
        mf = {"B": rnd.uniform(0.1, 0.3), "C": rnd.uniform(0.1, 0.3), "D": rnd.uniform(0.1, 0.2)}
        thr = mf["B"] + mf["C"]
        # the documented decay option has_barrier_factor: False ("removes q^l B_l'") must not remove the resonance line shape
        has_bf = (k % 2 == 0)
        amp, part, dec, fin = build("BWR_LS2", k, mf, {"mass": rnd.uniform(thr + 0.2, 1.6), "width": rnd.uniform(0.03, 0.3)},
                                    None if has_bf else {"has_barrier_factor": False})
        # parameters through the variable manager
        m0 = rnd.uniform(thr + 0.2, 1.6); g0 = rnd.uniform(0.03, 0.3)
        amp.set_params({"R_BC_mass": m0, "R_BC_width": g0})
        set_g_ls(amp, rnd)
        m0v, g0v = f1(part.get_mass()), f1(part.get_width())
        lsl = dec.get_ls_list()
        ls = [int(l) for l, _ in lsl]
        below = (k % 3 == 2)
        m = rnd.uniform(max(0.05, thr - 0.25), thr - 0.01) if below else rnd.uniform(thr + 0.05, 2.0)
        tag = "below" if below else "above"
        ctx.count("BWR_LS2:n_ls=%d:%s%s" % (len(ls), tag, hbf_name(has_bf)))
        base = {"m": m, "m0": m0v, "g0": g0v, "m1": mf["B"], "m2": mf["C"], "ls": ls, "below_threshold": below, "spins": str(fin)}
        # decay level first (the way an amplitude evaluates the model)
        outs, gls, q2d, q02d, _ = decay_level(part, dec, m, mf)
        for nm, val, mm in (("q2", q2d, m), ("q02", q02d, m0v)):
            cases.append(("ls2%s_%d" % (nm, k), real_stmt("get_relative_p2 %s %s %s" % (Rq(mm), Rq(mf["B"]), Rq(mf["C"])), val, atol=1e-13), TAC,
                          {"function": "ParticleDecayLS.get_ls_amp(BWR_LS2):|%s|2" % ("q" if nm == "q2" else "q0"), "args": dict(base), "impl": str(val)}))
        # direct: get_ls_amp with the decay's own q2 / q02
        vals = [c1(v) for v in part.get_ls_amp(T(m), lsl, T(q2d), T(q02d))]
        for i, v in enumerate(vals):
            expr = "BWR_LS2 %s %s %s %s %s %s %s %d" % (Rq(m), Rq(m0v), Rq(g0v), Rq(q2d), Rq(q02d), nat_list(ls), Rq(D), i)
            cases.append(("ls2_%d_%d" % (k, i), cplx_stmt(expr, v, rtol=BWR2_RTOL), TAC,
                          {"function": "Particle(model=BWR_LS2).get_ls_amp", "args": dict(base, coupling=i, q2=q2d, q02=q02d), "impl": str(v)}))
            # decay level: g_ls_i * R_i on numbers
            cases.append(("ls2d_%d_%d" % (k, i), cplx_stmt("ls_decay_amp_opt %s %s %s" % ("true" if has_bf else "false", Cq(gls[i]), Cq(v)), outs[i], rtol=1e-11), TAC,
                          {"function": "ParticleDecayLS.get_ls_amp(BWR_LS2%s)" % hbf_name(has_bf), "args": dict(base, coupling=i, g_ls=str(gls[i]), R_i=str(v), has_barrier_factor=has_bf), "impl": str(outs[i])}))
        # __call__(m): q2, q02 recomputed by the particle, l = 0
        v = [c1(x) for x in part(T(m))]
        q2c = f1(grp2(T(m), T(mf["B"]), T(mf["C"]))); q02c = f1(grp2(T(m0v), T(mf["B"]), T(mf["C"])))
        expr = "BWR_LS2_call %s %s %s %s %s %s" % (Rq(m), Rq(m0v), Rq(g0v), Rq(q2c), Rq(q02c), Rq(D))
        meta = {"function": "Particle(model=BWR_LS2).__call__", "args": dict(base, n_out=len(v)), "impl": str(v[0])}
        if len(v) != 1:
            cases.append(("ls2call_%d" % k, "(IZR %d = 1)%%R" % len(v), "reflexivity", meta))
        else:
            cases.append(("ls2call_%d" % k, cplx_stmt(expr, v[0], rtol=BWR2_RTOL), TAC, meta))
    return cases


def multibwr_cases(ctx, rnd, n, model="MultiBWR"):
    cases = []
    for k in range(n):
        mf = {"B": rnd.uniform(0.1, 0.3), "C": rnd.uniform(0.1, 0.3), "D": rnd.uniform(0.1, 0.2)}
        thr = mf["B"] + mf["C"]
        nres = 1 + (k % 3)
        no_mass = (k == n - 1)       # quirk: no "mass" configured -> q0 from the mean data mass
        extra = {"mass_list": [rnd.uniform(thr + 0.1, 1.8) for _ in range(nres)], "width_list": [rnd.uniform(0.03, 0.3) for _ in range(nres)]}
        qmass = None
        if not no_mass:
            qmass = rnd.uniform(thr + 0.1, 1.8)
            extra["mass"] = qmass
        has_bf = (k % 3 != 1)
        amp, part, dec, fin = build(model, k // 3 + k, mf, extra, None if has_bf else {"has_barrier_factor": False})
        lsl = dec.get_ls_list()
        ls = [int(l) for l, _ in lsl]
        # parameters through the variable manager (all of them, including the fixed coeff_0_0 in every other case)
        par = {}
        for j in range(nres):
            par["R_BC_com_mass_%d" % j] = rnd.uniform(thr + 0.1, 1.8)
            par["R_BC_com_width_%d" % j] = rnd.uniform(0.03, 0.3)
        pol = [[(1.0, 0.0) for _ in range(nres)] for _ in ls]
        for i in range(len(ls)):
            for j in range(nres):
                if (i, j) == (0, 0) and k % 2 == 0:
                    continue
                pol[i][j] = (rnd.uniform(0.3, 2.0), rnd.uniform(-3.0, 3.0))
                par["R_BC_coeff_%d_%dr" % (i, j)] = pol[i][j][0]
                par["R_BC_coeff_%d_%di" % (i, j)] = pol[i][j][1]
        amp.set_params(par)
        set_g_ls(amp, rnd)
        m0s = [f1(x) for x in part.all_mass()]; g0s = [f1(x) for x in part.all_width()]
        m = rnd.uniform(thr + 0.05, 2.0)
        if k % 3 == 2:
            m = m0s[-1]      # the last member at its own mass: i/(m0 Gamma0) (every member is a BWR normalised at ITS mass)
            ctx.count("%s:evaluated_at_last_member_mass" % model)
        ctx.count("%s:n_ls=%d:n_res=%d%s%s" % (model, len(ls), nres, ":no_mass" if no_mass else "", hbf_name(has_bf)))
        base = {"m": m, "mass_list": m0s, "width_list": g0s, "mass": qmass, "m1": mf["B"], "m2": mf["C"], "ls": ls, "coeff_polar": pol, "spins": str(fin)}
        lmin = min(ls)
        res_s = "[%s]" % "; ".join("(%s, %s)" % (Rq(a), Rq(b)) for a, b in zip(m0s, g0s))
        fn = "Particle(model=%s)" % model

        # ---- decay level (records the BWR2 values and barrier factors the implementation computes)
        bf_rec = []
        orig_bf = part.get_barrier_factor

        def rec_bf(ls_, q2_, q02_, d_, _o=orig_bf, _r=bf_rec):
            out = _o(ls_, q2_, q02_, d_)
            _r.append([f1(x) for x in out])
            return out
        part.get_barrier_factor = rec_bf
        try:
            with Recorder() as R:
                outs, gls, q2d, q02d, q02_py = decay_level(part, dec, m, mf)
            dec_calls = R.calls
        finally:
            del part.get_barrier_factor
        # the decay's reference momentum q0 is taken at the FIRST member's mass (get_mass() = all_mass()[0]): it does not depend on
        # an unrelated `mass:` entry nor - without one - on the masses of the other events of the batch
        qm = m0s[0]
        for nm, val, mm in (("q2", q2d, m), ("q02", q02d, qm)):
            cases.append(("mb%s_%d" % (nm, k), real_stmt("get_relative_p2 %s %s %s" % (Rq(mm), Rq(mf["B"]), Rq(mf["C"])), val, atol=1e-13), TAC,
                          {"function": "ParticleDecayLS.get_ls_amp(%s):|%s|2" % (model, "q" if nm == "q2" else "q0"), "args": dict(base), "impl": str(val)}))
        f32 = F32_RTOL if q02_py else BWR2_RTOL
        if q02_py:
            ctx.count("%s:decay_q02_is_python_float(float32 cast)" % model)
        ok_rec = (len(dec_calls) == nres and len(bf_rec) == 1 and len(bf_rec[0]) == len(ls))
        cases.append(("mbrec_%d" % k, "(IZR %d = IZR %d /\\ IZR %d = IZR %d)%%R" % (len(dec_calls), nres, len(bf_rec[0]) if bf_rec else -1, len(ls)), "split; reflexivity",
                      {"function": fn + ".get_ls_amp: one BWR2 per sub-resonance, one barrier factor per coupling", "args": dict(base), "impl": str((len(dec_calls), len(bf_rec)))}))
        if ok_rec:
            for j, cl in enumerate(dec_calls):
                expr = "nth %d (multi_doms_own %s %s %s %s (lmin %s) %s %s) (0, 0)" % (j, Rq(m), Rq(q2d), Rq(mf["B"]), Rq(mf["C"]), nat_list(ls), Rq(D), res_s)
                cases.append(("mbDd_%d_%d" % (k, j), cplx_stmt(expr, cl["out"], rtol=f32), TAC,
                              {"function": fn + " via decay: BWR2 of sub-resonance", "args": dict(base, sub=j, passed=dict((a, b) for a, b in cl.items() if a != "out")), "impl": str(cl["out"])}))
            for i, b in enumerate(bf_rec[0]):
                cases.append(("mbDb_%d_%d" % (k, i), real_stmt("ls_barrier %d %s %s %s" % (ls[i], Rq(q2d), Rq(q02d), Rq(D)), b, rtol=F32_RTOL if q02_py else 1e-11), TAC,
                              {"function": fn + " via decay: get_barrier_factor", "args": dict(base, coupling=i), "impl": str(b)}))
            coeff = [[complex(x) for x in row] for row in np.array(part.coeff())]
            for i, o in enumerate(outs):
                doms_s = "[%s]" % "; ".join(Cq(cl["out"]) for cl in dec_calls)
                cs_s = "[%s]" % "; ".join(Cq(c) for c in coeff[i])
                scale = abs(gls[i]) * abs(bf_rec[0][i]) * sum(abs(c) * abs(cl["out"]) for c, cl in zip(coeff[i], dec_calls))
                expr = "ls_decay_amp_opt %s %s (MultiBWR_from %s %s %s)" % ("true" if has_bf else "false", Cq(gls[i]), Rq(bf_rec[0][i]), cs_s, doms_s)
                cases.append(("mbD_%d_%d" % (k, i), cplx_stmt(expr, o, rtol=0, atol=1e-11 * scale + 1e-300), TAC,
                              {"function": "ParticleDecayLS.get_ls_amp(%s%s)" % (model, hbf_name(has_bf)), "args": dict(base, coupling=i, g_ls=str(gls[i])), "impl": str(o)}))

        # ---- direct, float64 tensors
        with Recorder() as R:
            vals = [c1(v) for v in part.get_ls_amp(T(m), lsl, T(q2d), T(q02d), D)]
        calls = R.calls
        bfs = [f1(x) for x in part.get_barrier_factor(lsl, T(q2d), T(q02d), D)]
        coeff = [[complex(x) for x in row] for row in np.array(part.coeff())]
        # polar coefficients: one goal per configuration
        st = []
        for i in range(len(ls)):
            for j in range(nres):
                st.append(cplx_stmt("polar %s %s" % (Rq(pol[i][j][0]), Rq(pol[i][j][1])), coeff[i][j], rtol=1e-12, atol=1e-15))
        cases.append(("mbc_%d" % k, "(" + " /\\ ".join(st) + ")", TAC,
                      {"function": fn + ".coeff()", "args": dict(base), "impl": str(coeff)}))
        if len(calls) == nres:
            for j, cl in enumerate(calls):
                expr = "nth %d (multi_doms_own %s %s %s %s (lmin %s) %s %s) (0, 0)" % (j, Rq(m), Rq(q2d), Rq(mf["B"]), Rq(mf["C"]), nat_list(ls), Rq(D), res_s)
                cases.append(("mbd_%d_%d" % (k, j), cplx_stmt(expr, cl["out"], rtol=BWR2_RTOL), TAC,
                              {"function": fn + ".get_ls_amp: BWR2 of sub-resonance", "args": dict(base, sub=j, passed=dict((a, b) for a, b in cl.items() if a != "out")), "impl": str(cl["out"])}))
        else:
            cases.append(("mbd_%d" % k, "(IZR %d = IZR %d)%%R" % (len(calls), nres), "reflexivity",
                          {"function": fn + ".get_ls_amp: one BWR2 per sub-resonance", "args": dict(base), "impl": str(len(calls))}))
        for i, b in enumerate(bfs):
            cases.append(("mbb_%d_%d" % (k, i), real_stmt("ls_barrier %d %s %s %s" % (ls[i], Rq(q2d), Rq(q02d), Rq(D)), b, rtol=1e-11), TAC,
                          {"function": fn + ".get_barrier_factor", "args": dict(base, coupling=i), "impl": str(b)}))
        for i, v in enumerate(vals):
            if len(calls) == nres and len(bfs) == len(ls):
                doms_s = "[%s]" % "; ".join(Cq(cl["out"]) for cl in calls)
                cs_s = "[%s]" % "; ".join(Cq(c) for c in coeff[i])
                scale = abs(bfs[i]) * sum(abs(c) * abs(cl["out"]) for c, cl in zip(coeff[i], calls))
                cases.append(("mbs_%d_%d" % (k, i), cplx_stmt("MultiBWR_from %s %s %s" % (Rq(bfs[i]), cs_s, doms_s), v, rtol=0, atol=1e-11 * scale + 1e-300), TAC,
                              {"function": fn + ".get_ls_amp (weighted sum)", "args": dict(base, coupling=i), "impl": str(v)}))
            # end to end (only small goals): parameters -> value
            if nres <= 2 and lmin <= 2 and ls[i] <= 2:
                co_s = "[%s]" % "; ".join("[%s]" % "; ".join("polar %s %s" % (Rq(r), Rq(p)) for r, p in row) for row in pol)
                expr = "MultiBWR_own %s %s %s %s %s %s %s %s %s %d" % (Rq(m), Rq(q2d), Rq(q02d), Rq(mf["B"]), Rq(mf["C"]), nat_list(ls), Rq(D), res_s, co_s, i)
                scale = abs(bfs[i]) * sum(abs(c) * abs(cl["out"]) for c, cl in zip(coeff[i], calls)) if len(calls) == nres else abs(v)
                cases.append(("mbf_%d_%d" % (k, i), cplx_stmt(expr, v, rtol=0, atol=BWR2_RTOL * scale + 1e-300), TAC,
                              {"function": fn + ".get_ls_amp (end to end)", "args": dict(base, coupling=i, q2=q2d, q02=q02d), "impl": str(v)}))
    return cases


def known_cases(ctx):
    """MultiBW is documented as a combination of constant-width BW; before /repo fix 4a6337b the code never called its
    dom_fun and evaluated MultiBWR.  The fixed reproducer of that defect, tied to the DOCUMENTED model (regular case now)."""
    mf = {"B": 0.2, "C": 0.15, "D": 0.12}
    amp, part, dec, fin = build("MultiBW", 3, mf, {"mass": 1.0, "mass_list": [0.9], "width_list": [0.1]})
    lsl = dec.get_ls_list()
    from tf_pwa.amp.core import get_relative_p2 as grp2
    m = 0.8
    q2 = f1(grp2(T(m), T(mf["B"]), T(mf["C"]))); q02 = f1(grp2(T(1.0), T(mf["B"]), T(mf["C"])))
    v = c1(part.get_ls_amp(T(m), lsl, T(q2), T(q02), D)[0])
    expr = "MultiBW_doc %s %s %s %s %s [(%s, %s)] [[polar 1 0]] 0" % (Rq(m), Rq(q2), Rq(q02), nat_list([l for l, _ in lsl]), Rq(D), Rq(0.9), Rq(0.1))
    return [("mbw_known", cplx_stmt(expr, v, rtol=BWR2_RTOL), TAC,
             {"function": "Particle(model=MultiBW).get_ls_amp", "args": {"m": m, "mass_list": [0.9], "width_list": [0.1], "mass": 1.0, "m1": 0.2, "m2": 0.15}, "impl": str(v),
              "documented_value": str(1 / (0.81 - m * m - 1j * 0.9 * 0.1))})]


def cases(ctx, rnd, quick):
    """correspondence cases for BWR_LS2 and MultiBWR; the open MultiBW finding is separate: known_cases(ctx)"""
    import bootstrap
    bootstrap.tf_quiet()
    n = 6 if quick else 40
    out = bwr_ls2_cases(ctx, rnd, n)
    out += multibwr_cases(ctx, rnd, n)
    ids = [c[0] for c in out]
    assert len(ids) == len(set(ids))
    return out


def standalone(seed=0, quick=True, known=False):
    """run the cases of this module alone (VERIF_BUILD_DIR should point to a private directory)"""
    import os
    import time
    if not os.environ.get("VERIF_BUILD_DIR"):
        common.BUILD = os.path.join(common.VERIF, "build", "c15x")
    ctx = common.Ctx("C15", "quick" if quick else "thorough", seed)
    rnd = random.Random(seed * 1000003 + 1515)
    t0 = time.time()
    cs = cases(ctx, rnd, quick)
    if known:
        cs += known_cases(ctx)
    t1 = time.time()
    res = common.coq_cases(ctx, "extra", HEADER + EXTRA_HEADER, [c[:3] for c in cs], per_file=12, case_timeout=40)
    t2 = time.time()
    bad = [(c[0], res[c[0]], c[3]["function"]) for c in cs if res[c[0]] != "OK"]
    print("cases=%d ok=%d non-OK=%d  impl %.1fs  coq %.1fs" % (len(cs), len(cs) - len(bad), len(bad), t1 - t0, t2 - t1))
    for k, v in sorted(ctx.dist.items()):
        print("  ", k, v)
    for b in bad:
        print("NON-OK", *b)
    for nn in ctx.notes:
        print("note:", nn[:300])
    return bad
