"""C19 - a configuration determines the model deterministically and completely.

Theorems: coq/Props/Properties_C19.v (chain enumeration = trees of declared decays, cut exact,
alias / include / candidate-list expansion, key order).
Tie: generated config dicts over the decay-card grammar (3- and 4-body, candidate lists per
resonance slot incl. inline property dicts and nested maps, per-decay options, $include via
share_dict, key aliases, key-order permutations) are loaded with ConfigLoader(dict) twice in this
process and once in a fresh subprocess; get_decay() chains with (l,s) lists, quantum numbers,
parameter names and trainable variables are compared with the model *inside Coq*; repeated loads
with each other exactly; as_config export -> load reproduces chains and quantum numbers;
hand-expanded configs (no alias / include / candidate list) load to the same chains.
Also observed: the decay / creators lists left in the particle objects of the loaded chains (the cut must
remove a chain completely; tied to the model by sdecs_ok), and the export made after get_amplitude()
(plain values; loading it gives the same chains and parameter names).  A resonance may be a candidate of
several slots; one resonance may be defined in the main file and in two included files with different alias
spellings.  Open finding with a fixed reproducer (same_decay_two_slots_case): the same decay declared under
two slot keys with different options / daughter order makes the model depend on the key order."""
import copy
import itertools
import json
import os
import random
import subprocess
import sys
from fractions import Fraction

_H = os.path.dirname(os.path.dirname(os.path.abspath(__file__)))
if _H not in sys.path:
    sys.path.insert(0, _H)
import bootstrap  # noqa: E402
import common  # noqa: E402

TECHNIQUE = ("Coq proof (list theory: n-ary product, tree characterisation of chain_decay, dict algebra for aliases/includes, "
             "cut via the C13 (l,s) model) with Coq-evaluated correspondence on generated configurations and repeated / fresh-process loads")

HEADER = ("From Coq Require Import List Arith ZArith Bool.\nFrom TFV Require Import Comb.LS Comb.Config.\n"
          "Import ListNotations.\nOpen Scope Z_scope.\n")

# --------------------------------------------------------------------------- generator

FINAL_POOL = ["B", "C", "D", "E", "pi", "K", "p", "mu"]
RES_POOL = ["Zc", "Ds", "X", "Lc", "N", "Y", "Psi", "D1", "D2", "f0", "rho", "Kst"]
ALIAS = {"P": "Par", "mass": "m0", "width": "g0"}


def rand_tree(rnd, leaves):
    """random binary tree over leaves (nested tuples)"""
    ls = list(leaves)
    rnd.shuffle(ls)
    while len(ls) > 1:
        i, j = sorted(rnd.sample(range(len(ls)), 2))
        b = ls.pop(j)
        a = ls.pop(i)
        ls.append((a, b))
    return ls[0]


def tree_leaves(t):
    if isinstance(t, tuple):
        return tree_leaves(t[0]) + tree_leaves(t[1])
    return [t]


def jfmt(rnd, twoj):
    if twoj % 2 == 0:
        return twoj // 2
    return rnd.choice(["%d/2" % twoj, twoj / 2])


def gen_config(rnd, quick, cpar=False):
    n = rnd.choice([3, 3, 4])
    finals = rnd.sample(FINAL_POOL, n)
    twoj = {f: rnd.choice([0, 0, 2, 1]) for f in finals}
    if sum(twoj.values()) % 2:
        odd = [f for f in finals if twoj[f] % 2]
        twoj[odd[0]] = rnd.choice([0, 2])
    top = "A"
    key = lambda k: ALIAS[k] if (k in ALIAS and rnd.random() < 0.4) else k  # noqa: E731

    def props(tj, res):
        d = {"J": jfmt(rnd, tj), key("P"): rnd.choice([1, -1])}
        d[key("mass")] = round(rnd.uniform(0.1, 5.0), 3)
        if res:
            d[key("width")] = round(rnd.uniform(0.01, 0.3), 3)
            if rnd.random() < (0.7 if cpar else 0.25):
                d["C"] = rnd.choice([1, -1])
            if rnd.random() < 0.15:
                d["float"] = rnd.choice([["m"], ["g"], ["m", "g"], "mg"])
                d["m_max"] = 6.0
                d["m_min"] = 0.05
            if rnd.random() < 0.2:
                d["model"] = "BWR"
        items = list(d.items())
        rnd.shuffle(items)
        return dict(items)

    ntree = rnd.choice([1, 2, 2, 3])
    trees = [rand_tree(rnd, finals) for _ in range(ntree)]
    slot_of = {}

    def slot(t):
        lv = tuple(sorted(tree_leaves(t)))
        if lv not in slot_of:
            slot_of[lv] = "R_" + "".join(lv)
        return slot_of[lv]

    decay = {}  # core -> list of alternatives (each list of items)
    def visit(t, core):
        a, b = t
        outs = []
        for c in (a, b):
            if isinstance(c, tuple):
                outs.append(slot(c))
                visit(c, slot(c))
            else:
                outs.append(c)
        if rnd.random() < 0.3:
            outs = outs[::-1]
        alt = list(outs)
        opts = {}
        if rnd.random() < 0.3:
            opts["p_break"] = rnd.random() < 0.8
        if rnd.random() < (0.75 if cpar else 0.15):
            opts["c_break"] = False
        if rnd.random() < 0.15:
            opts["l_list"] = sorted(rnd.sample(range(0, 4), rnd.randrange(1, 3)))
        if rnd.random() < 0.08:
            opts["ls_list"] = [[l, s] for l, s in rnd.sample([(0, 0), (0, 1), (1, 1), (2, 1), (1, 0), (2, 2)], rnd.randrange(1, 3))]
        if rnd.random() < 0.15:
            k = rnd.choice(["curve_style", "model"])
            opts[k] = "default" if k == "model" else "r-"
        if opts:
            ks = list(opts.items())
            if len(ks) > 1 and rnd.random() < 0.4:  # two option dicts
                alt.insert(rnd.randrange(0, 3), dict(ks[:1]))
                alt.append(dict(ks[1:]))
            else:
                alt.append(dict(ks))
        alts = decay.setdefault(core, [])
        if not any([x for x in a2 if isinstance(x, str)] == [x for x in alt if isinstance(x, str)] for a2 in alts) or rnd.random() < 0.3:
            alts.append(alt)

    for t in trees:
        visit(t, top)
    dsec = {}
    for core, alts in decay.items():
        if len(alts) == 1 and rnd.random() < 0.6:
            dsec[core] = alts[0]
        else:
            dsec[core] = alts
    # resonances per slot
    particle, inc = {}, {}
    leaves_of = {v: k for k, v in slot_of.items()}
    used_names = set(finals) | {top} | set(slot_of.values())
    allres = []
    res_leaves = {}   # resonance -> leaf sets of the slots it is a candidate of
    modes = {sl: rnd.choice(["list", "list", "list", "self", "nested", "empty"] if len(leaves_of) > 1 else ["list", "list", "self", "nested"])
             for sl in leaves_of}
    for sl, lv in leaves_of.items():
        tj_par = sum(twoj[f] for f in lv) % 2
        mode = modes[sl]
        if mode == "self":
            pr = props(rnd.choice([0, 2, 4]) + tj_par, True)
            (inc if rnd.random() < 0.3 else particle)[sl] = pr
            continue
        if mode == "empty":
            particle[sl] = []
            continue
        k = rnd.randrange(1, 4)
        names = []
        # a resonance may be a candidate of several slots (not of nested ones: a particle must not be its
        # own ancestor); its properties are declared once.  Two slot keys never have the same daughters, so
        # the same decay is never declared twice under different keys (open finding, see open_finding_cases)
        reuse = [r for r, lvs in res_leaves.items() if not any(set(lv2) <= set(lv) or set(lv) <= set(lv2) for lv2 in lvs)]
        shared = []
        if reuse and rnd.random() < 0.25:
            shared = rnd.sample(sorted(set(reuse)), min(len(set(reuse)), rnd.randrange(1, 3)))
        for _ in range(k):
            nm = rnd.choice(RES_POOL) + rnd.choice(["1", "2", "_2460", "(4025)", "p", "0"])
            if nm in used_names:
                continue
            used_names.add(nm)
            names.append(nm)
        if not names:
            modes[sl] = "empty"
            particle[sl] = []
            continue
        for nm in names + shared:
            res_leaves.setdefault(nm, []).append(lv)
        cand = []
        base_jp = None
        for nm in names:
            pr = props(rnd.choice([0, 2, 4]) + tj_par, True)
            if cpar:
                # C-parity family: the candidates of one slot share J and P and differ (at most) in C
                jp = {k: v for k, v in pr.items() if k in ("J", "P", "Par")}
                if base_jp is None:
                    base_jp = jp
                else:
                    pr = dict(base_jp, **{k: v for k, v in pr.items() if k not in ("J", "P", "Par")})
            allres.append(nm)
            where = rnd.choice(["main", "main", "inc", "both", "inline"])
            if where == "inline":
                cand.append(nm)
                cand.append({nm: pr})
                continue
            cand.append(nm)
            if where == "main":
                particle[nm] = pr
            elif where == "inc":
                inc[nm] = pr
            else:
                inc[nm] = pr
                over = {}
                for kk in rnd.sample(list(pr), rnd.randrange(1, len(pr) + 1)):
                    if kk in ("J", "P", "Par"):
                        continue
                    ck = {v: k2 for k2, v in ALIAS.items()}.get(kk, kk)
                    nk = key(ck)
                    over[nk] = round(pr[kk] * 1.1, 3) if isinstance(pr[kk], float) else pr[kk]
                # never both alias and canonical key inside ONE dict
                particle[nm] = over if over else {key("mass"): 1.234}
        for nm in shared:
            cand.insert(rnd.randrange(len(cand) + 1), nm)
        nest_targets = [s for s in leaves_of if s != sl and modes[s] in ("list", "nested")]
        if mode == "nested" and nest_targets:
            # (a slot declared `[]` AND extended through a nested map is key-order dependent in the
            #  implementation: excluded from the grammar, reported separately)
            other = rnd.choice(nest_targets)
            extra = rnd.choice(RES_POOL) + "n" + str(rnd.randrange(9))
            if extra not in used_names:
                used_names.add(extra)
                tjo = sum(twoj[f] for f in leaves_of[other]) % 2
                particle[extra] = props(rnd.choice([0, 2]) + tjo, True)
                cand.append({other: [extra]})
        particle[sl] = cand
    # enforce the stated exclusion (a slot declared `[]` is not also extended through a nested map): a slot can
    # turn out empty after another slot chose it as its nest target
    for sl0 in [k for k, v in particle.items() if v == []]:
        for k, v in particle.items():
            if isinstance(v, list) and any(isinstance(c, dict) and sl0 in c and isinstance(c[sl0], list) for c in v):
                particle[k] = [c for c in v if not (isinstance(c, dict) and sl0 in c and isinstance(c[sl0], list))]
    # key order of the particle section
    items = list(particle.items())
    rnd.shuffle(items)
    psec = {}
    tj_top = sum(twoj.values()) % 2 + rnd.choice([0, 2])
    topp = props(tj_top, False)
    psec["$top"] = {top: topp}
    fin = {f: props(twoj[f], False) for f in finals}
    psec["$finals"] = fin
    share = {}
    # includes and aliases together: one resonance defined in the main file AND in two included files, each
    # with its own spelling (m0 / mass, g0 / width, Par / P) and its own values: the main file wins, then the
    # first include, per canonical key
    clash = None
    plain = [r for r in allres if (r in inc) != (r in particle) and isinstance((inc.get(r) or particle.get(r)), dict)]
    if plain and rnd.random() < 0.4:
        r = rnd.choice(plain)
        full = canon_props(inc.pop(r) if r in inc else particle[r])
        def respell(d):
            items = [(key(kk), vv) for kk, vv in d.items()]
            rnd.shuffle(items)
            return dict(items)
        e1 = respell(full)
        e2 = respell({kk: (round(vv * 2.25, 3) if kk in ("mass", "width") else vv) for kk, vv in full.items()
                      if kk in ("mass", "width") or rnd.random() < 0.5})
        own = respell({kk: round(full[kk] * 0.8, 3) for kk in rnd.sample(["mass", "width"], rnd.randrange(1, 3))})
        clash = (r, e1, e2)
        particle[r] = own
        items = [(k, v) for k, v in items if k != r]
        items.insert(rnd.randrange(len(items) + 1), (r, own))
    if clash:
        ks = list(inc)
        h = len(ks) // 2
        psec["$include"] = ["res1.yml", "res2.yml"]
        share["res1.yml"] = {k: inc[k] for k in ks[:h]}
        share["res2.yml"] = {k: inc[k] for k in ks[h:]}
        for f, e in (("res1.yml", clash[1]), ("res2.yml", clash[2])):
            its = list(share[f].items())
            its.insert(rnd.randrange(len(its) + 1), (clash[0], e))
            share[f] = dict(its)
    elif inc:
        if rnd.random() < 0.5 or len(inc) < 2:
            psec["$include"] = "res.yml"
            share["res.yml"] = inc
        else:
            ks = list(inc)
            h = len(ks) // 2
            psec["$include"] = ["res1.yml", "res2.yml"]
            share["res1.yml"] = {k: inc[k] for k in ks[:h]}
            share["res2.yml"] = {k: inc[k] for k in ks[h:]}
            # a key defined in both files: the first include wins
            k0 = ks[0]
            share["res2.yml"][k0] = dict(inc[k0], **{"J": inc[k0]["J"]})
    for k, v in items:
        psec[k] = v
    ditems = list(dsec.items())
    rnd.shuffle(ditems)
    cfg = {"data": {"dat_order": list(finals)}, "decay": dict(ditems), "particle": psec}
    return cfg, share


# --------------------------------------------------------------------------- dict -> Coq AST


class Names:
    def __init__(self):
        self.code = {}

    def __call__(self, s):
        s = str(s)
        if s not in self.code:
            self.code[s] = len(self.code) + 1
        return self.code[s]


def twoj_of(v):
    if isinstance(v, str):
        v = Fraction(v)
    return int(round(2 * float(v)))


def micro(v):
    return int(round(float(v) * 1e6))


def zt(z):
    return "(%d)" % z if z < 0 else str(z)


def props_term(p, nm):
    out = []
    for k, v in p.items():
        if k == "J":
            out.append("(KJ,%s)" % zt(twoj_of(v)))
        elif k in ("P", "Par", "C"):
            out.append("(%s,%s)" % ({"P": "KP", "Par": "KPar", "C": "KC"}[k], zt(int(v))))
        elif k in ("mass", "m0", "width", "g0"):
            out.append("(%s,%s)" % ({"mass": "KMass", "m0": "KM0", "width": "KWidth", "g0": "KG0"}[k], zt(micro(v))))
        elif k == "float":
            out.append("(KFloat,%d)" % ((1 if "m" in v else 0) + (2 if "g" in v else 0)))
        else:
            out.append("(KOther %d,0)" % nm("key:" + k))
    return "[%s]" % ";".join(out)


def opts_term(o, nm):
    out = []
    for k, v in o.items():
        if k == "p_break":
            out.append("OPbreak %s" % str(bool(v)).lower())
        elif k == "c_break":
            out.append("OCbreak %s" % str(bool(v)).lower())
        elif k == "l_list":
            out.append("OLlist [%s]" % ";".join(zt(int(x)) for x in v))
        elif k == "ls_list":
            out.append("OLslist [%s]" % ";".join("(%s,%s)" % (zt(int(l)), zt(twoj_of(s))) for l, s in v))
        else:
            out.append("OOther %d" % nm("key:" + k))
    return "[%s]" % ";".join(out)


def ditem_term(i, nm):
    if isinstance(i, dict):
        return "DOpts %s" % opts_term(i, nm)
    return "DName %d" % nm(i)


def psection_term(sec, nm):
    ents = []
    for k, v in sec.items():
        if isinstance(v, dict):
            ents.append("(%d, PVProps %s)" % (nm(k), props_term(v, nm)))
        else:
            cs = []
            for c in v:
                if isinstance(c, dict):
                    for kk, vv in c.items():
                        if isinstance(vv, dict):
                            cs.append("CProps %d %s" % (nm(kk), props_term(vv, nm)))
                        else:
                            cs.append("CSub %d [%s]" % (nm(kk), ";".join(str(nm(x)) for x in vv)))
                else:
                    cs.append("CName %d" % nm(c))
            ents.append("(%d, PVList [%s])" % (nm(k), ";".join(cs)))
    return "[%s]" % ";".join(ents)


def config_term(cfg, share, nm):
    ds = []
    for core, outs in cfg["decay"].items():
        es = []
        for e in outs:
            if isinstance(e, list):
                es.append("EList [%s]" % ";".join(ditem_term(i, nm) for i in e))
            else:
                es.append("EItem (%s)" % ditem_term(e, nm))
        ds.append("(%d,[%s])" % (nm(core), ";".join(es)))
    ps = dict(cfg["particle"])
    top = ps.pop("$top")
    fin = ps.pop("$finals")
    inc = ps.pop("$include", None)
    if isinstance(top, dict):
        (tn, tp), = top.items()
        tterm = "%d (Some %s)" % (nm(tn), props_term(tp, nm))
    else:
        tterm = "%d None" % nm(top[0] if isinstance(top, list) else top)
    if isinstance(fin, dict):
        fterm = "[%s]" % ";".join("(%d, Some %s)" % (nm(k), props_term(v, nm)) for k, v in fin.items())
    else:
        fterm = "[%s]" % ";".join("(%d, None)" % nm(k) for k in fin)
    incs = [] if not inc else ([inc] if isinstance(inc, str) else list(inc))
    iterm = "[%s]" % ";".join(psection_term(share[i], nm) for i in incs)
    return "(mkC [%s] %s %s %s %s)" % (";".join(ds), tterm, fterm, psection_term(ps, nm), iterm)


# --------------------------------------------------------------------------- observation of one load


def pstr(p):
    return str(p)


def observe(cfg, share, amplitude=True, live=None):
    """load once; everything JSON-able (live: dict that receives the un-serialised export made AFTER
    the amplitude was built)"""
    from tf_pwa.config_loader import ConfigLoader

    out = {}
    try:
        c = ConfigLoader(copy.deepcopy(cfg), share_dict=copy.deepcopy(share))
    except (RuntimeError, KeyError, AssertionError) as e:
        # no chain survives: RuntimeError("not decay chain aviable"), or already KeyError / AssertionError
        # when the top / a final particle no longer occurs in any declared decay
        return {"error": type(e).__name__, "msg": str(e)[:200]}
    dg = c.get_decay()
    chains, pinfo = [], {}
    for ch in dg:
        decs = []
        for d in ch:
            decs.append([pstr(d.core), [pstr(o) for o in d.outs], [[int(l), twoj_of(s)] for l, s in d.get_ls_list()]])
            for p in [d.core] + list(d.outs):
                cc = getattr(p, "C", None)
                pinfo[pstr(p)] = [twoj_of(p.J), int(p.P), None if cc is None else int(cc),
                                  None if p.mass is None else micro(p.mass), None if p.width is None else micro(p.width)]
        chains.append(decs)
    out["chains"] = chains
    out["pinfo"] = pinfo
    # state left in the particle objects of the loaded chains: their decay / creators lists
    parts = {}
    for ch in dg:
        for d in ch:
            for p in [d.core] + list(d.outs):
                parts[id(p)] = p
    out["pdecays"] = sorted(set((pstr(d.core), tuple(pstr(o) for o in d.outs)) for p in parts.values() for d in p.decay))
    out["pcreators"] = sorted(set((pstr(d.core), tuple(pstr(o) for o in d.outs)) for p in parts.values() for d in p.creators))
    out["pdecays"] = [[c, list(o)] for c, o in out["pdecays"]]
    out["pcreators"] = [[c, list(o)] for c, o in out["pcreators"]]
    out["export"] = json.loads(json.dumps(dg.as_config(), default=lambda o: list(o) if isinstance(o, tuple) else str(o)))
    out["struct_chains"] = [[[pstr(d.core), [pstr(o) for o in d.outs]] for d in ch] for ch in c.get_decay(False)]
    if amplitude:
        amp = c.get_amplitude()
        out["params"] = list(amp.get_params().keys())
        out["trainable"] = list(c.vm.trainable_vars)
        out["bound"] = sorted((k, list(v)) for k, v in c.bound_dic.items())
        out["decay_lists"] = sorted((pstr(p), len(p.decay), len(p.creators)) for p in dg.resonances)
        exp2 = dg.as_config()
        # an export is a configuration: plain numbers / strings / None only, no live fit variables
        out["export_after_live"] = sorted("%s.%s:%s" % (k, kk, type(vv).__name__) for k, v in exp2["particle"].items() if isinstance(v, dict)
                                          for sec in ([v] if k not in ("$top", "$finals") else list(v.values())) if isinstance(sec, dict)
                                          for kk, vv in sec.items() if not (vv is None or isinstance(vv, (bool, int, float, str, list, tuple, dict))))
        if live is not None:
            live["export_after"] = exp2
    return out


def worker(inp, outp):
    bootstrap.tf_quiet()
    cases = json.load(open(inp))
    res = {}
    for cid in reversed(list(cases)):  # other order than the parent process
        cfg, share = cases[cid]
        try:
            res[cid] = observe(cfg, share)
        except Exception as e:
            res[cid] = {"error": type(e).__name__, "msg": repr(e)[:300]}
    json.dump(res, open(outp, "w"))


# --------------------------------------------------------------------------- expanded form (independent re-statement of the documentation)


def canon_props(p):
    inv = {v: k for k, v in ALIAS.items()}
    out = {}
    for k, v in p.items():
        out[inv.get(k, k)] = v
    return out


def expand_config(cfg, share):
    """no aliases, no $include, no candidate lists: every decay card written out for every
    candidate, property dicts only (main file overrides included file, first include wins)"""
    ps = copy.deepcopy(cfg["particle"])
    top = ps.pop("$top")
    fin = ps.pop("$finals")
    inc = ps.pop("$include", None)
    incs = [] if not inc else ([inc] if isinstance(inc, str) else list(inc))
    prop, cmap = {}, {}
    def add_prop(k, v, override):
        cur = prop.get(k, {})
        new = canon_props(v)
        prop[k] = dict(cur, **new) if override else dict(new, **cur)
    # main file first (it wins), then includes in order (earlier wins)
    def scan(sec, is_main):
        for k, v in sec.items():
            if isinstance(v, dict):
                if is_main:
                    prop[k] = canon_props(v)      # a later definition in the same file replaces
                else:
                    add_prop(k, v, False)
            else:
                if not is_main and k in ps:
                    continue
                if len(v) == 0:
                    cmap[k] = []
                for c in v:
                    if isinstance(c, dict):
                        for kk, vv in c.items():
                            if isinstance(vv, dict):
                                prop[kk] = canon_props(vv)
                            else:
                                cmap[kk] = cmap.get(kk, []) + list(vv)
                    else:
                        cmap[k] = cmap.get(k, []) + [c]
    scan(ps, True)
    for i in incs:
        scan(share[i], False)
    for k, v in list(top.items()) + list(fin.items()):
        prop[k] = canon_props(v)
    dec = {}
    for core, outs in cfg["decay"].items():
        alts = outs if all(isinstance(i, list) for i in outs) else [outs]
        for alt in alts:
            names = [x for x in alt if not isinstance(x, dict)]
            opts = {}
            for x in alt:
                if isinstance(x, dict):
                    opts.update(x)
            for c in cmap.get(core, [core]):
                for combo in itertools.product(*[cmap.get(o, [o]) for o in names]):
                    dec.setdefault(c, []).append(list(combo) + ([opts] if opts else []))
    # drop dead ends (a candidate of a slot whose own card vanished because a daughter slot is `[]`):
    # in the implementation such a particle stays an undecayed leaf and the chain is filtered out
    changed = True
    while changed:
        changed = False
        for k in list(dec):
            keep = [alt for alt in dec[k] if all(isinstance(y, dict) or y in fin or y in dec for y in alt)]
            if len(keep) != len(dec[k]):
                changed = True
                if keep:
                    dec[k] = keep
                else:
                    del dec[k]
    reach, todo = set(), list(top)
    while todo:
        x = todo.pop()
        if x in reach:
            continue
        reach.add(x)
        for alt in dec.get(x, []):
            todo += [y for y in alt if not isinstance(y, dict)]
    dec = {k: v for k, v in dec.items() if k in reach}
    psec = {"$top": {k: prop[k] for k in top}, "$finals": {k: prop[k] for k in fin}}
    for k, v in prop.items():
        if k not in top and k not in fin:
            psec[k] = v
    return {"data": cfg.get("data", {}), "decay": dec, "particle": psec}, {}


def permute_keys(cfg, rnd):
    c = copy.deepcopy(cfg)
    d = list(c["decay"].items())
    rnd.shuffle(d)
    c["decay"] = dict(d)
    p = list(c["particle"].items())
    rnd.shuffle(p)
    c["particle"] = dict(p)
    return c


def chain_set(obs):
    if "error" in obs:
        return "ERROR"
    return sorted(sorted((d[0], tuple(sorted(d[1])), tuple(map(tuple, d[2]))) for d in ch) for ch in obs["chains"])


def struct_set(obs):
    if "error" in obs:
        return "ERROR"
    return sorted(sorted((d[0], tuple(sorted(d[1]))) for d in ch) for ch in obs["chains"])


# --------------------------------------------------------------------------- Coq statements


def parse_pid(s, nm):
    parts = s.split(":")
    if len(parts) > 1 and parts[-1].isdigit():
        return "(%d,%d)" % (nm(":".join(parts[:-1])), int(parts[-1]))
    return "(%d,0)" % nm(s)


def chains_term(obs, nm):
    if "error" in obs:
        return "None"
    chs = []
    for ch in obs["chains"]:
        ds = []
        for core, outs, ls in ch:
            ds.append("(%s,[%s],[%s])" % (parse_pid(core, nm), ";".join(parse_pid(o, nm) for o in outs), ";".join("(%d,%d)" % (l, s) for l, s in ls)))
        chs.append("[%s]" % ";".join(ds))
    return "(Some [%s])" % ";".join(chs)


def param_terms(obs, names, nm):
    """map the implementation's parameter-name strings to structured names through the table of
    all names that the observed chains can produce (rendering = amp/core.py get_name)"""
    def rn(s):
        return s.replace(":", "/").replace("+", ".").replace(",", "").replace("[", "").replace("]", "").replace(" ", "")
    table = {}
    for ch in obs["chains"]:
        cname = "".join("%s->%s" % (c, "+".join(o)) for c, o, _ in ch)
        st = "[%s]" % ";".join("(%s,[%s])" % (parse_pid(c, nm), ";".join(parse_pid(x, nm) for x in o)) for c, o, _ in ch)
        table[rn(cname + "_total_0r")] = "PTotal %s true" % st
        table[rn(cname + "_total_0i")] = "PTotal %s false" % st
        for c, o, ls in ch:
            dn = "%s->%s" % (c, "+".join(o))
            for i in range(64):
                for re_, b in (("r", "true"), ("i", "false")):
                    table[rn("%s_g_ls_%d%s" % (dn, i, re_))] = "PGls %s [%s] %d%%nat %s" % (parse_pid(c, nm), ";".join(parse_pid(x, nm) for x in o), i, b)
            for p in [c] + o:
                table[rn(p + "_mass")] = "PMass %s" % parse_pid(p, nm)
                table[rn(p + "_width")] = "PWidth %s" % parse_pid(p, nm)
    out = []
    for s in names:
        out.append(table.get(s, "PMass (%d,0)" % nm("unknown-param:" + s)))
    return "[%s]" % ";".join(out)


def case_statements(cid, cfg, share, obs):
    nm = Names()
    ct = config_term(cfg, share, nm)
    st = [(cid + "_chains", "chains_eqb (load_chains %s) %s = true" % (ct, chains_term(obs, nm)), "ConfigLoader.get_decay")]
    if "error" not in obs:
        pi = []
        for p, (j, par, cc, m, w) in obs["pinfo"].items():
            base = p.split(":")[0] if p.split(":")[-1].isdigit() and ":" in p else p
            o = lambda v: "None" if v is None else "(Some %s)" % zt(v)  # noqa: E731
            pi.append("(%d,(%s,%s,%s,%s,%s))" % (nm(base), zt(j), zt(par), o(cc), o(m), o(w)))
        st.append((cid + "_pinfo", "pinfo_ok %s [%s] = true" % (ct, ";".join(pi)), "DecayConfig.particle_item"))
        sd = ";".join("(%s,[%s])" % (parse_pid(c, nm), ";".join(parse_pid(x, nm) for x in o)) for c, o in obs["pdecays"])
        st.append((cid + "_sdecs", "sdecs_ok %s [%s] = true" % (ct, sd), "DecayConfig.decay_cut"))
        if "params" in obs:
            st.append((cid + "_params", "params_ok %s %s %s = true" % (ct, param_terms(obs, obs["params"], nm), param_terms(obs, obs["trainable"], nm)),
                       "ConfigLoader.get_amplitude params"))
    return st


# --------------------------------------------------------------------------- search: the property directly on the implementation


def direct_checks(cid, cfg, share, rnd, first=None):
    """returns a failing-input dict or None"""
    a = first if first is not None else observe(cfg, share)
    if "error" not in a and "params" not in a:
        a = observe(cfg, share)
    live = {}
    b = observe(cfg, share, live=live)
    if "error" not in a:
        # a removed chain is removed completely: the decay / creators lists of the particles of the loaded
        # chains hold the decays of the loaded chains and nothing else
        used = sorted(set((d[0], tuple(d[1])) for ch in a["chains"] for d in ch))
        for key in ("pdecays", "pcreators"):
            got = sorted((c, tuple(o)) for c, o in a[key])
            if got != used:
                return {"what": "Particle.%s lists differ from the decays of the loaded chains (a chain removed by the cut left decays behind)" % key[1:],
                        "config": cfg, "share_dict": share, "only_in_lists": [x for x in got if x not in used],
                        "only_in_chains": [x for x in used if x not in got], "chains": a["chains"]}
        if a.get("export_after_live"):
            return {"what": "the export made after the amplitude is built contains live objects instead of values", "config": cfg,
                    "share_dict": share, "live_entries": a["export_after_live"]}
        if "export_after" in live:
            r2 = observe(live["export_after"], {})
            if chain_set(a) != chain_set(r2) or sorted(a["params"]) != sorted(r2.get("params", [])) or sorted(a["trainable"]) != sorted(r2.get("trainable", [])):
                return {"what": "the export made after the amplitude is built does not load back to the same chains / parameter names", "config": cfg,
                        "share_dict": share, "params_missing_after_reload": sorted(set(a["params"]) - set(r2.get("params", []))),
                        "params_new_after_reload": sorted(set(r2.get("params", [])) - set(a["params"])),
                        "trainable": sorted(a["trainable"]), "trainable_reloaded": sorted(r2.get("trainable", [])), "reload": r2.get("error")}
    if a != b:
        diff = [k for k in set(a) | set(b) if a.get(k) != b.get(k)]
        return {"what": "two loads of the same configuration in one process differ", "differs_in": diff, "config": cfg, "share_dict": share,
                "first": {k: a.get(k) for k in diff}, "second": {k: b.get(k) for k in diff}}
    ecfg, eshare = expand_config(cfg, share)
    e = observe(ecfg, eshare, amplitude=False)
    if chain_set(a) != chain_set(e):
        return {"what": "configuration and its expanded form (no alias/include/candidate list) load to different chains", "config": cfg, "share_dict": share,
                "expanded": ecfg, "chains": chain_set(a), "chains_expanded": chain_set(e)}
    if "error" not in a and any(a["pinfo"].get(k) != v for k, v in e["pinfo"].items()):
        return {"what": "quantum numbers differ between configuration and expanded form", "config": cfg, "share_dict": share, "expanded": ecfg,
                "pinfo": a["pinfo"], "pinfo_expanded": e["pinfo"]}
    pc = permute_keys(cfg, rnd)
    p = observe(pc, share, amplitude=False)
    if chain_set(a) != chain_set(p):
        return {"what": "key order of the decay / particle sections changes the set of chains", "config": cfg, "permuted": pc, "share_dict": share,
                "chains": chain_set(a), "chains_permuted": chain_set(p)}
    if "error" not in a:
        r = observe(a["export"], {}, amplitude=False)
        if chain_set(a) != chain_set(r) or any(a["pinfo"].get(k, [None] * 3)[:3] != v[:3] for k, v in r.get("pinfo", {}).items()):
            has_ls_opt = any(isinstance(x, dict) and ("ls_list" in x or "l_list" in x)
                             for outs in cfg["decay"].values() for e in outs for x in (e if isinstance(e, list) else [e]))
            return {"what": "as_config export does not load back to the same chains / quantum numbers",
                    "known_site": "tf_pwa/particle.py BaseDecay.as_config" if has_ls_opt else None, "config": cfg, "share_dict": share,
                    "export": a["export"], "chains": chain_set(a), "chains_reloaded": chain_set(r)}
        # every chain leads from the declared top to exactly the declared finals through declared decays
        fin = sorted(cfg["particle"]["$finals"])
        for ch in a["chains"]:
            cores = [d[0] for d in ch]
            outs = [o for d in ch for o in d[1]]
            leaves = sorted(o for o in outs if o not in cores)
            tops = [c for c in cores if c not in outs]
            if leaves != fin or tops != list(cfg["particle"]["$top"]) or any(not d[2] for d in ch):
                return {"what": "chain does not lead from the declared parent to exactly the declared final state with allowed (l,s)", "config": cfg,
                        "share_dict": share, "chain": ch}
    return None


def search(ctx, fails):
    rnd = random.Random(ctx.seed * 1000003 + 19)
    for f in fails:
        inp = f.get("input")
        if isinstance(inp, dict) and "config" in inp:
            hit = direct_checks("x", inp["config"], inp.get("share_dict", {}), rnd)
            if hit:
                return hit
    for _ in range(150):
        cfg, share = gen_config(rnd, True)
        hit = direct_checks("x", cfg, share, rnd)
        if hit:
            return hit
    return None


# --------------------------------------------------------------------------- open findings: fixed reproducers


def same_decay_two_slots_case():
    """One resonance (K1) is a candidate of two slot keys with the same daughters; the two cards differ in
    options and daughter order.  get_decay_struct keeps ONE decay object per (mother, daughters): the options
    of the card processed last (new_decay_params[dec_i] = ...) and the daughter order of the card processed
    first (BaseParticle.add_decay ignores the second) - the model depends on the key order of `decay`."""
    items = [("A", [["X", "E", {"p_break": True}], ["Y", "Z", {"p_break": True}]]),
             ("X", [["R_BC", "D"]]),
             ("R_BC", ["B", "C", {"l_list": [0]}]),
             ("Y", ["C", "B"]),
             ("Z", ["D", "E"])]
    particle = {"$top": {"A": {"J": 0, "P": -1, "mass": 5.3}},
                "$finals": {"B": {"J": 1, "P": -1, "mass": 1.0}, "C": {"J": 0, "P": -1, "mass": 0.5},
                            "D": {"J": 0, "P": -1, "mass": 0.14}, "E": {"J": 0, "P": -1, "mass": 0.14}},
                "X": ["X1"], "R_BC": ["K1"], "Y": ["K1"], "Z": ["Z1"],
                "X1": {"J": 1, "P": 1, "mass": 3.0, "width": 0.2},
                "K1": {"J": 1, "P": 1, "mass": 1.8, "width": 0.1},
                "Z1": {"J": 1, "P": -1, "mass": 0.77, "width": 0.15}}
    def cfg(order):
        return {"data": {"dat_order": ["B", "C", "D", "E"]}, "decay": {items[i][0]: copy.deepcopy(items[i][1]) for i in order},
                "particle": copy.deepcopy(particle)}
    return cfg([0, 1, 2, 3, 4]), cfg([0, 1, 3, 2, 4])


def open_finding_cases(ctx):
    import io
    import contextlib
    c1, c2 = same_decay_two_slots_case()
    with contextlib.redirect_stdout(io.StringIO()):
        o1, o2 = observe(c1, {}), observe(c2, {})
    ctx.evaluations += 2
    ctx.count("fixed_case_same_decay_two_slots")
    if chain_set(o1) != chain_set(o2) or sorted(o1.get("params", [])) != sorted(o2.get("params", [])):
        k1 = [d for ch in o1.get("chains", []) for d in ch if d[0] == "K1"][:1]
        k2 = [d for ch in o2.get("chains", []) for d in ch if d[0] == "K1"][:1]
        ctx.fail("key-order", "same_decay_two_slots", "permuting the keys R_BC / Y of the decay section changes the (l,s) couplings and the parameter names",
                 inp={"config": c1, "permuted": c2}, site="DecayConfig.get_decay_struct", fingerprint="same-decay-two-slots:options-last-order-first",
                 failing_input={"what": "key order of the decay section changes the model when the same decay is declared under two slot keys",
                                "config": c1, "permuted": c2, "K1_decay": k1, "K1_decay_permuted": k2,
                                "n_params": len(o1.get("params", [])), "n_params_permuted": len(o2.get("params", [])),
                                "params_only_first": sorted(set(o1.get("params", [])) - set(o2.get("params", []))),
                                "params_only_permuted": sorted(set(o2.get("params", [])) - set(o1.get("params", [])))})


# --------------------------------------------------------------------------- run


def run(ctx):
    bootstrap.tf_quiet()
    rnd = random.Random(ctx.seed * 1000003 + 19)
    quick = ctx.tier == "quick"
    ctx.rule = ("seeded generator over the decay-card grammar: 3- or 4-body final state, 1..3 random binary decay trees sharing resonance slots, "
                "per slot a candidate list (names / inline property dict / nested map / empty / the slot itself), properties in the main file, an "
                "included file or both (override), aliases Par/m0/g0 at random, per-decay options p_break/c_break/l_list/ls_list/model/curve_style "
                "in one or two option dicts, single- and multi-alternative cards, shuffled key order; spins 0..5/2, random parities so that the ls cut (every 5th config: C-parity family, candidates of a slot share J^P and differ in C, c_break False) "
                "removes chains; each config: 2 loads here + 1 in a fresh process + expanded form + permuted keys + export/reload; "
                "a resonance may be a candidate of several (not nested) slots; in 40% of the configs with a plain resonance it is defined in the main "
                "file and in two included files with independent alias spellings and values; observed besides the chains: the decay / creators lists of "
                "the particles of the loaded chains (= decays of the loaded chains, also in Coq: sdecs_ok) and the export made AFTER the amplitude is "
                "built (plain values, reload gives the same chains and parameter names).  Excluded by rule (open finding, one fixed reproducer): the "
                "same decay declared under two slot keys with different options / daughter order.  "
                "distinct = distinct configs whose load gives >= 2 chains")
    common.theorem_stage(ctx)
    ncfg = 60 if quick else 600
    cases = {}
    for k in range(ncfg):
        cfg, share = gen_config(rnd, quick, cpar=(k % 5 == 4))
        cases["c%d" % k] = (cfg, share)
    # fresh process
    inp, outp = os.path.join(ctx.dir, "configs.json"), os.path.join(ctx.dir, "fresh.json")
    json.dump(cases, open(inp, "w"))
    env = dict(os.environ, PYTHONPATH=bootstrap.REPO)
    proc = subprocess.Popen([sys.executable, "-W", "ignore", os.path.abspath(__file__), "--worker", inp, outp], env=env,
                            stdout=subprocess.DEVNULL, stderr=subprocess.DEVNULL)
    stmts, meta = [], {}
    first = {}
    import io
    import contextlib
    for cid, (cfg, share) in cases.items():
        with contextlib.redirect_stdout(io.StringIO()):
            try:
                obs = observe(cfg, share)
                hit = direct_checks(cid, cfg, share, rnd, first=obs)
            except Exception as e:
                ctx.fail("load", cid, "exception %r" % (e,), inp={"config": cfg, "share_dict": share}, site="ConfigLoader", fingerprint="exception",
                         failing_input={"config": cfg, "share_dict": share, "raised": repr(e)})
                continue
        first[cid] = obs
        ctx.evaluations += 6
        nch = 0 if "error" in obs else len(obs["chains"])
        ctx.count("chains=%d" % min(nch, 9))
        ctx.count("nfinals=%d" % len(cfg["particle"]["$finals"]))
        ctx.count("include=%s" % ("$include" in cfg["particle"]))
        cl = [c for v in cfg["particle"].values() if isinstance(v, list) for c in v if isinstance(c, str)]
        ctx.count("candidate_shared_by_slots=%s" % (len(cl) != len(set(cl))))
        ctx.count("main_and_two_includes_define_one_resonance=%s" % any(
            k in cfg["particle"] and all(k in f for f in share.values()) for k in (list(share.values())[0] if len(share) > 1 else [])))
        if "error" in obs:
            ctx.count("load_raises_no_chain")
        if nch >= 2:
            ctx.distinct.add(json.dumps(cfg, sort_keys=True))
        if hit and hit.get("known_site"):
            ctx.fail("export", cid, hit["what"], inp={"config": cfg, "share_dict": share}, site=hit["known_site"], fingerprint="export-drops-ls-options", failing_input=hit)
        elif hit:
            ctx.fail("metamorphic", cid, hit["what"], inp={"config": cfg, "share_dict": share}, site="ConfigLoader", fingerprint="metamorphic", failing_input=hit)
        if len(ctx.samples) < 3 and nch >= 2:
            ctx.sample({"config": cfg, "share_dict": share, "chains": obs["chains"]})
        for (sid, stmt, site) in case_statements(cid, cfg, share, obs):
            stmts.append((sid, stmt, "vm_compute; reflexivity"))
            meta[sid] = (site, cfg, share, obs)
    try:
        open_finding_cases(ctx)
    except Exception as e:
        ctx.fail("load", "same_decay_two_slots", "exception %r" % (e,), site="ConfigLoader", fingerprint="exception")
    proc.wait(timeout=1800)
    try:
        fresh = json.load(open(outp))
    except Exception as e:
        fresh = {}
        ctx.fail("fresh-process", "worker", "no result from the fresh process: %r" % (e,), site="harness", fingerprint="worker")
    for cid, obs in first.items():
        fo = fresh.get(cid)
        if fo is None:
            continue
        ctx.evaluations += 1
        if json.loads(json.dumps(obs)) != fo:
            diff = [k for k in set(obs) | set(fo) if json.loads(json.dumps(obs.get(k))) != fo.get(k)]
            ctx.fail("fresh-process", cid, "load in a fresh process differs in %s" % diff, inp={"config": cases[cid][0], "share_dict": cases[cid][1]},
                     site="ConfigLoader", fingerprint="fresh-process",
                     failing_input={"what": "fresh-process load differs", "config": cases[cid][0], "share_dict": cases[cid][1],
                                    "here": {k: obs.get(k) for k in diff}, "fresh": {k: fo.get(k) for k in diff}})
    res = common.coq_cases(ctx, "cfg", HEADER, stmts, per_file=max(12, len(stmts) // 32 + 1), timeout=1500, case_timeout=120)
    for sid, r in res.items():
        if r != "OK":
            site, cfg, share, obs = meta[sid]
            ctx.fail("model", sid, "model and implementation differ (%s)" % r, inp={"config": cfg, "share_dict": share, "impl_chains": obs.get("chains", obs.get("error"))},
                     site=site, fingerprint=site)
    kinds = {}
    for f in ctx.failures:
        k = "%s | %s | %s" % (f.get("layer"), f.get("site"), str(f.get("detail"))[:100])
        kinds[k] = kinds.get(k, 0) + 1
    json.dump(kinds, open(os.path.join(ctx.dir, "failure_kinds.json"), "w"), indent=1)
    return common.finish(ctx, search=search, technique=TECHNIQUE,
                         extra_assumptions=["grammar restrictions of the model (coq/Comb/Config.v header): two-body decays, $top/$finals given, distinct final names, depth-1 dicts in candidate lists, acyclic cards, "
                                            "one slot key per set of daughters (the same decay is not declared under two keys with different options: open finding)",
                                            "parameter-name *strings* are rendered by the harness (get_name replacement table) from the structured names of the model; YAML parsing itself is not modelled (configs are dicts)",
                                            "as_config round trip (before and after the amplitude is built) and bound_dic are compared on the implementation only (repeated loads / reload), not modelled",
                                            "duplicated chains (one resonance a candidate of both daughter slots of one decay) are modelled as the implementation produces them: the property does not speak about multiplicity"])


def replay(rep):
    print(json.dumps(rep, indent=1)[:6000])
    fi = rep.get("failing_input") or {}
    if "config" in fi:
        bootstrap.tf_quiet()
        print("direct checks now:", direct_checks("x", fi["config"], fi.get("share_dict", {}), random.Random(0)))
    return 0


if __name__ == "__main__":
    if len(sys.argv) == 4 and sys.argv[1] == "--worker":
        worker(sys.argv[2], sys.argv[3])
