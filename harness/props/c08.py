"""C08 - a returned fit result and the model state describe the same point.

Theorems: coq/Props/Properties_C08.v (model coq/State/Fit.v: fit bookkeeping around an optimiser ORACLE).
Tie: REAL fits through ConfigLoader.fit(data, phsp, method=..., maxiter=...) on tiny samples (60 data / 300 phase-space
events from tf_pwa.phasespace.PhaseSpaceGenerator), for every (minimiser name x constraint set x {converged, maxiter=2}) cell;
all cells of one constraint set run in ONE session (same model object), so repeated fits are exercised.
  * post-conditions evaluated directly on the implementation (independent of the Coq model):
    state == result.params (exact), NLL(result.params) == min_nll (1e-8 rel), min_nll <= starting NLL, fixed unchanged,
    tied equal, bounded inside bounds, bnd_dic empty again, save_as -> fresh ConfigLoader -> set_params(file) -> same
    parameters and NLL;
  * the model's fit step run inside Coq on the implementation's own optimiser answer x* (captured from
    scipy.optimize.minimize / Minuit) is compared with the implementation's final value of EVERY variable
    (Coq-Interval goals; bound transforms, ties, polar standardisation included).
The failing (method x constraint-set) cell is the failing input.

Since the independent hunt (2026-10-01): the bounds of a cell are the DECLARED ones (the configuration's own numbers), compared
with config.bound_dic (post-condition bounds_registered) and handed to the Coq model, whose fit_cfg moves every entry to the
listed name of its tie (norm_bounds = fit.py _trainable_bounds); the result must list EVERY parameter (result_lists_all);
constraint sets cp (CP-violating factors, negative radius), bounds2 (params.mass_range on a `float: m` mass, params.*_free
floats, a bound on the non-listed member of a tie), free without fix_chain_val (fixed total random per model build); one BFGS
fit per run is stopped by the library's own LargeNumberError guard (model fit_except_cfg)."""
import json
import math
import os
import random
import subprocess
import sys
import time

HERE = os.path.dirname(os.path.abspath(__file__))

TECHNIQUE = ("Coq proof about a state-machine model of the fit bookkeeping with the optimiser as an oracle (any answer) + real fits "
             "for every minimiser name x constraint set with post-conditions checked on the implementation and the model's fit step "
             "certified against the implementation's final state by Coq-Interval")

HEADER = ("From Coq Require Import Reals List ZArith Bool Arith.\nFrom Interval Require Import Tactic.\n"
          "From TFV Require Import Base.RBase Base.Tie State.Fit.\nImport ListNotations.\nOpen Scope R_scope.\n")
UNF = ("bt read write lookup inb mem set_bound remove_bound set_all trans_vals set_trans_var std_skip std_one standard_complex wrap1 wrap_phase "
       "get_params get_params_train fit fit_cfg fit_except fit_except_cfg head_of lo_isect hi_isect norm_step norm_bounds fit_bfgs fit_lbfgsb fit_newton fit_minuit cellof store allnames train bnd polar r_params r_min "
       "fst snd map combine nth fold_left app Nat.eqb orb negb")
TAC = "cbv [%s]; rclose" % UNF

ALL_METHODS = ["BFGS", "CG", "L-BFGS-B", "Newton-CG", "trust-ncg", "trust-krylov", "trust-exact",
               "Newton-CG-p", "trust-ncg-p", "trust-krylov-p", "iminuit"]
QUICK_METHODS = ["BFGS", "L-BFGS-B", "Newton-CG", "iminuit"]
BRANCH = {"BFGS": "M_bfgs", "CG": "M_bfgs", "L-BFGS-B": "M_lbfgsb", "iminuit": "M_minuit"}
SITE = {"M_bfgs": "tf_pwa/fit.py fit_scipy BFGS/CG", "M_lbfgsb": "tf_pwa/fit.py fit_scipy L-BFGS-B",
        "M_newton": "tf_pwa/fit.py fit_newton_cg", "M_minuit": "tf_pwa/fit.py fit_minuit"}

R2r = "A->R_BD.CR_BD->B.D_total_0r"; R2i = "A->R_BD.CR_BD->B.D_total_0i"
R3r = "A->R_CD.BR_CD->C.D_total_0r"; R3i = "A->R_CD.BR_CD->C.D_total_0i"

CSETS = ["free", "fixed", "tied", "tied_neg", "tied_phase_neg", "bounds", "bound0", "gauss", "cp", "bounds2"]
R2dr = R2r[:-1] + "deltar"; R2di = R2r[:-1] + "deltai"; R3dr = R3r[:-1] + "deltar"; R3di = R3r[:-1] + "deltai"
# the starting value that makes the library's own guard (LargeNumberError, "x too large") stop a BFGS/CG fit after its first iteration
LARGE = 2.0e7


def branch_of(method):
    return BRANCH.get(method, "M_newton")


def config_dict(cset):
    part = {
        "$top": {"A": {"J": 0, "P": -1, "mass": 1.0}},
        "$finals": {"B": {"J": 0, "P": -1, "mass": 0.1}, "C": {"J": 0, "P": -1, "mass": 0.1}, "D": {"J": 0, "P": -1, "mass": 0.1}},
        "R_BC": {"J": 0, "P": 1, "mass": 0.5, "width": 0.05},
        "R_BD": {"J": 0, "P": 1, "mass": 0.6, "width": 0.08},
        "R_CD": {"J": 0, "P": 1, "mass": 0.45, "width": 0.06},
    }
    constr = {"decay": {"fix_chain_idx": 0, "fix_chain_val": 1.0}}
    truth = {R2r: 0.8, R2i: 0.7, R3r: 0.6, R3i: -1.1}
    start = None
    extra = {}
    declared = {}   # the bounds this configuration DECLARES, name -> [lower, upper] (what the fit has to respect)
    if cset == "free":
        # no fix_chain_val: the fixed chain total is drawn at random by every model build, so the freshly built model of the
        # save -> load post-condition differs from the fitted one in a FIXED value unless the file carries it
        constr = {"decay": {"fix_chain_idx": 0}}
    if cset == "fixed":
        # a fixed NEGATIVE radius and a fixed phase: standard_complex must leave both alone
        constr["fix_var"] = {R3r: -0.6, R2i: 0.7}
        truth = {R2r: 0.8, R3i: -1.1 + math.pi}
    elif cset == "tied":
        constr["var_equal"] = [[R2r, R3r]]
        truth = {R2r: 0.7, R2i: 0.7, R3i: -1.1}
    elif cset == "tied_neg":
        # shared radius that the data want NEGATIVE (independent phases): the post-fit standardisation must not flip
        # the head of the tie group alone
        constr["var_equal"] = [[R2r, R3r]]
        truth = {R2r: -0.7, R2i: 0.7, R3i: -1.1}
    elif cset == "tied_phase_neg":
        # only the PHASES are tied (independent radii) and the head of the tie has a radius that the data want NEGATIVE:
        # flipping it (r -> |r|, phi -> phi + pi) would drag the other coupling's phase along
        constr["var_equal"] = [[R2i, R3i]]
        truth = {R2r: -0.8, R2i: 0.7, R3r: 0.6}
    elif cset == "bound0":
        # one-sided range whose finite end is exactly 0, and ACTIVE: the data are generated with the phase at +1.1, the range is (-inf, 0]
        constr["var_range"] = {R3i: [None, 0]}
        declared = {R3i: [None, 0]}
        truth = {R2r: 0.8, R2i: 0.7, R3r: 0.9, R3i: 1.1}
        start = dict(truth); start[R3i] = -0.3
    elif cset == "bounds":
        # two-sided, lower-only, upper-only, and a bounded radius whose range is negative
        part["R_BC"].update({"float": "mg", "mass_min": 0.4, "mass_max": 0.6, "width_min": 0.01})
        # the upper bound of R_BD_mass (0.58) excludes the value the data were generated with (0.6): the bound is ACTIVE
        part["R_BD"].update({"float": "m", "mass_max": 0.58})
        # width floats while the mass stays at its configured value ("float: g" alone); the data are generated with a width
        # (0.075) that differs from the configured one (0.06), so a reload that drops the fitted width is visible
        part["R_CD"].update({"float": "g", "width_min": 0.01, "width_max": 0.3})
        constr["var_range"] = {R3r: [-2.0, -0.1]}
        declared = {"R_BC_mass": [0.4, 0.6], "R_BC_width": [0.01, None], "R_BD_mass": [None, 0.58], "R_CD_width": [0.01, 0.3], R3r: [-2.0, -0.1]}
        truth = {R2r: 0.8, R2i: 0.7, R3r: -0.6, R3i: -1.1 + math.pi, "R_BC_mass": 0.5, "R_BC_width": 0.05, "R_BD_mass": 0.6, "R_CD_width": 0.075}
        start = dict(truth, R_BD_mass=0.57)
    elif cset == "gauss":
        part["R_BC"].update({"float": "m", "gauss_constr": {"m": 0.01}})
        truth = dict(truth, R_BC_mass=0.5)
    elif cset == "cp":
        # CP-violating chain factors (r + c dr) e^{i (phi + c dphi)} (config.sample.yml: decay_chain: {$all: {is_cp: True}});
        # one radius NEGATIVE: (r, phi) -> (|r|, phi + pi) with dr unchanged is ANOTHER amplitude
        extra = {"decay_chain": {"$all": {"is_cp": True}}}
        truth = {R2r: -0.8, R2i: 0.7, R2dr: 0.3, R2di: 0.2, R3r: 0.6, R3i: -1.1, R3dr: -0.2, R3di: 0.1}
    elif cset == "bounds2":
        # the other ways of declaring the same constraints:
        #  - a range given as params: {mass_range: [a, b]} on a mass floated by `float: m` (ACTIVE: generated at 0.5, range [0.4, 0.48])
        part["R_BC"].update({"float": "m", "params": {"mass_range": [0.4, 0.48]}})
        #  - a mass and a width floated by params: {mass_free: True, width_free: True} (no `float` key), generated away from the
        #    configured values, so a reload that drops the fitted value is visible
        part["R_BD"].update({"params": {"mass_free": True, "width_free": True}})
        #  - a bound declared on a NON-HEAD member of a tie (R_CD_width, tied to R_BD_width which is listed first), ACTIVE:
        #    the 60 events prefer a shared width near 0.04, the range is [0.055, 0.3]
        part["R_CD"].update({"float": "g", "width_min": 0.055, "width_max": 0.3})
        constr["var_equal"] = [["R_BD_width", "R_CD_width"]]
        declared = {"R_BC_mass": [0.4, 0.48], "R_CD_width": [0.055, 0.3]}
        truth = dict(truth, R_BC_mass=0.5, R_BD_mass=0.62, R_BD_width=0.075)
        start = dict(truth, R_BC_mass=0.47, R_BD_width=0.065)
    d = {"data": {"dat_order": ["B", "C", "D"]},
         "decay": {"A": [["R_BC", "D"], ["R_BD", "C"], ["R_CD", "B"]], "R_BC": ["B", "C"], "R_BD": ["B", "D"], "R_CD": ["C", "D"]},
         "particle": part, "constrains": constr}
    d.update(extra)
    return d, truth, (start or truth), declared


# =========================================================================== worker (runs the implementation)

def worker_main(infile, outfile):
    sys.path.insert(0, os.path.dirname(HERE))
    import bootstrap
    bootstrap.tf_quiet()
    import contextlib
    import io
    import numpy as np
    import tensorflow as tf
    spec = json.load(open(infile))
    bootstrap.seed_all(spec["seed"])
    from tf_pwa.config_loader import ConfigLoader
    from tf_pwa.data import data_mask
    from tf_pwa.phasespace import PhaseSpaceGenerator
    import tf_pwa.fit as tfit
    import iminuit

    def quiet():
        return contextlib.redirect_stdout(io.StringIO())

    cset = spec["cset"]
    cdict, truth, start0, declared = config_dict(cset)
    with quiet():
        config = ConfigLoader(json.loads(json.dumps(cdict)))
        config.get_amplitude()
        config.set_params(truth)
    vm = config.vm

    def p4(n, seed):
        np.random.seed(seed); tf.random.set_seed(seed)
        return [np.array(p) for p in PhaseSpaceGenerator(1.0, [0.1, 0.1, 0.1]).generate(n)]

    p_phsp = p4(spec["nphsp"], spec["seed"] + 1)
    p_big = p4(spec["ndata"] * 50, spec["seed"] + 2)
    phsp = config.data.cal_angle(p_phsp)
    big = config.data.cal_angle(p_big)
    w = config.get_amplitude()(big).numpy()
    u = np.random.RandomState(spec["seed"] + 3).rand(len(w)) * w.max()
    idx = np.where(u < w)[0][: spec["ndata"]]
    msk = np.zeros(len(w), bool); msk[idx] = True
    data = data_mask(big, msk)
    p_data = [p[msk] for p in p_big]
    with quiet():
        fcn_ref = config.get_fcn([[data], [phsp], None, None])

    cap = {}
    orig_min = tfit.minimize

    def wrap_min(*a, **k):
        s = orig_min(*a, **k)
        cap["x"] = [float(t) for t in s.x]; cap["fun"] = float(s.fun); cap["nit"] = int(getattr(s, "nit", -1))
        return s
    tfit.minimize = wrap_min
    orig_migrad = iminuit.Minuit.migrad

    def wrap_migrad(self, *a, **k):
        r = orig_migrad(self, *a, **k)
        cap["minuit"] = self
        return r
    iminuit.Minuit.migrad = wrap_migrad
    # the last point the objective was evaluated at (the LargeNumberError early return leaves the model there)
    orig_fun = tfit.Cached_FG.fun

    def wrap_fun(self, x):
        f = orig_fun(self, x)
        cap["last_x"] = [float(t) for t in x]; cap["last_f"] = float(f)
        return f
    tfit.Cached_FG.fun = wrap_fun

    rs = random.Random(spec["seed"] * 7919 + 5)
    names = list(vm.variables)
    cells = {}
    cellof = []
    for n in names:
        cellof.append(cells.setdefault(id(vm.variables[n]), len(cells)))
    polar = []
    for k, v in vm.complex_vars.items():
        if isinstance(v, list) or not v:
            continue
        if any((k + "r" in grp) or (k + "i" in grp) for grp in vm.same_list):
            continue
        if k + "deltar" in names:
            continue   # CP factors are left alone (flipping r alone changes the amplitude)
        if k + "r" in names and k + "i" in names:
            polar.append([names.index(k + "r"), names.index(k + "i")])
    # the bounds are the DECLARED ones (not read back from config.bound_dic, which is checked against them below)
    bd_all = {k: [None if t is None else float(t) for t in v] for k, v in declared.items()}
    bd_impl = {k: [None if t is None else float(t) for t in v] for k, v in config.bound_dic.items()}
    gauss = {k: [float(t) for t in v] for k, v in config.gauss_constr_dic.items()}
    out = {"cset": cset, "names": names, "cellof": cellof, "polar": polar, "bounds": bd_all, "bound_dic": bd_impl, "gauss": gauss,
           "same_list": [list(g) for g in vm.same_list], "cells": []}
    tdir = spec["tmpdir"]
    for ci, cellspec in enumerate(spec["cells"]):
        method, maxiter = cellspec[0], cellspec[1]
        kind = cellspec[2] if len(cellspec) > 2 else "regular"
        rec = {"method": method, "maxiter": maxiter, "cset": cset, "kind": kind, "post": {}, "detail": {}}
        t0 = time.time()
        start = {k: v * (rs.uniform(0.99, 1.01) if (k in bd_all or k in bd_impl) else rs.uniform(0.95, 1.05)) for k, v in start0.items() if k in vm.trainable_vars}
        if kind == "large":
            start[R2r] = LARGE
        with quiet():
            config.set_params(start)
        rec["start"] = start
        rec["train"] = [names.index(n) for n in vm.trainable_vars]
        rec["bnd_before"] = {k: [b.lower, b.upper] for k, b in vm.bnd_dic.items()}
        before = {k: float(v) for k, v in config.get_params().items()}
        rec["before"] = [before[n] for n in names]
        with quiet():
            nll0 = float(fcn_ref({}))
        rec["nll_start"] = nll0
        cap.clear()
        try:
            with quiet():
                res = config.fit([data], [phsp], method=method, maxiter=maxiter, print_init_nll=False)
        except Exception as exc:
            import traceback
            rec["exception"] = repr(exc); rec["traceback"] = traceback.format_exc()[-1200:]
            rec["bnd_after"] = {k: [b.lower, b.upper] for k, b in vm.bnd_dic.items()}
            with quiet():
                vm.remove_bound()   # keep the session usable for the next cell
            out["cells"].append(rec)
            continue
        after = {k: float(v) for k, v in config.get_params().items()}
        rec["after"] = [after[n] for n in names]
        rec["result_params"] = {k: float(v) for k, v in res.params.items()}
        rec["min_nll"] = float(res.min_nll); rec["success"] = bool(res.success)
        rec["bnd_after"] = {k: [b.lower, b.upper] for k, b in vm.bnd_dic.items()}
        if kind == "large":
            # stopped by the library's guard: the returned point is the last evaluated one
            rec["guard_fired"] = (not res.success) and "x" not in cap
            rec["xstar"] = cap.get("last_x"); rec["fstar"] = cap.get("last_f")
        elif method == "iminuit":
            m = cap.get("minuit")
            rec["xstar"] = [float(t) for t in m.values] if m is not None else None
            rec["fstar"] = float(m.fval) if m is not None else None
        else:
            rec["xstar"] = cap.get("x"); rec["fstar"] = cap.get("fun"); rec["nit"] = cap.get("nit")
        post, det = rec["post"], rec["detail"]
        # P1 the model holds exactly the values listed in the result
        bad = {k: (after.get(k), v) for k, v in rec["result_params"].items() if after.get(k) != v}
        post["state_is_result"] = not bad and len(rec["result_params"]) > 0
        det["state_is_result"] = {k: list(v) for k, v in list(bad.items())[:4]}
        # P1b the result lists EVERY parameter of the model (a file written from it must carry the fixed values too)
        missing = [k for k in names if k not in rec["result_params"]]
        post["result_lists_all"] = not missing
        det["result_lists_all"] = {"absent_from_result": missing[:6], "n_absent": len(missing)}
        # P2 reported minimum = NLL at those values (evaluating sets them: the state must not move either)
        with quiet():
            nll_at = float(fcn_ref(res.params))
            nll_state = float(fcn_ref({}))
        tol = 1e-8 * max(1.0, abs(rec["min_nll"]))
        post["min_is_nll"] = abs(nll_at - rec["min_nll"]) <= tol and abs(nll_state - rec["min_nll"]) <= tol
        det["min_is_nll"] = {"nll(result.params)": nll_at, "nll(state)": nll_state, "min_nll": rec["min_nll"]}
        # P3 not above the starting NLL
        post["not_above_start"] = rec["min_nll"] <= nll0 + 1e-9 * max(1.0, abs(nll0))
        det["not_above_start"] = {"start": nll0, "min_nll": rec["min_nll"]}
        # P4 fixed unchanged: names that are not trainable and share no cell with a trainable name
        tcells = {cellof[i] for i in rec["train"]}
        fixed = [n for i, n in enumerate(names) if cellof[i] not in tcells]
        badf = {n: [before[n], after[n]] for n in fixed if before[n] != after[n]}
        post["fixed_unchanged"] = not badf; det["fixed_unchanged"] = badf
        # P5 tied equal
        badt = []
        for grp in vm.same_list:
            g = [n for n in grp if n in after]
            if any(after[n] != after[g[0]] for n in g):
                badt.append({n: after[n] for n in g})
        post["tied_equal"] = not badt; det["tied_equal"] = badt
        # P6 bounded inside bounds
        badb = {}
        for k, (lo, hi) in bd_all.items():
            if k in after and ((lo is not None and after[k] < lo - 1e-12) or (hi is not None and after[k] > hi + 1e-12)):
                badb[k] = {"value": after[k], "bound": [lo, hi]}
        post["inside_bounds"] = not badb; det["inside_bounds"] = badb
        # P6b every declared bound is in the dictionary ConfigLoader.fit hands to the minimiser
        badr = {k: {"declared": v, "config.bound_dic": bd_impl.get(k)} for k, v in bd_all.items() if bd_impl.get(k) != v}
        post["bounds_registered"] = not badr; det["bounds_registered"] = badr
        # P7 bookkeeping clean for the next fit
        post["bnd_dic_empty"] = len(rec["bnd_after"]) == 0; det["bnd_dic_empty"] = rec["bnd_after"]
        if rec["bnd_after"]:
            with quiet():
                vm.remove_bound()   # reported above; the other cells of the session are judged on their own
        # P8 save -> fresh model -> load
        try:
            path = os.path.join(tdir, "fit_%s_%d_%d.json" % (cset, spec["seed"], ci))
            res.save_as(path)
            with quiet():
                fresh = ConfigLoader(json.loads(json.dumps(cdict)))
                fresh.get_amplitude()
                ok = fresh.set_params(path)
                fp = {k: float(v) for k, v in fresh.get_params().items()}
                fd = fresh.data.cal_angle(p_data); fph = fresh.data.cal_angle(p_phsp)
                nll_fresh = float(fresh.get_fcn([[fd], [fph], None, None])({}))
            badl = {k: [after[k], fp.get(k)] for k in after if fp.get(k) != after[k]}
            post["save_load"] = bool(ok) and not badl and abs(nll_fresh - nll_state) <= 1e-9 * max(1.0, abs(nll_state))
            det["save_load"] = {"params": dict(list(badl.items())[:4]), "nll_fresh": nll_fresh, "nll_state": nll_state}
            # and through ConfigLoader.save_params
            path2 = os.path.join(tdir, "params_%s_%d_%d.json" % (cset, spec["seed"], ci))
            config.save_params(path2)
            with quiet():
                fresh2 = ConfigLoader(json.loads(json.dumps(cdict)))
                fresh2.get_amplitude()
                fresh2.set_params(path2)
            fp2 = {k: float(v) for k, v in fresh2.get_params().items()}
            badl2 = {k: [after[k], fp2.get(k)] for k in after if fp2.get(k) != after[k]}
            post["save_params_load"] = not badl2; det["save_params_load"] = dict(list(badl2.items())[:4])
        except Exception as exc:
            post["save_load"] = False; det["save_load"] = {"exception": repr(exc)}
        rec["wall"] = round(time.time() - t0, 2)
        out["cells"].append(rec)
    json.dump(out, open(outfile, "w"))


# =========================================================================== driver

def Rq(x):
    from qfmt import Rq as _Rq
    return _Rq(x)


def bound_term(b):
    lo, hi = b
    return "(%s, %s)" % ("Some %s" % Rq(lo) if lo is not None else "None", "Some %s" % Rq(hi) if hi is not None else "None")


def state_term(out, rec, extra_names):
    n = len(out["names"])
    cellof = out["cellof"] + [n + i for i in range(len(extra_names))]
    idx = {nm: i for i, nm in enumerate(out["names"] + extra_names)}
    vals_by_cell = {}
    for i, c in enumerate(out["cellof"]):
        vals_by_cell[c] = rec["before"][i]
    ncell = max(cellof) + 1
    store = [vals_by_cell.get(c, 0.0) for c in range(ncell)]
    bnd = "[" + "; ".join("(%d%%nat, %s)" % (idx[k], bound_term(v)) for k, v in rec["bnd_before"].items()) + "]"
    return ("(mkSt (fun n => nth n [%s] n) (fun k => nth k [%s] 0) [%s] [%s] %s [%s])" % (
        "; ".join("%d%%nat" % c for c in cellof), "; ".join(Rq(v) for v in store),
        "; ".join("%d%%nat" % i for i in range(n)), "; ".join("%d%%nat" % i for i in rec["train"]), bnd,
        "; ".join("(%d%%nat, %d%%nat)" % (a, b) for a, b in out["polar"]))), idx


def model_goals(ctx, out, rec, cid):
    """one goal per cell (the model's fit step is evaluated once, every variable compared) + the per-variable goals
    that are only run for a cell whose combined goal fails (to name the variable)"""
    from rcases import _tol
    extra = [k for k in out["bounds"] if k not in out["names"]]
    s0, idx = state_term(out, rec, extra)
    bd = "[" + "; ".join("(%d%%nat, %s)" % (idx[k], bound_term(v)) for k, v in out["bounds"].items()) + "]"
    opt = "(fun _ => ([%s], %s))" % ("; ".join(Rq(x) for x in rec["xstar"]), Rq(rec["fstar"]))
    if rec.get("kind") == "large":
        term = "(fit_except_cfg %s %s %s)" % (opt, bd, s0)      # stopped by the library's guard: except_result
    else:
        term = "(fit_cfg %s %s %s %s)" % (branch_of(rec["method"]), opt, bd, s0)
    atoms, single = [], []
    for i, nm in enumerate(out["names"]):
        y = rec["after"][i]
        t = _tol(y, 1e-11, 1e-13)
        atoms.append("(Rabs (read (fst P) %d%%nat - %s) <= %s)" % (i, Rq(y), Rq(t)))
        single.append(("%s_v%d" % (cid, i), "(Rabs (read (fst %s) %d%%nat - %s) <= %s)%%R" % (term, i, Rq(y), Rq(t)), TAC,
                       {"variable": nm, "impl_final": y}))
    t = _tol(rec["min_nll"], 1e-12, 1e-300)
    atoms.append("(Rabs (r_min (snd P) - %s) <= %s)" % (Rq(rec["min_nll"]), Rq(t)))
    single.append(("%s_min" % cid, "(Rabs (r_min (snd %s) - %s) <= %s)%%R" % (term, Rq(rec["min_nll"]), Rq(t)), TAC,
                   {"variable": "min_nll", "impl_final": rec["min_nll"]}))
    whole = (cid, "(let P := %s in %s)%%R" % (term, " /\\ ".join(atoms)), "cbv [%s]; repeat split; rclose" % UNF,
             {"variable": "(all %d variables and min_nll)" % len(out["names"]), "impl_final": None})
    return whole, single


POST_FP = {"bounds_registered": "bound-not-registered", "result_lists_all": "result-misses-names", "state_is_result": "state!=result", "min_is_nll": "min!=nll(state)", "not_above_start": "min>start",
           "fixed_unchanged": "fixed-changed", "tied_equal": "tied-differ", "inside_bounds": "out-of-bounds",
           "bnd_dic_empty": "bnd_dic-left", "save_load": "save-load", "save_params_load": "save-load"}


def run(ctx):
    import common
    rnd = random.Random(ctx.seed * 1000003 + 8)
    quick = ctx.tier == "quick"
    ctx.rule = ("cells = minimiser name x constraint set {free (fixed chain total drawn at random per model build), cp (CP-violating factors with a negative radius), "
                "bounds2 (range as params.mass_range on a `float: m` mass, mass/width floated by params.*_free, bound on the non-listed member of a tie), fixed (negative fixed radius + fixed phase), tied (var_equal), bounds "
                "(two-sided, lower, upper, negative-range radius), tied with a negative shared radius, a one-sided range ending at 0 (active), gauss} x {converged, maxiter=2}; all cells of a constraint set run in one "
                "session; 60 data / 300 phase-space events, 3 spin-0 chains; start = truth x U(0.95,1.05); distinct = distinct cells; "
                "non-trivial = the optimiser moved the point (x* differs from the start)")
    common.theorem_stage(ctx)
    methods = QUICK_METHODS if quick else ALL_METHODS
    seeds = [ctx.seed * 100 + 17] if quick else [ctx.seed * 100 + 17, ctx.seed * 100 + 43]
    jobs = []
    for sd in seeds:
        for cset in CSETS:
            ms = list(methods)
            rnd.shuffle(ms)
            cells = [[m, mi] for m in ms for mi in ([None, 2] if rnd.random() < 0.5 else [2, None])]
            if cset == "bounds":
                # one fit of the session is stopped by the library's own guard (LargeNumberError -> except_result): a BFGS fit
                # started at a radius of 2e7, somewhere in the middle of the session (other fits follow it)
                cells.insert(rnd.randrange(1, len(cells) - 1), ["BFGS", None, "large"])
            tag = "%s_%d" % (cset, sd)
            inf = os.path.join(ctx.dir, "job_%s.json" % tag); outf = os.path.join(ctx.dir, "out_%s.json" % tag)
            json.dump({"cset": cset, "seed": sd, "ndata": 60, "nphsp": 300, "cells": cells, "tmpdir": ctx.dir}, open(inf, "w"))
            jobs.append((tag, inf, outf))
    env = dict(os.environ)
    procs = []
    for tag, inf, outf in jobs:
        log = open(os.path.join(ctx.dir, "worker_%s.log" % tag), "w")
        procs.append((tag, outf, subprocess.Popen([sys.executable, "-W", "ignore", os.path.abspath(__file__), "--worker", inf, outf],
                                                  stdout=log, stderr=subprocess.STDOUT, env=env, cwd=ctx.dir)))
    goals = []
    singles = {}
    ncell = 0
    for tag, outf, p in procs:
        try:
            p.wait(timeout=1500 if quick else 5400)
        except subprocess.TimeoutExpired:
            p.kill()
        if p.returncode != 0 or not os.path.exists(outf):
            tail = open(os.path.join(ctx.dir, "worker_%s.log" % tag)).read()[-1500:]
            ctx.fail("worker", tag, "fit worker failed rc=%s: %s" % (p.returncode, tail), site="harness", fingerprint="worker:" + tag.split("_")[0],
                     failing_input={"constraint_set": tag, "log_tail": tail[-600:]})
            continue
        out = json.load(open(outf))
        ctx.log("worker %s done: %d cells" % (tag, len(out["cells"])))
        for k, rec in enumerate(out["cells"]):
            ncell += 1
            method, cset = rec["method"], rec["cset"]
            br = branch_of(method)
            large = rec.get("kind") == "large"
            cell = {"method": method, "constraint_set": cset, "maxiter": rec["maxiter"], "session_position": k, "seed": tag.split("_")[-1],
                    "bounds": out["bounds"], "start": rec.get("start")}
            if large:
                cell["kind"] = "large"
            cid = "%s_%02d_%s_%s" % (tag, k, method.replace("-", ""), "guard" if large else "it2" if rec["maxiter"] else "conv")
            ctx.count("cell:%s:%s:%s" % (method, cset, "stopped by LargeNumberError" if large else "maxiter=2" if rec["maxiter"] else "converged"))
            ctx.evaluations += 1
            ctx.distinct.add((method, cset, "large" if large else rec["maxiter"], tag))
            if large and "exception" not in rec and not rec.get("guard_fired"):
                ctx.fail("harness", cid, "the far-away start did not trigger the library's LargeNumberError guard: the early-return path was not exercised",
                         inp=cell, site="harness", fingerprint="guard-not-fired", failing_input=cell)
            if "exception" in rec:
                ctx.fail("fit", cid, "ConfigLoader.fit raised %s\n%s" % (rec["exception"], rec.get("traceback", "")[-600:]), inp=cell, site=SITE[br],
                         fingerprint="raise", failing_input=dict(cell, exception=rec["exception"]))
                continue
            if len(ctx.samples) < 6 and k == 0:
                ctx.sample({"cell": cell, "xstar": rec["xstar"], "min_nll": rec["min_nll"], "nll_start": rec["nll_start"], "post": rec["post"]})
            for key, ok in rec["post"].items():
                ctx.obligations += 1
                if ok:
                    ctx.discharged += 1
                else:
                    ctx.fail("postcondition", cid + ":" + key, "post-condition '%s' fails on the implementation: %s" % (key, json.dumps(rec["detail"].get(key), default=str)[:700]),
                             inp=cell, site=("tf_pwa/config_loader/config_loader.py add_particle_constraints" if key == "bounds_registered" else SITE[br] if key not in ("save_load", "save_params_load") else "tf_pwa/fit.py FitResult.save_as / ConfigLoader.set_params"),
                             fingerprint=POST_FP[key], failing_input=dict(cell, violated=key, observed=rec["detail"].get(key)))
            if rec.get("xstar") is None:
                ctx.fail("capture", cid, "optimiser answer not captured", inp=cell, site="harness", fingerprint="capture", failing_input=cell)
                continue
            # the model's phase wrap is one 2 pi step (|phi| < 3 pi): the optimiser's answer must leave room for the +pi of a flip
            if max([abs(float(v)) for v in rec["xstar"]] or [0.0]) >= 2 * math.pi - 0.3 and rec.get("kind") != "large":
                ctx.count("model_goal_skipped:optimiser_answer_beyond_the_one_step_wrap")
                ctx.notes.append("cell %s: |x*| >= 2 pi - 0.3, the model fit step is not evaluated (post-conditions still are)" % cid)
                continue
            whole, single = model_goals(ctx, out, rec, cid)
            goals.append(whole + (cell, br))
            singles[cid] = [g + (cell, br) for g in single]
    ctx.log("cells", ncell, "model goals (one per cell, %d compared values each)" % (len(singles[next(iter(singles))]) if singles else 0), len(goals))
    res = common.coq_cases(ctx, "fit", HEADER, [g[:3] for g in goals], per_file=3, case_timeout=120)
    second = []
    for cid, stmt, tac, meta, cell, br in goals:
        if res[cid] != "OK":
            second += singles[cid]
    if second:
        # name the variable(s): per-variable goals of the failing cells only
        res2 = common.coq_cases(ctx, "fitvar", HEADER, [g[:3] for g in second], per_file=13, case_timeout=60)
        named = set()
        for cid, stmt, tac, meta, cell, br in second:
            if res2[cid] != "OK":
                named.add(cid.rsplit("_", 1)[0])
                ctx.fail("fit_step", cid, "model fit step on the implementation's x* disagrees with the implementation's final value of %s (%s)" % (meta["variable"], res2[cid]),
                         inp=cell, site=SITE[br], fingerprint="model:" + ("min" if meta["variable"] == "min_nll" else "state"),
                         failing_input=dict(cell, variable=meta["variable"], impl_final=meta["impl_final"], coq_result=res2[cid]))
        for cid, stmt, tac, meta, cell, br in goals:
            if res[cid] != "OK" and cid not in named:
                ctx.fail("fit_step", cid, "combined model goal of the cell not proved (%s) although every single variable goal is" % res[cid], inp=cell, site=SITE[br],
                         fingerprint="model:cell", failing_input=dict(cell, coq_result=res[cid]))
    return common.finish(ctx, search=None, technique=TECHNIQUE, extra_assumptions=[
        "the optimisers (scipy.optimize.minimize, iminuit.Minuit) are oracles: any returned point is accepted by the theorems; the contracts "
        "f* = NLL(T(x*)), f* <= NLL(start), box-constrained answers for L-BFGS-B/iminuit are checked on every real fit, not proved",
        "post-conditions are evaluated by the harness on the implementation (exact float equality for parameters; 1e-8 relative for NLL)",
        "JSON float round trip (json.dump/yaml.safe_load) is trusted Python; checked by the save/load post-condition",
        "tiny samples (60/300 events) and 3 spin-0 chains only: the bookkeeping under test does not depend on the amplitude",
        "method='minuit' (applications.fit dispatch) and 'root' are not in the property's list and are not run; "
        "the LargeNumberError early return (except_result) is reached once per run (BFGS, constraint set 'bounds')",
        "options of ConfigLoader.fit that the property does not name (jac != True, check_grad=True, grad_scale != 1, reweight) and the "
        "MultiConfig front end are not run",
    ])


def replay(rep):
    """re-run the stored (method x constraint-set) cell in a fresh session and print its post-conditions"""
    fi = rep.get("failing_input") or {}
    print(json.dumps({k: v for k, v in rep.items() if k != "broken"}, indent=1, default=str)[:3000])
    if "method" not in fi or "constraint_set" not in fi:
        return 1 if fi else 0
    import tempfile
    d = tempfile.mkdtemp(prefix="c08_replay_", dir=os.path.join(os.path.dirname(os.path.dirname(HERE)), "build"))
    inf, outf = os.path.join(d, "job.json"), os.path.join(d, "out.json")
    json.dump({"cset": fi["constraint_set"], "seed": int(fi.get("seed", 17)), "ndata": 60, "nphsp": 300,
               "cells": [[fi["method"], fi.get("maxiter")] + (["large"] if fi.get("kind") == "large" else [])], "tmpdir": d}, open(inf, "w"))
    r = subprocess.run([sys.executable, "-W", "ignore", os.path.abspath(__file__), "--worker", inf, outf], capture_output=True, text=True, cwd=d)
    if r.returncode != 0 or not os.path.exists(outf):
        print("worker failed:", (r.stdout + r.stderr)[-1500:])
        return 1
    rec = json.load(open(outf))["cells"][0]
    if "exception" in rec:
        print("ConfigLoader.fit raised", rec["exception"])
        return 1
    print("post-conditions now (fresh session, this cell only):", json.dumps(rec["post"], indent=1))
    for k, ok in rec["post"].items():
        if not ok:
            print("  ", k, json.dumps(rec["detail"][k], default=str)[:500])
    return 0 if all(rec["post"].values()) else 1


if __name__ == "__main__":
    if len(sys.argv) == 4 and sys.argv[1] == "--worker":
        worker_main(sys.argv[2], sys.argv[3])
