"""C17 - temporary overrides and derived computations leave the model unchanged.

Theorems: coq/Props/Properties_C17.v (restoration for arbitrary bodies / arbitrary nesting / an
exception at any evaluation point, over the model coq/State/Overrides.v).
Tie: seeded programs of nested override blocks and read-only helpers run on a real 3-chain
AmplitudeModel with an exception injected at every evaluation point (user-code points and
every decay_group.sum_amp call); the full model state is captured at every evaluation point and
at the end and compared *inside Coq* (vm_compute) with the model's run of the same program.
Direct property test (independent of the Coq model): state before == state after and the density
of the probe events bit-identical.
Three further model families (findings C17-1..3): a use_tf_function model whose density is evaluated
through the cached (traced) path inside the blocks, a one-chain use_tf_function model for
factor_iteration, a cached_shape amplitude model whose density evaluation narrows the chain
selection itself; temp_params managers whose assignment raises half-way."""
import contextlib
import json
import random
from fractions import Fraction

import common

TECHNIQUE = ("Coq proof (induction over programs of nested override blocks with an arbitrary raising oracle) "
             "+ Coq-evaluated correspondence on fault-injected runs of a real AmplitudeModel")

HEADER = ("From Coq Require Import ZArith List Bool.\nFrom TFV Require Import State.Overrides.\n"
          "Import ListNotations.\nOpen Scope Z_scope.\n")

CFG = {
    "data": {"dat_order": ["B", "C", "D"]},
    "decay": {
        "A": [["R_BC", "D"], ["R_BD", "C"], ["R_CD", "B"]],
        "R_BC": ["B", "C"], "R_BD": ["B", "D"], "R_CD": ["C", "D"],
    },
    "particle": {
        "$top": {"A": {"J": 1, "P": 1, "mass": 1.0}},
        "$finals": {
            "B": {"J": 0, "P": -1, "mass": 0.1},
            "C": {"J": 0, "P": -1, "mass": 0.1},
            "D": {"J": 0, "P": -1, "mass": 0.1},
        },
        "R_BC": {"J": 0, "P": 1, "mass": 0.5, "width": 0.05},
        "R_BD": {"J": 1, "P": -1, "mass": 0.6, "width": 0.06},
        "R_CD": {"J": 2, "P": 1, "mass": 0.55, "width": 0.07},
    },
}
CFG4 = {  # thorough: R_BC reached through two chains (two different parents of the same resonance are
    # not expressible in a 3-body decay; instead a second resonance with the same daughters)
    "data": {"dat_order": ["B", "C", "D"]},
    "decay": {
        "A": [["R_BC", "D"], ["R_BC2", "D"], ["R_BD", "C"], ["R_CD", "B"]],
        "R_BC": ["B", "C"], "R_BC2": ["B", "C"], "R_BD": ["B", "D"], "R_CD": ["C", "D"],
    },
    "particle": dict(CFG["particle"], R_BC2={"J": 2, "P": 1, "mass": 0.45, "width": 0.08}),
}
CFG5 = {  # 4-body cascade: the Decay object A -> X E is shared by both chains and carries two LS couplings
    "data": {"dat_order": ["B", "C", "D", "E"]},
    "decay": {"A": [["X", "E"]], "X": [["Y", "D"], ["Z", "C"]], "Y": ["B", "C"], "Z": ["B", "D"]},
    "particle": {
        "$top": {"A": {"J": 1, "P": -1, "mass": 5.0}},
        "$finals": {"B": {"J": 0, "P": -1, "mass": 0.14}, "C": {"J": 0, "P": -1, "mass": 0.14},
                    "D": {"J": 0, "P": -1, "mass": 0.14}, "E": {"J": 0, "P": -1, "mass": 0.5}},
        "X": {"J": 1, "P": 1, "mass": 3.0, "width": 0.3},
        "Y": {"J": 1, "P": -1, "mass": 0.5, "width": 0.1},
        "Z": {"J": 2, "P": 1, "mass": 1.0, "width": 0.2},
    },
}
CFG_TF = dict(CFG, data={"dat_order": ["B", "C", "D"], "use_tf_function": True})
CFG_TF1 = {  # one-chain group: factor_iteration keeps the selection complete, so the cached path stays enabled
    "data": {"dat_order": ["B", "C", "D"], "use_tf_function": True},
    "decay": {"A": [["R_BC", "D"]], "R_BC": ["B", "C"]},
    "particle": {"$top": CFG["particle"]["$top"], "$finals": CFG["particle"]["$finals"],
                 "R_BC": {"J": 1, "P": -1, "mass": 0.5, "width": 0.05}},
}
CFG_CS = {  # amp_model cached_shape: the density evaluation narrows the chain selection around build_params_vector
    "data": {"dat_order": ["B", "C", "D"], "preprocessor": "cached_shape", "amp_model": "cached_shape"},
    "decay": CFG["decay"],
    "particle": dict(CFG["particle"], R_BC={"J": 0, "P": 1, "mass": 0.5, "width": 0.05, "float": "mg"}),
}
CONF_KEYS = ["verif_c17_a", "verif_c17_b", "multi_gpus", "polar"]


class Injected(Exception):
    pass


def frac(x):
    n, d = Fraction(float(x)).as_integer_ratio() if not isinstance(x, bool) else (int(x), 1)
    return (n, d)


class Model:
    """the implementation under test + the encoding of its state"""

    def __init__(self, cfg, seed, bound_name="R_BC_mass", mode="eager"):
        import numpy as np
        import tf_pwa.config as tcfg
        from tf_pwa.config_loader import ConfigLoader
        from tf_pwa.phasespace import PhaseSpaceGenerator

        self.np = np
        self.tcfg = tcfg
        self.mode = mode  # "eager" | "tf" (cached path of AbsPDF.__call__ in use) | "cs" (cached_shape amplitude model)
        self.cfg = cfg
        for k in CONF_KEYS[:2]:
            try:
                tcfg.get_config(k)
            except Exception:
                tcfg.regist_config(k, 0)
        self.config = ConfigLoader(cfg)
        self.amp = self.config.get_amplitude()
        self.dg = self.amp.decay_group
        self.vm = self.amp.vm
        self.names = list(self.vm.variables)
        self._key = {n: i for i, n in enumerate(self.names)}
        self.res = [str(r) for r in self.amp.res]
        self.nch = len(self.dg.chains)
        # a bounded parameter (fit-space value differs from the physical one)
        self.bound_name = bound_name
        self.vm.set_bound({bound_name: (0.3, 0.7)})
        rnd = random.Random(seed)
        self.init_vals = {}
        for n in self.names:
            v = float(self.vm.variables[n].numpy())
            self.init_vals[n] = round(v * 1024) / 1024 if n != bound_name else 0.5
        self.conf0 = {k: (tcfg.get_config(k) if k in CONF_KEYS[2:] else 0) for k in CONF_KEYS}
        np.random.seed(seed % (2 ** 32))
        top_mass = list(cfg["particle"]["$top"].values())[0]["mass"]
        p = PhaseSpaceGenerator(top_mass, [cfg["particle"]["$finals"][f]["mass"] for f in cfg["data"]["dat_order"]]).generate(5)
        self.data = self.config.data.cal_angle(p)
        self.orig_sum_amp = self.dg.sum_amp
        self.reset(list(range(self.nch)))
        self.amp(self.data)  # registers id(data): later calls may take the cached path
        self.cs_idx = list(self.amp.get_cached_shape_idx()) if mode == "cs" else []
        # static structure: resonance -> chains, chain -> factor_iteration mask dicts
        self.resmap = []
        for ri, r in enumerate(self.amp.res):
            self.resmap.append((ri, [i for i, c in enumerate(self.dg.chains) if r in c.inner]))
        fn = {}
        for c, j in self.amp.factor_iteration(deep=2):
            fn.setdefault(self.dg.chains.index(c), []).append(dict(j))
        self.fnames = sorted(fn.items())
        # names bound to the same tf.Variable (none in the configurations used here: the model's parameter cells are independent)
        byvar = {}
        for n, v in self.vm.variables.items():
            byvar.setdefault(id(v), []).append(n)
        self.ties = [(n, l) for l in byvar.values() if len(l) > 1 for n in l]
        self.mask_part = []
        for c in self.dg:
            self.mask_part.append(c)
            for d in c:
                self.mask_part.append(d)

    def key(self, name):
        if name not in self._key:
            self._key[name] = len(self._key)
        return self._key[name]

    def reset(self, chains_idx, extra_int=None):
        for n, v in self.init_vals.items():
            self.vm.variables[n].assign(v)
        self.vm.mask_vars = {}
        if extra_int is None:
            self.dg.set_used_chains(list(chains_idx))
        else:  # reached through set_used_res(name + index): not_full is stale
            self.dg.set_used_res(extra_int)
        for x in getattr(self, "mask_part", []):
            x.mask_factor = False
        for k, v in self.conf0.items():
            self.tcfg.set_config(k, v)

    def snapshot(self):
        return {
            "vars": [(self.key(n), frac(self.vm.variables[n].numpy())) for n in self.vm.variables],
            "mask": [(self.key(n), frac(v)) for n, v in self.vm.mask_vars.items()],
            "cidx": [int(i) for i in self.dg.chains_idx],
            "nf": bool(self.dg.not_full),
            "flags": [bool(getattr(x, "mask_factor", False)) for x in self.mask_part],
            "conf": [(i, frac(self.conf_token(self.tcfg.get_config(k)))) for i, k in enumerate(CONF_KEYS)],
        }

    @staticmethod
    def conf_token(v):
        if isinstance(v, bool):
            return int(v)
        if isinstance(v, (int, float)):
            return v
        return 10 ** 6 + (hash(str(v)) % 1000)

    def density(self, eager=False):
        if eager:  # reference value, never through a trace
            return self.amp.pdf(self.data).numpy()
        return self.amp(self.data).numpy()

    def fresh_trace_cache(self):
        """a new session: no trace of the density exists yet (as AbsPDF.__init__ builds it)"""
        if self.mode == "tf":
            from tf_pwa.experimental.wrap_function import WrapFun

            self.amp.cached_fun = WrapFun(self.amp.pdf)

    def same_density(self, a, b):
        """eager models: bit-identical.  Cached path: a traced and an eager evaluation of the same
        formula may differ in the last bits (observed 4e-16): relative 1e-12"""
        if self.mode != "tf":
            return a.tobytes() == b.tobytes()
        return a.shape == b.shape and bool(self.np.all(self.np.abs(a - b) <= 1e-12 * self.np.abs(b)))


# ---------------------------------------------------------------- programs


BAD_VALUES = {"str": "1.0e-1x", "shape": [1.0, 2.0]}


def gen_bad(rnd, M, vm):
    """a temp_params argument whose assignment raises half-way: entries before the unusable value,
    the unusable value, entries after it; or (AbsPDF only) a list of trainable values one too short"""
    dy = lambda: rnd.randrange(-96, 97) / 64.0
    if not vm and rnd.random() < 0.3:
        return ("temp_params_short", rnd.randrange(1, 64) / 64.0)
    names = rnd.sample([n for n in M.names if n != M.bound_name], rnd.randrange(1, 5))
    cut = rnd.randrange(0, len(names))
    good = {n: dy() for n in names[:cut]}
    tail = {n: dy() for n in names[cut + 1:]}
    if vm and rnd.random() < 0.2:
        tail["no_such_variable"] = 1.5  # the save phase raises first: nothing is assigned
    return ("vm_temp_params_bad" if vm else "temp_params_bad", good, (names[cut], rnd.choice(sorted(BAD_VALUES))), tail)


def gen_blk(rnd, M, masked, allow_unsafe=False):
    kinds = ["vm_temp_params", "mask_params", "temp_used_res", "gls_one", "temp_config"]
    if rnd.random() < 0.12:
        return gen_bad(rnd, M, vm=masked or rnd.random() < 0.5)
    if not masked or allow_unsafe:
        kinds += ["temp_params", "temp_params"]
    k = rnd.choice(kinds)
    if masked and allow_unsafe and rnd.random() < 0.5:
        k = "temp_params"  # the nesting that leaked before feefe02
    dy = lambda: rnd.randrange(-96, 97) / 64.0
    if k in ("temp_params", "vm_temp_params", "mask_params"):
        names = rnd.sample(M.names, rnd.randrange(1, 4))
        if rnd.random() < 0.5 and M.bound_name not in names:
            names[0] = M.bound_name
        d = {n: (0.3125 + rnd.randrange(0, 24) / 64.0 if n == M.bound_name else dy()) for n in names}
        if k != "mask_params" and rnd.random() < 0.12:
            d["no_such_variable"] = 1.5  # set() warns; VarsManager.temp_params raises before changing anything
        return (k, d)
    if k == "temp_used_res":
        res = rnd.sample(M.res, rnd.randrange(0, len(M.res) + 1))
        ints = rnd.sample(range(M.nch), min(M.nch, rnd.choice([0, 0, 0, 1, 2])))
        return (k, res, ints)
    if k == "gls_one":
        return (k,)
    name = rnd.choice(CONF_KEYS[:2] + (["no_such_config"] if rnd.random() < 0.15 else CONF_KEYS[:2]))
    return ("temp_config", name, rnd.randrange(1, 50))


def gen_helper(rnd, M):
    if M.mode == "cs":  # the other helpers either evaluate through this density (nested narrowing) or need data the
        return ("cspdf",)  # cached_shape preprocessor does not provide
    k = rnd.choice(["pw", "pw", "pwbase", "interf", "ff", "ff_ng", "appendint"])
    if k == "pw":
        comb = []
        for _ in range(rnd.randrange(0, 4)):
            comb.append((rnd.sample(M.res, min(len(M.res), rnd.randrange(0, 3))), rnd.sample(range(M.nch), min(M.nch, rnd.randrange(0, 3)))))
        if rnd.random() < 0.3:
            comb = None  # default: every chain on its own
        return (k, comb)
    if k == "pwbase":
        return (k, [rnd.sample(range(M.nch), rnd.randrange(0, M.nch + 1)) for _ in range(rnd.randrange(0, 4))])
    if k == "interf":
        return (k,)
    res = rnd.sample(M.res, rnd.randrange(1, min(3, len(M.res)) + 1))
    if k in ("ff", "ff_ng"):
        return (k, res, rnd.choice([5, 3, 64]))
    return (k, res)


def gen_prog(rnd, M, depth, masked=False, allow_unsafe=False):
    r = rnd.random()
    if depth <= 0 or r < 0.15:
        if M.mode == "tf" and rnd.random() < 0.7:
            return ("dens",)  # user code evaluating amp(data)
        if M.mode == "cs" and rnd.random() < 0.6:
            return ("helper", ("cspdf",))
        return ("eval",)
    if r < 0.35:
        return ("seq", gen_prog(rnd, M, depth - 1, masked, allow_unsafe), gen_prog(rnd, M, depth - 1, masked, allow_unsafe))
    if r < 0.75:
        b = gen_blk(rnd, M, masked, allow_unsafe)
        body = gen_prog(rnd, M, depth - 1, masked or b[0] == "mask_params", allow_unsafe)
        if rnd.random() < 0.5:
            body = ("seq", ("eval",), ("seq", body, ("eval",)))
        return ("with", b, body)
    if r < 0.93:
        return ("helper", gen_helper(rnd, M))
    return ("fiter", gen_prog(rnd, M, min(depth - 1, 1), True, allow_unsafe))


def is_safe(p, m=False):
    if p[0] in ("eval", "helper", "dens"):
        return True
    if p[0] == "seq":
        return is_safe(p[1], m) and is_safe(p[2], m)
    if p[0] == "fiter":
        return is_safe(p[1], True)
    b = p[1]
    if b[0] == "temp_params":
        return (not m) and is_safe(p[2], m)
    return is_safe(p[2], m or b[0] == "mask_params")


FIXED_PROGS = [
    # every manager once, body raising / not raising
    ("with", ("temp_params", {"R_BD_mass": 0.625}), ("eval",)),
    ("with", ("vm_temp_params", {"R_BC_mass": 0.5625, "R_CD_width": 0.125}), ("eval",)),
    ("with", ("mask_params", {"R_CD_mass": 0.53125}), ("eval",)),
    ("with", ("temp_used_res", ["R_BC"], []), ("eval",)),
    ("with", ("temp_used_res", ["R_BD"], [2]), ("seq", ("eval",), ("helper", ("interf",)))),
    ("with", ("gls_one",), ("eval",)),
    ("with", ("temp_config", "verif_c17_a", 7), ("eval",)),
    ("helper", ("pw", None)),
    ("helper", ("pwbase", [[0], [1, 2], []])),
    ("helper", ("interf",)),
    ("helper", ("ff", ["R_BC", "R_CD"], 3)),
    ("helper", ("ff_ng", ["R_BD", "R_BC", "R_CD"], 5)),
    ("helper", ("appendint", ["R_CD", "R_BC"])),
    ("fiter", ("eval",)),
    ("fiter", ("with", ("temp_used_res", ["R_BC", "R_BD"], []), ("eval",))),
    # the shape used by tf_pwa/model/custom.py: temp_used_res > mask_params > evaluation
    ("with", ("temp_used_res", ["R_BC"], []), ("with", ("mask_params", {"R_BC_mass": 0.53125}), ("helper", ("pw", [(["R_BC"], [])])))),
    ("with", ("temp_params", {"R_BC_mass": 0.625}), ("with", ("mask_params", {"R_BC_mass": 0.375}), ("seq", ("eval",), ("helper", ("ff_ng", ["R_BC"], 5))))),
]
NESTED_MASK_PROGS = [  # nested masked-parameter blocks merge (inner values win, the order of the outer mask is kept)
    ("with", ("mask_params", {"R_BC_mass": 0.75}), ("seq", ("eval",), ("seq", ("with", ("mask_params", {"R_CD_width": 0.125}), ("eval",)), ("eval",)))),
    ("with", ("mask_params", {"R_BC_mass": 0.75, "R_BD_mass": 0.625}), ("with", ("mask_params", {"R_CD_width": 0.125, "R_BC_mass": 0.5}), ("helper", ("interf",)))),
    ("with", ("mask_params", {"R_BD_width": 0.125}), ("fiter", ("with", ("mask_params", {"R_BD_width": 0.25}), ("eval",)))),
]
MASKED_PROGS = [  # AbsPDF.temp_params entered while a parameter mask is active (leaked before feefe02)
    ("with", ("mask_params", {"R_BC_mass": 0.75}), ("with", ("temp_params", {"R_BD_mass": 0.625}), ("eval",))),
    ("fiter", ("with", ("temp_params", {"R_BD_mass": 0.625}), ("eval",))),
    ("with", ("mask_params", {"R_BC_mass": 0.75, "R_CD_width": 0.125}),
     ("seq", ("eval",), ("with", ("temp_params", {"R_BC_mass": 0.625}), ("helper", ("interf",))))),
]


BAD_PROGS = [  # finding C17-2: the assignment of the temporary values raises half-way
    ("with", ("temp_params_bad", {"R_BD_mass": 0.625}, ("R_CD_mass", "str"), {}), ("eval",)),
    ("with", ("temp_params_bad", {"R_BD_mass": 0.625, "R_CD_width": 0.125}, ("R_CD_mass", "shape"), {"R_BD_width": 0.25}), ("eval",)),
    ("with", ("temp_params_short", 0.25), ("eval",)),
    ("with", ("vm_temp_params_bad", {"R_BD_mass": 0.625}, ("R_CD_mass", "shape"), {"R_BD_width": 0.25}), ("eval",)),
    ("with", ("vm_temp_params_bad", {"R_BC_mass": 0.5625}, ("R_CD_mass", "str"), {}), ("eval",)),
    ("with", ("vm_temp_params_bad", {"R_BD_mass": 0.625}, ("R_CD_mass", "str"), {"no_such_variable": 1.5}), ("eval",)),
    ("with", ("mask_params", {"R_BC_mass": 0.75}), ("seq", ("eval",), ("with", ("temp_params_bad", {"R_BC_mass": 0.625}, ("R_BD_mass", "str"), {}), ("eval",)))),
    ("with", ("temp_used_res", ["R_BC"], []), ("seq", ("with", ("temp_params_short", 0.5), ("eval",)), ("eval",))),
    ("fiter", ("with", ("vm_temp_params_bad", {"R_CD_mass": 0.5}, ("R_BD_mass", "shape"), {}), ("eval",))),
]
TF_PROGS = [  # finding C17-1: the density evaluated through the cached path inside the blocks
    ("with", ("mask_params", {"R_CD_mass": 0.53125}), ("dens",)),
    ("with", ("gls_one",), ("dens",)),
    ("with", ("mask_params", {"R_BC_mass": 0.625}), ("with", ("gls_one",), ("dens",))),
    ("seq", ("dens",), ("with", ("mask_params", {"R_BD_width": 0.125}), ("dens",))),
    ("with", ("temp_params", {"R_BD_mass": 0.625}), ("dens",)),
    ("with", ("temp_used_res", ["R_BC", "R_BD"], []), ("dens",)),
    ("fiter", ("dens",)),
    ("with", ("temp_config", "verif_c17_a", 7), ("seq", ("helper", ("pw", None)), ("dens",))),
    ("with", ("vm_temp_params", {"R_CD_width": 0.125}), ("with", ("mask_params", {"R_CD_width": 0.25}), ("seq", ("dens",), ("eval",)))),
]
TF1_PROGS = [  # one-chain group
    ("fiter", ("dens",)),
    ("fiter", ("seq", ("eval",), ("with", ("gls_one",), ("dens",)))),
    ("with", ("mask_params", {"R_BC_mass": 0.53125}), ("dens",)),
]
CS_PROGS = [  # finding C17-3: the cached_shape density evaluation (one evaluation point inside its narrowed selection)
    ("helper", ("cspdf",)),
    ("with", ("mask_params", {"R_CD_mass": 0.53125}), ("helper", ("cspdf",))),
    ("with", ("temp_params", {"R_BD_mass": 0.625}), ("seq", ("eval",), ("helper", ("cspdf",)))),
    ("with", ("gls_one",), ("seq", ("helper", ("cspdf",)), ("eval",))),
    ("with", ("temp_used_res", ["R_BC", "R_CD"], []), ("helper", ("cspdf",))),
    ("with", ("temp_config", "verif_c17_a", 7), ("helper", ("cspdf",))),
    ("fiter", ("helper", ("cspdf",))),
    ("with", ("vm_temp_params", {"R_CD_width": 0.125}), ("seq", ("helper", ("cspdf",)), ("helper", ("cspdf",)))),
]


def bad_arg(M, b):
    """the Python argument of a failing temp_params block and the entries assigned before it raises"""
    f64 = M.np.float64
    if b[0] == "temp_params_short":
        tv = list(M.vm.trainable_vars)
        vals = [float(M.init_vals[n]) + b[1] for n in tv]
        return [f64(v) for v in vals[:-1]], dict(zip(tv[:-1], vals[:-1])), []
    arg = {k: f64(v) for k, v in b[1].items()}
    arg[b[2][0]] = BAD_VALUES[b[2][1]]
    arg.update({k: f64(v) for k, v in b[3].items()})
    return arg, dict(b[1]), [b[2][0]] + list(b[3])


class Runner:
    def __init__(self, M, K):
        self.M, self.K, self.n, self.trace = M, K, 0, []
        self.in_dens = False

    def tick(self):
        import tensorflow as tf
        if tf.executing_eagerly():
            snap = self.M.snapshot()
        else:
            # the evaluation point is reached while a tf.function is being traced (helpers that change the chain selection
            # force a new trace): read the Python-level state outside the graph under construction (Variable.numpy() is not
            # available inside it; found by the thorough tier as three false alarms of the harness)
            with tf.init_scope():
                snap = self.M.snapshot()
        self.trace.append(snap)
        k = self.n
        self.n += 1
        if k == self.K:
            raise Injected(k)

    def manager(self, b):
        M = self.M
        f64 = M.np.float64
        if b[0] == "temp_params":
            return M.amp.temp_params({k: f64(v) for k, v in b[1].items()})
        if b[0] == "vm_temp_params":
            return M.vm.temp_params({k: f64(v) for k, v in b[1].items()})
        if b[0] == "mask_params":
            return M.amp.mask_params({k: f64(v) for k, v in b[1].items()})
        if b[0] == "temp_used_res":
            return M.amp.temp_used_res(list(b[1]) + list(b[2]))
        if b[0] == "gls_one":
            return M.amp.temp_total_gls_one()
        if b[0] == "temp_config":
            return M.tcfg.temp_config(b[1], b[2])
        if b[0] in ("temp_params_bad", "temp_params_short"):
            return M.amp.temp_params(bad_arg(M, b)[0])
        if b[0] == "vm_temp_params_bad":
            return M.vm.temp_params(bad_arg(M, b)[0])
        raise ValueError(b)

    def helper(self, h):
        M = self.M
        from tf_pwa.amp.amp import BaseAmplitudeModel
        from tf_pwa.fitfractions import FitFractions, cal_fitfractions, cal_fitfractions_no_grad

        if h[0] == "pw":
            comb = None if h[1] is None else [list(r) + list(i) for r, i in h[1]]
            M.amp.partial_weight(M.data, comb)
        elif h[0] == "pwbase":
            BaseAmplitudeModel.partial_weight(M.amp, M.data, [list(c) for c in h[1]])
        elif h[0] == "interf":
            M.amp.partial_weight_interference(M.data)
        elif h[0] == "ff":
            cal_fitfractions(M.amp, M.data, res=list(h[1]), batch=h[2])
        elif h[0] == "ff_ng":
            cal_fitfractions_no_grad(M.amp, M.data, res=list(h[1]), batch=h[2])
        elif h[0] == "appendint":
            FitFractions(M.amp, list(h[1])).append_int(M.data)
        elif h[0] == "cspdf":
            M.amp.pdf(M.data)
        else:
            raise ValueError(h)

    def exec(self, p):
        if p[0] == "eval":
            self.tick()
        elif p[0] == "dens":  # user code: (may raise, then) evaluates the density the way a user does
            self.tick()
            self.in_dens = True
            try:
                self.M.amp(self.M.data)
            finally:
                self.in_dens = False
        elif p[0] == "seq":
            self.exec(p[1])
            self.exec(p[2])
        elif p[0] == "with":
            with self.manager(p[1]):
                self.exec(p[2])
        elif p[0] == "helper":
            self.helper(p[1])
        elif p[0] == "fiter":
            for _chain, _names in self.M.amp.factor_iteration(deep=2):
                self.exec(p[1])
        else:
            raise ValueError(p)


def run_impl(M, p, K, init):
    """returns (before, trace, after, exn_escaped, density_before, density_after, n_ticks)"""
    import tf_pwa.experimental.build_amp as build_amp

    M.reset(*init)
    before = M.snapshot()
    M.fresh_trace_cache()
    d0 = M.density(eager=(M.mode == "tf"))
    r = Runner(M, K)

    def patched(data, *a, **kw):
        if not r.in_dens:  # inside a user-level density evaluation ("dens") the evaluation point is the user's
            r.tick()
        return M.orig_sum_amp(data, *a, **kw)

    orig_bpv = build_amp.build_params_vector

    def patched_bpv(*a, **kw):  # the evaluation point inside CachedShapeAmplitudeModel.pdf
        r.tick()
        return orig_bpv(*a, **kw)

    M.dg.sum_amp = patched
    if M.mode == "cs":
        build_amp.build_params_vector = patched_bpv
    exn = None
    try:
        r.exec(p)
    except Injected:
        exn = "Injected"
    except Exception as ex:  # raised by the implementation itself (unknown name in a manager, unusable value)
        exn = type(ex).__name__ + ":" + str(ex)[:60]
    finally:
        del M.dg.sum_amp
        build_amp.build_params_vector = orig_bpv
    after = M.snapshot()
    d1 = M.density()
    return before, r.trace, after, exn, d0, d1, r.n


# ---------------------------------------------------------------- Coq encoding


def z(i):
    return "(%d)" % i if i < 0 else "%d" % i


def c_val(v):
    return "(%s,%s)" % (z(v[0]), z(v[1]))


def c_amap(m):
    return "[" + ";".join("(%s,%s)" % (z(k), c_val(v)) for k, v in m) + "]"


def c_zl(l):
    return "[" + ";".join(z(int(i)) for i in l) + "]"


def c_bool(b):
    return "true" if b else "false"


def c_state(s):
    return "(mkState %s %s %s %s [%s] %s)" % (
        c_amap(s["vars"]), c_amap(s["mask"]), c_zl(s["cidx"]), c_bool(s["nf"]),
        ";".join(c_bool(b) for b in s["flags"]), c_amap(s["conf"]))


def c_dict(M, d):
    return c_amap([(M.key(k), frac(v)) for k, v in d.items()])


def conf_key(name):
    return CONF_KEYS.index(name) if name in CONF_KEYS else 99


def c_blk(M, b):
    if b[0] == "temp_params":
        return "(BTempParams %s)" % c_dict(M, b[1])
    if b[0] == "vm_temp_params":
        return "(BVmTempParams %s)" % c_dict(M, b[1])
    if b[0] == "mask_params":
        return "(BMaskParams %s)" % c_dict(M, b[1])
    if b[0] == "temp_used_res":
        return "(BTempUsedRes %s %s)" % (c_zl([M.res.index(r) for r in b[1]]), c_zl(b[2]))
    if b[0] == "gls_one":
        return "BTotalGlsOne"
    if b[0] in ("temp_params_bad", "temp_params_short"):
        return "(BTempParamsBad %s)" % c_dict(M, bad_arg(M, b)[1])
    if b[0] == "vm_temp_params_bad":
        _, good, rest = bad_arg(M, b)
        return "(BVmTempParamsBad %s %s)" % (c_dict(M, good), c_zl([M.key(k) for k in rest]))
    return "(BTempConfig %d %s)" % (conf_key(b[1]), c_val(frac(b[2])))


def c_helper(M, h):
    ri = lambda l: c_zl([M.res.index(r) for r in l])
    if h[0] == "pw":
        comb = h[1] if h[1] is not None else [([], [i]) for i in range(M.nch)]
        return "(HPartialWeight [%s])" % ";".join("(%s,%s)" % (ri(r), c_zl(i)) for r, i in comb)
    if h[0] == "pwbase":
        return "(HPartialWeightBase [%s])" % ";".join(c_zl(c) for c in h[1])
    if h[0] == "interf":
        return "HInterference"
    if h[0] == "cspdf":
        return "(HCachedShapePdf %s)" % c_zl(M.cs_idx)
    if h[0] in ("ff", "ff_ng"):
        nb = (5 + h[2] - 1) // h[2]
        return "(HFitFractions %s %d%%nat)" % (ri(h[1]), nb)
    return "(HAppendInt %s)" % ri(h[1])


def c_prog(M, p):
    if p[0] in ("eval", "dens"):
        return "PEval"
    if p[0] == "seq":
        return "(PSeq %s %s)" % (c_prog(M, p[1]), c_prog(M, p[2]))
    if p[0] == "with":
        return "(PWith %s %s)" % (c_blk(M, p[1]), c_prog(M, p[2]))
    if p[0] == "helper":
        return "(PHelper %s)" % c_helper(M, p[1])
    return "(PFactorIter %s)" % c_prog(M, p[1])


def c_env(M):
    return "(mkEnv %d [%s] [%s] [%s])" % (
        M.nch,
        ";".join("(%d,%s)" % (r, c_zl(l)) for r, l in M.resmap),
        ";".join("(%d,[%s])" % (i, ";".join(c_dict(M, j) for j in js)) for i, js in M.fnames),
        ";".join("(%d,%s)" % (M.key(n), c_zl([M.key(i) for i in l])) for n, l in M.ties),
    )


def state_diff(a, b):
    out = {}
    for k in a:
        if a[k] != b[k]:
            out[k] = {"before": a[k], "after": b[k]} if k not in ("vars",) else {
                "changed": [(n, x, y) for (n, x), (_, y) in zip(a[k], b[k]) if x != y]}
    return out


# ---------------------------------------------------------------- check


def campaign(ctx, M, tag, progs, inits, rnd, max_pos, pin=None, nfixed=None):
    """run every program with no injection and with an exception at (a sample of) every
    evaluation point; returns Coq cases + direct property failures"""
    prelude = ["Definition E_%s : env := %s." % (tag, c_env(M))]
    cases, meta, direct = [], {}, []
    for pi, p in enumerate(progs):
        init = inits[pi % len(inits)] if pi >= (len(FIXED_PROGS) if nfixed is None else nfixed) else inits[0]
        if pin and pi in pin:
            init = pin[pi]
        base = run_impl(M, p, None, init)
        n = base[6]
        pos = list(range(n))
        if len(pos) > max_pos:
            pos = sorted(rnd.sample(pos, max_pos))
        prelude.append("Definition P_%s_%d : prog := %s." % (tag, pi, c_prog(M, p)))
        prelude.append("Definition S_%s_%d : state := %s." % (tag, pi, c_state(base[0])))
        ctx.count("ticks=%s" % (n if n < 10 else "10+"))
        for K in [None] + pos:
            before, trace, after, exn, d0, d1, nt = base if K is None else run_impl(M, p, K, init)
            ctx.evaluations += 1
            ctx.count("inject=%s" % ("none" if K is None else "yes"))
            ctx.count("escaped=%s" % (exn.split(":")[0] if exn else "no"))
            cid = "%s_p%d_k%s" % (tag, pi, "n" if K is None else K)
            stmt = "check_run E_%s P_%s_%d %s S_%s_%d [%s] %s %s = true" % (
                tag, tag, pi, "None" if K is None else "(Some %d%%nat)" % K, tag, pi,
                ";".join(c_state(s) for s in trace), c_state(after), c_bool(exn is not None))
            cases.append((cid, stmt, "vm_compute; reflexivity"))
            inp = {"model": tag, "program": p, "inject_at_evaluation": K, "initial": {"chains_idx": before["cidx"], "not_full": before["nf"]}}
            meta[cid] = inp
            if len(trace) > 1:
                ctx.distinct.add((tag, pi, K))
            # direct property test on the implementation
            diff = state_diff(before, after)
            if "nf" in diff and init[1] is not None:  # stale not_full recomputed: observation, not a property failure
                ctx.count("not_full_recomputed(observation)")
                del diff["nf"]
            if diff or not M.same_density(d1, d0):
                direct.append({"input": inp, "state_diff": diff, "density_changed": not M.same_density(d1, d0),
                               "density_before_after": [[float(x) for x in M.np.ravel(d0)[:3]], [float(x) for x in M.np.ravel(d1)[:3]]], "escaped": exn})
    return prelude, cases, meta, direct


MODELS = {  # tag -> (configuration, seed offset, bounded parameter, mode)
    "a": (CFG, 17, "R_BC_mass", "eager"),
    "b": (CFG4, 18, "R_BC_mass", "eager"),
    "c": (CFG5, 19, "Y_mass", "eager"),
    "t": (CFG_TF, 20, "R_BC_mass", "tf"),
    "u": (CFG_TF1, 21, "R_BC_mass", "tf"),
    "s": (CFG_CS, 22, "R_BC_mass", "cs"),
}


def make_model(tag, seed):
    cfg, off, bound, mode = MODELS[tag]
    return Model(cfg, seed + off, bound_name=bound, mode=mode)


def run(ctx):
    import bootstrap

    bootstrap.tf_quiet()
    rnd = random.Random(ctx.seed * 1000003 + 17)
    quick = ctx.tier == "quick"
    ctx.rule = ("programs = nested with-blocks (AbsPDF.temp_params, VarsManager.temp_params, mask_params, temp_used_res with names+indices, "
                "temp_total_gls_one, temp_config) x read-only helpers (partial_weight both variants, partial_weight_interference, "
                "cal_fitfractions(+_no_grad, 1-2 batches), FitFractions.append_int, factor_iteration loops) x user-code points; every program "
                "is run without fault and with an exception injected at each evaluation point (user point or decay_group.sum_amp call; "
                "sampled when > max_pos); temp_params managers (both) whose assignment raises half-way (unusable string / wrong shape at a random "
                "position of the dict, a list of trainable values one too short); a use_tf_function model (3 chains, and a one-chain group for "
                "factor_iteration) whose user points evaluate amp(data) through the cached path, every program starting without a trace, density after "
                "= amp(data) against the eager density before (rel 1e-12); a cached_shape amplitude model whose density evaluation (one evaluation "
                "point inside its own narrowed selection) is a helper; initial chain selections full / partial / reordered / reached via set_used_res(name+index); restricted histories whose "
                "temporary selection names exactly the active chains plus an index; a 4-body cascade in which one Decay object is shared by two chains; "
                "distinct = (program, injection point) with >= 2 evaluation points; one Coq obligation per run")
    common.theorem_stage(ctx)
    M = make_model("a", ctx.seed)
    inits = [(list(range(M.nch)), None), ([0, 1], None), ([2], None), ([1, 0, 2], None), ([], ["R_BC", 1, 2]), ([0, 2], None)]
    nrand = 40 if quick else 250
    progs = list(FIXED_PROGS) + list(MASKED_PROGS) + list(BAD_PROGS) + list(NESTED_MASK_PROGS)
    while len(progs) < len(FIXED_PROGS) + len(MASKED_PROGS) + len(BAD_PROGS) + len(NESTED_MASK_PROGS) + nrand:
        p = gen_prog(rnd, M, rnd.choice([2, 3, 3, 4]), allow_unsafe=True)
        progs.append(p)
        ctx.count("temp_params_under_mask=%s" % ("no" if is_safe(p) else "yes"))
    # history: the model is already restricted; the temporary selection names exactly the active chains plus an index
    pin = {}
    for init_idx, names, extra in (([0], ["R_BC"], [2]), ([2], ["R_CD"], [0]), ([0, 1], ["R_BC", "R_BD"], [2]), ([1, 2], ["R_BD", "R_CD"], [0]),
                                   ([0], ["R_BC"], [1, 2])):
        for prog in (("with", ("temp_used_res", names, extra), ("eval",)),
                     ("helper", ("pw", [(names, extra)])),
                     ("with", ("temp_used_res", names, extra), ("helper", ("pw", [(names, extra), ([], [1])])))):
            pin[len(progs)] = (init_idx, None)
            progs.append(prog)
    ctx.log("model A: %d chains, %d variables, %d programs" % (M.nch, len(M.names), len(progs)))
    prelude, cases, meta, direct = campaign(ctx, M, "a", progs, inits, rnd, 10 if quick else 25, pin=pin)
    # cascade with a Decay object shared between chains (aliasing inside temp_total_gls_one's object list)
    M5 = make_model("c", ctx.seed)
    progs5 = [("with", ("gls_one",), ("eval",)),
              ("with", ("gls_one",), ("with", ("gls_one",), ("eval",))),
              ("with", ("gls_one",), ("helper", ("pw", None))),
              ("fiter", ("with", ("gls_one",), ("eval",))),
              ("with", ("temp_used_res", ["Y"], []), ("with", ("gls_one",), ("helper", ("interf",)))),
              ("with", ("mask_params", {"Y_mass": 0.53125}), ("with", ("gls_one",), ("eval",)))]
    n5 = len(progs5)
    while len(progs5) < n5 + (10 if quick else 80):
        progs5.append(gen_prog(rnd, M5, rnd.choice([2, 3, 3]), allow_unsafe=False))
    inits5 = [([0, 1], None), ([1], None), ([1, 0], None), ([0], None)]
    ctx.log("model C (cascade, shared decay): %d chains, %d variables, %d programs" % (M5.nch, len(M5.names), len(progs5)))
    pl5, cs5, mt5, dr5 = campaign(ctx, M5, "c", progs5, inits5, rnd, 6 if quick else 15, nfixed=n5)
    prelude += pl5
    cases += cs5
    meta.update(mt5)
    direct += dr5
    # cached evaluation path (use_tf_function): the density is evaluated with amp(data) inside the blocks; afterwards
    # amp(data) - through the trace, when one is available - is compared with the eager density before
    for tag, fixed, nr, mp, ini in (("t", TF_PROGS, 2 if quick else 40, 1 if quick else 4, [([0, 1, 2], None), ([1, 0, 2], None)]),
                                    ("u", TF1_PROGS, 1 if quick else 10, 1 if quick else 3, [([0], None)]),
                                    ("s", CS_PROGS, 6 if quick else 60, 4 if quick else 10, [([0, 1, 2], None), ([0, 1], None), ([1, 0, 2], None), ([2], None)])):
        Mx = make_model(tag, ctx.seed)
        progsx = list(fixed)
        while len(progsx) < len(fixed) + nr:
            progsx.append(gen_prog(rnd, Mx, rnd.choice([2, 3, 3]), allow_unsafe=True))
        ctx.log("model %s (%s): %d chains, %d variables, %d programs" % (tag, Mx.mode, Mx.nch, len(Mx.names), len(progsx)))
        plx, csx, mtx, drx = campaign(ctx, Mx, tag, progsx, ini, rnd, mp, nfixed=len(fixed))
        ctx.count("family=%s" % Mx.mode, len(csx))
        prelude += plx
        cases += csx
        meta.update(mtx)
        direct += drx
    if not quick:
        M4 = make_model("b", ctx.seed)
        inits4 = [(list(range(4)), None), ([0, 2], None), ([3, 1], None), ([], ["R_BC", 3]), ([1], None)]
        progs4 = list(FIXED_PROGS) + list(MASKED_PROGS) + list(BAD_PROGS) + list(NESTED_MASK_PROGS)
        while len(progs4) < 112 + len(FIXED_PROGS):
            progs4.append(gen_prog(rnd, M4, rnd.choice([2, 3, 4]), allow_unsafe=True))
        ctx.log("model B: %d chains, %d variables, %d programs" % (M4.nch, len(M4.names), len(progs4)))
        pl4, cs4, mt4, dr4 = campaign(ctx, M4, "b", progs4, inits4, rnd, 15)
        prelude += pl4
        cases += cs4
        meta.update(mt4)
        direct += dr4
    ctx.log("implementation runs: %d" % len(cases))
    ctx.sample({"program": progs[15], "coq": c_prog(M, progs[15])})
    ctx.sample({"case": cases[min(40, len(cases) - 1)][1][:1500]})
    res = common.coq_cases(ctx, "tie", HEADER, cases, per_file=max(40, len(cases) // 32 + 1), prelude="\n".join(prelude))
    for cid, r in res.items():
        if r != "OK":
            ctx.fail("tie", cid, "state trace / final state of the implementation differs from the model's run (%s)" % r,
                     inp=meta[cid], site="override blocks / helpers", fingerprint="tie")
    # direct property failures
    ctx._direct = []
    for d in direct:
        ctx._direct.append(d)
        ctx.fail("property", "direct", "model state / density differs after the program: %s" % json.dumps(d["state_diff"], default=str)[:600],
                 inp=d["input"], site="override blocks / helpers",
                 fingerprint={"tf": "direct:cached-path", "cs": "direct:cached-shape"}.get(MODELS[d["input"]["model"]][3], "direct"), failing_input=d)
    ctx.notes.append("observation: temp_used_res / helpers recompute not_full on exit; it differs from the value before only when the "
                     "selection had been made with set_used_res(name+index), which leaves not_full stale")
    return common.finish(
        ctx, search=search, technique=TECHNIQUE,
        extra_assumptions=[
            "user code inside a block is modelled as read-only (it may look at the model and raise); code that itself "
            "assigns parameters is covered only by the per-manager component theorems",
            "parameter names are modelled as independent cells (no two names bound to one tf.Variable in the configurations run here; "
            "the tied-name clause of mask_params is in the model but not exercised by this check - tied names are C16's subject)",
            "CPython generator finalisation (closing factor_iteration on loop exit) is runtime behaviour: tied, not proved",
        ])


def search(ctx, fails):
    """direct before/after comparison on the implementation for the broken cases"""
    if getattr(ctx, "_direct", None):
        return ctx._direct[0]
    M = None
    for f in fails:
        inp = f.get("input")
        if not inp or "program" not in inp:
            continue
        if M is None or M.tag != inp.get("model", "a"):
            M = make_model(inp.get("model", "a"), ctx.seed)
            M.tag = inp.get("model", "a")
        init = (inp["initial"]["chains_idx"], None)
        before, trace, after, exn, d0, d1, n = run_impl(M, inp["program"], inp["inject_at_evaluation"], init)
        diff = state_diff(before, after)
        if diff or not M.same_density(d1, d0):
            return {"input": inp, "state_diff": diff, "density_changed": not M.same_density(d1, d0), "escaped": exn}
    return None


def replay(rep):
    import bootstrap

    bootstrap.tf_quiet()
    print(json.dumps(rep, indent=1, default=str)[:6000])
    fi = rep.get("failing_input") or {}
    inp = fi.get("input") or (rep.get("broken") or [{}])[0].get("input")
    if not inp or "program" not in inp:
        return 0

    def tup(x):
        return tuple(tup(i) for i in x) if isinstance(x, list) else x

    M = make_model(inp.get("model", "a"), rep.get("seed", 0))
    p = tup(inp["program"])
    before, trace, after, exn, d0, d1, n = run_impl(M, p, inp["inject_at_evaluation"], (inp["initial"]["chains_idx"], None))
    print("impl now: escaped=%s state_diff=%s density_changed=%s" % (exn, state_diff(before, after), not M.same_density(d1, d0)))
    return 0
