"""C11 - kinematic transformations are mutually inverse.

Theorems: coq/Props/Properties_C11.v (boost inverse, Minkowski invariance, boost matrix, vertex and
cascade round trip for every tree, Dalitz).  Tie (every goal is a Coq-Interval theorem at exact dyadic
inputs, one layer per goal):
  L  LorentzVector.boost/rest_vector/boost_matrix/boost_vector/M/M2/Dot/neg, Vector3.cross_unit/cross/unit
  F  forward map HelicityAngle(chain).build_data: per vertex |p|, rest-frame momentum, next axes; per boost
     call velocity and boosted momentum (the implementation's own intermediate values, recorded by wrapping
     helicity_angle.normal / LorentzVector.boost / boost_vector for the duration of the call)
  B  backward map: infer_momentum sums, masses, cal_chain_boost rest-frame momenta, cal_helicity_angle
     (cos beta, cos alpha, sin alpha, next x axis) per vertex and daughter; find_variable wiring
  D  Dalitz.generate_p
  R  direct round trip build_data -> cal_angle -> find_variable on the implementation (wiring of the
     variables to the vertices, composite accuracy)
"""
import math
import random

import numpy as np

import common
from qfmt import Rq
from fractions import Fraction

TECHNIQUE = ("Coq proof (ring/field/lra, induction over decay trees) + Coq-Interval certified layer-by-layer "
             "correspondence of boosts, forward and backward helicity kinematics and Dalitz momenta with the code")

HEADER = ("From Coq Require Import Reals List.\nFrom Interval Require Import Tactic.\n"
          "From TFV Require Import Base.RBase Base.Tie Kin.Boost Kin.Boost_proofs Kin.Angles Kin.Dalitz.\nImport ListNotations.\nOpen Scope R_scope.\n")
UNF = ("vx vy vz pt px py pz c1 c2 c3 dot3 norm2_3 norm3 add3 sub3 scale3 neg3 zero3 cross3 unit3 eps cross_unit "
       "mat3_vec id3 vect mk4 add4 sub4 zero4 neg4 mink mass2 mass boost_vector rot4 gamma_of gamma2_of boost_g boost "
       "rest_vector r0 r1 r2 r3 dot4e mat4_vec boost_matrix rmax rel_p fwd_local fwd_p3 fwd_mom next_y next_z frame_yz "
       "next_frame1 flip_frame next_frame2 cosb cosa sina xnext hel_extract atan2_cos atan2_sin angle_from_cos angle_from_sin generate_fun0 dalitz_p1 dalitz_p2 dalitz_p3 "
       "dE1 dE2 dE3 dpa dpb dpc")
TAC = "cbv [%s]; repeat split; interval with (i_prec 90)" % UNF
_SIDE = "(cbv [%s]; interval with (i_prec 90))" % UNF
# goals through an _epsilon branch: the harness names the branch the implementation took (from the float
# values), Coq certifies the branch condition by interval and rewrites with the branch lemma of Boost_proofs.v
TAC_CU_MAIN = "rewrite !cross_unit_main by %s; %s" % (_SIDE, TAC)
TAC_CU_FALL = "rewrite !cross_unit_fallback by %s; %s" % (_SIDE, TAC)
TAC_B_MAIN = "cbv [boost rest_vector boost_matrix]; rewrite !gamma2_of_main by %s; %s" % (_SIDE, TAC)
TAC_B_GUARD = "cbv [boost rest_vector boost_matrix]; rewrite !gamma2_of_guard by %s; %s" % (_SIDE, TAC)


def tac_cross_unit(a, b):
    return TAC_CU_FALL if float(np.linalg.norm(np.cross(arr(a), arr(b)))) < 1e-14 else TAC_CU_MAIN


def tac_boost(v):
    return TAC_B_MAIN if float(np.sum(arr(v) ** 2)) > 1e-14 else TAC_B_GUARD


def tac_rest(p):
    p = arr(p)
    return tac_boost(p[1:] / p[0])


# ----------------------------------------------------------------------------- formatting helpers
def V3s(a):
    a = [float(x) for x in np.array(a).reshape(-1)]
    assert len(a) == 3
    return "(V3 %s %s %s)" % tuple(Rq(x) for x in a)


def V4s(a):
    a = [float(x) for x in np.array(a).reshape(-1)]
    assert len(a) == 4
    return "(V4 %s %s %s %s)" % tuple(Rq(x) for x in a)


def _tolq(scale, rtol, atol):
    t = Fraction(atol).limit_denominator(10 ** 40) + Fraction(rtol).limit_denominator(10 ** 40) * Fraction(abs(float(scale))).limit_denominator(10 ** 40)
    if t == 0:
        t = Fraction(1, 10 ** 30)
    return Rq(t)


def s_real(expr, val, rtol=1e-11, atol=0.0, scale=None):
    val = float(val)
    return "(Rabs (%s - %s) <= %s)" % (expr, Rq(val), _tolq(abs(val) if scale is None else scale, rtol, atol))


def s_vec(expr, vals, projs, rtol=1e-11, atol=0.0, scale=None):
    vals = [float(x) for x in np.array(vals).reshape(-1)]
    assert len(vals) == len(projs)
    sc = max(abs(v) for v in vals) if scale is None else scale
    t = _tolq(sc, rtol, atol)
    return "(" + " /\\ ".join("Rabs (%s (%s) - %s) <= %s" % (pj, expr, Rq(v), t) for pj, v in zip(projs, vals)) + ")"


P3 = ("vx", "vy", "vz")
P4 = ("pt", "px", "py", "pz")


def T(x):
    import tensorflow as tf
    return tf.constant(np.array(x, dtype=np.float64).reshape((1, -1)) if np.ndim(x) else [x], dtype=tf.float64)


def arr(x):
    return np.array(x, dtype=np.float64).reshape(-1)


class Cases:
    def __init__(self, ctx):
        self.ctx = ctx
        self.items = []  # (cid, stmt, tac, meta)

    def add(self, layer, cid, stmt, meta, tac=None):
        self.items.append((cid, stmt, tac or TAC, dict(meta, layer=layer)))
        self.ctx.count("goal:" + layer)


# ----------------------------------------------------------------------------- L: LorentzVector / Vector3
def rand_dir(rnd):
    while True:
        v = [rnd.gauss(0, 1) for _ in range(3)]
        n = math.sqrt(sum(x * x for x in v))
        if n > 1e-3:
            return [x / n for x in v]


def gen_boost_case(rnd, kind):
    """(p, v, rtol)"""
    m = rnd.choice([0.0, 0.13957, 0.938, 3.1, rnd.uniform(0.01, 6)])
    d = rand_dir(rnd)
    pm = rnd.choice([0.0, rnd.uniform(0.001, 0.1), rnd.uniform(0.1, 5.0)])
    p3 = [pm * x for x in d]
    p = [math.sqrt(m * m + pm * pm)] + p3
    if rnd.random() < 0.3:  # generic 4-vector, not on any mass shell (also spacelike)
        p = [rnd.uniform(-3, 3) for _ in range(4)]
    u = rand_dir(rnd)
    rtol = 1e-11
    if kind == "generic":
        b = rnd.uniform(0.001, 0.95)
    elif kind == "fast":
        b = 1 - 10 ** rnd.uniform(-6, -2)
        rtol = 1e-7
    elif kind == "rest":
        b = 0.0
    elif kind == "guard":  # inside the gamma2 guard: |v|^2 <= 1e-14, well away from the switch
        b = 10 ** rnd.uniform(-12, -7.6)
    elif kind == "above_guard":
        b = 10 ** rnd.uniform(-6.4, -4)
    elif kind == "collinear":
        b = rnd.uniform(0.05, 0.99) * rnd.choice([1, -1])
        u = d
        rtol = 1e-9
    v = [b * x for x in u]
    return p, v, rtol


def lorentz_cases(ctx, rnd, cs, n):
    from tf_pwa.angle import LorentzVector as lv, Vector3 as v3
    kinds = ["generic", "generic", "fast", "rest", "guard", "above_guard", "collinear"]
    for k in range(n):
        kind = kinds[k % len(kinds)]
        p, v, rtol = gen_boost_case(rnd, kind)
        q, _, _ = gen_boost_case(rnd, "generic")
        ctx.count("boost_kind:" + kind)
        ctx.distinct.add(("boost", tuple(p), tuple(v)))
        g = 1 / math.sqrt(max(1e-300, 1 - sum(x * x for x in v)))
        sc = g * (abs(p[0]) + math.sqrt(sum(x * x for x in p[1:]))) + 1e-300
        out = arr(lv.boost(T(p), T(v)))
        meta = {"function": "LorentzVector.boost", "p": p, "v": v, "kind": kind, "impl": out.tolist()}
        cs.add("L.boost", "Lb%d" % k, s_vec("boost %s %s" % (V4s(p), V3s(v)), out, P4, rtol=rtol, scale=sc), meta, tac_boost(v))
        # boost_vector / rest_vector / boost_matrix of a timelike vector with velocity v
        mm = rnd.choice([0.2, 1.0, 5.0])
        pm = [mm * g] + [mm * g * x for x in v]
        bv = arr(lv.boost_vector(T(pm)))
        cs.add("L.boost_vector", "Lv%d" % k, s_vec("boost_vector %s" % V4s(pm), bv, P3, rtol=1e-13, atol=1e-30, scale=1.0),
               {"function": "LorentzVector.boost_vector", "p": pm, "impl": bv.tolist()})
        scq = g * (abs(q[0]) + math.sqrt(sum(x * x for x in q[1:]))) + 1e-300
        if kind != "fast" or True:
            r = arr(lv.rest_vector(T(pm), T(q)))
            cs.add("L.rest_vector", "Lr%d" % k, s_vec("rest_vector %s %s" % (V4s(pm), V4s(q)), r, P4, rtol=max(rtol, 1e-11), scale=scq),
                   {"function": "LorentzVector.rest_vector", "p": pm, "q": q, "kind": kind, "impl": r.tolist()}, tac_rest(pm))
            r = arr(lv.rest_vector(T(pm), T(pm)))
            cs.add("L.rest_vector", "Ls%d" % k, s_vec("rest_vector %s %s" % (V4s(pm), V4s(pm)), r, P4, rtol=max(rtol, 1e-11), scale=g * g * mm),
                   {"function": "LorentzVector.rest_vector(p,p)", "p": pm, "kind": kind, "impl": r.tolist()}, tac_rest(pm))
        bm = np.array(lv.boost_matrix(T(pm))).reshape(4, 4)
        for i in range(4):
            cs.add("L.boost_matrix", "Lm%d_%d" % (k, i),
                   s_vec("r%d (boost_matrix %s)" % (i, V4s(pm)), bm[i], P4, rtol=max(rtol, 1e-11), scale=max(1.0, g)),
                   {"function": "LorentzVector.boost_matrix", "p": pm, "row": i, "kind": kind, "impl": bm[i].tolist()}, tac_rest(pm))
        # M, M2, Dot, neg
        mv = float(arr(lv.M(T(p)))[0]); m2 = float(arr(lv.M2(T(p)))[0]); dt = float(arr(lv.Dot(T(p), T(q)))[0])
        s2 = sum(x * x for x in p)
        cs.add("L.M", "LM%d" % k, s_real("mass %s" % V4s(p), mv, rtol=1e-12, atol=1e-8 * math.sqrt(s2) if abs(m2) < 1e-9 * s2 else 1e-11 * s2 / max(mv, 1e-300)),
               {"function": "LorentzVector.M", "p": p, "impl": mv})
        cs.add("L.M2", "LQ%d" % k, s_real("mass2 %s" % V4s(p), m2, rtol=0, atol=1e-13 * s2 + 1e-300), {"function": "LorentzVector.M2", "p": p, "impl": m2})
        cs.add("L.Dot", "LD%d" % k, s_real("mink %s %s" % (V4s(p), V4s(q)), dt, rtol=0, atol=1e-13 * math.sqrt(s2 * sum(x * x for x in q)) + 1e-300),
               {"function": "LorentzVector.Dot", "p": p, "q": q, "impl": dt})
        ng = arr(lv.neg(T(p)))
        cs.add("L.neg", "LN%d" % k, s_vec("neg4 %s" % V4s(p), ng, P4, rtol=0, atol=1e-30), {"function": "LorentzVector.neg", "p": p, "impl": ng.tolist()})
        # Vector3
        a = [rnd.uniform(-2, 2) for _ in range(3)]
        b = [rnd.uniform(-2, 2) for _ in range(3)]
        if k % 5 == 0:
            lam = rnd.uniform(-2, 2)
            b = [lam * x for x in a]  # parallel: the norm < _epsilon fallback of cross_unit
            ctx.count("cross_unit:parallel_fallback")
            if np.linalg.norm(np.cross(a, b)) >= 1e-14:  # rounding left a tiny non-zero cross product
                b = [2.0 * x for x in a]
        cu = arr(v3.cross_unit(T(a), T(b)))
        cs.add("L.cross_unit", "Lc%d" % k, s_vec("cross_unit %s %s" % (V3s(a), V3s(b)), cu, P3, rtol=1e-11, scale=1.0),
               {"function": "Vector3.cross_unit", "a": a, "b": b, "impl": cu.tolist()}, tac_cross_unit(a, b))
        un = arr(v3.unit(T(a)))
        cs.add("L.unit", "Lu%d" % k, s_vec("unit3 %s" % V3s(a), un, P3, rtol=1e-12, scale=1.0), {"function": "Vector3.unit", "a": a, "impl": un.tolist()})
    ctx.evaluations += n * 12


# ----------------------------------------------------------------------------- chains
class Node:
    def __init__(self, part, dec=None, kids=()):
        self.part = part
        self.dec = dec
        self.kids = list(kids)

    def finals(self):
        if not self.kids:
            return [str(self.part)]
        return sum([k.finals() for k in self.kids], [])

    def key(self):
        return tuple(sorted(self.finals()))

    def nodes(self):
        yield self
        for k in self.kids:
            yield from k.nodes()


def build_tree(chain):
    decs = {d.core: d for d in chain}

    def mk(p):
        if p in decs:
            d = decs[p]
            return Node(p, d, [mk(o) for o in d.outs])
        return Node(p)
    return mk(chain.top)


def shape_str(n):
    if not n.kids:
        return str(n.part)
    return "(" + " ".join(shape_str(k) for k in n.kids) + ")"


def gen_masses(rnd, tree, edge):
    """masses for every particle with positive Q at every vertex"""
    m = {}

    def go(n):
        if not n.kids:
            r = rnd.random()
            m[n.part] = 0.0 if (edge and r < 0.3) else rnd.choice([0.13957, 0.49368, 0.938272, rnd.uniform(0.05, 2.0)])
            return m[n.part]
        s = sum(go(k) for k in n.kids)
        if edge and rnd.random() < 0.5:
            q = 10 ** rnd.uniform(-5, -2)  # near threshold
        else:
            q = rnd.uniform(0.05, 1.5)
        # keep intermediate states away from the ultra-relativistic regime (gamma <~ 1e2..1e3: the tie covers
        # |v| up to 1-1e-6; a 3e-5 GeV state decaying to massless particles has 1-|v| ~ 1e-10 when boosted and the
        # float64 round trip is then only ~1e-9 accurate - conditioning, not a defect)
        m[n.part] = max(s + q, 0.02)
        return m[n.part]
    go(tree)
    return m


def all_chains(nf):
    from tf_pwa.particle import BaseParticle, DecayChain
    top = BaseParticle("A")
    fin = [BaseParticle(n) for n in "BCDEF"[:nf]]
    return DecayChain.from_particles(top, fin)


def run_forward(ha, ms_t, cost_t, phi_t):
    """build_data with its internal calls recorded"""
    import tf_pwa.data_trans.helicity_angle as ham
    from tf_pwa.angle import LorentzVector as lv
    rec = []
    on, ob, obv = ham.normal, lv.boost, lv.boost_vector

    def wn(p):
        r = on(p); rec.append(("normal", arr(p), arr(r))); return r

    def wb(p, v):
        r = ob(p, v); rec.append(("boost", arr(p), arr(v), arr(r))); return r

    def wbv(p):
        r = obv(p); rec.append(("bv", arr(p), arr(r))); return r
    ham.normal, lv.boost, lv.boost_vector = wn, wb, wbv
    try:
        p4 = ha.build_data(ms_t, cost_t, phi_t)
    finally:
        ham.normal, lv.boost, lv.boost_vector = on, ob, obv
    return p4, rec


def chain_case(ctx, cs, cid, chain, mass, cost, phi, rt_tol=1e-9, coq=True):
    """one (chain, masses, angles) case: forward layers, backward layers, wiring, direct round trip.
    Returns list of python-level failures (dicts)."""
    import tensorflow as tf
    from tf_pwa.data_trans.helicity_angle import HelicityAngle
    from tf_pwa.amp.core import get_relative_p
    from tf_pwa.particle import DecayGroup
    from tf_pwa import cal_angle as ca
    fails = []
    tree = build_tree(chain)
    dec_list = list(chain)
    idx = {d: j for j, d in enumerate(dec_list)}
    inp = {"chain": shape_str(tree), "decays": [str(d) for d in dec_list], "mass": {str(k): v for k, v in mass.items()},
           "costheta": cost, "phi": phi}

    def bad(layer, what, **kw):
        fails.append(dict(layer=layer, what=what, input=inp, **kw))

    ha = HelicityAngle(chain)
    ms_t = {k: tf.constant([v], dtype=tf.float64) for k, v in mass.items()}
    cost_t = [tf.constant([c], dtype=tf.float64) for c in cost]
    phi_t = [tf.constant([f], dtype=tf.float64) for f in phi]
    p4, rec = run_forward(ha, ms_t, cost_t, phi_t)
    p4n = {str(k): arr(v) for k, v in p4.items()}
    msc = max(mass.values())

    # ---------------- F: forward layers
    normals = [r for r in rec if r[0] == "normal"]
    others = [r for r in rec if r[0] != "normal"]
    df = [d for _, d in chain.depth_first()]
    if len(normals) != 2 * len(df):
        bad("F.trace", "expected %d normal() calls, saw %d" % (2 * len(df), len(normals)))
        return fails
    frames = {chain.top: ("id3", None)}
    rest = {}  # particle -> rest-frame momentum in its parent's frame (implementation values, reconstructed below)
    for k, d in enumerate(df):
        j = idx[d]
        m0, m1, m2 = mass[d.core], mass[d.outs[0]], mass[d.outs[1]]
        q = float(arr(get_relative_p(ms_t[d.core], ms_t[d.outs[0]], ms_t[d.outs[1]]))[0])
        c_eff = float(arr(tf.cos(tf.acos(cost_t[j])))[0])
        Fs = frames[d.core][0]
        pnew, zn = normals[2 * k][1], normals[2 * k][2]
        ycomb, yn = normals[2 * k + 1][1], normals[2 * k + 1][2]
        meta = {"function": "HelicityAngle.build_data/create_rotate_p_decay", "vertex": str(d), "input": inp}
        if coq:
            cs.add("F.rel_p", "%s_q%d" % (cid, k), s_real("rel_p %s %s %s" % (Rq(m0), Rq(m1), Rq(m2)), q, rtol=1e-10, atol=1e-13 * m0), dict(meta, impl=q))
            cs.add("F.p_rest", "%s_p%d" % (cid, k), s_vec("fwd_p3 %s %s %s %s" % (Fs, Rq(q), Rq(c_eff), Rq(phi[j])), pnew, P3, rtol=1e-11, atol=1e-14 * msc, scale=q),
                   dict(meta, impl=pnew.tolist()))
            cs.add("F.next_z", "%s_z%d" % (cid, k), s_vec("next_z %s" % V3s(pnew), zn, P3, rtol=1e-12, scale=1.0), dict(meta, impl=zn.tolist()))
            cs.add("F.next_y", "%s_y%d" % (cid, k), s_vec("next_y %s %s" % (Fs, Rq(phi[j])), yn, P3, rtol=1e-12, scale=1.0), dict(meta, impl=yn.tolist()))
        f1 = "(frame_yz %s %s)" % (V3s(yn), V3s(zn))
        frames[d.outs[0]] = (f1, None)
        frames[d.outs[1]] = ("(flip_frame %s)" % f1, None)
        rest[d.outs[0]] = (m1, q, pnew)
        rest[d.outs[1]] = (m2, q, -pnew)
    # boosts: second loop of create_rotate_p_decay, reversed depth first
    mom = {}
    pos = 0
    nb = 0
    ok = True

    def leaf_check(i, pimp, tag):
        """a final-state daughter enters with its rest-frame momentum (E = sqrt(m^2+q^2), +-p_new)"""
        m, q, p3 = rest[i]
        if not np.array_equal(pimp[1:], p3):
            bad("F.wiring", "momentum of %s does not start from its rest-frame momentum" % i)
        if coq:
            cs.add("F.energy", "%s_E%s" % (cid, i), s_real("pt (fwd_mom %s %s %s)" % (Rq(m), Rq(q), V3s(p3)), pimp[0], rtol=1e-13),
                   {"function": "create_rotate_p_decay energy of %s" % i, "input": inp, "impl": float(pimp[0])})
    for d in df[::-1]:
        mom[d.core] = {}
        for i in d.outs:
            if i in mom:
                for jn in list(mom[i].keys()):
                    if pos + 1 >= len(others) or others[pos][0] != "bv" or others[pos + 1][0] != "boost":
                        bad("F.trace", "boost trace does not have the expected boost_vector/boost sequence"); ok = False; break
                    pb_in, v_out = others[pos][1], others[pos][2]
                    b_p, b_v, b_out = others[pos + 1][1], others[pos + 1][2], others[pos + 1][3]
                    pos += 2
                    m, q, p3 = rest[i]
                    meta = {"function": "create_rotate_p_decay boost of %s by %s" % (jn, i), "input": inp}
                    prev = mom[i][jn]
                    if prev is None:
                        leaf_check(jn, b_p, "b")
                    elif not np.array_equal(b_p, prev):
                        bad("F.wiring", "boost of %s by %s does not start from the previously boosted momentum" % (jn, i))
                    if not (np.array_equal(pb_in[1:], p3) and np.array_equal(b_v, v_out)):
                        bad("F.wiring", "boost of %s by %s does not use the velocity of %s in its parent frame" % (jn, i, i))
                    if coq:
                        cs.add("F.energy", "%s_e%d" % (cid, nb), s_real("pt (fwd_mom %s %s %s)" % (Rq(m), Rq(q), V3s(p3)), pb_in[0], rtol=1e-13), dict(meta, impl=float(pb_in[0])))
                        cs.add("F.velocity", "%s_v%d" % (cid, nb), s_vec("boost_vector %s" % V4s(pb_in), v_out, P3, rtol=1e-13, scale=1.0), dict(meta, impl=v_out.tolist()))
                        g = 1 / math.sqrt(max(1e-300, 1 - float(np.sum(b_v ** 2))))
                        cs.add("F.boost", "%s_b%d" % (cid, nb), s_vec("boost %s %s" % (V4s(b_p), V3s(b_v)), b_out, P4, rtol=1e-11, scale=g * 2 * abs(b_p[0]) + 1e-300), dict(meta, impl=b_out.tolist()), tac_boost(b_v))
                    nb += 1
                    mom[d.core][jn] = b_out
                if not ok:
                    break
            else:
                mom[d.core][i] = None
        if not ok:
            break
    if ok:
        if pos != len(others):
            bad("F.trace", "unexpected extra boost calls")
        for i, pv in mom[chain.top].items():
            if str(i) not in p4n:
                bad("F.wiring", "no momentum returned for %s" % i)
            elif pv is None:
                leaf_check(i, p4n[str(i)], "t")
            elif not np.array_equal(p4n[str(i)], pv):
                bad("F.wiring", "returned momentum of %s is not the last boosted value" % i)

    # ---------------- B: backward layers
    decs = DecayGroup([chain])
    st = decs.topology_structure()[0]
    st_tree = build_tree(st)
    pfin = {i: p4[i] for i in decs.outs}
    data_p = ca.struct_momentum(pfin, center_mass=False)
    data_p = ca.infer_momentum(data_p, st)
    data_p = ca.add_mass(data_p, st)
    part_data = ca.cal_chain_boost(data_p, st)
    hel, groups = run_backward(ca, data_p, st)
    gpos = [0]
    bykey = {n.key(): n for n in st_tree.nodes()}
    own = {n.key(): n for n in tree.nodes()}
    meta0 = {"function": "cal_angle", "input": inp}
    for n in st_tree.nodes():
        pimp = arr(data_p[n.part]["p"])
        if n.kids and coq:
            e = " ".join("(add4 %s" % V4s(p4n[f]) for f in n.finals()[:-1]) + " " + V4s(p4n[n.finals()[-1]]) + ")" * (len(n.finals()) - 1)
            cs.add("B.infer_momentum", "%s_s%s" % (cid, "".join(n.key())), s_vec(e, pimp, P4, rtol=1e-14, scale=float(np.max(np.abs(pimp)))), dict(meta0, particle=str(n.part), impl=pimp.tolist()))
        mimp = float(arr(data_p[n.part]["m"])[0])
        if coq:
            cs.add("B.mass", "%s_m%s" % (cid, "".join(n.key())), s_real("mass %s" % V4s(pimp), mimp, rtol=1e-12, atol=1e-7 * abs(pimp[0])), dict(meta0, particle=str(n.part), impl=mimp))
    # rest-frame momenta and helicity angles
    frame_p = {}  # (node key) -> dict particle-key -> momentum of that particle in this node's frame "input"
    cur = {n.key(): arr(data_p[n.part]["p"]) for n in st_tree.nodes()}
    axes = {st_tree.key(): (np.array([0.0, 0.0, 1.0]), np.array([1.0, 0.0, 0.0]))}

    def walk(n, cur):
        if not n.kids:
            return
        d = n.dec
        rp = part_data[d]["rest_p"]
        below = [x for k_ in n.kids for x in k_.nodes()]
        new = {}
        for x in below:
            if x.part not in rp:
                bad("B.trace", "cal_chain_boost has no rest_p of %s in %s" % (x.part, d)); return
            out = arr(rp[x.part])
            new[x.key()] = out
            if coq:
                g = float(cur[n.key()][0]) / max(1e-300, mass_of(cur[n.key()]))
                cs.add("B.rest_p", "%s_r%s_%s" % (cid, "".join(n.key()), "".join(x.key())),
                       s_vec("rest_vector %s %s" % (V4s(cur[n.key()]), V4s(cur[x.key()])), out, P4, rtol=1e-11, scale=2 * g * abs(cur[x.key()][0]) + 1e-300),
                       dict(meta0, decay=str(d), particle=str(x.part), impl=out.tolist()), tac_rest(cur[n.key()]))
        z1, x1 = axes[n.key()]
        for kd in n.kids:
            h = hel[d][kd.part]
            z2 = arr(h["z"]); xx = arr(h["x"])
            al = float(arr(h["ang"]["alpha"])[0]); be = float(arr(h["ang"]["beta"])[0])
            if not np.array_equal(z2, new[kd.key()][1:]):
                bad("B.wiring", "z axis of %s is not its rest-frame 3-momentum" % kd.part)
            cand = [g_ for g_ in groups if np.array_equal(g_["in"][2], z2) and np.array_equal(g_["in"][0], z1) and "used" not in g_]
            if not cand:
                bad("B.trace", "no angle_zx_z_getx call for daughter %s of %s with the expected axes" % (kd.part, d)); return
            grp = cand[0]; grp["used"] = True
            helix_goals(cs if coq else None, bad, "%s_h%s_%s" % (cid, "".join(n.key()), "".join(kd.key())), grp, z1, x1, z2, xx, al, be,
                        dict(meta0, decay=str(d), daughter=str(kd.part)))
            axes[kd.key()] = (z2, xx)
        for kd in n.kids:
            nxt = dict(cur); nxt.update(new)
            walk(kd, nxt)
    walk(st_tree, cur)

    # ---------------- wiring of find_variable + direct round trip
    dat = ha.cal_angle(p4)
    ms2, c2, ph2 = ha.find_variable(dat)
    ms2 = {str(k): float(arr(v)[0]) for k, v in ms2.items()}
    c2 = [float(arr(x)[0]) for x in c2]
    ph2 = [float(arr(x)[0]) for x in ph2]
    # conditioning: largest gamma^2 of a decaying daughter in its parent's frame
    gmax2 = 1.0
    for d in dec_list:
        qd = float(arr(get_relative_p(ms_t[d.core], ms_t[d.outs[0]], ms_t[d.outs[1]]))[0])
        for o in d.outs:
            if chain_has(chain, o) and mass[o] > 0:
                gmax2 = max(gmax2, 1 + (qd / mass[o]) ** 2)
    for j, d in enumerate(dec_list):
        nd = own[tuple(sorted(Node(None, d, [own_node(tree, o) for o in d.outs]).finals()))]
        sn = bykey[nd.key()]
        k0 = own_node(tree, d.outs[0]).key()
        kid = [k_ for k_ in sn.kids if k_.key() == k0]
        if not kid:
            bad("R.wiring", "standard topology lost daughter %s of %s" % (d.outs[0], d)); continue
        h = hel[sn.dec][kid[0].part]["ang"]
        al = float(arr(h["alpha"])[0]); be = float(arr(h["beta"])[0])
        if not (abs(math.cos(be) - c2[j]) <= 1e-14 and abs(math.cos(al) - math.cos(ph2[j])) <= 1e-14 and abs(math.sin(al) - math.sin(ph2[j])) <= 1e-14):
            bad("R.wiring", "find_variable slot %d is not the angle of the first daughter of %s" % (j, d), got={"cos": c2[j], "phi": ph2[j]}, expected={"beta": be, "alpha": al})
        sth = math.sqrt(max(0.0, 1 - cost[j] ** 2))
        tol_c = rt_tol * (1 + 1e-3 * gmax2)
        tol_p = rt_tol * (1 + 1e-3 * gmax2) / max(sth, 1e-9)
        if abs(c2[j] - cost[j]) > tol_c:
            bad("R.roundtrip", "cos(theta) of %s: in %r out %r" % (d, cost[j], c2[j]))
        if abs(math.cos(ph2[j]) - math.cos(phi[j])) > tol_p or abs(math.sin(ph2[j]) - math.sin(phi[j])) > tol_p:
            bad("R.roundtrip", "phi of %s: in %r out %r" % (d, phi[j], ph2[j]))
    for k, v in mass.items():
        if str(k) not in ms2:
            bad("R.wiring", "find_variable returns no mass for %s" % k)
        elif abs(ms2[str(k)] - v) > 1e-7 * msc:   # M = sqrt(|E^2-p^2|): sqrt conditioning for light particles
            bad("R.roundtrip", "mass of %s: in %r out %r" % (k, v, ms2[str(k)]))
    return fails


def run_backward(ca, data_p, st):
    """cal_helicity_angle with the primitives of EulerAngle.angle_zx_z_getx recorded per call"""
    from tf_pwa.angle import EulerAngle, Vector3
    groups = []
    o_get, o_cu, o_un, o_af = EulerAngle.angle_zx_z_getx, Vector3.cross_unit, Vector3.unit, Vector3.angle_from

    def w_get(z1, x1, z2):
        g = {"in": (arr(z1), arr(x1), arr(z2)), "rec": []}
        groups.append(g)
        ang, x2 = o_get(z1, x1, z2)
        g["out"] = (float(arr(ang["alpha"])[0]), float(arr(ang["beta"])[0]), arr(x2))
        g["done"] = True
        return ang, x2

    def cur():
        return groups[-1]["rec"] if groups and "done" not in groups[-1] else None

    def w_cu(a, b):
        r = o_cu(a, b)
        if cur() is not None:
            cur().append(("cu", arr(a), arr(b), arr(r)))
        return r

    def w_un(a):
        r = o_un(a)
        if cur() is not None:
            cur().append(("unit", arr(a), arr(r)))
        return r

    def w_af(v, x, y):
        r = o_af(v, x, y)
        if cur() is not None:
            cur().append(("af", arr(v), arr(x), arr(y), float(arr(r)[0])))
        return r
    EulerAngle.angle_zx_z_getx, Vector3.cross_unit, Vector3.unit, Vector3.angle_from = staticmethod(w_get), w_cu, w_un, w_af
    try:
        hel = ca.cal_helicity_angle(data_p, st)
    finally:
        EulerAngle.angle_zx_z_getx, Vector3.cross_unit, Vector3.unit, Vector3.angle_from = staticmethod(o_get), o_cu, o_un, o_af
    return hel, groups


def helix_goals(cs, bad, cid, grp, z1, x1, z2, xx, al, be, meta):
    """one call of angle_zx_z_getx: wiring of its primitive calls (exact) + one goal per primitive"""
    eq = np.array_equal
    rec = grp["rec"]
    kinds = [r[0] for r in rec]
    if kinds != ["unit", "unit", "cu", "cu", "cu", "cu", "af", "af", "cu"]:
        bad("B.trace", "angle_zx_z_getx made the calls %s" % kinds); return
    if not (eq(grp["in"][0], z1) and eq(grp["in"][1], x1) and eq(grp["in"][2], z2)):
        bad("B.wiring", "angle_zx_z_getx is not called with the parent's (z, x) axes and the daughter's rest-frame momentum"); return
    uz1, uz2, uy1, ux1, uyr, uxr, a_al, a_be, x2 = rec
    wired = (eq(uz1[1], z1) and eq(uz2[1], z2) and eq(uy1[1], z1) and eq(uy1[2], x1) and eq(ux1[1], uy1[3]) and eq(ux1[2], z1)
             and eq(uyr[1], z1) and eq(uyr[2], z2) and eq(uxr[1], uyr[3]) and eq(uxr[2], z1)
             and eq(a_al[1], uxr[3]) and eq(a_al[2], ux1[3]) and eq(a_al[3], uy1[3])
             and eq(a_be[1], uz2[2]) and eq(a_be[2], uz1[2]) and eq(a_be[3], uxr[3])
             and eq(x2[1], uyr[3]) and eq(x2[2], uz2[2]) and eq(x2[3], grp["out"][2]) and eq(xx, grp["out"][2]))
    if not wired:
        bad("B.wiring", "angle_zx_z_getx does not combine its primitives as modelled (hel_extract)"); return
    # angles: the stored alpha is shifted by a multiple of 2 pi
    if abs(math.cos(al) - math.cos(a_al[4])) > 1e-14 or abs(math.sin(al) - math.sin(a_al[4])) > 1e-14 or be != a_be[4] or grp["out"][1] != be:
        bad("B.wiring", "stored (alpha, beta) are not the angle_from values (mod 2 pi)"); return
    if cs is None:
        return
    for k, r in enumerate((uz1, uz2)):
        cs.add("B.unit", "%s_u%d" % (cid, k), s_vec("unit3 %s" % V3s(r[1]), r[2], P3, rtol=1e-12, scale=1.0), dict(meta, impl=r[2].tolist()))
    for k, r in enumerate((uy1, ux1, uyr, uxr, x2)):
        cs.add("B.cross_unit", "%s_c%d" % (cid, k), s_vec("cross_unit %s %s" % (V3s(r[1]), V3s(r[2])), r[3], P3, rtol=1e-11, scale=1.0),
               dict(meta, impl=r[3].tolist(), a=r[1].tolist(), b=r[2].tolist()), tac_cross_unit(r[1], r[2]))
    for nm, r in (("alpha", a_al), ("beta", a_be)):
        args = "%s %s %s" % (V3s(r[1]), V3s(r[2]), V3s(r[3]))
        stmt = "(Rabs (angle_from_cos %s - cos %s) <= %s /\\ Rabs (angle_from_sin %s - sin %s) <= %s)" % (
            args, Rq(r[4]), _tolq(1, 0, 1e-12), args, Rq(r[4]), _tolq(1, 0, 1e-12))
        cs.add("B.angle_" + nm, "%s_%s" % (cid, nm), stmt, dict(meta, impl=r[4]))


def mass_of(p):
    return math.sqrt(abs(p[0] ** 2 - p[1] ** 2 - p[2] ** 2 - p[3] ** 2))


def chain_has(chain, p):
    return any(d.core == p for d in chain)


def decs_of(chain, p):
    return [d for d in chain if d.core == p][0]


def own_node(tree, part):
    for n in tree.nodes():
        if n.part == part:
            return n
    raise KeyError(part)


def gen_angles(rnd, n, edge):
    cost, phi = [], []
    for _ in range(n):
        if edge and rnd.random() < 0.5:
            c = rnd.choice([1, -1]) * (1 - 10 ** rnd.uniform(-4, -1.5))
        else:
            c = rnd.uniform(-0.98, 0.98)
        cost.append(c)
        phi.append(rnd.uniform(-math.pi, math.pi) if not (edge and rnd.random() < 0.2) else rnd.choice([0.0, math.pi / 2, -math.pi / 2, 3.0]))
    return cost, phi


def chain_cases(ctx, rnd, cs, plan):
    fails = []
    for nf, nch, nev, edge in plan:
        chains = all_chains(nf)
        picks = chains if nch >= len(chains) else rnd.sample(chains, nch)
        for ci, ch in enumerate(picks):
            tree = build_tree(ch)
            for e in range(nev):
                ed = edge and (e % 2 == 1 or (nev == 1 and ci % 2 == 1))
                mass = gen_masses(rnd, tree, ed)
                cost, phi = gen_angles(rnd, len(list(ch)), ed)
                cid = "c%d_%d_%d" % (nf, ci, e)
                ctx.count("chain:%d finals:%s" % (nf, "edge" if ed else "generic"))
                ctx.count("shape:" + shape_str(tree).replace("B", "x").replace("C", "x").replace("D", "x").replace("E", "x").replace("F", "x"))
                ctx.distinct.add((shape_str(tree), tuple(cost), tuple(phi)))
                ctx.evaluations += 1
                f = chain_case(ctx, cs, cid, ch, mass, cost, phi)
                if len(ctx.samples) < 3:
                    ctx.sample({"case": cid, "chain": shape_str(tree), "mass": {str(k): v for k, v in mass.items()}, "costheta": cost, "phi": phi})
                for x in f:
                    x["case"] = cid
                fails += f
    return fails


# ----------------------------------------------------------------------------- D: Dalitz
def dalitz_point(rnd, edge=False):
    m1, m2, m3 = [rnd.choice([0.13957, 0.49368, 0.938272, rnd.uniform(0.05, 1.0)]) for _ in range(3)]
    m0 = m1 + m2 + m3 + (rnd.uniform(0.05, 2.0) if not edge else 10 ** rnd.uniform(-3, -1))
    # physical point from a real decay configuration
    s12 = rnd.uniform((m1 + m2) ** 2, (m0 - m3) ** 2)
    m12 = math.sqrt(s12)
    e2 = (s12 - m1 * m1 + m2 * m2) / (2 * m12); e3 = (m0 * m0 - s12 - m3 * m3) / (2 * m12)
    p2 = math.sqrt(max(0.0, e2 * e2 - m2 * m2)); p3 = math.sqrt(max(0.0, e3 * e3 - m3 * m3))
    c = rnd.uniform(-0.95, 0.95)
    s23 = m2 * m2 + m3 * m3 + 2 * (e2 * e3 - c * p2 * p3)
    return m0, m1, m2, m3, s12, s23


def dalitz_cases(ctx, rnd, cs, n):
    from tf_pwa.data_trans.dalitz import Dalitz
    fails = []
    for k in range(n):
        m0, m1, m2, m3, s12, s23 = dalitz_point(rnd, edge=(k % 4 == 3))
        # the Dalitz variables as float64 tensors, as plain python numbers or as numpy scalars: the same momenta
        # (python numbers went through float32 until /repo 31911e4: errors of 5e-8 m0^2, hunt2 C11 finding 3)
        rep = ("tensor", "python_float", "numpy_scalar")[k % 3]
        if rep == "tensor":
            ps = Dalitz(m0, m1, m2, m3).generate_p(T(s12)[0], T(s23)[0])
        elif rep == "python_float":
            ps = Dalitz(m0, m1, m2, m3).generate_p(float(s12), float(s23))
        else:
            ps = Dalitz(m0, m1, m2, m3).generate_p(np.float64(s12), np.float64(s23))
        ctx.count("dalitz_input_" + rep)
        ps = [arr(p) for p in ps]
        args = " ".join(Rq(x) for x in (s12, s23, m0, m1, m2, m3))
        meta = {"function": "Dalitz.generate_p", "m0": m0, "mi": [m1, m2, m3], "s12": s12, "s23": s23, "input_as": rep}
        ctx.count("dalitz")
        ctx.distinct.add(("dalitz", m0, m1, m2, m3, s12, s23))
        ctx.evaluations += 1
        for i, p in enumerate(ps):
            cs.add("D.generate_p", "D%d_%d" % (k, i + 1), s_vec("dalitz_p%d %s" % (i + 1, args), p, P4, rtol=1e-9, scale=m0), dict(meta, impl=p.tolist(), particle=i + 1))
        f = dalitz_direct(m0, m1, m2, m3, s12, s23, ps)
        if f:
            fails.append(dict(layer="R.dalitz", what=f, input=meta, case="D%d" % k))
    return fails


def mass_scan_cases(ctx, rnd, n):
    """HelicityAngle.generate_p_mass(name, m): momenta with the mass of one intermediate state replaced by m, the name given
    as string or as the particle object itself (the object was silently ignored until /repo ad92c58: nominal mass for every m,
    hunt2 C11 finding 2).  Direct test on the implementation: the invariant mass of the state's final particles is m."""
    from tf_pwa.data_trans.helicity_angle import HelicityAngle
    fails = []
    for k in range(n):
        ch = rnd.choice(all_chains(rnd.choice((3, 4))))
        tree = build_tree(ch)
        mass = gen_masses(rnd, tree, False)
        inner = [nd for nd in tree.nodes() if nd.kids and nd is not tree]
        if not inner:
            continue
        nd = rnd.choice(inner)
        for p_, m_ in mass.items():
            p_.mass = m_
            p_.get_mass = (lambda v=m_: v)  # plain BaseParticle objects of DecayChain.from_particles carry no mass API
        leaves = [x.part for x in nd.nodes() if not x.kids]
        lo = sum(mass[k_.part] for k_ in nd.kids)  # the daughters keep their nominal masses: the scanned mass stays above their sum
        ms = [lo + (mass[nd.part] - lo) * x for x in (0.5, 1.0, 0.8)]
        for as_obj in (False, True):
            name = nd.part if as_obj else str(nd.part)
            try:
                data = HelicityAngle(ch).generate_p_mass(name, np.array(ms))
                got = [float(np.sqrt(max(0.0, (lambda q: q[0] ** 2 - q[1] ** 2 - q[2] ** 2 - q[3] ** 2)(sum(np.array(data[f_])[i] for f_ in leaves))))) for i in range(len(ms))]
            except Exception as e:
                ctx.count("mass_scan_declined")
                continue
            ctx.evaluations += 1
            ctx.count("mass_scan_name_as_%s" % ("object" if as_obj else "string"))
            if max(abs(a - b) for a, b in zip(got, ms)) > 1e-9 * max(ms):
                fails.append(dict(layer="R.mass_scan", case="M%d_%d" % (k, as_obj), what="generate_p_mass(%r, m): requested m = %r, invariant mass of the generated momenta = %r" % (name, ms, got),
                                  input={"function": "HelicityAngle.generate_p_mass", "chain": shape_str(tree), "name_given_as": "object" if as_obj else "string", "requested": ms, "generated": got}))
    return fails


def unit_scale_known_case(ctx):
    """OPEN known finding (hunt2 C11 finding 1): Vector3.cross_unit decides "collinear" by the ABSOLUTE test |a x b| < 1e-14 on
    un-normalised momenta, so the helicity-angle round trip depends on the unit of mass: with every mass scaled by 1e-8
    (angles and mass ratios unchanged) the sub-decay angles of A -> (B C) D come back wrong by O(1).  One fixed reproducer;
    the regular stream keeps masses of order 0.05..20."""
    chains = [ch for ch in all_chains(3)]
    ch = chains[0]
    tree = build_tree(ch)
    rnd = random.Random(20261001)
    mass = gen_masses(rnd, tree, False)
    cost, phi = gen_angles(rnd, len(list(ch)), False)
    out = []
    for scale in (1.0, 1e-8):
        m = {k: v * scale for k, v in mass.items()}
        try:
            f = chain_case(ctx, Cases(ctx), "unit%g" % scale, ch, m, cost, phi, rt_tol=1e-9, coq=False)
        except Exception as e:
            f = [dict(layer="R.exception", what=repr(e), input={})]
        f = [x for x in f if x["layer"].startswith("R.")]
        ctx.count("unit_scale_%g" % scale)
        ctx.evaluations += 1
        if f:
            out.append(dict(layer="R.unit_scale", case="unit%g" % scale, what="masses scaled by %g: %s" % (scale, f[0]["what"]),
                            input={"function": "HelicityAngle round trip", "chain": shape_str(tree), "mass_scale": scale, "mass": {str(k): v for k, v in m.items()}, "costheta": cost, "phi": phi},
                            site="Vector3.cross_unit absolute collinearity threshold" if scale != 1.0 else "HelicityAngle round trip",
                            fingerprint="unit_scale:cross_unit_threshold" if scale != 1.0 else "R.unit_scale"))
    return out


def dalitz_direct(m0, m1, m2, m3, s12, s23, ps):
    def m2_(p):
        return p[0] ** 2 - p[1] ** 2 - p[2] ** 2 - p[3] ** 2
    tol = 1e-8 * m0 * m0
    if abs(m2_(ps[0] + ps[1]) - s12) > tol:
        return "(p1+p2)^2 = %r, s12 = %r" % (m2_(ps[0] + ps[1]), s12)
    if abs(m2_(ps[1] + ps[2]) - s23) > tol:
        return "(p2+p3)^2 = %r, s23 = %r" % (m2_(ps[1] + ps[2]), s23)
    for p, m in zip(ps, (m1, m2, m3)):
        if abs(m2_(p) - m * m) > tol:
            return "p^2 = %r, m^2 = %r" % (m2_(p), m * m)
    tot = ps[0] + ps[1] + ps[2]
    if abs(tot[0] - m0) > 1e-9 * m0 or np.max(np.abs(tot[1:])) > 1e-9 * m0:
        return "sum p = %r, m0 = %r" % (tot.tolist(), m0)
    return None


# ----------------------------------------------------------------------------- search on break
def search(ctx, fails):
    """property itself on the implementation, independent of the Coq model: boost inverse, invariance of the
    Minkowski product, matrix = boost, round trip on chains with edge bias, Dalitz"""
    from tf_pwa.angle import LorentzVector as lv
    rnd = random.Random(ctx.seed * 1000003 + 1111)
    budget = 60 if ctx.tier == "quick" else 600
    import time
    t0 = time.time()
    kinds = ["generic", "fast", "rest", "guard", "above_guard", "collinear"]
    for k in range(300):
        kind = kinds[k % len(kinds)]
        p, v, rtol = gen_boost_case(rnd, kind)
        q, _, _ = gen_boost_case(rnd, "generic")
        g = 1 / math.sqrt(1 - sum(x * x for x in v))
        sc = g * g * (abs(p[0]) + math.sqrt(sum(x * x for x in p[1:]))) + 1e-300
        b = arr(lv.boost(T(p), T(v)))
        back = arr(lv.boost(T(b), T([-x for x in v])))
        if np.max(np.abs(back - np.array(p))) > 1e-12 * sc * g:
            return {"property": "boost(boost(p,v),-v) = p", "p": p, "v": v, "got": back.tolist()}
        bq = arr(lv.boost(T(q), T(v)))
        d0 = float(arr(lv.Dot(T(p), T(q)))[0]); d1 = float(arr(lv.Dot(T(b), T(bq)))[0])
        scq = g * g * (abs(q[0]) + math.sqrt(sum(x * x for x in q[1:]))) + 1e-300
        if abs(d0 - d1) > 1e-12 * sc * scq:
            return {"property": "Dot(boost p, boost q) = Dot(p,q)", "p": p, "q": q, "v": v, "before": d0, "after": d1}
        mm = 1.0
        pm = [mm * g] + [mm * g * x for x in v]
        bm = np.array(lv.boost_matrix(T(pm))).reshape(4, 4)
        viam = bm @ np.array(q)
        direct = arr(lv.boost(T(q), lv.boost_vector(T(pm))))
        if np.max(np.abs(viam - direct)) > 1e-12 * scq:
            return {"property": "boost_matrix(p) q = boost(q, boost_vector(p))", "p": pm, "q": q, "matrix": viam.tolist(), "boost": direct.tolist()}
        r = arr(lv.rest_vector(T(pm), T(pm)))
        if abs(r[0] - mm) > 1e-12 * g * g or np.max(np.abs(r[1:])) > 1e-12 * g * g:
            return {"property": "rest_vector(p,p) = (m,0,0,0)", "p": pm, "got": r.tolist()}
    cs = Cases(ctx)
    n = 0
    while time.time() - t0 < budget and n < (400 if ctx.tier == "quick" else 4000):
        nf = rnd.choice([3, 4, 5])
        ch = rnd.choice(all_chains(nf))
        tree = build_tree(ch)
        ed = n % 2 == 1
        mass = gen_masses(rnd, tree, ed)
        cost, phi = gen_angles(rnd, len(list(ch)), ed)
        try:
            f = chain_case(ctx, cs, "s%d" % n, ch, mass, cost, phi, coq=False)
        except Exception as e:
            return {"property": "build_data -> cal_angle -> find_variable round trip", "chain": shape_str(tree), "mass": {str(k): v for k, v in mass.items()},
                    "costheta": cost, "phi": phi, "error": repr(e)}
        f = [x for x in f if x["layer"].startswith("R.") or x["layer"].startswith("F.wiring") or x["layer"].startswith("B.wiring")]
        if f:
            return {"property": "build_data -> cal_angle -> find_variable round trip", "what": f[0]["what"], "layer": f[0]["layer"], **f[0]["input"]}
        n += 1
    from tf_pwa.data_trans.dalitz import Dalitz
    for k in range(300):
        m0, m1, m2, m3, s12, s23 = dalitz_point(rnd, edge=(k % 3 == 2))
        ps = [arr(p) for p in Dalitz(m0, m1, m2, m3).generate_p(T(s12)[0], T(s23)[0])]
        f = dalitz_direct(m0, m1, m2, m3, s12, s23, ps)
        if f:
            return {"property": "Dalitz.generate_p reproduces (s12, s23, masses, sum)", "m0": m0, "mi": [m1, m2, m3], "s12": s12, "s23": s23, "what": f}
    return None


# ----------------------------------------------------------------------------- run
def run(ctx):
    bootstrap_quiet()
    rnd = random.Random(ctx.seed * 1000003 + 11)
    ctx.rule = ("seeded: 4-vectors on/off shell x velocities (generic, |v| up to 1-1e-6, 0, inside and just above the gamma2 guard, collinear); "
                "every sampled topology of 3/4/5 final particles from DecayChain.from_particles x masses (generic, massless finals, Q down to 1e-5) x "
                "angles (generic, cos(theta) -> +-1, special phi); Dalitz points inside the physical region.  distinct = distinct (function, input); "
                "non-trivial = not the all-zero input")
    common.theorem_stage(ctx)
    cs = Cases(ctx)
    quick = ctx.tier == "quick"
    lorentz_cases(ctx, rnd, cs, 7 if quick else 70)
    ctx.log("lorentz goals", len(cs.items))
    plan = [(3, 3, 2, True), (4, 2, 1, False), (5, 1, 1, False)] if quick else [(3, 3, 6, True), (4, 15, 2, True), (5, 20, 1, True)]
    pyfails = chain_cases(ctx, rnd, cs, plan)
    ctx.log("chain goals", len(cs.items))
    pyfails += dalitz_cases(ctx, rnd, cs, 9 if quick else 81)
    pyfails += mass_scan_cases(ctx, random.Random(ctx.seed * 1000003 + 1111), 4 if quick else 40)
    pyfails += unit_scale_known_case(ctx)
    ctx.log("all goals", len(cs.items), "python-level failures", len(pyfails))
    # direct round trips only (no Coq goals), more topologies: every topology in thorough
    extra = Cases(ctx)
    nextra = 0
    for nf in (3, 4, 5):
        chains = all_chains(nf)
        picks = chains if not quick else rnd.sample(chains, min(len(chains), 10))
        for ci, ch in enumerate(picks):
            tree = build_tree(ch)
            for e in range(2 if quick else 4):
                mass = gen_masses(rnd, tree, e % 2 == 1)
                cost, phi = gen_angles(rnd, len(list(ch)), e % 2 == 1)
                f = chain_case(ctx, extra, "r%d_%d_%d" % (nf, ci, e), ch, mass, cost, phi, coq=False)
                for x in f:
                    x["case"] = "r%d_%d_%d" % (nf, ci, e)
                pyfails += f
                nextra += 1
                ctx.distinct.add((shape_str(tree), tuple(cost), tuple(phi)))
    ctx.count("direct_roundtrip_only", nextra)
    ctx.evaluations += nextra
    ctx.obligations += nextra
    ctx.discharged += nextra - len({x["case"] for x in pyfails if x["case"].startswith("r")})
    for c in cs.items[:: max(1, len(cs.items) // 3)]:
        ctx.sample({"case": c[0], "goal": c[1][:300], "meta": {k: v for k, v in c[3].items() if k != "input"}})
    res = common.coq_cases(ctx, "kin", HEADER, [c[:3] for c in cs.items], per_file=max(25, min(60, len(cs.items) // 48 + 1)),
                           timeout=900 if quick else 3600, case_timeout=60 if quick else 120)
    for cid, stmt, t, meta in cs.items:
        if res[cid] != "OK":
            ctx.fail(meta["layer"], cid, "implementation value not within tolerance of the model (%s)" % res[cid],
                     inp={k: v for k, v in meta.items()}, site=meta["function"].split(" ")[0], fingerprint=meta["layer"], failing_input=None)
    for f in pyfails:
        fi = dict(f["input"], what=f["what"], layer=f["layer"]) if f["layer"].startswith("R.") else None
        ctx.fail(f["layer"], f.get("case", "?"), f["what"], inp=f["input"], site=f.get("site") or ("HelicityAngle round trip" if f["layer"] != "R.dalitz" else "Dalitz.generate_p"),
                 fingerprint=f.get("fingerprint") or f["layer"], failing_input=fi)
    return common.finish(ctx, search=search, technique=TECHNIQUE, extra_assumptions=[
        "real-number model; float rounding absorbed by rtol 1e-11 (boosts with |v| > 0.99: 1e-7; angles: atol 1e-10 + 1e-14/sin(beta))",
        "exact Lorentz-boost theorems exclude the code's gamma2 guard 0 < |v|^2 <= 1e-14 (deviation <= |v|^3 |p|/2 ~ 5e-22 |p|) and the cross_unit fallback |a x b| < 1e-14; both branches are tied numerically",
        "forward intermediate values are recorded by wrapping helicity_angle.normal, LorentzVector.boost and boost_vector in the harness process for the duration of build_data (no change to /repo)",
        "3-body decays with a 3-daughter vertex (angle_zx_zzz_getx), aligned angles and SU2M r/b matrices are not part of C11"])


def bootstrap_quiet():
    import bootstrap
    bootstrap.tf_quiet()


def replay(rep):
    import json
    print(json.dumps(rep, indent=1, default=str))
    fi = rep.get("failing_input")
    if not fi:
        return 0
    bootstrap_quiet()
    if "chain" in fi and "costheta" in fi:
        ctx = common.Ctx("C11", "quick", rep.get("seed", 0))
        for nf in (3, 4, 5):
            for ch in all_chains(nf):
                if shape_str(build_tree(ch)) == fi["chain"]:
                    mass = {p: fi["mass"][str(p)] for p in set(n.part for n in build_tree(ch).nodes())}
                    f = chain_case(ctx, Cases(ctx), "replay", ch, mass, fi["costheta"], fi["phi"], coq=False)
                    for x in f:
                        print("REPLAY:", x["layer"], x["what"])
                    return 1 if f else 0
    return 0
