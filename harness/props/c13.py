"""C13 - (l,s) selection sound, complete, non-redundant.

Theorems: coq/Props/Properties_C13.v (unbounded sound+complete+NoDup, count = #helicity 2j<=8).
Tie: exhaustive GetA2BC_LS_list calls compared *inside Coq* (vm_compute) with the model;
HelicityDecay.get_ls_list with l_list / ls_list options; cg-matrix rank numerically on the
implementation (search support)."""
import itertools
import random

import common
from qfmt import twoj

TECHNIQUE = "Coq proof (unbounded list theory + vm_compute on the finite 2j<=8 count) with Coq-evaluated exhaustive correspondence"

HEADER = "From Coq Require Import ZArith List Bool.\nFrom TFV Require Import Comb.LS.\nImport ListNotations.\nOpen Scope Z_scope.\n"


def J(t):
    return t // 2 if t % 2 == 0 else t / 2


OPTS = (
    [(pa, pb, pc) for pa in (1, -1) for pb in (1, -1) for pc in (1, -1)]
    + [(None, 1, -1), (1, None, 1), (-1, -1, None)]
)


def impl_calls(t):
    from tf_pwa.particle import GetA2BC_LS_list

    ja, jb, jc = map(J, t)
    out = []
    for (pa, pb, pc) in OPTS:
        for brk in (False, True):
            for ca in (None, 1, -1):
                r = GetA2BC_LS_list(ja, jb, jc, pa, pb, pc, p_break=brk, ca=ca)
                out.append(((pa, pb, pc, brk, ca), [(int(l), twoj(s)) for (l, s) in r]))
    return out


def rule(t, pa, pb, pc, brk, ca):
    """independent declarative rule (python), used by the failing-input search"""
    a, b, c = t
    if pa is None or pb is None or pc is None:
        brk = True
    res = []
    for s2 in range(abs(b - c), b + c + 1, 2):
        for l2 in range(abs(a - s2), a + s2 + 1, 2):
            if l2 % 2:
                continue
            l = l2 // 2
            if not brk and (pa * pb * pc) != (-1) ** l:
                continue
            if ca is not None:
                if s2 % 2 or ca != (-1) ** (l + s2 // 2):
                    continue
            res.append((l, s2))
    return res


def coq_case(t, calls):
    items = []
    for (pa, pb, pc, brk, ca), out in calls:
        out = sorted(out, key=lambda p: (p[1], p[0]))
        items.append(
            "(%d,%d,%d,%s,%d,[%s])"
            % (pa or 0, pb or 0, pc or 0, "true" if brk else "false", ca or 0, ";".join("(%d,%d)" % p for p in out))
        )
    return "forallb (ls_case_ok %d %d %d) [%s] = true" % (t[0], t[1], t[2], ";".join(items))


def search(ctx, fails):
    """compare the implementation with the declarative rule directly"""
    for f in fails:
        t = f.get("input")
        if not t or f.get("layer") != "ls_enum":
            continue
        t = tuple(t)
        for (opt, out) in impl_calls(t):
            exp = rule(t, *opt)
            if sorted(out) != sorted(exp):
                missing = sorted(set(exp) - set(out))
                extra = sorted(set(out) - set(exp))
                dup = len(out) != len(set(out))
                return {
                    "call": "GetA2BC_LS_list(ja=%s,jb=%s,jc=%s,pa=%s,pb=%s,pc=%s,p_break=%s,ca=%s)"
                    % (J(t[0]), J(t[1]), J(t[2]), *opt),
                    "impl_(l,2s)": out,
                    "rule_(l,2s)": exp,
                    "missing_allowed": missing,
                    "extra_forbidden": extra,
                    "duplicate": dup,
                }
    return None


def decay_cases(ctx, rnd, n):
    """HelicityDecay.get_ls_list with l_list / ls_list options and chain removal rule"""
    from tf_pwa.amp import get_particle, get_decay

    cases = []
    for k in range(n):
        t = (rnd.randrange(0, 7), rnd.randrange(0, 7), rnd.randrange(0, 5))
        if (t[0] + t[1] + t[2]) % 2:
            t = (t[0] + 1, t[1], t[2])
        P = [rnd.choice((1, -1)) for _ in range(3)]
        brk = rnd.random() < 0.4
        a = get_particle("A%d" % k, J=J(t[0]), P=P[0])
        b = get_particle("B%d" % k, J=J(t[1]), P=P[1])
        c = get_particle("C%d" % k, J=J(t[2]), P=P[2])
        base = rule(t, P[0], P[1], P[2], brk, None)
        mode = rnd.choice(["none", "l_list", "ls_list", "ls_wild", "ls_wild", "both"])
        kw = {}
        l_opt, ls_opt = "None", "None"
        if mode in ("l_list", "both"):
            ll = sorted(set(rnd.randrange(0, 6) for _ in range(rnd.randrange(1, 4))))
            kw["l_list"] = ll
            l_opt = "(Some [%s])" % ";".join(map(str, ll))
        if mode == "ls_list" and base:
            u = rnd.sample(base, rnd.randrange(1, len(base) + 1))
            kw["ls_list"] = [[l, J(s2)] for l, s2 in u]
            ls_opt = "(Some [%s])" % ";".join("(%d,%d)" % p for p in u)
        elif mode in ("ls_wild", "both"):
            # whatever a user may write: allowed couplings in any order, repeated ones, couplings the triangle rules or
            # parity forbid (the offered list must still be exactly allowed-and-listed, each once: /repo 47acb11)
            par = (t[1] + t[2]) % 2
            pool = list(base) + [(rnd.randrange(0, 7), 2 * rnd.randrange(0, 5) + par) for _ in range(3)]
            u = [rnd.choice(pool) for _ in range(rnd.randrange(1, 6))]
            kw["ls_list"] = [[l, J(s2)] for l, s2 in u]
            ls_opt = "(Some [%s])" % ";".join("(%d,%d)" % p for p in u)
        try:
            d = get_decay(a, [b, c], p_break=brk, **kw)
            out = [(int(l), twoj(s)) for l, s in d.get_ls_list()]
            # the answer must be stable over repeated queries (the list is cached on the decay object and feeds
            # init_params / get_cg_matrix later): compare the third query too
            d.get_ls_list()
            out3 = [(int(l), twoj(s)) for l, s in d.get_ls_list()]
            if out3 != out:
                ctx.fail("get_ls_list", "dec%d_repeat" % k, "HelicityDecay.get_ls_list changes between queries", inp={"t": t, "P": P, "brk": brk, "kw": str(kw)},
                         site="HelicityDecay.get_ls_list", fingerprint="unstable",
                         failing_input={"decay": "J^P %s^%d -> %s^%d %s^%d p_break=%s options=%s" % (J(t[0]), P[0], J(t[1]), P[1], J(t[2]), P[2], brk, kw), "first_query": out, "third_query": out3})
        except Exception as e:  # decay with no allowed ls raises in init
            out = None
            ctx.count("decay_init_raises")
        ctx.count("decay_mode_" + mode)
        if out is None:
            # constructor refuses iff the (restricted) list is empty
            stmt = "user_ls (ls_list %d %d %d (Some (%d)) (Some (%d)) (Some (%d)) %s None) %s %s = []" % (
                t[0], t[1], t[2], P[0], P[1], P[2], "true" if brk else "false", l_opt, ls_opt)
        else:
            stmt = "pairs_eqb (user_ls (ls_list %d %d %d (Some (%d)) (Some (%d)) (Some (%d)) %s None) %s %s) [%s] = true" % (
                t[0], t[1], t[2], P[0], P[1], P[2], "true" if brk else "false", l_opt, ls_opt,
                ";".join("(%d,%d)" % p for p in out))
        cases.append(("dec%d" % k, stmt, "vm_compute; reflexivity", {"t": t, "P": P, "brk": brk, "kw": kw, "out": out}))
        # C-parity family on decay OBJECTS: the same spins, parities and p_break with the C-parity request absent / +1 / -1, one
        # after the other in this process (whatever is shared between decay objects must not ignore the request)
        for ci, cval in enumerate((None, 1, -1) if k % 2 == 0 else (-1, None, 1)):
            try:
                ac = get_particle("Ac%d_%d" % (k, ci), J=J(t[0]), P=P[0], **({} if cval is None else {"C": cval}))
                bc = get_particle("Bc%d_%d" % (k, ci), J=J(t[1]), P=P[1]); cc = get_particle("Cc%d_%d" % (k, ci), J=J(t[2]), P=P[2])
                dc = get_decay(ac, [bc, cc], p_break=brk, **({} if cval is None else {"c_break": False}))
                outc = [(int(l), twoj(s)) for l, s in dc.get_ls_list()]
            except Exception:
                outc = None
                ctx.count("decay_init_raises")
            ca = "None" if cval is None else "(Some (%d))" % cval
            if outc is None:
                stmtc = "ls_list %d %d %d (Some (%d)) (Some (%d)) (Some (%d)) %s %s = []" % (t[0], t[1], t[2], P[0], P[1], P[2], "true" if brk else "false", ca)
            else:
                stmtc = "pairs_eqb (ls_list %d %d %d (Some (%d)) (Some (%d)) (Some (%d)) %s %s) [%s] = true" % (
                    t[0], t[1], t[2], P[0], P[1], P[2], "true" if brk else "false", ca, ";".join("(%d,%d)" % p for p in outc))
            ctx.count("decay_c_parity_request:%s" % ("none" if cval is None else cval))
            cases.append(("decc%d_%d" % (k, ci), stmtc, "vm_compute; reflexivity", {"t": t, "P": P, "brk": brk, "C": cval, "c_break": cval is None, "out": outc}))
    return cases


def cgmatrix_cases(ctx, rnd, n):
    """HelicityDecay.get_cg_matrix: every entry vs the exact radical model (Amp/Coupling.v), and the numerical
    rank of the implementation's matrix = number of couplings (direct property test, spins <= 5/2)"""
    import numpy as np
    from tf_pwa.amp import get_particle, get_decay
    from qfmt import Qq
    cases = []
    trip = [(a, b, c) for a in range(6) for b in range(6) for c in range(6) if (a + b + c) % 2 == 0 and abs(b - c) <= a + 5]
    for k, t in enumerate(rnd.sample(trip, min(n, len(trip)))):
        P = [rnd.choice((1, -1)) for _ in range(3)]
        brk = rnd.random() < 0.6
        a = get_particle("Ag%d" % k, J=J(t[0]), P=P[0]); b = get_particle("Bg%d" % k, J=J(t[1]), P=P[1]); c = get_particle("Cg%d" % k, J=J(t[2]), P=P[2])
        try:
            d = get_decay(a, [b, c], p_break=brk)
            ls = [(int(l), twoj(s_)) for l, s_ in d.get_ls_list()]
            m = np.array(d.get_cg_matrix())  # (n_ls, n_lb, n_lc)
        except Exception:
            ctx.count("cgmatrix_decay_rejected")
            continue
        hb = [round(2 * x) for x in d.list_helicity_inner()[0]]; hc = [round(2 * x) for x in d.list_helicity_inner()[1]]
        items = []
        for i, (l, s2) in enumerate(ls):
            for ib, lb in enumerate(hb):
                for ic, lc in enumerate(hc):
                    items.append("(%d,%d,%d,%d,%d,%d,%d,%s)" % (t[0], t[1], t[2], l, s2, lb, lc, Qq(float(m[i][ib][ic]))))
        ctx.evaluations += len(items)
        ctx.distinct.add(("cgm", t, tuple(P), brk))
        rank = int(np.linalg.matrix_rank(m.reshape(len(ls), -1), tol=1e-9)) if len(ls) else 0
        meta = {"t": t, "P": P, "brk": brk, "ls": ls, "rank": rank}
        cases.append(("cgm%d" % k, "forallb (cgm_ok (1 # 1000000000000)) [%s] = true" % "; ".join(items), "vm_compute; reflexivity", meta))
        # the SYMBOLIC variant (out_sym=True, used for the LS <-> helicity equations) against the same exact radicals, small spins
        # (sympy CG is slow); negative half-integer helicities were rounded towards zero before /repo d26894e
        if max(t) <= 3 and len(items) <= 40:
            try:
                import sympy
                ms = d.get_cg_matrix(out_sym=True)
                sitems = []
                for i, (l, s2) in enumerate(ls):
                    for ib, lb in enumerate(hb):
                        for ic, lc in enumerate(hc):
                            sitems.append("(%d,%d,%d,%d,%d,%d,%d,%s)" % (t[0], t[1], t[2], l, s2, lb, lc, Qq(float(sympy.N(ms[i][ib][ic], 30)))))
                ctx.evaluations += len(sitems)
                ctx.count("cgmatrix_symbolic")
                cases.append(("cgs%d" % k, "forallb (cgm_ok (1 # 1000000000000)) [%s] = true" % "; ".join(sitems), "vm_compute; reflexivity", dict(meta, variant="out_sym=True")))
            except Exception as ex:
                ctx.fail("cg_matrix", "cgs%d" % k, "get_cg_matrix(out_sym=True) raised %r" % (ex,), inp=meta, site="HelicityDecay.get_cg_matrix(out_sym=True)", fingerprint="out_sym:raise",
                         failing_input=dict(meta, raised=repr(ex)))
        if rank != len(ls):
            ctx.fail("ls_rank", "rank%d" % k, "LS->helicity matrix of the implementation is rank deficient", inp=meta, site="HelicityDecay.get_cg_matrix", fingerprint="rank",
                     failing_input={"decay": "J^P = %s^%d -> %s^%d %s^%d, p_break=%s" % (J(t[0]), P[0], J(t[1]), P[1], J(t[2]), P[2], brk), "ls": ls, "rank": rank, "n_ls": len(ls)})
    return cases


def qr_selector_regression(ctx, rnd, n):
    """ls_selector: qr (the library's own device for "number of couplings = number of independent helicity amplitudes" when
    a daughter has a restricted helicity list, e.g. a photon): the selected couplings must be independent and span what all
    allowed couplings span on the kept helicities.  Direct test on the implementation (ranks by numpy SVD of the library's
    numeric coupling matrix, which the cg-matrix layer ties to the exact model); regression of hunt2 C13 finding 2
    (/repo 5241796: float spins left round-off in the sympy QR, so no half-integer decay ever lost a coupling)."""
    import contextlib, io
    import numpy as np
    from tf_pwa.amp import get_particle, get_decay
    for k in range(n):
        half = k % 2 == 0
        jb2 = rnd.choice([2, 4])  # the restricted daughter: spin 1 or 2 with helicities +-J only
        jc2 = rnd.choice([1, 3]) if half else rnd.choice([0, 2])
        ja2 = rnd.choice([1, 3, 5]) if half else rnd.choice([0, 2, 4])
        P = [rnd.choice((1, -1)) for _ in range(3)]
        brk = rnd.random() < 0.5
        def mk(tag, **kw):
            a = get_particle("Aq%d%s" % (k, tag), J=J(ja2), P=P[0])
            b = get_particle("Bq%d%s" % (k, tag), J=J(jb2), P=P[1], spins=[-J(jb2), J(jb2)])
            c = get_particle("Cq%d%s" % (k, tag), J=J(jc2), P=P[2])
            return get_decay(a, [b, c], p_break=brk, **kw)
        try:
            d0 = mk("n")
            full = d0.get_ls_list()
            with contextlib.redirect_stdout(io.StringIO()):
                d1 = mk("q", ls_selector="qr")
                sel = d1.get_ls_list()
            M0 = np.array(d0.get_cg_matrix()).reshape(len(full), -1)
            M1 = np.array(d1.get_cg_matrix()).reshape(len(sel), -1)
        except (ValueError, KeyError, AssertionError):  # no allowed coupling for this spin-parity assignment
            ctx.count("qr_selector_declined")
            continue
        ctx.evaluations += 1
        ctx.count("qr_selector_half_integer" if half else "qr_selector_integer")
        r0 = int(np.linalg.matrix_rank(M0, tol=1e-9)) if len(full) else 0
        r1 = int(np.linalg.matrix_rank(M1, tol=1e-9)) if len(sel) else 0
        if not (len(sel) == r1 == r0):
            ctx.fail("qr_selector", "qr%d" % k, "ls_selector qr keeps %d couplings, rank of their map %d, rank of all allowed couplings %d" % (len(sel), r1, r0),
                     inp={"2j": [ja2, jb2, jc2], "P": P, "p_break": brk}, site="ls_selector_qr", fingerprint="qr_rank",
                     failing_input={"decay": "%s^%d -> %s^%d (helicities +-%s only) %s^%d, p_break=%s, ls_selector=qr" % (J(ja2), P[0], J(jb2), P[1], J(jb2), J(jc2), P[2], brk),
                                    "allowed": str(full), "selected": str(sel), "rank_selected": r1, "rank_allowed": r0})


def run(ctx):
    rnd = random.Random(ctx.seed * 1000003 + 13)
    ctx.rule = ("exhaustive enumeration of (2ja,2jb,2jc) x 11 parity triples (incl. None) x p_break x ca in {None,+1,-1}; "
                "quick: all 2j<=4 plus a seeded sample of the rest, thorough: all 2j<=8; one Coq obligation per spin triple "
                "(54 implementation calls each); distinct = distinct (spins,options,output) records; non-trivial = non-empty output")
    common.theorem_stage(ctx)
    allt = list(itertools.product(range(9), repeat=3))
    if ctx.tier == "quick":
        small = [t for t in allt if max(t) <= 4]
        rest = [t for t in allt if max(t) > 4]
        triples = small + rnd.sample(rest, 120)
    else:
        triples = allt
    cases, meta = [], {}
    for t in triples:
        calls = impl_calls(t)
        ctx.evaluations += len(calls)
        for opt, out in calls:
            if out:
                ctx.distinct.add((t, opt, tuple(out)))
            ctx.count("n_ls=%d" % min(len(out), 9))
        cid = "t%d_%d_%d" % t
        cases.append((cid, coq_case(t, calls), "vm_compute; reflexivity"))
        meta[cid] = t
    ctx.sample({"triple_2j": triples[len(triples) // 2], "first_calls": [(o, r) for o, r in impl_calls(triples[len(triples) // 2])[:3]]})
    res = common.coq_cases(ctx, "ls_enum", HEADER, cases, per_file=60)
    for cid, r in res.items():
        if r != "OK":
            ctx.fail("ls_enum", cid, "model and implementation differ (%s)" % r, inp=list(meta[cid]), site="GetA2BC_LS_list", fingerprint=cid)
    ndec = 150 if ctx.tier == "quick" else 1500
    dc = decay_cases(ctx, rnd, ndec)
    ctx.evaluations += len(dc)
    res = common.coq_cases(ctx, "ls_decay", HEADER, [c[:3] for c in dc], per_file=200)
    for (cid, stmt, tac, m) in dc:
        if m["out"]:
            ctx.distinct.add(("dec", tuple(m["t"]), tuple(m["P"]), m["brk"], str(m.get("kw", m.get("C")))))
        if res[cid] != "OK":
            ctx.fail("get_ls_list", cid, "HelicityDecay.get_ls_list differs from model (%s)" % res[cid], inp=m, site="HelicityDecay.get_ls_list", fingerprint="decay",
                     failing_input={"call": "get_decay(A,[B,C],...).get_ls_list()", **{k: str(v) for k, v in m.items()}})
    ctx.sample({"decay_case": dc[0][1]})
    qr_selector_regression(ctx, random.Random(ctx.seed * 1000003 + 1313), 16 if ctx.tier == "quick" else 120)
    common.coq_make(["Amp/Coupling.vo"])  # the exact radical model of the coupling matrix
    cg = cgmatrix_cases(ctx, rnd, 40 if ctx.tier == "quick" else 108)
    res = common.coq_cases(ctx, "ls_cgm", "From Coq Require Import ZArith List Bool QArith.\nFrom TFV Require Import Rot.Wigner Rot.CG Amp.Coupling.\nImport ListNotations.\nOpen Scope Z_scope.\n",
                           [c[:3] for c in cg], per_file=6)
    for (cid, stmt, tac, m) in cg:
        if res[cid] != "OK":
            ctx.fail("cg_matrix", cid, "get_cg_matrix differs from the exact radical model (%s)" % res[cid], inp=m, site="HelicityDecay.get_cg_matrix", fingerprint="cgm",
                     failing_input={k: str(v) for k, v in m.items()})
    return common.finish(ctx, search=search, technique=TECHNIQUE,
                         extra_assumptions=["full rank of the LS->helicity map: theorem for j<=5/2 (C13_ls_map_full_rank_le5, on the exact-radical matrix whose entries are tied to get_cg_matrix exactly); for the implementation the rank is additionally computed numerically (spins <= 5/2)"])


def replay(rep):
    import json
    print(json.dumps(rep, indent=1))
    fi = rep.get("failing_input")
    if fi and "call" in fi and fi["call"].startswith("GetA2BC"):
        from tf_pwa.particle import GetA2BC_LS_list  # noqa
        print("impl now:", eval(fi["call"].replace("GetA2BC_LS_list", "GetA2BC_LS_list")))
    return 0
