"""C14 - decay topologies are enumerated and identified correctly.

Theorems: coq/Props/Properties_C14.v ((2n-3)!! count and tree invariant unbounded; distinctness,
table<->chain, partition, homomorphism for n<=7 / n<=6 by vm_compute; topology_same iff equal
grouping multisets, unbounded).
Tie: DecayChain.from_particles n=2..7 (quick <=6): the implementation's grouping sets compared exactly
with the model's *inside Coq*; exact chains/tables for n<=5; random decay groups (subsets of enumerated
chains, renamed inner particles, identical-particle names "pi:1","pi:2", swapped-identical copies)
through sorted_table / topology_same / standard_topology / topology_map / topology_structure /
get_chains_map, compared with the model's verdicts inside Coq."""
import itertools
import json
import random

import common

TECHNIQUE = ("Coq proof (unbounded induction for count and tree invariant, list/permutation theory for topology_same, "
             "vm_compute on the finite n<=7 quantifier) with Coq-evaluated exhaustive + random-group correspondence")

HEADER = ("From Coq Require Import List Arith ZArith NArith Bool.\nFrom TFV Require Import Comb.Topology.\n"
          "Import ListNotations.\nOpen Scope Z_scope.\n")


def dfact(n):
    r = 1
    k = 2 * n - 3
    while k > 1:
        r *= k
        k -= 2
    return r


# --------------------------------------------------------------------------- enumeration


def enum_impl(n):
    from tf_pwa.particle import BaseParticle, DecayChain

    top = BaseParticle("A")
    finals = [BaseParticle("f%d" % i) for i in range(n)]
    return top, finals, DecayChain.from_particles(top, finals)


def group_code(lst, idx):
    c = 0
    for p in lst:  # order as the implementation returned it
        c = c * 8 + idx[p] + 1
    return c


def chain_key(chain, idx):
    codes = sorted(group_code(v, idx) for v in chain.sorted_table().values())
    k = 0
    for c in codes:
        k = k * 2097152 + c
    return k


def leafsets(chain_decays, top):
    """independent computation of the set of final-state groupings of a chain (search side):
    recursive leaf sets from the decays, no use of sorted_table"""
    node = {}
    for d in chain_decays:
        node.setdefault(d.core, []).extend(d.outs)
    seen = []

    def leaves(p, depth=0):
        if depth > 64:
            raise ValueError("cycle")
        if p not in node:
            return (p,)
        r = ()
        for o in node[p]:
            r += leaves(o, depth + 1)
        return tuple(sorted(r))

    out = [leaves(top)]
    for c in node:
        if c != top:
            out.append(leaves(c))
    fin = set(leaves(top))
    for f in fin:
        out.append((f,))
    return sorted(out), node


def is_binary_tree(chain, top, finals):
    try:
        gs, node = leafsets(list(chain), top)
    except Exception:
        return False
    if len(list(chain)) != len(finals) - 1:
        return False
    if any(len(v) != 2 for v in node.values()):
        return False
    lv = gs[[len(g) for g in gs].index(max(len(g) for g in gs))]
    if sorted(lv) != sorted(finals) or len(set(lv)) != len(lv):
        return False
    outs = [o for v in node.values() for o in v]
    if len(outs) != len(set(outs)) or top in outs:
        return False
    # every core except top is somebody's daughter
    return all((c == top) or (c in outs) for c in node)


def pterm(p, code):
    n, i = code[p]
    return "P %s %d" % (("(%d)" % n) if n < 0 else str(n), i)


def enum_exact_case(n, top, finals, chains):
    """chains and tables in the implementation's own order (n <= 5)"""
    code = {top: (0, 0)}
    for i, f in enumerate(finals):
        code[f] = (i + 1, 0)
    cts, tts = [], []
    for ch in chains:
        for p in ch.inner:
            k = int(str(p).split("_node_")[1])
            code[p] = (-(k + 1), 0)
        cts.append("[%s]" % ";".join("(%s,[%s])" % (pterm(d.core, code), ";".join(pterm(o, code) for o in d.outs)) for d in ch))
        tts.append("[%s]" % ";".join("(%s,[%s])" % (pterm(k, code), ";".join(pterm(o, code) for o in v)) for k, v in ch.sorted_table().items()))
    s1 = "list_eqb chain_eqb (from_particles %d) [%s] = true" % (n, ";".join(cts))
    s2 = "list_eqb table_eqb (map sorted_table (from_particles %d)) [%s] = true" % (n, ";".join(tts))
    return s1, s2


# --------------------------------------------------------------------------- random decay groups

NAME_POOL = ["pi", "K", "p", "D", "mu", "pi0"]
INNER_POOL = ["R", "X", "Zc", "Lz", "Ds2", "Ra", "Rb", "N1", "Y"]


def gen_group(rnd, quick):
    from tf_pwa.particle import BaseDecay, BaseParticle, DecayChain

    n = rnd.choice([3, 3, 4, 4, 4, 5, 5] if quick else [3, 4, 4, 5, 5, 6])
    # final-state names with multiplicities
    names = []
    while len(names) < n:
        nm = rnd.choice(NAME_POOL)
        m = rnd.choice([1, 1, 2, 2, 3])
        m = min(m, n - len(names))
        if m == 1 and rnd.random() < 0.7:
            if nm in [x.split(":")[0] for x in names]:
                continue
            names.append(nm)
        else:
            if nm in [x.split(":")[0] for x in names]:
                continue
            names += ["%s:%d" % (nm, k + 1) for k in range(m)]
    rnd.shuffle(names)
    top = BaseParticle("A")
    finals = [BaseParticle(x) for x in names]
    allc = DecayChain.from_particles(top, finals)
    k = rnd.randrange(1, min(len(allc), 7) + 1)
    picks = rnd.sample(range(len(allc)), k)
    ident = {}
    for f in finals:
        ident.setdefault(f.name, []).append(f)
    ident = [v for v in ident.values() if len(v) > 1]
    specs = []  # (pick, swap or None)
    for pk in picks:
        specs.append((pk, None))
        if ident and rnd.random() < 0.5:
            grp = rnd.choice(ident)
            a, b = rnd.sample(grp, 2)
            specs.append((pk, (a, b)))
    rnd.shuffle(specs)
    chains, seen = [], set()
    for (pk, sw) in specs:
        src = allc[pk]
        ren = {}
        for p in src.inner:
            ren[p] = BaseParticle(rnd.choice(INNER_POOL) + rnd.choice(["", "", "(2S)", ":1", ":2", "_%d" % rnd.randrange(3)]))
        # inner names inside one chain must differ
        if len(set(ren.values())) != len(ren):
            for j, p in enumerate(src.inner):
                ren[p] = BaseParticle("%s_u%d" % (ren[p].name, j))
        if sw:
            ren[sw[0]], ren[sw[1]] = sw[1], sw[0]
        decs = []
        for d in src:
            outs = [ren.get(o, o) for o in d.outs]
            if rnd.random() < 0.5:
                outs = outs[::-1]
            decs.append(BaseDecay(ren.get(d.core, d.core), outs, disable=True))
        rnd.shuffle(decs)
        ch = DecayChain(decs)
        if ch.get_id() in seen:
            continue
        seen.add(ch.get_id())
        chains.append(ch)
    return top, finals, chains


class Coder:
    """particles -> Coq terms; name strings -> ranks preserving their order"""

    def __init__(self, particles):
        names = sorted(set(p.name for p in particles))
        self.rank = {nm: i for i, nm in enumerate(names)}
        self.bystr = {str(p): p for p in particles}

    def zz(self, p):
        return (self.rank[p.name], p._id)

    def term(self, p):
        nm = p.name
        if nm.startswith("(") and nm.endswith(")") and p._id == 0 and nm not in self.rank:
            parts = [self.zz(self.bystr[s]) for s in nm[1:-1].split(", ")]
            parts.sort()
            return "G [%s]" % ";".join("(%d,%d)" % t for t in parts)
        n, i = self.zz(p)
        return "P %s %d" % (("(%d)" % n) if n < 0 else str(n), i)

    def plist(self, ps):
        return "[%s]" % ";".join(self.term(p) for p in ps)

    def chain(self, ch):
        return "[%s]" % ";".join("(%s,%s)" % (self.term(d.core), self.plist(d.outs)) for d in ch)

    def table(self, t):
        return "[%s]" % ";".join("(%s,%s)" % (self.term(k), self.plist(v)) for k, v in t.items())


def tmap_obs(ret, a, b, cd):
    """observe a topology_map result: particle pairs in dict order, decay -> index in b"""
    from tf_pwa.particle import BaseParticle

    pm = [(k, v) for k, v in ret.items() if isinstance(k, BaseParticle)]
    blist = list(b)
    dm = []
    for d in a:
        if d in ret:
            j = [x == ret[d] for x in blist].index(True)
            dm.append("Some %d%%nat" % j)
        else:
            dm.append("None")
    return "(Some ([%s],[%s]))" % (";".join("(%s,%s)" % (cd.term(k), cd.term(v)) for k, v in pm), ";".join(dm))


def group_cases(gid, top, finals, chains):
    """run every observed function on the implementation and emit the Coq statements"""
    from tf_pwa.particle import DecayChain, DecayGroup

    parts = [top] + list(finals)
    for ch in chains:
        parts += list(ch.inner)
    cd = Coder(parts)
    cts = [cd.chain(ch) for ch in chains]
    gl = "[%s]" % ";".join(cts)
    cases = []
    # sorted_table, standard_topology, topology_map() per chain
    for i, ch in enumerate(chains):
        cases.append(("g%d_table%d" % (gid, i), "table_eqb (sorted_table %s) %s = true" % (cts[i], cd.table(ch.sorted_table())), "DecayChain.sorted_table"))
        std = ch.standard_topology()
        cases.append(("g%d_std%d" % (gid, i), "chain_eqb (standard_topology %s) %s = true" % (cts[i], cd.chain(std)), "DecayChain.standard_topology"))
        m = ch.topology_map()
        cases.append(("g%d_map%d" % (gid, i), "tmap_eqb (topology_map %s (standard_topology %s)) %s = true" % (cts[i], cts[i], tmap_obs(m, ch, std, cd)), "DecayChain.topology_map"))
    # topology_same on all pairs, both flags; topology_map between chains of the same topology
    items = []
    for i, a in enumerate(chains):
        for j, b in enumerate(chains):
            for fl in (True, False):
                v = a.topology_same(b, fl)
                items.append("(%d%%nat,%d%%nat,%s,%s)" % (i, j, str(fl).lower(), str(bool(v)).lower()))
            if i != j and a.topology_same(b, False):
                m = a.topology_map(b)
                cases.append(("g%d_map%d_%d" % (gid, i, j), "tmap_eqb (topology_map %s %s) %s = true" % (cts[i], cts[j], tmap_obs(m, a, b, cd)), "DecayChain.topology_map"))
    cases.append(("g%d_same" % gid,
                  "forallb (fun q => match q with (i,j,fl,v) => Bool.eqb (topology_same fl (nth i %s []) (nth j %s [])) v end) [%s] = true" % (gl, gl, ";".join(items)),
                  "DecayChain.topology_same"))
    # DecayGroup
    dg = DecayGroup(list(chains))
    for fl in (False, True):
        reps = dg.topology_structure(identical=fl, standard=False)
        idx = [[c is r for c in chains].index(True) for r in reps]
        cases.append(("g%d_struct_%s" % (gid, fl), "list_eqb Nat.eqb (map fst (topology_structure %s %s)) [%s] = true" % (str(fl).lower(), gl, ";".join("%d%%nat" % k for k in idx)), "DecayGroup.topology_structure"))
    stds = dg.topology_structure()
    cases.append(("g%d_struct_std" % gid, "list_eqb chain_eqb (map (fun r => standard_topology (snd r)) (topology_structure false %s)) [%s] = true" % (gl, ";".join(cd.chain(s) for s in stds)), "DecayGroup.topology_structure"))
    try:
        cm = dg.get_chains_map()
        cls = []
        for std, d in zip(stds, cm):
            dc = DecayChain(list(std))
            ent = []
            for j, m in d.items():
                jj = [c is j for c in chains].index(True)
                ent.append("(%d%%nat,%s)" % (jj, tmap_obs(m, dc, j, cd)[6:-1]))
            cls.append("[%s]" % ";".join(ent))
        obs = "(Some [%s])" % ";".join(cls)
        raised = None
    except KeyError as e:
        obs = "None"
        raised = repr(e)
    cases.append(("g%d_chains_map" % gid, "cmap_eqb (get_chains_map %s) %s = true" % (gl, obs), "DecayGroup.get_chains_map"))
    return cases, raised


# --------------------------------------------------------------------------- property checked directly (search)


def direct_enum(nmax):
    for n in range(2, nmax + 1):
        top, finals, chains = enum_impl(n)
        if len(chains) != dfact(n):
            return {"call": "DecayChain.from_particles('A', %d finals)" % n, "count": len(chains), "expected_(2n-3)!!": dfact(n)}
        keys = {}
        for i, ch in enumerate(chains):
            if not is_binary_tree(ch, top, finals):
                return {"call": "DecayChain.from_particles('A', %d finals)[%d]" % (n, i), "chain": str(ch), "what": "not a binary tree over exactly the given finals"}
            k = str(leafsets(list(ch), top)[0])
            if k in keys:
                return {"call": "DecayChain.from_particles('A', %d finals)" % n, "what": "two chains with the same grouping sets", "chains": [str(chains[keys[k]]), str(ch)]}
            keys[k] = i
    return None


def direct_group(top, finals, chains):
    """topology_same <-> equal grouping sets; table <-> chain; one class per chain; map is a homomorphism"""
    from tf_pwa.particle import DecayChain, DecayGroup

    def gs(ch, identical):
        g = leafsets(list(ch), top)[0]
        if identical:
            return sorted(tuple(sorted(p.name for p in x)) for x in g)
        return sorted(tuple(sorted((p.name, p._id) for p in x)) for x in g)

    desc = {"top": str(top), "finals": [str(f) for f in finals], "chains": [str(c) for c in chains]}
    for a, b in itertools.product(chains, repeat=2):
        for fl in (False, True):
            v = a.topology_same(b, fl)
            if bool(v) != (gs(a, fl) == gs(b, fl)):
                return dict(desc, call="topology_same(identical=%s)" % fl, a=str(a), b=str(b), impl=bool(v), groupings_equal=gs(a, fl) == gs(b, fl))
    for ch in chains:
        try:
            back = DecayChain.from_sorted_table(ch.sorted_table())
            ok = sorted((str(d.core), sorted(map(str, d.outs))) for d in back) == sorted((str(d.core), sorted(map(str, d.outs))) for d in ch)
        except Exception as e:
            ok, back = False, repr(e)
        if not ok:
            return dict(desc, call="from_sorted_table(sorted_table(c))", c=str(ch), back=str(back))
    try:
        dg = DecayGroup(list(chains))
        cm = dg.get_chains_map()
    except Exception as e:
        return dict(desc, call="DecayGroup(chains).get_chains_map()", raised=repr(e))
    for ch in chains:
        cnt = sum(1 for d in cm for j in d if j is ch)
        if cnt != 1:
            return dict(desc, call="get_chains_map()", chain=str(ch), n_classes_containing_it=cnt)
    for d in cm:
        for j, m in d.items():
            decs = {(str(x.core), tuple(sorted(map(str, x.outs)))) for x in j}
            for k, v in m.items():
                if hasattr(k, "outs"):
                    img = (str(m[k.core]), tuple(sorted(str(m[o]) for o in k.outs)))
                    if img not in decs:
                        return dict(desc, call="get_chains_map() particle map", chain=str(j), decay=str(k), image=str(img), what="image is not a decay of the chain")
    return None


def search(ctx, fails):
    hit = direct_enum(6)
    if hit:
        return hit
    rnd = random.Random(ctx.seed * 1000003 + 14)
    for _ in range(400):
        top, finals, chains = gen_group(rnd, True)
        hit = direct_group(top, finals, chains)
        if hit:
            return hit
    return None


# --------------------------------------------------------------------------- run


def run(ctx):
    import bootstrap

    bootstrap.tf_quiet()
    rnd = random.Random(ctx.seed * 1000003 + 14)
    quick = ctx.tier == "quick"
    ctx.rule = ("enumeration: every n in 2..6 (quick) / 2..7 (thorough), all (2n-3)!! chains, one Coq obligation per n comparing the sorted list of "
                "grouping-set codes (base-8 digits per grouping, 21 bits per grouping per chain: exact) + exact chain/table order for n<=5; "
                "groups: seeded random subsets (1..7 chains, each possibly with a copy that swaps two identical finals) of the enumerated chains over "
                "3..6 finals named from a pool with multiplicities (pi:1,pi:2,...), inner particles renamed, decay and daughter order shuffled; "
                "distinct = distinct (finals, chain set) groups with >=2 chains")
    common.theorem_stage(ctx)
    nmax = 6 if quick else 7
    cases, meta = [], {}
    for n in range(2, nmax + 1):
        top, finals, chains = enum_impl(n)
        idx = {f: i for i, f in enumerate(finals)}
        keys = sorted(chain_key(ch, idx) for ch in chains)
        ctx.evaluations += len(chains)
        ctx.count("enum_n=%d" % n, len(chains))
        cid = "enum%d" % n
        cases.append((cid, "enum_ok %d%%nat [%s] = true" % (n, ";".join("%d%%N" % k for k in keys)), "vm_compute; reflexivity"))
        meta[cid] = ("DecayChain.from_particles", {"n": n})
        cases.append(("count%d" % n, "length (from_particles %d%%nat) = %d%%nat" % (n, len(chains)), "vm_compute; reflexivity"))
        meta["count%d" % n] = ("DecayChain.from_particles", {"n": n, "count": len(chains)})
        if n <= 5:
            s1, s2 = enum_exact_case(n, top, finals, chains)
            cases.append(("exact%d" % n, s1, "vm_compute; reflexivity"))
            cases.append(("tables%d" % n, s2, "vm_compute; reflexivity"))
            meta["exact%d" % n] = ("_Chain_Graph.get_decay_chain", {"n": n})
            meta["tables%d" % n] = ("DecayChain.sorted_table", {"n": n})
        if n == 3:
            ctx.sample({"from_particles(A,[f0,f1,f2])": [str(c) for c in chains], "tables": [str(c.sorted_table()) for c in chains]})
    res = common.coq_cases(ctx, "enum", HEADER, cases, per_file=2, timeout=1500, case_timeout=900)
    for cid, r in res.items():
        if r != "OK":
            site, inp = meta[cid]
            ctx.fail("enumeration", cid, "model and implementation differ (%s)" % r, inp=inp, site=site, fingerprint=cid)
    # random decay groups
    ngroups = 70 if quick else 700
    gcases, gmeta = [], {}
    for gid in range(ngroups):
        top, finals, chains = gen_group(rnd, quick)
        desc = {"finals": [str(f) for f in finals], "chains": [str(c) for c in chains]}
        try:
            cs, raised = group_cases(gid, top, finals, chains)
        except Exception as ex:  # the model is total on these groups: an exception of the implementation is a disagreement
            import traceback
            tb = traceback.format_exc().strip().splitlines()
            ctx.fail("groups", "g%d_raised" % gid, "implementation raised %r on a decay group the model handles (%s)" % (ex, tb[-3].strip() if len(tb) > 2 else ""),
                     inp=desc, site="tf_pwa.particle topology functions", fingerprint="raised",
                     failing_input=dict(desc, raised=repr(ex), where=tb[-4:]))
            continue
        ctx.evaluations += len(cs)
        ctx.count("group_nfinal=%d" % len(finals))
        ctx.count("group_nchains=%d" % len(chains))
        names = [f.name for f in finals]
        ctx.count("group_identical_names=%s" % (len(set(names)) < len(names)))
        if raised:
            ctx.count("get_chains_map_raised")
        if len(chains) >= 2:
            ctx.distinct.add((tuple(desc["finals"]), tuple(sorted(desc["chains"]))))
        if gid < 2:
            ctx.sample(dict(desc, first_case=cs[0][1][:300]))
        for (cid, stmt, site) in cs:
            gcases.append((cid, stmt, "vm_compute; reflexivity"))
            gmeta[cid] = (site, desc, raised)
    res = common.coq_cases(ctx, "groups", HEADER, gcases, per_file=max(40, len(gcases) // 32 + 1), timeout=1500, case_timeout=120)
    for cid, r in res.items():
        if r != "OK":
            site, desc, raised = gmeta[cid]
            ctx.fail("groups", cid, "model and implementation differ (%s)%s" % (r, (" impl raised " + raised) if raised else ""), inp=desc, site=site, fingerprint=site)
    return common.finish(ctx, search=search, technique=TECHNIQUE,
                         extra_assumptions=["standard_topology spells its particle names with string-ordered parts; the model orders them by (name,id) - the name is only compared up to that order",
                                            "from_particles with a single final particle raises KeyError in the implementation; the count theorem's n=1 instance is about the model only"])


def replay(rep):
    print(json.dumps(rep, indent=1))
    hit = direct_enum(6)
    print("direct enumeration check now:", hit)
    return 0
