"""C15 - line shapes equal their documented formulas.

Theorems: coq/Props/Properties_C15.v.  Tie: tf_pwa.breit_wigner.* and Particle.__call__ for the
registered models vs the Gallina model (written from the docstrings), one Coq-Interval goal per
sampled point (exact dyadic inputs and outputs)."""
import math
import random

import numpy as np

import common
from qfmt import Rq
from rcases import cplx_stmt, real_stmt, tac
from props import c15_extra

TECHNIQUE = "Coq proof (field/lra/vm_compute) + Coq-Interval certified correspondence of every line shape with the code"

HEADER = ("From Coq Require Import Reals List ZArith.\nFrom Interval Require Import Tactic.\n"
          "From TFV Require Import Base.RBase Base.Tie Shape.LineShapes.\nImport ListNotations.\nOpen Scope R_scope.\n")
UNF = ("rmax BWR_LS BWR_LS_den ls_widths ls_barrier gamma_factors gamma_factors_from sumsq combine nth fold_right BW BWR BWR2 BWR_normal_above BWR_coupling bw_xy Gamma Gamma2 Bprime Bprime_q2 bp_ratio bp polyval bprime_table "
       "Cscal Csqrt_real Cmul Cadd Cinv fst snd fold_left map Nat.mul Nat.add get_relative_p get_relative_p2 "
       "Flatte flatte_rho flatte_p shape_one shape_x shape_exp shape_exp_com GS GS_from dFun fsFun hFun dh_dsFun twoBodyCMmom gs_pi")
TAC = tac(UNF)


# GS: the code's pi is the literal 3.14159265359 which tf.cast() routes through float32
# (3.1415927410...), so hFun/dFun/dh_dsFun/fsFun agree with the documented formula only to
# ~3e-8 relative.  Observation O1 in DESIGN.md; tolerance set accordingly, not a violation.
GS_RTOL = 2e-7


def T(x):
    import tensorflow as tf
    return tf.constant([x], dtype=tf.float64)


def f1(x):
    return float(np.array(x).reshape(-1)[0])


def c1(x):
    return complex(np.array(x).reshape(-1)[0])


def ref_bp(L, z):
    from fractions import Fraction
    n = L
    a = [Fraction(math.factorial(n + k), math.factorial(n - k) * math.factorial(k) * 2 ** k) for k in range(n + 1)]
    re = [0] * (n + 1); im = [0] * (n + 1)
    for k in range(n + 1):
        j = n - k
        c = [1, 1j, -1, -1j][j % 4]
        re[j] += a[k] * int(c.real); im[j] += a[k] * int(c.imag)
    w = math.sqrt(z) if z >= 0 else None
    if w is None:
        return None
    r = sum(float(re[j]) * w ** j for j in range(n + 1)); i = sum(float(im[j]) * w ** j for j in range(n + 1))
    return r * r + i * i


def ref_value(fn, a):
    """float evaluation of the documented formula (for the replay file only)"""
    try:
        if fn == "BW":
            m, m0, g0 = a; return 1 / (m0 * m0 - m * m - 1j * m0 * g0)
        if fn in ("BWR", "BWR2q"):
            m, m0, g0, q, q0, L, d = a
            B2 = ref_bp(L, (q0 * d) ** 2) / ref_bp(L, (q * d) ** 2)
            gam = g0 * (q / q0) ** (2 * L + 1) * m0 / m * B2
            return 1 / (m0 * m0 - m * m - 1j * m0 * gam)
    except Exception:
        return None
    return None


def gen_point(rnd, above=True):
    m1 = rnd.uniform(0.05, 0.6); m2 = rnd.uniform(0.05, 0.6)
    thr = m1 + m2
    m0 = rnd.uniform(thr + 0.05, thr + 1.5) if above else rnd.uniform(max(0.05, thr - 0.5), thr - 0.02)
    m = rnd.uniform(thr + 0.02, thr + 2.0)
    g0 = rnd.uniform(0.01, 0.5)
    d = rnd.choice([1.0, 3.0, 5.0])
    return m, m0, g0, m1, m2, d


def q_of(m, m1, m2):
    p = (m - (m1 + m2)) * (m + (m1 + m2)) * (m - (m1 - m2)) * (m + (m1 - m2))
    return math.sqrt(p) / (2 * m)


def function_cases(ctx, rnd, n):
    import tf_pwa.breit_wigner as bw
    from tf_pwa.amp.core import get_relative_p, get_relative_p2
    cases = []

    def add(cid, stmt, fn, args, val, rt=None):
        cases.append((cid, stmt, TAC, {"function": fn, "args": args, "impl": str(val)}))
        ctx.count("fn:" + fn)

    for k in range(n):
        m, m0, g0, m1, m2, d = gen_point(rnd)
        L = rnd.randrange(0, 9)
        q, q0 = q_of(m, m1, m2), q_of(m0, m1, m2)
        # BW
        v = c1(bw.BW(T(m), T(m0), T(g0)))
        add("BW%d" % k, cplx_stmt("BW %s %s %s" % (Rq(m), Rq(m0), Rq(g0)), v), "BW", [m, m0, g0], v)
        # Bprime_polynomial
        z = rnd.uniform(0, 30)
        v = f1(bw.Bprime_polynomial(L, T(z)))
        add("BP%d" % k, real_stmt("bp %d %s" % (L, Rq(z)), v), "Bprime_polynomial", [L, z], v)
        # Bprime
        v = f1(bw.Bprime(L, T(q), T(q0), T(d)))
        add("B%d" % k, real_stmt("Bprime %d %s %s %s" % (L, Rq(q), Rq(q0), Rq(d)), v), "Bprime", [L, q, q0, d], v)
        # Bprime_q2 above and below threshold (q2 < 0)
        q2 = q * q if k % 2 == 0 else -rnd.uniform(0.001, 0.9 / d ** 2 if L else 1.0)
        v = f1(bw.Bprime_q2(L, T(q2), T(q0 * q0), T(d)))
        add("BQ%d" % k, real_stmt("Bprime_q2 %d %s %s %s" % (L, Rq(q2), Rq(q0 * q0), Rq(d)), v), "Bprime_q2", [L, q2, q0 * q0, d], v)
        # Gamma
        v = f1(bw.Gamma(T(m), T(g0), T(q), T(q0), L, T(m0), T(d)))
        add("G%d" % k, real_stmt("Gamma %s %s %s %s %d %s %s" % (Rq(m), Rq(g0), Rq(q), Rq(q0), L, Rq(m0), Rq(d)), v), "Gamma", [m, g0, q, q0, L, m0, d], v)
        # BWR
        v = c1(bw.BWR(T(m), T(m0), T(g0), T(q), T(q0), L, T(d)))
        add("BWR%d" % k, cplx_stmt("BWR %s %s %s %s %s %d %s" % (Rq(m), Rq(m0), Rq(g0), Rq(q), Rq(q0), L, Rq(d)), v), "BWR", [m, m0, g0, q, q0, L, d], v)
        # BWR2 above / below threshold; tf complex sqrt is only ~1e-8 accurate -> rtol 1e-7
        Ls = min(L, 4)
        q2 = q * q if k % 3 else -rnd.uniform(0.001, 0.3)
        v = c1(bw.BWR2(T(m), T(m0), T(g0), T(q2), T(q0 * q0), Ls, T(d)))
        add("BWR2_%d" % k, cplx_stmt("BWR2 %s %s %s %s %s %d %s" % (Rq(m), Rq(m0), Rq(g0), Rq(q2), Rq(q0 * q0), Ls, Rq(d)), v, rtol=1e-9),
            "BWR2", [m, m0, g0, q2, q0 * q0, Ls, d], v)
        v = c1(bw.BWR_normal(T(m), T(m0), T(g0), T(q * q), T(q0 * q0), Ls, T(d)))
        add("BWRn%d" % k, cplx_stmt("BWR_normal_above %s %s %s %s %s %d %s" % (Rq(m), Rq(m0), Rq(g0), Rq(q * q), Rq(q0 * q0), Ls, Rq(d)), v, rtol=1e-9),
            "BWR_normal", [m, m0, g0, q * q, q0 * q0, Ls, d], v)
        # relative momenta (incl. below threshold: clamped)
        mm = m if k % 4 else (m1 + m2) * rnd.uniform(0.5, 0.99)
        v = f1(get_relative_p(T(mm), T(m1), T(m2)))
        add("P%d" % k, real_stmt("get_relative_p %s %s %s" % (Rq(mm), Rq(m1), Rq(m2)), v, atol=1e-13), "get_relative_p", [mm, m1, m2], v)
        v = f1(get_relative_p2(T(mm), T(m1), T(m2)))
        add("P2_%d" % k, real_stmt("get_relative_p2 %s %s %s" % (Rq(mm), Rq(m1), Rq(m2)), v, atol=1e-13), "get_relative_p2", [mm, m1, m2], v)
        if k % 4 == 0:
            # Gounaris-Sakurai with the pion masses of the code
            ma, mb = 0.13957039, 0.1349768
            mg = rnd.uniform(0.35, 1.4); m0g = rnd.uniform(0.6, 0.9); Lg = 1
            qg, q0g = q_of(mg, ma, mb), q_of(m0g, ma, mb)
            dF = f1(bw.dFun(T(m0g * m0g), T(ma), T(mb)))
            fs = f1(bw.fsFun(T(mg * mg), T(m0g * m0g), T(g0), T(ma), T(mb)))
            gam = f1(bw.Gamma(T(mg), T(g0), T(qg), T(q0g), Lg, T(m0g), T(d)))
            hv = f1(bw.hFun(T(mg * mg), T(ma), T(mb)))
            dh = f1(bw.dh_dsFun(T(m0g * m0g), T(ma), T(mb)))
            add("GSh%d" % k, real_stmt("hFun %s %s %s" % (Rq(mg * mg), Rq(ma), Rq(mb)), hv, rtol=GS_RTOL), "hFun", [mg * mg, ma, mb], hv)
            add("GSdh%d" % k, real_stmt("dh_dsFun %s %s %s" % (Rq(m0g * m0g), Rq(ma), Rq(mb)), dh, rtol=GS_RTOL), "dh_dsFun", [m0g * m0g, ma, mb], dh)
            add("GSd%d" % k, real_stmt("dFun %s %s %s" % (Rq(m0g * m0g), Rq(ma), Rq(mb)), dF, rtol=GS_RTOL), "dFun", [m0g * m0g, ma, mb], dF)
            # fsFun is a difference of terms that each carry the float32-pi error: tolerance relative to the terms' magnitudes
            ks = f1(bw.twoBodyCMmom(T(mg), T(ma), T(mb))); k0 = f1(bw.twoBodyCMmom(T(m0g), T(ma), T(mb)))
            hm0 = f1(bw.hFun(T(m0g * m0g), T(ma), T(mb)))
            fs_scale = abs(g0 * m0g * m0g / k0 ** 3) * (ks * ks * (abs(hv) + abs(hm0)) + abs(m0g * m0g - mg * mg) * k0 * k0 * abs(dh))
            add("GSf%d" % k, real_stmt("fsFun %s %s %s %s %s" % (Rq(mg * mg), Rq(m0g * m0g), Rq(g0), Rq(ma), Rq(mb)), fs, rtol=0, atol=GS_RTOL * fs_scale + 1e-12), "fsFun", [mg * mg, m0g * m0g, g0, ma, mb], fs)
            v = c1(bw.GS(T(mg), T(m0g), T(g0), T(qg), T(q0g), Lg, T(d), T(ma), T(mb)))
            add("GS%d" % k, cplx_stmt("GS_from %s %s %s %s %s %s" % (Rq(mg), Rq(m0g), Rq(g0), Rq(dF), Rq(fs), Rq(gam)), v, rtol=1e-10),
                "GS", [mg, m0g, g0, qg, q0g, Lg, d], v)
    return cases


MODELS = ["BW", "BWR", "default", "BWR2", "BWR_below", "BWR_normal", "BWR_coupling", "GS_rho", "Flatte", "FlatteC", "one", "x", "exp", "exp_com"]


def particle_cases(ctx, rnd, n_per_model):
    """Particle.__call__(m) for registered models, built the way tf_pwa.utils.create_test_config does"""
    import tensorflow as tf
    from tf_pwa.utils import create_test_config
    cases = []
    for model in MODELS:
        for k in range(n_per_model + (2 if model == "BWR_below" else 0)):  # two sub-threshold BWR_below cases also in the quick tier
            J = rnd.choice([0, 1, 2, 3]) if model not in ("GS_rho",) else 1
            P = 1 if J % 2 == 0 else -1
            mB, mC, mD = [rnd.uniform(0.08, 0.2) for _ in range(3)]
            if model == "GS_rho":
                mB, mC = 0.13957039, 0.1349768
            below = model in ("BWR2", "BWR_below", "BWR_normal") and k % 2 == 1
            m0 = rnd.uniform(mB + mC + 0.05, 0.85) if not below else rnd.uniform(0.1, mB + mC - 0.01)
            if below and model in ("BWR2", "BWR_normal", "BWR_below"):  # BWR_below added after seeded change C15_t1 was caught by a single case
                m0 = random.Random(ctx.seed * 7 + 131 * k + len(model)).uniform(0.08, 0.19)   # (own stream) really below the threshold of create_test_config's daughters (0.1 + 0.1), the docstring's example
            g0 = rnd.uniform(0.02, 0.3)
            params = {"J": J, "P": P, "mass": m0, "width": g0}
            plot_params = {}
            chs = None
            if model in ("Flatte", "FlatteC"):
                chs = [[rnd.uniform(0.05, 0.2), rnd.uniform(0.05, 0.2)], [rnd.uniform(0.25, 0.45), rnd.uniform(0.25, 0.45)]]
                params["mass_list"] = chs
                gs = [rnd.uniform(0.05, 0.5), rnd.uniform(0.05, 0.5)]
                plot_params = {"R_BC_g_0": gs[0], "R_BC_g_1": gs[1]}
                if k % 2 == 1:
                    # a channel with very unequal daughter masses (eta' pi like): most of the mass range lies BELOW |ma - mb|,
                    # where the documented product (m^2-(ma+mb)^2)(m^2-(ma-mb)^2) is positive again (real q)
                    chs.append([rnd.uniform(0.03, 0.1), rnd.uniform(0.75, 0.95)])
                    gs.append(rnd.uniform(0.05, 0.5))
                    plot_params["R_BC_g_2"] = gs[2]
                    ctx.count("Flatte:unequal_mass_channel")
            if model == "exp":
                aa = rnd.uniform(-2, 2); plot_params = {"R_BC_a": aa}
            if model == "exp_com":
                aa, bb = rnd.uniform(0.1, 2), rnd.uniform(-5, 5); plot_params = {"R_BC_a": aa, "R_BC_b": bb}
            cfgd = dict(params)
            try:
                config = create_test_config(model, cfgd, plot_params)
                # override final masses
                dg = config.get_amplitude().decay_group
                part = [p for p in dg.resonances if str(p) == "R_BC"][0]
                dec = part.decay[0]
                m1 = float(dec.outs[0].get_mass()); m2 = float(dec.outs[1].get_mass())
                mtop = 1.0; m3 = 0.1
                L = min(dec.get_l_list())
                m = rnd.uniform(m1 + m2 + 0.01, 0.89)
                val = complex(np.array(part(tf.constant([m], dtype=tf.float64))).reshape(-1)[0])
                nonfinite = None
                # "below threshold" refers to the decay's ACTUAL daughter masses (create_test_config fixes them), not to mB, mC
                below = model in ("BWR2", "BWR_below", "BWR_normal") and float(part.get_mass()) < m1 + m2
            except Exception as e:
                ctx.count("particle_model_error:%s" % model)
                ctx.notes.append("model %s raised %r" % (model, e))
                ctx.fail("particle_call", "%s_%d" % (model, k), "Particle(model=%s).__call__ raised %r" % (model, e), site="Particle.__call__", fingerprint=model + ":raise",
                         failing_input={"model": model, "params": params, "error": repr(e)})
                continue
            m0v = f1(part.get_mass()); g0v = f1(part.get_width()) if part.get_width() is not None else None
            d = 3.0
            from tf_pwa.amp.core import get_relative_p as grp, get_relative_p2 as grp2
            q = f1(grp(T(m), T(m1), T(m2))); q0 = f1(grp(T(m0v), T(m1), T(m2)))
            rt = 1e-10
            if model == "BW":
                expr = "BW %s %s %s" % (Rq(m), Rq(m0v), Rq(g0v))
            elif model in ("BWR", "default"):
                expr = "BWR %s %s %s %s %s %d %s" % (Rq(m), Rq(m0v), Rq(g0v), Rq(q), Rq(q0), L, Rq(d))
            elif model == "BWR2":
                # Particle.__call__ passes the q^2 of the amplitude, get_relative_p2 (NOT clamped at threshold): with m0 below
                # threshold - the case the BWR2 docstring advertises - q0^2 < 0 and the value is finite (before the repair
                # |q0|2 = get_relative_p(m0)^2 = 0 gave NaN for every m)
                q2u = f1(grp2(T(m), T(m1), T(m2))); q02u = f1(grp2(T(m0v), T(m1), T(m2)))
                expr = "BWR2 %s %s %s %s %s %d %s" % (Rq(m), Rq(m0v), Rq(g0v), Rq(q2u), Rq(q02u), L, Rq(d))
                rt = 1e-8
                if below and not (math.isfinite(val.real) and math.isfinite(val.imag)):
                    nonfinite = str(val)
                    val = complex(1e300, 1e300)   # NaN/inf cannot be printed as a rational: any finite model value refutes the goal
            elif model == "BWR_below":
                if below:
                    k_ = ((mtop - m3) - (m1 + m2)) / 2
                    meff = k_ * (1 + math.tanh((2 * m0v - ((mtop - m3) + (m1 + m2))) / k_ / 4)) + (m1 + m2)
                    q02 = Rq(f1(grp2(T(meff), T(m1), T(m2))))
                else:
                    q02 = Rq(f1(grp2(T(m0v), T(m1), T(m2))))
                expr = "BWR2 %s %s %s %s %s %d %s" % (Rq(m), Rq(m0v), Rq(g0v), Rq(q * q), q02, L, Rq(d))
                rt = 1e-8
            elif model == "BWR_normal":
                expr = "BWR_normal_above %s %s %s %s %s %d %s" % (Rq(m), Rq(m0v), Rq(g0v), Rq(q * q), Rq(q0 * q0), L, Rq(d))
                rt = 1e-8
                if below:
                    # m0 below threshold: the width is complex, sqrt(m0 Gamma) a complex square root (not in the real model);
                    # tied to the amplitude path (get_amp fed with the decay's own unclamped q^2), which must be finite
                    dec_ = part.decay[0]
                    dat_ = {part: {"m": T(m)}}
                    dc_ = {"|q|": dec_.get_relative_momentum(dat_, True), "|q0|": dec_.get_relative_momentum(dat_, False),
                           "|q|2": dec_.get_relative_momentum2(dat_, True), "|q0|2": dec_.get_relative_momentum2(dat_, False)}
                    va = c1(part.get_amp({"m": T(m)}, dc_))
                    fin_ok = all(math.isfinite(x) for x in (val.real, val.imag, va.real, va.imag))
                    ctx.count("model:BWR_normal:below")
                    if fin_ok:
                        stmt_ = "((Rabs (%s - %s) <= %s) /\\ (Rabs (%s - %s) <= %s))%%R" % (Rq(val.real), Rq(va.real), Rq(1e-9 * abs(va)), Rq(val.imag), Rq(va.imag), Rq(1e-9 * abs(va)))
                    else:
                        stmt_ = "(IZR 0 = 1)%R"
                    cases.append(("pm_%s_%d" % (model, k), stmt_, "split; interval with (i_prec 90)" if fin_ok else "reflexivity",
                                  {"function": "Particle(model=BWR_normal).__call__ (m0 below threshold) = amplitude path, finite",
                                   "args": {"m": m, "m0": m0v, "g0": g0v, "m1": m1, "m2": m2, "L": L, "below_threshold": True}, "impl": str(val), "amplitude_path": str(va)}))
                    continue
            elif model == "BWR_coupling":
                expr = "BWR_coupling %s %s %s %s %d %s" % (Rq(m), Rq(m0v), Rq(g0v), Rq(q * q), L, Rq(d))
            elif model == "GS_rho":
                import tf_pwa.breit_wigner as bw
                ma, mb = 0.13957039, 0.1349768
                dF = f1(bw.dFun(T(m0v * m0v), T(ma), T(mb))); fs = f1(bw.fsFun(T(m * m), T(m0v * m0v), T(g0v), T(ma), T(mb)))
                gam = f1(bw.Gamma(T(m), T(g0v), T(q), T(q0), L, T(m0v), T(d)))
                expr = "GS_from %s %s %s %s %s %s" % (Rq(m), Rq(m0v), Rq(g0v), Rq(dF), Rq(fs), Rq(gam))
                # the particle passes its daughter masses (Python floats) through tf.cast, i.e. rounded to float32 (relative 1e-8,
                # observation O1, like the pi literal): same tolerance as the GS ingredient functions
                rt = GS_RTOL
            elif model in ("Flatte", "FlatteC"):
                gv = [float(g()) for g in part.g_value]
                chl = "[" + "; ".join("(%s, %s, %s)" % (Rq(c[0]), Rq(c[1]), Rq(g)) for c, g in zip(chs, gv)) + "]"
                expr = "Flatte (%s) %s %s %s" % ("1" if model == "Flatte" else "-1", Rq(m), Rq(m0v), chl)
            elif model == "one":
                expr = "shape_one %s" % Rq(m)
            elif model == "x":
                expr = "shape_x %s" % Rq(m)
            elif model == "exp":
                expr = "shape_exp %s %s" % (Rq(float(part.a())), Rq(m))
            elif model == "exp_com":
                expr = "shape_exp_com %s %s %s" % (Rq(float(part.a())), Rq(float(part.b())), Rq(m))
            ctx.count("model:" + model + (":below" if below else ""))
            cases.append(("pm_%s_%d" % (model, k), cplx_stmt(expr, val, rtol=rt), TAC,
                          {"function": "Particle(model=%s).__call__" % model, "args": {"m": m, "m0": m0v, "g0": g0v, "m1": m1, "m2": m2, "L": L, "below_threshold": below}, "impl": nonfinite or str(val)}))
    return cases


def bwr_ls_cases(ctx, rnd, n):
    """BWR_LS (LS-split running width) with 1..3 couplings: R_i(m) for every coupling, documented form (fix_bug1=True) in the
    regular stream; the default (fix_bug1=False) carries m/m0 instead of the documented m0/m: open finding F6, one fixed reproducer.
    Also GS_rho with configured (non-default) daughter masses."""
    import tensorflow as tf
    import ampkit
    from tf_pwa.config_loader import ConfigLoader
    from tf_pwa.amp.core import get_relative_p2 as grp2
    cases = []
    spin_sets = [  # (J^P of R, spins of its daughters B, C) -> number of ls couplings
        ((1, -1), {"B": (0, -1), "C": (0, -1)}),          # 1 coupling
        ((1, 1), {"B": (1, -1), "C": (0, -1)}),           # 2 couplings
        ((1, 1), {"B": (1, -1), "C": (1, -1)}),           # 3 couplings
        ((2, 1), {"B": (1, -1), "C": (1, -1)}),           # more
    ]
    for k in range(n):
        (JR, PR), fb = spin_sets[k % len(spin_sets)]
        fix = (k % 5 != 4)
        mf = {"B": rnd.uniform(0.1, 0.3), "C": rnd.uniform(0.1, 0.3), "D": rnd.uniform(0.1, 0.2)}
        M0 = 2.2
        m0 = rnd.uniform(mf["B"] + mf["C"] + 0.2, 1.6); g0 = rnd.uniform(0.03, 0.3)
        res = {"R_BC": {"pair": "R_BC", "J": JR, "P": PR, "mass": m0, "width": g0, "model": "BWR_LS", "fix_bug1": fix}}
        fin = {"B": fb["B"], "C": fb["C"], "D": (0, -1)}
        # the documented decay option has_barrier_factor: False must not remove the resonance line shape (decay-level cases below)
        has_bf = (k % 2 == 0)
        cfg = ampkit.three_body_config(M0, mf, res, top=(1, -1), fin=fin, decay_opts={"R_BC": {"p_break": True}})
        if not has_bf:
            cfg["decay"]["R_BC"] = list(cfg["decay"]["R_BC"]) + [{"has_barrier_factor": False}]   # option of the decay R_BC -> B C itself
        config = ConfigLoader(cfg)
        amp = config.get_amplitude()
        part = [p for p in amp.decay_group.resonances if str(p) == "R_BC"][0]
        th = {kk: rnd.uniform(0.2, 1.3) for kk in amp.get_params() if "theta" in kk}
        amp.set_params(th)
        ls = [int(l) for l, _ in part.decay[0].get_ls_list()]
        thetas = [float(t()) for t in part.theta]
        m = rnd.uniform(mf["B"] + mf["C"] + 0.05, 2.0)
        vals = [c1(v) for v in part(T(m))]
        q2 = f1(grp2(T(m), T(mf["B"]), T(mf["C"]))); q02 = f1(grp2(T(m0), T(mf["B"]), T(mf["C"])))
        ctx.count("BWR_LS:n_ls=%d:%s" % (len(ls), "doc" if fix else "default"))
        for i, v in enumerate(vals):
            expr = "BWR_LS true %s %s %s %s %s [%s]%%nat [%s] %s %d" % (Rq(m), Rq(m0), Rq(g0), Rq(q2), Rq(q02), "; ".join(map(str, ls)), "; ".join(Rq(t) for t in thetas), Rq(3.0), i)
            meta = {"function": "Particle(model=BWR_LS).__call__", "args": {"m": m, "m0": m0, "g0": g0, "ls": ls, "thetas": thetas, "coupling": i, "fix_bug1": fix, "spins": str(fin)}, "impl": str(v)}
            if not fix:
                if i == 0 and len(ls) == 1 and not any(c[3].get("known") for c in cases):
                    meta["known"] = "F6"
                else:
                    continue
            cases.append(("ls_%d_%d" % (k, i), cplx_stmt(expr, v, rtol=1e-9), TAC, meta))
        if fix:
            # decay level (the way an amplitude evaluates the model): g_ls_i * R_i(m), whatever has_barrier_factor says
            c15_extra.set_g_ls(amp, random.Random(7919 * k + 1))  # own stream: the draws of the regular cases stay as they were
            outs, gls, q2d, q02d, _ = c15_extra.decay_level(part, part.decay[0], m, mf)
            for i, v in enumerate(vals):
                if i < len(outs):
                    cases.append(("lsd_%d_%d" % (k, i), cplx_stmt("ls_decay_amp_opt %s %s %s" % ("true" if has_bf else "false", c15_extra.Cq(gls[i]), c15_extra.Cq(v)), outs[i], rtol=1e-10), c15_extra.TAC,
                                  {"function": "ParticleDecayLS.get_ls_amp(BWR_LS%s)" % c15_extra.hbf_name(has_bf),
                                   "args": {"m": m, "m0": m0, "g0": g0, "ls": ls, "coupling": i, "g_ls": str(gls[i]), "R_i": str(v), "has_barrier_factor": has_bf}, "impl": str(outs[i])}))
            ctx.count("BWR_LS:decay_level%s" % c15_extra.hbf_name(has_bf))
    # GS_rho with configured daughter masses (documented options c_daug2Mass / c_daug3Mass)
    import tf_pwa.breit_wigner as bw
    from tf_pwa.utils import create_test_config
    from tf_pwa.amp.core import get_relative_p as grp
    for k in range(max(2, n // 3)):
        ma, mb = rnd.uniform(0.15, 0.25), rnd.uniform(0.15, 0.25)
        m0 = rnd.uniform(0.6, 0.85); g0 = rnd.uniform(0.05, 0.2)
        config = create_test_config("GS_rho", {"J": 1, "P": -1, "mass": m0, "width": g0, "c_daug2Mass": ma, "c_daug3Mass": mb}, {})
        part = [p for p in config.get_amplitude().decay_group.resonances if str(p) == "R_BC"][0]
        m1 = float(part.decay[0].outs[0].get_mass()); m2 = float(part.decay[0].outs[1].get_mass())
        m = rnd.uniform(ma + mb + 0.05, 0.89)
        v = c1(part(T(m)))
        q = f1(grp(T(m), T(m1), T(m2))); q0 = f1(grp(T(m0), T(m1), T(m2)))
        dF = f1(bw.dFun(T(m0 * m0), T(ma), T(mb))); fs = f1(bw.fsFun(T(m * m), T(m0 * m0), T(g0), T(ma), T(mb)))
        gam = f1(bw.Gamma(T(m), T(g0), T(q), T(q0), 1, T(m0), T(3.0)))
        ctx.count("GS_rho:custom_daughter_masses")
        cases.append(("gsc_%d" % k, cplx_stmt("GS_from %s %s %s %s %s %s" % (Rq(m), Rq(m0), Rq(g0), Rq(dF), Rq(fs), Rq(gam)), v, rtol=1e-8), TAC,
                      {"function": "Particle(model=GS_rho, c_daug2Mass, c_daug3Mass).__call__", "args": {"m": m, "m0": m0, "g0": g0, "c_daug2Mass": ma, "c_daug3Mass": mb}, "impl": str(v)}))
    return cases


def sympy_dom_cases(ctx, rnd, n):
    """Particle.get_sympy_dom: numeric line shape x symbolic denominator = 1 (on the implementation,
    certified product bound in Coq: |R*dom - 1| small given both values)"""
    import sympy
    import tensorflow as tf
    from tf_pwa.utils import create_test_config
    cases = []
    for model in ("BW", "BWR", "BWR_coupling"):
        for k in range(n):
            J = rnd.choice([0, 1, 2]); P = 1 if J % 2 == 0 else -1
            m0 = rnd.uniform(0.35, 0.8); g0 = rnd.uniform(0.02, 0.2)
            config = create_test_config(model, {"J": J, "P": P, "mass": m0, "width": g0}, {})
            part = [p for p in config.get_amplitude().decay_group.resonances if str(p) == "R_BC"][0]
            m = rnd.uniform(0.25, 0.88)
            val = complex(np.array(part(tf.constant([m], dtype=tf.float64))).reshape(-1)[0])
            var = part.get_sympy_var()
            dom = part.get_sympy_dom(*var)
            nums = [m] + [float(i) for i in part.get_num_var()]
            dv = complex(sympy.N(dom.subs(dict(zip(var, nums))), 30))
            # exact statement about the two implementation outputs: | val * dv - 1 | <= 1e-9
            stmt = "(Rabs (%s * %s - %s * %s - 1) <= %s /\\ Rabs (%s * %s + %s * %s) <= %s)%%R" % (
                Rq(val.real), Rq(dv.real), Rq(val.imag), Rq(dv.imag), Rq(1e-9), Rq(val.real), Rq(dv.imag), Rq(val.imag), Rq(dv.real), Rq(1e-9))
            ctx.count("sympy_dom:" + model)
            cases.append(("dom_%s_%d" % (model, k), stmt, "split; interval with (i_prec 90)",
                          {"function": "get_sympy_dom(%s)" % model, "args": nums, "impl": str(val), "dom": str(dv)}))
    return cases


def radius_cases(ctx, rnd, n):
    """configured barrier radius d (constrains: decay: decay_d, list form and per-particle dict form): the numeric line shape,
    Particle.__call__, and the sympy denominator all use the configured d (not the default 3.0)"""
    import sympy
    import tensorflow as tf
    from tf_pwa.config_loader import ConfigLoader
    from tf_pwa.amp.core import get_relative_p as grp, get_relative_p2 as grp2
    from tf_pwa.formula import _flatten
    cases = []
    for model in ("BWR", "BWR2", "BWR_coupling", "BWR_LS"):
        for k in range(n):
            d = rnd.choice([1.0, 1.5, 2.0, 5.0])
            form = "dict" if k % 2 == 0 else "list"
            m1, m2 = rnd.uniform(0.08, 0.2), rnd.uniform(0.08, 0.2)
            m0 = rnd.uniform(m1 + m2 + 0.1, 0.8); g0 = rnd.uniform(0.02, 0.2)
            J = 1 if model == "BWR_LS" else rnd.choice([1, 2]); P = 1 if J % 2 == 0 else -1
            rdic = {"J": J, "P": P, "mass": m0, "width": g0, "model": model}
            if model == "BWR_LS":
                rdic["fix_bug1"] = True
            dic = {"data": {"dat_order": ["B", "C", "D"]},
                   "decay": {"A": [["R_BC", "D"]], "R_BC": ["B", "C"]},
                   "particle": {"$top": {"A": {"J": 0, "P": -1, "mass": 1.0}},
                                "$finals": {"B": {"J": 0, "P": -1, "mass": m1}, "C": {"J": 0, "P": -1, "mass": m2}, "D": {"J": 0, "P": -1, "mass": 0.1}},
                                "R_BC": rdic},
                   "constrains": {"decay": {"decay_d": {"R_BC": d} if form == "dict" else [3.0, d]}}}
            config = ConfigLoader(dic)
            part = [p for p in config.get_amplitude().decay_group.resonances if str(p) == "R_BC"][0]
            dec = part.decay[0]
            L = min(dec.get_l_list())
            m = rnd.uniform(m1 + m2 + 0.02, 0.88)
            m0v, g0v = f1(part.get_mass()), f1(part.get_width())
            q = f1(grp(T(m), T(m1), T(m2))); q0 = f1(grp(T(m0v), T(m1), T(m2)))
            q2 = f1(grp2(T(m), T(m1), T(m2))); q02 = f1(grp2(T(m0v), T(m1), T(m2)))
            args = {"m": m, "m0": m0v, "g0": g0v, "m1": m1, "m2": m2, "L": L, "decay_d": d, "decay_d_form": form}
            ctx.count("radius:%s:%s" % (model, form))
            # (a) the configuration reaches the particle and its decay
            cases.append(("rd_cfg_%s_%d" % (model, k), "(%s = %s /\\ %s = %s)%%R" % (Rq(float(getattr(part, "d", d))), Rq(d), Rq(float(dec.d)), Rq(d)), "split; reflexivity",
                          {"function": "constrains.decay.decay_d (%s form) -> particle.d, decay.d" % form, "args": args, "impl": str((getattr(part, "d", None), dec.d))}))
            # (b) numeric line shape at the configured radius
            v = part(T(m))
            val = c1(v[0]) if model == "BWR_LS" else c1(v)
            rt = 1e-10
            if model == "BWR":
                expr = "BWR %s %s %s %s %s %d %s" % (Rq(m), Rq(m0v), Rq(g0v), Rq(q), Rq(q0), L, Rq(d))
            elif model == "BWR2":
                expr = "BWR2 %s %s %s %s %s %d %s" % (Rq(m), Rq(m0v), Rq(g0v), Rq(q2), Rq(q02), L, Rq(d)); rt = 1e-8
            elif model == "BWR_coupling":
                expr = "BWR_coupling %s %s %s %s %d %s" % (Rq(m), Rq(m0v), Rq(g0v), Rq(q2), L, Rq(d))
            else:
                ls = [int(l) for l, _ in dec.get_ls_list()]
                expr = "BWR_LS true %s %s %s %s %s [%s]%%nat [] %s 0" % (Rq(m), Rq(m0v), Rq(g0v), Rq(q2), Rq(q02), "; ".join(map(str, ls)), Rq(d)); rt = 1e-9
            cases.append(("rd_num_%s_%d" % (model, k), cplx_stmt(expr, val, rtol=rt), TAC,
                          {"function": "Particle(model=%s, decay_d %s form).__call__" % (model, form), "args": args, "impl": str(val)}))
            # (c) symbolic denominator = reciprocal of the numeric line shape at the SAME radius
            var = part.get_sympy_var()
            dom = part.get_sympy_dom(*var)
            nums = [float(i) for i in _flatten(part.get_num_var())]
            dv = complex(sympy.N(dom.subs(dict(zip(_flatten(var[1:]), nums))).subs({var[0]: m}), 30))
            if model == "BWR_LS":
                # R_0 = g_0/den: the documented numerator g_0 = (q/q0)^l B'_l(q,q0,d) (one coupling, gamma_0 = 1)
                g_num = f1(part.get_barrier_factor([ls[0]], T(q2), T(q02), d)[0])
                dv = dv / g_num
            stmt = "(Rabs (%s * %s - %s * %s - 1) <= %s /\\ Rabs (%s * %s + %s * %s) <= %s)%%R" % (
                Rq(val.real), Rq(dv.real), Rq(val.imag), Rq(dv.imag), Rq(1e-8), Rq(val.real), Rq(dv.imag), Rq(val.imag), Rq(dv.real), Rq(1e-8))
            cases.append(("rd_dom_%s_%d" % (model, k), stmt, "split; interval with (i_prec 90)",
                          {"function": "get_sympy_dom(%s) at the configured decay_d (%s form)" % (model, form), "args": args, "impl": str(val), "dom": str(dv)}))
    return cases


KNOWN_DOM = {
    "gs": ("tf_pwa/amp/base.py ParticleGS: inherited Particle.get_sympy_dom", "dom_GS_rho",
           "GS_rho inherits the plain BWR symbolic denominator m0^2-m^2-i m0 Gamma(m): the f(m) term of its documented (and numeric) denominator is missing, so R(m)*dom(m) is not the constant 1 + D Gamma0/m0 and solve_pole returns the BWR pole"),
    "below": ("tf_pwa/amp/core.py Particle.get_sympy_dom for BWR2 / BWR_below with m0 below threshold", "dom_m0_below_threshold",
              "BWR2 / BWR_below with m0 below the m1+m2 threshold: the numeric width takes the principal branch of sqrt(q^2/q0^2) (BWR_below: q0 from the ad-hoc effective mass) while the inherited symbolic BWR denominator continues q0 = sqrt(q0^2) = +i|q0|: R(m)*dom(m) != 1"),
}


def known_dom_cases(ctx):
    """fixed reproducers of the two OPEN symbolic-denominator findings (hunt round 2, finding 2): no small safe repair"""
    import sympy
    import tf_pwa.breit_wigner as bw
    from tf_pwa.utils import create_test_config
    from tf_pwa.formula import _flatten
    cases = []

    def dom_at(part, m):
        var = part.get_sympy_var()
        dom = part.get_sympy_dom(*var)
        nums = [float(i) for i in _flatten(part.get_num_var())]
        return complex(sympy.N(dom.subs(dict(zip(_flatten(var[1:]), nums))).subs({var[0]: m}), 30))

    def amp_path(part, m):
        dec = part.decay[0]
        dat = {part: {"m": T(m)}}
        dc = {"|q|": dec.get_relative_momentum(dat, True), "|q0|": dec.get_relative_momentum(dat, False),
              "|q|2": dec.get_relative_momentum2(dat, True), "|q0|2": dec.get_relative_momentum2(dat, False)}
        return c1(part.get_amp({"m": T(m)}, dc))

    def prod_stmt(val, dv, target):
        return "(Rabs (%s * %s - %s * %s - %s) <= %s /\\ Rabs (%s * %s + %s * %s) <= %s)%%R" % (
            Rq(val.real), Rq(dv.real), Rq(val.imag), Rq(dv.imag), Rq(target), Rq(1e-6), Rq(val.real), Rq(dv.imag), Rq(val.imag), Rq(dv.real), Rq(1e-6))

    # GS_rho: R(m) * dom(m) = 1 + D Gamma0 / m0 (the documented constant numerator)
    m0, g0, m = 0.775, 0.149, 0.6
    part = [p for p in create_test_config("GS_rho", {"J": 1, "P": -1, "mass": m0, "width": g0}, {}).get_amplitude().decay_group.resonances if str(p) == "R_BC"][0]
    val = amp_path(part, m); dv = dom_at(part, m)
    num = 1 + f1(bw.dFun(T(m0 * m0), T(0.13957039), T(0.1349768))) * g0 / m0
    cases.append(("kdom_gs", prod_stmt(val, dv, num), "split; interval with (i_prec 90)",
                  {"function": "get_sympy_dom(GS_rho)", "args": {"m": m, "m0": m0, "g0": g0, "numerator": num}, "impl": str(val), "dom": str(dv), "known": "gs"}))
    # BWR2 with m0 below threshold (0.15 < 0.1 + 0.1): R(m) * dom(m) = 1
    m0, g0, m = 0.15, 0.05, 0.5
    part = [p for p in create_test_config("BWR2", {"J": 0, "P": 1, "mass": m0, "width": g0}, {}).get_amplitude().decay_group.resonances if str(p) == "R_BC"][0]
    val = amp_path(part, m); dv = dom_at(part, m)
    cases.append(("kdom_below", prod_stmt(val, dv, 1.0), "split; interval with (i_prec 90)",
                  {"function": "get_sympy_dom(BWR2), m0 below threshold", "args": {"m": m, "m0": m0, "g0": g0, "m1": 0.1, "m2": 0.1}, "impl": str(val), "dom": str(dv), "known": "below"}))
    return cases


def run(ctx):
    rnd = random.Random(ctx.seed * 1000003 + 15)
    ctx.rule = ("seeded random masses above (and for BWR2/BWR_below/Flatte/Bprime_q2 below) threshold, L=0..8, d in {1,3,5}; one Coq-Interval goal per "
                "(function or registered particle model, point); distinct = distinct (function,args); non-trivial = value not 0/1 constant")
    common.theorem_stage(ctx)
    n = 12 if ctx.tier == "quick" else 120
    cases = function_cases(ctx, rnd, n)
    ctx.log("function cases", len(cases))
    cases += particle_cases(ctx, rnd, 3 if ctx.tier == "quick" else 20)
    ctx.log("particle cases", len(cases))
    cases += sympy_dom_cases(ctx, rnd, 2 if ctx.tier == "quick" else 10)
    cases += bwr_ls_cases(ctx, rnd, 10 if ctx.tier == "quick" else 60)
    cases += radius_cases(ctx, random.Random(ctx.seed * 1000003 + 1501), 2 if ctx.tier == "quick" else 8)
    cases += c15_extra.cases(ctx, rnd, ctx.tier == "quick")  # BWR_LS2, MultiBWR
    cases += known_dom_cases(ctx)  # two OPEN findings about inherited symbolic denominators (fixed reproducers)
    cases += c15_extra.known_cases(ctx)  # MultiBW = documented combination of constant-width BW (fixed in /repo 4a6337b)
    ctx.log("sympy cases", len(cases))
    ctx.evaluations += len(cases)
    for c in cases:
        if c[3]["function"] not in ("Particle(model=one).__call__",):
            ctx.distinct.add((c[3]["function"], str(c[3]["args"])))
    for c in cases[:: max(1, len(cases) // 5)]:
        ctx.sample({"case": c[0], "goal": c[1][:400], "meta": c[3]})
    res = common.coq_cases(ctx, "shape", HEADER + c15_extra.EXTRA_HEADER, [c[:3] for c in cases], per_file=12, case_timeout=40)
    for cid, stmt, t, meta in cases:
        if res[cid] != "OK":
            fn = meta["function"]
            if meta.get("known") == "F6":
                ctx.fail("line_shape", cid, "BWR_LS default (fix_bug1=False) uses m/m0 where the documented rho/rho0 gives m0/m", inp=meta,
                         site="tf_pwa/amp/split_ls.py ParticleBWRLS default running width", fingerprint="F6", failing_input=meta)
                continue
            if meta.get("known") in KNOWN_DOM:
                site, fp, what = KNOWN_DOM[meta["known"]]
                ctx.fail("line_shape", cid, what, inp=meta, site=site, fingerprint=fp, failing_input=meta)
                continue
            rv = ref_value(fn, meta["args"]) if isinstance(meta["args"], list) else None
            fi = dict(meta, documented_value=str(rv) if rv is not None else "see model coq/Shape/LineShapes.v", coq_result=res[cid])
            ctx.fail("line_shape", cid, "implementation value not within tolerance of the documented formula (%s)" % res[cid],
                     inp=meta, site=fn, fingerprint=fn, failing_input=fi)
    return common.finish(ctx, technique=TECHNIQUE, extra_assumptions=[
        "real-number model; float rounding absorbed by rtol 1e-11 (1e-8..1e-9 where the code goes through tf complex sqrt)",
        "models not covered: Kmatrix, LASS, FlatteGen, interpolation/spline particles (see DESIGN.md C15); MultiBWR (docstring: \"Combine Multi BWR\", no formula): sum_k c_ik BWR_k(m) x barrier(l_i), every member a BWR normalised at its OWN mass (after /verif/build/fix2_C15 patch_3; the old common-q0 behaviour is theorem C15_multibwr_sub_resonance_pole_refuted), the coupling's barrier factor normalised at the first member's mass, all running widths with the smallest l of the decay; LS-decay: has_barrier_factor does not remove R_i(m) (patch_8); two OPEN findings about inherited symbolic denominators (GS_rho, m0 below threshold)"])


def replay(rep):
    import json
    print(json.dumps(rep, indent=1))
    return 0
