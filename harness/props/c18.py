"""C18 - structured event data operations are lossless.

Theorems: coq/Props/Properties_C18.v (merge o split = id for every tree / batch size, batch_call,
mask / index selection, dat-file layout inverse incl. multi-file and particle order, lazy = eager)
over the model coq/State/Data.v.
Tie: tf_pwa.data helpers run on generated nested dict/list/tuple structures whose leaves are arrays
of event ids (1-D, and (n,4) with entries 4*id+c), sizes 0..50, batch sizes 1 / non-dividing /
larger than the sample; the implementation's outputs are compared *inside Coq* (vm_compute) with
the model.  load_dat_file on txt / npy / npz files (one and several files) written below
/verif/build/C18, CalAngleData.savetxt and SimpleData.savetxt (with dat_order permutations),
save_data/load_data and LazyCall (plain and HeavyCall) likewise.
Direct round-trip tests on the implementation (independent of the Coq model) feed the search."""
import json
import os
import random

import common

TECHNIQUE = ("Coq proof (mutual induction over data trees, list arithmetic for the dat layout) + "
             "Coq-evaluated exact correspondence on generated structures and files")

HEADER = ("From Coq Require Import ZArith List Bool.\nFrom TFV Require Import State.Data.\n"
          "Import ListNotations.\n")

KEYS = ["a", "b", "c", "d", "e", "f", "g", "h"]

# ---------------------------------------------------------------- structures


class Gen:
    def __init__(self, rnd, np):
        self.rnd, self.np = rnd, np
        self.leaf_no = 0

    def leaf(self, n, two_d=False, start=0):
        base = self.leaf_no * 1000
        self.leaf_no += 1
        ids = self.np.arange(start, start + n, dtype=self.np.float64) + base
        if two_d:
            return ids[:, None] * 4 + self.np.arange(4, dtype=self.np.float64)[None, :]
        return ids

    def tree(self, n, depth, allow2d=True, empties=True, tuples=True, start=0, top=True):
        r = self.rnd.random()
        if depth <= 0 or (not top and r < 0.4):
            return self.leaf(n, allow2d and self.rnd.random() < 0.25, start)
        kind = self.rnd.choice(["dict", "dict", "list", "tuple"] if tuples else ["dict", "dict", "list"])
        m = self.rnd.randrange(0 if empties else 1, 4)
        kids = [self.tree(n, depth - 1, allow2d, empties, tuples, start, False) for _ in range(m)]
        if kind == "dict":
            ks = sorted(self.rnd.sample(KEYS, m))
            return dict(zip(ks, kids))
        return kids if kind == "list" else tuple(kids)


def has_leaf(d):
    if isinstance(d, dict):
        return any(has_leaf(v) for v in d.values())
    if isinstance(d, (list, tuple)):
        return any(has_leaf(v) for v in d)
    return True


def same_shape_copy(g, d, n, start):
    """a structure of the same shape with fresh leaves of n rows"""
    if isinstance(d, dict):
        return {k: same_shape_copy(g, v, n, start) for k, v in d.items()}
    if isinstance(d, list):
        return [same_shape_copy(g, v, n, start) for v in d]
    if isinstance(d, tuple):
        return tuple(same_shape_copy(g, v, n, start) for v in d)
    return g.leaf(n, getattr(d, "ndim", 1) == 2, start)


class BadLeaf(Exception):
    pass


def rows(a):
    """event ids of an array (numpy or tensor); exact"""
    import numpy as np

    if hasattr(a, "numpy"):
        a = a.numpy()
    a = np.asarray(a)
    if a.ndim == 1:
        v = a
    elif a.ndim == 2 and a.shape[1] == 4:
        v = a[:, 0] / 4
        if not (np.all(a == a[:, :1] + np.arange(4)[None, :]) and np.all(v == np.floor(v))):
            raise BadLeaf("rows of a (n,4) leaf are not of the form 4*id+c: %r" % a[:3])
    else:
        raise BadLeaf("unexpected leaf shape %r" % (a.shape,))
    out = [int(x) for x in v]
    if not all(float(i) == float(x) for i, x in zip(out, v)):
        raise BadLeaf("non-integer entries")
    return out


def zl(l):
    return "[" + ";".join(("(%d)" % i if i < 0 else "%d" % i) + "%Z" for i in l) + "]"


def enc(d):
    if isinstance(d, dict):
        f = "FNil"
        for k in sorted(d, key=str, reverse=True):
            f = "(FCons %d%%Z %s %s)" % (key_id(k), enc(d[k]), f)
        return "(Node KDict %s)" % f
    if isinstance(d, (list, tuple)):
        f = "FNil"
        for v in reversed(d):
            f = "(FCons 0%%Z %s %s)" % (enc(v), f)
        return "(Node %s %s)" % ("KList" if isinstance(d, list) else "KTuple", f)
    return "(Leaf %s)" % zl(rows(d))


def key_id(k):
    k = str(k)
    return KEYS.index(k) if k in KEYS else 100 + (sum(map(ord, k)) % 800)


def bl(l):
    return "[" + ";".join("true" if b else "false" for b in l) + "]"


def struct_eq(a, b):
    """exact equality of two structures (direct tests)"""
    if isinstance(a, dict):
        return isinstance(b, dict) and set(a) == set(b) and all(struct_eq(a[k], b[k]) for k in a)
    if isinstance(a, (list, tuple)):
        return type(a) == type(b) and len(a) == len(b) and all(struct_eq(x, y) for x, y in zip(a, b))
    import numpy as np

    if isinstance(b, (dict, list, tuple)):
        return False
    a = a.numpy() if hasattr(a, "numpy") else np.asarray(a)
    b = b.numpy() if hasattr(b, "numpy") else np.asarray(b)
    return a.shape == b.shape and bool(np.all(a == b))


def batch_sizes(rnd, n):
    s = {1, max(1, n), n + 7}
    if n > 2:
        s.add(next(b for b in range(2, n + 2) if n % b))  # non-dividing
        s.add(rnd.randrange(2, n))
    return sorted(s)


# ---------------------------------------------------------------- cases


def tree_cases(ctx, rnd, np, ntrees, direct):
    from tf_pwa import data as D

    g = Gen(rnd, np)
    cases = []
    sizes = list(range(0, 9)) + [rnd.randrange(9, 51) for _ in range(max(0, ntrees - 9))]
    for ti, n in enumerate(sizes[:ntrees]):
        d = g.tree(n, rnd.choice([1, 2, 2, 3]))
        try:
            tree_case_one(ctx, rnd, np, D, g, ti, n, d, cases, direct)
        except BadLeaf:
            raise
        except Exception as ex:  # the implementation raised on a legitimate input
            direct.append({"test": "tf_pwa.data helpers on a nested structure raised %s: %s" % (type(ex).__name__, str(ex)[:200]),
                           "n": n, "struct": repr(D.data_struct(d))})
    tree_edge_cases(ctx, np, D, g, cases, direct)
    return cases


def tree_case_one(ctx, rnd, np, D, g, ti, n, d, cases, direct):
    if True:
        if ti % 7 == 3:  # make sure structures with an array AND nested empty containers occur
            d = {"a": d, "e": {}, "f": [], "g": {"h": []}}
        D_ = enc(d)
        ctx.count("tree_n=%s" % (n if n < 3 else "3-8" if n < 9 else "9-50"))
        leafy = has_leaf(d)
        if not leafy:
            ctx.count("tree_without_array")
            if ctx.dist["tree_without_array"] > 2:
                return
        for b in batch_sizes(rnd, n) if leafy else [3]:
            ctx.evaluations += 1
            pieces = list(D.data_split(d, b))
            ctx.count("batch=%s" % ("1" if b == 1 else ">n" if b > n else "divides" if n % b == 0 else "non-dividing"))
            cid = "split_t%d_b%d" % (ti, b)
            cases.append((cid, "list_eqb data_eqb (data_split 1000 %d %s) [%s] = true" % (b, D_, ";".join(enc(p) for p in pieces)),
                          {"op": "data_split", "tree": ti, "n": n, "batch": b, "struct": repr(D.data_struct(d))}))
            if pieces and len(pieces) < 200:
                ctx.distinct.add(("split", ti, b))
                m = D.data_merge(*pieces)
                cases.append(("merge_t%d_b%d" % (ti, b), "odata_eqb (merge_all [%s]) (Some %s) = true" % (";".join(enc(p) for p in pieces), enc(m)),
                              {"op": "data_merge(split)", "tree": ti, "n": n, "batch": b}))
                if leafy and not struct_eq(m, d):
                    direct.append({"test": "data_merge(*data_split(d, b)) == d", "n": n, "batch": b, "struct": repr(D.data_struct(d)),
                                   "got_struct": repr(D.data_struct(m))})
                # batch_call with a row-wise function, 1-D leaves only
            if leafy and n > 0:
                a, c = rnd.randrange(1, 5), rnd.randrange(-3, 4)
                try:
                    d1 = same_shape_copy(Gen(rnd, np), d, n, 0)
                    d1 = D.data_map(d1, lambda x: x if x.ndim == 1 else x[:, 0])
                    f = lambda x: D.data_map(x, lambda v: a * v + c)
                    out = D.batch_call(f, d1, b)
                    cases.append(("bcall_t%d_b%d" % (ti, b), "odata_eqb (batch_call (map_leaves (affine (%d)%%Z (%d)%%Z)) 1000 %d %s) (Some %s) = true" % (a, c, b, enc(d1), enc(out)),
                                  {"op": "batch_call(data_map affine)", "tree": ti, "n": n, "batch": b}))
                    if not struct_eq(out, f(d1)):
                        direct.append({"test": "batch_call(f, d, b) == f(d)", "n": n, "batch": b, "struct": repr(D.data_struct(d1))})
                    fl = lambda x: a * first_leaf(x) + c
                    out2 = D.batch_call(fl, d1, b)
                    cases.append(("bleaf_t%d_b%d" % (ti, b), "odata_eqb (batch_call (to_leaf (%d)%%Z (%d)%%Z) 1000 %d %s) (Some %s) = true" % (a, c, b, enc(d1), enc(out2)),
                                  {"op": "batch_call(array-valued f)", "tree": ti, "n": n, "batch": b}))
                    if not struct_eq(out2, fl(d1)):
                        direct.append({"test": "batch_call(f, d, b) == f(d) (array-valued f)", "n": n, "batch": b})
                except BadLeaf:
                    raise
        if not leafy:
            return
        # merge of independently generated pieces of the same shape with different sizes
        ns = [rnd.randrange(0, 6) for _ in range(rnd.randrange(1, 4))]
        ps, st = [], 0
        for k in ns:
            ps.append(same_shape_copy(g, d, k, st))
            st += k
        m = D.data_merge(*ps)
        cases.append(("mergei_t%d" % ti, "odata_eqb (merge_all [%s]) (Some %s) = true" % (";".join(enc(p) for p in ps), enc(m)),
                      {"op": "data_merge", "tree": ti, "sizes": ns}))
        ctx.evaluations += 1
        # mask
        for mk in range(2):
            sel = [rnd.random() < (0.5 if mk else 0.15) for _ in range(n)] if n else []
            if mk == 1 and n:
                sel = rnd.choice([[True] * n, [False] * n, sel])
            out = D.data_mask(d, np.array(sel, dtype=bool))
            cases.append(("mask_t%d_%d" % (ti, mk), "data_eqb (mask %s %s) %s = true" % (bl(sel), D_, enc(out)),
                          {"op": "data_mask", "tree": ti, "n": n, "mask": sel}))
            ctx.evaluations += 1
            ctx.distinct.add(("mask", ti, mk))
        # data_shape
        sh = D.data_shape(d)
        cases.append(("shape_t%d" % ti, "data_shape %s = Some %d" % (D_, int(sh)), {"op": "data_shape", "tree": ti, "n": n}))
        if int(sh) != n:
            direct.append({"test": "data_shape(d) == n", "n": n, "got": int(sh)})
        # index paths
        for pk in range(3):
            path, cur = [], d
            for _ in range(rnd.randrange(1, 4)):
                if isinstance(cur, dict) and cur:
                    k = rnd.choice(sorted(cur) + ["zz"] * (rnd.random() < 0.15))
                elif isinstance(cur, (list, tuple)) and cur:
                    k = rnd.randrange(0, len(cur) + (rnd.random() < 0.15))
                else:
                    break
                path.append(k)
                try:
                    cur = cur[k]
                except Exception:
                    break
            if not path:
                continue
            try:
                out = D.data_index(d, list(path))
                oc = "(Some %s)" % enc(out)
            except (ValueError, KeyError, IndexError, AssertionError, TypeError):
                oc = "None"
            pc = "[" + ";".join("PK %d%%Z" % key_id(k) if isinstance(k, str) else "PI %d" % k for k in path) + "]"
            cases.append(("index_t%d_%d" % (ti, pk), "odata_eqb (index %s %s) %s = true" % (D_, pc, oc),
                          {"op": "data_index", "tree": ti, "path": path}))
            ctx.evaluations += 1
    return


def tree_edge_cases(ctx, np, D, g, cases, direct):
    e1 = {"e": {}, "f": [[], {}], "t": ()}
    ps = list(D.data_split(e1, 5))
    cases.append(("split_noleaf", "list_eqb data_eqb (data_split 1000 5 %s) [%s] = true" % (enc(e1), ";".join(enc(p) for p in ps)),
                  {"op": "data_split of a structure without arrays", "pieces": len(ps)}))
    ctx.notes.append("observation F10: a structure with no array at all splits into %d empty pieces" % len(ps))
    # structures that lost data before 8ca0a85 / 6a76cf5: empty tuples, > MAX_ITER batches next to empty containers
    edge = [
        ("emptytuple", {"a": g.leaf(6), "t": ()}, 2),
        ("emptytuple2", ({"a": g.leaf(5, True)}, (), [(), {"b": ()}]), 3),
        ("maxiter", {"a": g.leaf(1003), "e": {}}, 1),
        ("maxiter2", [g.leaf(2005), [], {"t": ()}], 2),
    ]
    for name, d, b in edge:
        ps = list(D.data_split(d, b))
        ctx.evaluations += 1
        ctx.count("edge_" + name)
        cases.append(("split_" + name, "list_eqb data_eqb (data_split 1000 %d %s) [%s] = true" % (b, enc(d), ";".join(enc(p) for p in ps)),
                      {"op": "data_split", "case": name, "batch": b, "struct": repr(D.data_struct(d)), "pieces": len(ps)}))
        ok = bool(ps) and struct_eq(D.data_merge(*ps), d)
        if not ok:
            direct.append({"test": "data_merge(*data_split(d, b)) == d", "batch": b, "struct": repr(D.data_struct(d)), "pieces": len(ps)})
    try:
        D.data_merge()
        oc = "false"
    except AssertionError:
        oc = "true"
    cases.append(("merge_nothing", "(match merge_all [] with None => true | Some _ => false end) = %s" % oc, {"op": "data_merge()"}))
    return cases


def first_leaf(d):
    if isinstance(d, dict):
        for v in d.values():
            r = first_leaf(v)
            if r is not None:
                return r
        return None
    if isinstance(d, (list, tuple)):
        for v in d:
            r = first_leaf(v)
            if r is not None:
                return r
        return None
    return d


def file_cases(ctx, rnd, np, nfiles, direct, scratch):
    from tf_pwa import data as D
    from tf_pwa.cal_angle import CalAngleData
    from tf_pwa.particle import BaseParticle

    cases = []
    for fi in range(nfiles):
        try:
            file_case_one(ctx, rnd, np, D, CalAngleData, BaseParticle, fi, cases, direct, scratch)
        except BadLeaf:
            raise
        except Exception as ex:
            direct.append({"test": "dat-file write/read raised %s: %s" % (type(ex).__name__, str(ex)[:200]), "case": fi,
                           "files": sorted(f for f in os.listdir(scratch) if f.startswith(("f%d_" % fi, "s%d." % fi, "s%dc" % fi)) or f == "s%d" % fi)})
    return cases


def file_case_one(ctx, rnd, np, D, CalAngleData, BaseParticle, fi, cases, direct, scratch):
    if True:
        n = rnd.randrange(1, 6)
        N = rnd.choice([1, 2, 3, 5, 8, rnd.randrange(1, 51)])
        names = ["P%d" % k for k in range(n)]
        ps = [(np.arange(N, dtype=np.float64) + 1000 * k)[:, None] * 4 + np.arange(4.0)[None, :] for k in range(n)]
        # ---- load_dat_file on harness-written files: particles grouped into consecutive files
        groups, k = [], 0
        while k < n:
            gsz = rnd.randrange(1, n - k + 1) if rnd.random() < 0.5 else n - k
            groups.append(list(range(k, k + gsz)))
            k += gsz
        fmt = rnd.choice(["txt", "npy", "npz", "dat"])
        fnames, frows = [], []
        for gi, gr in enumerate(groups):
            arr = np.stack([ps[k] for k in gr]).transpose((1, 0, 2)).reshape((-1, 4))
            if rnd.random() < 0.3:  # arbitrary row content: the loader's index arithmetic alone
                perm = list(range(arr.shape[0]))
                rnd.shuffle(perm)
                arr = arr[perm]
            fn = os.path.join(scratch, "f%d_%d.%s" % (fi, gi, fmt))
            if fmt == "npy":
                np.save(fn, arr if rnd.random() < 0.5 else arr.reshape((-1, len(gr), 4)))
            elif fmt == "npz":
                np.savez(fn, arr)
            else:
                np.savetxt(fn, arr)
            fnames.append(fn)
            frows.append(rows(arr))
        ctx.count("dat_fmt=%s" % fmt)
        ctx.count("dat_files=%d" % len(groups))
        ret = D.load_dat_file(fnames if len(fnames) > 1 or rnd.random() < 0.5 else fnames[0], names)
        cols = [rows(ret[nm]) for nm in names]
        cases.append(("load_%d" % fi, "cols_eqb (load_files 0%%Z %d [%s]) [%s] = true" % (n, ";".join(zl(r) for r in frows), ";".join(zl(c) for c in cols)),
                      {"op": "load_dat_file", "n_particles": n, "n_events": N, "files": [len(g) for g in groups], "fmt": fmt}))
        ctx.evaluations += 1
        ctx.distinct.add(("load", n, N, len(groups), fmt))
        # ---- CalAngleData.savetxt with an explicit order, then load with the same order
        order = names[:]
        rnd.shuffle(order)
        cad = CalAngleData({"particle": {BaseParticle(nm): {"p": ps[k]} for k, nm in enumerate(names)}})
        # file names with and without an extension; with save_charge a second file (the charge column) is written
        ext = ["", ".dat", ".txt"][fi % 3]
        fn = os.path.join(scratch, "s%d%s" % (fi, ext))
        charge = fi % 2 == 0
        ctx.count("savetxt_name=%s%s" % (ext or "no-extension", "+charge" if charge else ""))
        if charge:
            cad["charge_conjugation"] = np.array([rnd.choice([-1.0, 1.0]) for _ in range(N)])
        before = set(os.listdir(scratch))
        cad.savetxt(fn, order=[BaseParticle(o) for o in order], save_charge=charge)
        created = sorted(set(os.listdir(scratch)) - before)
        sv = {"op": "CalAngleData.savetxt", "file": os.path.basename(fn), "save_charge": charge, "order": order, "n_events": N, "files_written": created}
        raw = np.loadtxt(fn, ndmin=2)
        if raw.shape != (N * n, 4):
            direct.append(dict(sv, test="np.loadtxt(momentum file written by CalAngleData.savetxt).shape == (n_events*n_particles, 4)", got_shape=list(raw.shape)))
            return
        if charge:
            others = [f for f in created if f != os.path.basename(fn)]
            ok = len(others) == 1 and np.array_equal(np.loadtxt(os.path.join(scratch, others[0]), ndmin=1), cad["charge_conjugation"])
            if not ok:
                direct.append(dict(sv, test="CalAngleData.savetxt(save_charge=True) writes the charges to ONE file next to the momentum file"))
        mom = "[" + ";".join("(%d%%Z,%s)" % (k, zl(rows(ps[k]))) for k in range(n)) + "]"
        oz = zl([names.index(o) for o in order])
        cases.append(("savetxt_%d" % fi, "list_eqb Z.eqb (savetxt_order %s %s) %s = true" % (oz, mom, zl(rows(raw))),
                      {"op": "CalAngleData.savetxt", "order": order, "n_events": N}))
        back = D.load_dat_file(fn, order)
        cases.append(("loadorder_%d" % fi, "acols_eqb (load_order %s %s) [%s] = true" % (oz, zl(rows(raw)), ";".join("(%d%%Z,%s)" % (names.index(o), zl(rows(back[o]))) for o in order)),
                      {"op": "load_dat_file(order)", "order": order}))
        ctx.evaluations += 2
        for k, nm in enumerate(names):
            if not np.array_equal(back[nm], ps[k]):
                direct.append({"test": "load_dat_file(savetxt(p, order), order)[particle] == p[particle]", "particle": nm, "order": order, "n_events": N})
                break


def config_cases(ctx, rnd, np, direct, scratch, nperm):
    """SimpleData.savetxt / load_p4 under dat_order permutations; save_data / load_data; cached data"""
    import itertools

    from tf_pwa import data as D
    from tf_pwa.config_loader import ConfigLoader

    from props.c17 import CFG  # same small decay

    cases = []
    perms = list(itertools.permutations(["B", "C", "D"]))
    rnd.shuffle(perms)
    for pi, perm in enumerate(perms[:nperm]):
        cfg = dict(CFG, data={"dat_order": list(perm)})
        cl = ConfigLoader(cfg)
        N = rnd.randrange(1, 30)
        ps = {nm: (np.arange(N, dtype=np.float64) + 1000 * k)[:, None] * 4 + np.arange(4.0)[None, :] for k, nm in enumerate("BCD")}
        for ext in ("dat", "npy"):
            fn = os.path.join(scratch, "cfg%d.%s" % (pi, ext))
            form = rnd.choice(["plain", "particle", "list"])
            if form == "plain":
                cl.data.savetxt(fn, dict(ps))
            elif form == "particle":
                cl.data.savetxt(fn, {"particle": {k: {"p": v} for k, v in ps.items()}})
            else:
                cl.data.savetxt(fn, [ps[k] for k in perm])
            raw = (np.load(fn) if ext == "npy" else np.loadtxt(fn)).reshape((-1, 4))
            mom = "[" + ";".join("(%d%%Z,%s)" % (k, zl(rows(ps[nm]))) for k, nm in enumerate("BCD")) + "]"
            oz = zl(["BCD".index(o) for o in perm])
            cases.append(("cfgsave_%d_%s" % (pi, ext), "list_eqb Z.eqb (savetxt_order %s %s) %s = true" % (oz, mom, zl(rows(raw))),
                          {"op": "SimpleData.savetxt", "dat_order": perm, "form": form, "ext": ext}))
            back = cl.data.load_p4(fn)
            got = {str(k): v for k, v in back.items()}
            cases.append(("cfgload_%d_%s" % (pi, ext), "acols_eqb (load_order %s %s) [%s] = true" % (oz, zl(rows(raw)), ";".join("(%d%%Z,%s)" % ("BCD".index(o), zl(rows(got[o]))) for o in perm)),
                          {"op": "SimpleData.load_p4", "dat_order": perm, "ext": ext}))
            ctx.evaluations += 2
            ctx.count("dat_order=%s" % "".join(perm))
            if any(not np.array_equal(got[nm], ps[nm]) for nm in "BCD"):
                direct.append({"test": "config.data.load_p4(config.data.savetxt(p)) == p", "dat_order": perm, "ext": ext, "form": form})
    # save_data / load_data / cached data file: numpy pickle I/O (runtime) - direct round trip
    g = Gen(rnd, np)
    for k in range(6):
        d = g.tree(rnd.randrange(0, 30), 3, tuples=(k % 2 == 0))
        if not isinstance(d, dict):
            d = {"a": d}
        fn = os.path.join(scratch, "obj%d.npy" % k)
        D.save_data(fn, d)
        back = D.load_data(fn)
        fz = os.path.join(scratch, "obj%d.npz" % k)
        D.save_dataz(fz, d)
        backz = D.load_data(fz)
        ctx.evaluations += 2
        ctx.count("save_data_roundtrip")
        cases.append(("savedata_%d" % k, "data_eqb %s %s && data_eqb %s %s = true" % (enc(d), enc(back), enc(d), enc(backz)), {"op": "save_data/load_data", "k": k}))
        if not (struct_eq(d, back) and struct_eq(d, backz)):
            direct.append({"test": "load_data(save_data(d)) == d", "struct": repr(D.data_struct(d))})
    # a list / tuple of k data groups (what the `multi` data mode holds), k = 1, 2, 3; np.save stores the sequence level as an
    # object array: compared as a sequence.  Arrays with ONE event (shapes (1,), (1,4)) and with two
    for k in range(1, 4):
        for kind in (list, tuple):
            grp = kind({"m": g.leaf(4 + k), "w": {"x": g.leaf(4 + k, True)}} for _ in range(k))
            for tag, save in (("npy", D.save_data), ("npz", D.save_dataz)):
                fn = os.path.join(scratch, "grp%d%s.%s" % (k, kind.__name__, tag))
                ctx.evaluations += 1
                ctx.count("save_data_groups=%d" % k)
                inp = {"op": "save_data/load_data", "saved": "%s of %d dict(s)" % (kind.__name__, k), "file": tag}
                try:
                    save(fn, grp)
                    back = D.load_data(fn)
                except Exception as ex:
                    direct.append(dict(inp, test="load_data(save_data([group, ...])) raised %s: %s" % (type(ex).__name__, str(ex)[:160])))
                    continue
                inp["loaded_type"] = type(back).__name__
                ok = not isinstance(back, dict) and hasattr(back, "__len__") and len(back) == k and all(struct_eq(a, b) for a, b in zip(grp, back))
                if ok:
                    cases.append(("savegrp_%d_%s_%s" % (k, kind.__name__, tag), "data_eqb %s %s = true" % (enc(list(grp)), enc(list(back))), inp))
                else:
                    direct.append(dict(inp, test="load_data(save_data([group, ...])) is the same sequence of groups"))
    for shp in ((1,), (1, 4), (2,), (2, 4)):
        a = g.leaf(shp[0], len(shp) == 2)
        for tag, save in (("npy", D.save_data), ("npz", D.save_dataz)):
            fn = os.path.join(scratch, "arr%s.%s" % ("x".join(map(str, shp)), tag))
            ctx.evaluations += 1
            ctx.count("save_data_array_rows=%d" % shp[0])
            try:
                save(fn, a)
                back = D.load_data(fn)
            except Exception as ex:
                direct.append({"test": "load_data(save_data(array)) raised %s: %s" % (type(ex).__name__, str(ex)[:160]), "shape": list(shp), "file": tag})
                continue
            if not (isinstance(back, np.ndarray) and back.shape == a.shape and np.array_equal(back, a)):
                direct.append({"test": "load_data(save_data(array)) == array", "shape": list(shp), "file": tag, "loaded": repr(back)[:80]})
    cl = ConfigLoader(dict(CFG, data={"dat_order": ["B", "C", "D"], "cached_data": os.path.join(scratch, "cached.npy")}))
    d = {"data": {"x": g.leaf(7)}, "phsp": {"x": g.leaf(11)}, "bg": None, "inmc": None}
    cl.data.save_cached_data(d)
    cl.data.load_cached_data()
    ctx.evaluations += 1
    if not (struct_eq(cl.data.cached_data["data"], d["data"]) and struct_eq(cl.data.cached_data["phsp"], d["phsp"])):
        direct.append({"test": "load_cached_data(save_cached_data(d)) == d"})
    return cases


def cached_data_cases(ctx, rnd, np, direct, scratch):
    """cached-data file through ConfigLoader: load without a cache file == the run that writes the file == the run that reads it
    (all leaves incl. weights; options bg_weight, weight_scale, per-event weight files; simple and multi data mode)"""
    import ampkit
    from tf_pwa import data as D
    from tf_pwa.config_loader import ConfigLoader

    from props.c17 import CFG

    mf = {k: 0.1 for k in "BCD"}
    names = ["data", "phsp", "bg", "inmc"]

    def flat(x):
        if x is None or isinstance(x, (dict, list, tuple)):
            return x
        return D.data_to_numpy(x)

    def same(a, b):
        if a is None or b is None:
            return a is None and b is None
        if isinstance(a, dict):
            return isinstance(b, dict) and sorted(map(str, a)) == sorted(map(str, b)) and all(same(a[k], b[k]) for k in a)
        if isinstance(a, (list, tuple)):
            return isinstance(b, (list, tuple)) and len(a) == len(b) and all(same(x, y) for x, y in zip(a, b))
        a, b = np.asarray(a), np.asarray(b)
        return a.shape == b.shape and bool(np.allclose(a, b, rtol=1e-12, atol=0, equal_nan=True))
    k = 0
    for multi in (False, True):
        for opts in ({}, {"weight_scale": True}, {"weight_scale": True, "bg_weight": 0.37}, {"bg_weight": 0.2, "data_weight": "W"}):
            k += 1
            d = os.path.join(scratch, "cd%d" % k)
            os.makedirs(d, exist_ok=True)
            nd, nph, nbg = rnd.randrange(5, 40), rnd.randrange(20, 60), rnd.randrange(3, 25)
            for nm, n in (("data", nd), ("phsp", nph), ("bg", nbg)):
                ev = ampkit.gen_events(1.0, mf, n, rnd.randrange(10 ** 6))
                np.savetxt(os.path.join(d, nm + ".dat"), np.stack([ev[q] for q in "BCD"], axis=1).reshape((-1, 4)))
            o = dict(opts)
            if o.get("data_weight") == "W":
                np.savetxt(os.path.join(d, "w.dat"), np.array([rnd.uniform(0.2, 2.0) for _ in range(nd)]))
                o["data_weight"] = [os.path.join(d, "w.dat")]
            wrap = (lambda f: [[f]]) if multi else (lambda f: [f])
            if "data_weight" in o:
                o["data_weight"] = o["data_weight"] if multi else o["data_weight"][0]
            dsec = {"dat_order": ["B", "C", "D"], "data": wrap(os.path.join(d, "data.dat")), "phsp": wrap(os.path.join(d, "phsp.dat")),
                    "bg": wrap(os.path.join(d, "bg.dat")), **o}
            dsec["format"] = "multi" if multi else "simple"
            import contextlib
            import io
            try:
                with contextlib.redirect_stdout(io.StringIO()):
                    ref = [flat(x) for x in ConfigLoader(dict(CFG, data=dict(dsec))).get_all_data()]
                    cache = os.path.join(d, "cached.npy")
                    wr = [flat(x) for x in ConfigLoader(dict(CFG, data=dict(dsec, cached_data=cache))).get_all_data()]
                    rd = [flat(x) for x in ConfigLoader(dict(CFG, data=dict(dsec, cached_data=cache))).get_all_data()]
            except Exception as e:
                direct.append({"test": "cached-data file: load raised %r" % (e,), "multi": multi, "options": opts})
                continue
            ctx.evaluations += 3
            ctx.count("cached_data_%s" % ("multi" if multi else "simple"))
            ctx.distinct.add(("cached_data", multi, tuple(sorted(opts))))
            for tag, got in (("writes", wr), ("reads", rd)):
                bad = [nm for nm, a, b in zip(names, ref, got) if not same(D.data_to_numpy(a) if a is not None else None, D.data_to_numpy(b) if b is not None else None)]
                if bad:
                    direct.append({"test": "cached-data file: the run that %s the cache differs from the direct load in %s" % (tag, bad), "multi": multi,
                                   "options": {kk: (vv if not isinstance(vv, list) else "file") for kk, vv in opts.items()}, "n": [nd, nph, nbg]})


def lazy_cases(ctx, rnd, np, nlazy, direct, scratch=None):
    from tf_pwa import data as D

    cases = []
    g = Gen(rnd, np)
    # more than MAX_ITER batches: with and without extra entries
    for tag, with_extra in (("x", True), ("n", False), ("e", "array-free")):
        x = {"a": g.leaf(1003)}
        lz = D.LazyCall(lambda d: {k: 2 * v + 1 for k, v in d.items()}, x)
        # "array-free": a non-empty extra that holds only empty containers (stopped the iteration after 1000 batches before /repo 81b15cd)
        extra = {"w": g.leaf(1003)} if with_extra is True else ({"t": {}, "u": []} if with_extra else {})
        for k, v in extra.items():
            lz[k] = v
        pieces = [D.data_to_numpy(p) for p in lz.as_dataset(1)]
        cases.append(("lazybig_%s" % tag, "list_eqb data_eqb (lazy_batches (map_leaves (affine 2%%Z 1%%Z)) 1000 1 %s %s) [%s] = true" % (enc(x), enc(extra), ";".join(enc(p) for p in pieces)),
                      {"op": "LazyCall iteration, 1003 batches", "extra": sorted(extra), "pieces": len(pieces)}))
        ctx.evaluations += 1
        out = D.batch_call(lambda d: d["a"], lz, 1)
        if not (pieces and struct_eq(D.data_merge(*pieces), D.data_to_numpy(lz.eval())) and np.array_equal(D.data_to_numpy(out), 2 * x["a"] + 1)):
            inp = {"test": "data_merge(*LazyCall.as_dataset(1)) == LazyCall.eval() and batch_call(f, lazy, 1) == f(eval)", "n": 1003, "extra": sorted(extra), "pieces": len(pieces)}
            direct.append(inp)
    for li in range(nlazy):
        n = rnd.choice([1, 2, 5, 9, rnd.randrange(1, 51)])
        a, c = rnd.randrange(1, 5), rnd.randrange(-3, 4)
        x = {k: g.leaf(n) for k in sorted(rnd.sample(KEYS[:4], rnd.randrange(1, 4)))}
        heavy = li % 3 == 2
        fn = lambda d: {k: a * v + c for k, v in d.items()}
        lz = D.LazyCall(D.HeavyCall(fn) if heavy else fn, x)
        disk = heavy and scratch is not None and li % 2 == 0
        if disk:  # on-disk tf.data cache shared by all batch sizes of this object (and of a second object below)
            lz.set_cached_file(os.path.join(scratch, "lazycache%d" % li) + os.sep, "c")
            ctx.count("lazy_disk_cache")
        extra = {}
        if rnd.random() < 0.7:
            extra = {k: g.leaf(n) for k in rnd.sample(KEYS[4:], rnd.randrange(1, 3))}
            for k, v in extra.items():
                lz[k] = v
        ev = lz.eval()
        X, E = enc(x), enc(dict(sorted(extra.items())))
        fm = "(map_leaves (affine (%d)%%Z (%d)%%Z))" % (a, c)
        # dict_union appends extra after f(x): encode with the same order (keys of x < keys of extra)
        cases.append(("lazyeval_%d" % li, "data_eqb (lazy_eval %s %s %s) %s = true" % (fm, X, E, enc(ev)), {"op": "LazyCall.eval", "n": n, "heavy": heavy}))
        bs = batch_sizes(rnd, n)[:3]
        objs = [(lz, b) for b in bs]
        if disk:
            # a second object over the same cache directory, other batch sizes first, then the first again
            lz2 = D.LazyCall(D.HeavyCall(fn), x)
            lz2.set_cached_file(os.path.join(scratch, "lazycache%d" % li) + os.sep, "c")
            for k, v in extra.items():
                lz2[k] = v
            objs += [(lz2, b) for b in reversed(bs)] + [(lz, bs[0])]
        for oi, (lz, b) in enumerate(objs):
            pieces = [D.data_to_numpy(p) for p in lz.as_dataset(b)]
            cases.append(("lazyit_%d_%d_b%d" % (li, oi, b), "list_eqb data_eqb (lazy_batches %s 1000 %d %s %s) [%s] = true" % (fm, b, X, E, ";".join(enc(p) for p in pieces)),
                          {"op": "LazyCall iteration", "n": n, "batch": b, "heavy": heavy, "disk_cache": disk, "visit": oi, "extra": sorted(extra)}))
            ctx.evaluations += 1
            ctx.count("lazy_%s" % ("heavy" if heavy else "plain"))
            ctx.distinct.add(("lazy", li, b))
            merged = D.data_merge(*pieces)
            if not struct_eq(merged, D.data_to_numpy(ev)):
                direct.append({"test": "data_merge(*LazyCall.as_dataset(b)) == LazyCall.eval()", "n": n, "batch": b, "heavy": heavy})
            k0 = sorted(x)[0]
            out = D.batch_call(lambda d: d[k0], lz, b)
            if not np.array_equal(D.data_to_numpy(out), a * x[sorted(x)[0]] + c):
                direct.append({"test": "batch_call(f, LazyCall, b) == f(eval)", "n": n, "batch": b, "heavy": heavy})
    return cases


def mz(m):
    """a 2-D integer array as a Coq list of rows"""
    import numpy as np

    m = m.numpy() if hasattr(m, "numpy") else np.asarray(m)
    if m.ndim != 2 or not np.all(m == np.floor(m)):
        raise BadLeaf("not a 2-D integer array: shape %r" % (m.shape,))
    return "[" + ";".join(zl([int(x) for x in r]) for r in m) + "]"


def axis_cases(ctx, rnd, np, ntrees, direct):
    """data_split(d, b, axis=-1) / data_merge(*pieces, axis=-1): events along the LAST axis.
    trees: leaves (n,) and (4, n) (the transposed (n,4) leaf), encoded by their slices along the split axis -> the tree model;
    matrices (c, n), c = 1..3, bare and nested in dict / list / tuple -> split_last / concat_last"""
    from tf_pwa import data as D

    g = Gen(rnd, np)
    cases = []
    T = lambda d: D.data_map(d, lambda a: a if a.ndim == 1 else a.T)
    sizes = [1, 2, 3, 4, 6] + [rnd.randrange(5, 31) for _ in range(max(0, ntrees - 5))]
    for ti, n in enumerate(sizes[:ntrees]):
        dT = g.tree(n, rnd.choice([1, 2, 2, 3]))  # events along axis 0 ...
        if not has_leaf(dT):
            dT = {"a": dT, "b": g.leaf(n, True)}
        d = T(dT)  # ... now along the last axis
        for b in batch_sizes(rnd, n):
            inp = {"op": "data_split / data_merge, axis=-1", "tree": ti, "n": n, "batch": b, "struct": repr(D.data_struct(d))}
            ctx.evaluations += 1
            ctx.count("axis-1_batch=%s" % ("1" if b == 1 else ">n" if b > n else "divides" if n % b == 0 else "non-dividing"))
            try:
                pieces = [D.data_to_numpy(p) for p in D.data_split(d, b, axis=-1)]
                m = D.data_to_numpy(D.data_merge(*pieces, axis=-1))
                ok = struct_eq(m, d)
                if ok:
                    ctx.distinct.add(("axis-1", ti, b))
                    cases.append(("axsplit_t%d_b%d" % (ti, b), "list_eqb data_eqb (data_split 1000 %d %s) [%s] = true" % (b, enc(dT), ";".join(enc(T(p)) for p in pieces)), inp))
                    cases.append(("axmerge_t%d_b%d" % (ti, b), "odata_eqb (merge_all [%s]) (Some %s) = true" % (";".join(enc(T(p)) for p in pieces), enc(T(m))), inp))
                else:
                    direct.append(dict(inp, test="data_merge(*data_split(d, b, axis=-1), axis=-1) == d", got_struct=repr(D.data_struct(m))))
            except BadLeaf:
                raise
            except Exception as ex:
                direct.append(dict(inp, test="data_merge(*data_split(d, b, axis=-1), axis=-1) raised %s: %s" % (type(ex).__name__, str(ex)[:160])))
    wraps = [("bare", lambda a: a, lambda r: r), ("dict", lambda a: {"a": a, "e": {}}, lambda r: r["a"]), ("list", lambda a: [a], lambda r: r[0]),
             ("tuple", lambda a: ((), a), lambda r: r[1]), ("deep", lambda a: {"c": [{"d": a}]}, lambda r: r["c"][0]["d"])]
    for mi in range(ntrees):
        c, n = rnd.randrange(1, 4), rnd.choice([1, 2, 4, 6, rnd.randrange(1, 21)])
        M = (np.arange(c * n, dtype=np.float64) * 3 + 100 * mi).reshape((c, n))
        wname, wrap, get = wraps[mi % len(wraps)]
        for b in batch_sizes(rnd, n)[:4]:
            inp = {"op": "data_split / data_merge, axis=-1", "array": "(%d, %d) %s" % (c, n, wname), "batch": b, "rows": M.tolist() if M.size <= 24 else None}
            ctx.evaluations += 1
            ctx.count("axis-1_array_%s" % wname)
            try:
                pieces = [D.data_to_numpy(p) for p in D.data_split(wrap(M), b, axis=-1)]
                m = D.data_to_numpy(D.data_merge(*pieces, axis=-1))
                cases.append(("axm_%d_b%d_split" % (mi, b), "list_eqb mat_eqb (split_last %d %s) [%s] = true" % (b, mz(M), ";".join(mz(get(p)) for p in pieces)), inp))
                cases.append(("axm_%d_b%d_merge" % (mi, b), "mat_eqb (concat_last [%s]) %s = true" % (";".join(mz(get(p)) for p in pieces), mz(get(m))), inp))
                if not struct_eq(m, wrap(M)):
                    direct.append(dict(inp, test="data_merge(*data_split(d, b, axis=-1), axis=-1) == d", got_shape=list(get(m).shape)))
            except BadLeaf:
                raise
            except Exception as ex:
                direct.append(dict(inp, test="data_merge(*data_split(d, b, axis=-1), axis=-1) raised %s: %s" % (type(ex).__name__, str(ex)[:160])))
    return cases


def lazyfile_cases(ctx, rnd, np, nlf, direct):
    """LazyFile(x) (= LazyCall(identity, x)) with 0, 1, 2 extra entries: eval, every batch size visited TWICE (as_dataset caches per batch size),
    batch_call on each pass; and LazyCall(HeavyCall(f), LazyFile(x)) as ConfigLoader builds it for lazy_file"""
    from tf_pwa import data as D

    cases = []
    g = Gen(rnd, np)
    ident = "(fun d => d)"
    for li in range(nlf):
        n = rnd.choice([1, 2, 5, 9, rnd.randrange(1, 41)])
        x = {k: g.leaf(n, rnd.random() < 0.3) for k in sorted(rnd.sample(KEYS[:4], rnd.randrange(1, 4)))}
        extra = {k: g.leaf(n) for k in sorted(rnd.sample(KEYS[4:], li % 3))}
        lf = D.LazyFile(x)
        for k, v in extra.items():
            lf[k] = v
        X, E = enc(x), enc(extra)
        inp0 = {"op": "LazyFile", "n": n, "keys": sorted(x), "extra": sorted(extra)}
        ctx.count("lazyfile_extra=%d" % len(extra))
        try:
            ev = D.data_to_numpy(lf.eval())
            cases.append(("lfeval_%d" % li, "data_eqb (lazy_eval %s %s %s) %s = true" % (ident, X, E, enc(ev)), dict(inp0, op="LazyFile.eval")))
            bs = batch_sizes(rnd, n)[:3]
            for vi, b in enumerate(bs + bs[::-1]):
                pieces = [D.data_to_numpy(p) for p in lf.as_dataset(b)]
                ctx.evaluations += 1
                ctx.distinct.add(("lazyfile", li, b, vi >= len(bs)))
                inp = dict(inp0, op="LazyFile iteration", batch=b, visit=vi)
                cases.append(("lfit_%d_%d_b%d" % (li, vi, b), "list_eqb data_eqb (lazy_batches %s 1000 %d %s %s) [%s] = true" % (ident, b, X, E, ";".join(enc(p) for p in pieces)), inp))
                want = dict(x, **extra)
                if not (pieces and struct_eq(D.data_merge(*pieces), want)):
                    direct.append(dict(inp, test="data_merge(*LazyFile.as_dataset(b)) == {**x, **extra}", got_keys=sorted(pieces[0]) if pieces else None))
                out = D.data_to_numpy(D.batch_call(lambda d: d, lf, b))
                if not struct_eq(out, want):
                    direct.append(dict(inp, test="batch_call(identity, LazyFile, b) == {**x, **extra}", got_keys=sorted(out)))
            if not struct_eq(ev, dict(x, **extra)):
                direct.append(dict(inp0, test="LazyFile.eval() == {**x, **extra}", got_keys=sorted(ev)))
            # the ConfigLoader form: a HeavyCall over the LazyFile, own extra entries on the outer object
            a, c = rnd.randrange(1, 5), rnd.randrange(-3, 4)
            x1 = {k: v for k, v in x.items() if v.ndim == 1} or {"a": g.leaf(n)}
            outer = D.LazyCall(D.HeavyCall(lambda d: {k: a * v + c for k, v in d.items()}), D.LazyFile(x1))
            for k, v in extra.items():
                outer[k] = v
            fm = "(map_leaves (affine (%d)%%Z (%d)%%Z))" % (a, c)
            for vi, b in enumerate(bs + bs[::-1]):
                pieces = [D.data_to_numpy(p) for p in outer.as_dataset(b)]
                ctx.evaluations += 1
                cases.append(("lfheavy_%d_%d_b%d" % (li, vi, b), "list_eqb data_eqb (lazy_batches %s 1000 %d %s %s) [%s] = true" % (fm, b, enc(x1), E, ";".join(enc(p) for p in pieces)),
                              dict(inp0, op="LazyCall(HeavyCall, LazyFile) iteration", batch=b, visit=vi)))
        except BadLeaf:
            raise
        except Exception as ex:
            direct.append(dict(inp0, test="LazyFile eval / iteration raised %s: %s" % (type(ex).__name__, str(ex)[:160])))
    return cases


def shared_inner_cases(ctx, rnd, np, nsh, direct):
    """A = LazyCall(f1, inner), B = data_replace(A, key, value) / A.copy(): B shares A's inner LazyCall.  Each object is given its
    own batch size (data_split), then the objects are iterated in an order different from the order of the data_split calls."""
    from tf_pwa import data as D

    cases = []
    g = Gen(rnd, np)
    for si in range(nsh):
        n = rnd.choice([4, 7, 10, 20, rnd.randrange(3, 41)])
        a0, c0, a1, c1 = rnd.randrange(1, 4), rnd.randrange(-2, 3), rnd.randrange(1, 4), rnd.randrange(-2, 3)
        x = {k: g.leaf(n) for k in sorted(rnd.sample(KEYS[:4], rnd.randrange(1, 3)))}
        f0 = lambda d: {k: a0 * v + c0 for k, v in d.items()}
        f1 = lambda d: {k: a1 * v + c1 for k, v in d.items()}
        heavy_inner = si % 2 == 1
        inner = D.LazyCall(D.HeavyCall(f0) if heavy_inner else f0, x)
        A = D.LazyCall(f1, inner)
        eA = {k: g.leaf(n) for k in sorted(rnd.sample(KEYS[4:], 1 + si % 2))}
        for k, v in eA.items():
            A[k] = v
        k0 = sorted(eA)[0]
        B = D.data_replace(A, k0, 2 * eA[k0]) if si % 3 else A.copy()
        eB = dict(eA, **{k0: 2 * eA[k0]}) if si % 3 else dict(eA)
        bs = batch_sizes(rnd, n)
        bA, bB = rnd.sample(bs, 2) if len(bs) > 1 else (bs[0], bs[0])
        fm = "(map_leaves (affine (%d)%%Z (%d)%%Z))" % (a1 * a0, a1 * c0 + c1)
        inp0 = {"op": "LazyCall with a shared inner LazyCall", "n": n, "batch_A": bA, "batch_B": bB, "inner": "HeavyCall" if heavy_inner else "plain",
                "B": "data_replace(A, %r, 2*w)" % k0 if si % 3 else "A.copy()", "extra": sorted(eA)}
        ctx.count("shared_inner_%s" % ("heavy" if heavy_inner else "plain"))
        try:
            pa = D.data_split(A, bA)
            pb = D.data_split(B, bB)
            for tag, obj, it, b, e in (("A", A, pa, bA, eA), ("B", B, pb, bB, eB), ("A2", A, pa, bA, eA)):
                pieces = [D.data_to_numpy(p) for p in it]
                ctx.evaluations += 1
                ctx.distinct.add(("shared", si, tag))
                inp = dict(inp0, iterated=tag, pieces=[[int(D.data_shape(p[sorted(x)[0]])), int(D.data_shape(p[k0]))] for p in pieces][:6])
                cases.append(("shared_%d_%s" % (si, tag), "list_eqb data_eqb (lazy_batches_shared %s 1000 %d %d %s %s) [%s] = true" % (fm, b, b, enc(x), enc(e), ";".join(enc(p) for p in pieces)), inp))
                if not (pieces and struct_eq(D.data_merge(*pieces), D.data_to_numpy(obj.eval()))):
                    direct.append(dict(inp, test="data_merge(*data_split(A, bA)) == A.eval() after data_split(B, bB) on an object sharing A's inner LazyCall"))
        except BadLeaf:
            raise
        except Exception as ex:
            direct.append(dict(inp0, test="iteration raised %s: %s" % (type(ex).__name__, str(ex)[:160])))
    return cases


def run(ctx):
    import bootstrap

    bootstrap.tf_quiet()
    import numpy as np

    rnd = random.Random(ctx.seed * 1000003 + 18)
    quick = ctx.tier == "quick"
    ctx.rule = ("nested dict/list/tuple structures (depth <= 3, fan-out 0..3, incl. empty dict/list at any level) with 1-D id arrays and (n,4) "
                "arrays, n = 0..8 exhaustively then 9..50 seeded; batch sizes 1, n, n+7, smallest non-divisor, one random; per structure: split, "
                "merge(split), merge of independently sized pieces, batch_call (structure-valued and array-valued f), 2 masks (sparse, dense/all/none), "
                "data_shape, 3 index paths (valid and invalid); dat files: 1..5 particles x 1..50 events x txt/npy/npz/dat x one or several files x "
                "shuffled row content; CalAngleData.savetxt with shuffled order; SimpleData.savetxt/load_p4 for dat_order permutations; "
                "save_data/save_dataz/load_data, cached-data file (ConfigLoader: direct load == run that writes == run that reads, with bg_weight / weight_scale / weight files, simple and multi data); LazyCall plain / HeavyCall (also with an on-disk cache shared by several batch sizes and objects) with and without extra; "
                "axis=-1: the same trees with events along the last axis ((n,) and (4,n) leaves) and (c,n) arrays bare / in dict / list / tuple / deep, all batch-size classes; "
                "CalAngleData.savetxt file names without extension / .dat / .txt, with and without save_charge; save_data of a list / tuple of 1..3 groups and of arrays with 1 and 2 events; "
                "LazyFile with 0/1/2 extra entries, every batch size visited twice, and HeavyCall over LazyFile; LazyCall objects sharing an inner LazyCall (copy / data_replace) "
                "given different batch sizes and iterated afterwards; distinct = distinct (operation, structure, batch)")
    common.theorem_stage(ctx)
    scratch = os.path.join(ctx.dir, "files")
    import shutil
    shutil.rmtree(scratch, ignore_errors=True)  # stale tf.data / cached-data files of an earlier run must not be read back
    os.makedirs(scratch, exist_ok=True)
    direct = []
    cases = []
    try:
        cases += tree_cases(ctx, rnd, np, 30 if quick else 200, direct)
        ctx.log("tree cases: %d" % len(cases))
        cases += file_cases(ctx, rnd, np, 25 if quick else 200, direct, scratch)
        cases += config_cases(ctx, rnd, np, direct, scratch, 3 if quick else 6)
        ctx.log("file cases done: %d" % len(cases))
        cached_data_cases(ctx, rnd, np, direct, scratch)
        cases += lazy_cases(ctx, rnd, np, 9 if quick else 45, direct, scratch)
        cases += axis_cases(ctx, rnd, np, 10 if quick else 60, direct)
        cases += lazyfile_cases(ctx, rnd, np, 6 if quick else 30, direct)
        cases += shared_inner_cases(ctx, rnd, np, 6 if quick else 30, direct)
    except BadLeaf as ex:
        ctx.fail("decode", "leaf", "an array returned by the implementation does not hold event ids any more: %s" % ex,
                 site="tf_pwa.data", fingerprint="decode")
    ctx.log("cases: %d, direct failures: %d" % (len(cases), len(direct)))
    meta = {c[0]: c[2] for c in cases}
    ctx.sample({"case": cases[5][1][:1200]})
    ctx.sample({"case": next(c[1] for c in cases if c[0].startswith("load_"))[:1200]})
    res = common.coq_cases(ctx, "tie", HEADER, [(c[0], c[1], "vm_compute; reflexivity") for c in cases], per_file=max(30, len(cases) // 32 + 1))
    for cid, r in res.items():
        if r != "OK":
            ctx.fail("tie", cid, "implementation output differs from the model (%s)" % r, inp=meta[cid],
                     site="tf_pwa.data " + str(meta[cid].get("op")), fingerprint="tie")
    ctx._direct = direct
    for d in direct:
        ctx.fail("property", "direct", "round trip fails on the implementation: %s" % d["test"], inp=d,
                 site="tf_pwa.data", fingerprint="direct", failing_input=d)
    return common.finish(ctx, search=search, technique=TECHNIQUE, extra_assumptions=[
        "NumPy text / npy / npz / pickle I/O and tf.data are runtime: exercised and compared exactly, not modelled",
        "merge o split = id needs: every array has the same number n > 0 of rows; sys.maxsize is represented in the model by the total batch count of the arrays (theorem C18_bound_irrelevant)",
        "lazy = eager is proved for one LazyCall level with extra entries (LazyFile = the identity instance); a LazyCall over an inner LazyCall is modelled with the composed function (inner object without own extra entries, lazy_batches_shared) and tied",
        "axis=-1 is proved for 2-D arrays (split_last / concat_last) and tied for trees through the tree model with row = slice along the split axis",
        "file names (CalAngleData.savetxt charge file) are not modelled: exercised on names with and without extension",
        "a persistent cache (cached_data file, cached_lazy_call directory) is trusted by design: it is compared with a fresh load of the SAME input files only; reuse of a cache directory with other input files is outside the statement (observation)",
        "data_merge is modelled for pieces with identical key sequences (what data_split yields); its error cases are not modelled",
    ])


def search(ctx, fails):
    """round-trip tests directly on the implementation"""
    if getattr(ctx, "_direct", None):
        return ctx._direct[0]
    import numpy as np
    from tf_pwa import data as D

    rnd = random.Random(ctx.seed + 1818)
    g = Gen(rnd, np)
    for _ in range(400):
        n = rnd.randrange(1, 40)
        d = g.tree(n, 3)
        if not has_leaf(d):
            continue
        for b in batch_sizes(rnd, n):
            try:
                ps = list(D.data_split(d, b))
                m = D.data_merge(*ps)
                ok = struct_eq(m, d)
            except Exception as ex:
                ok, m = False, repr(ex)
            if not ok:
                return {"test": "data_merge(*data_split(d, b)) == d", "n": n, "batch": b, "struct": repr(D.data_struct(d))}
            sel = np.array([rnd.random() < 0.5 for _ in range(n)])
            mk = D.data_mask(d, sel)
            ex = D.data_map(d, lambda v: v[sel])
            if not struct_eq(mk, ex):
                return {"test": "data_mask(d, sel) leaves == leaf[sel]", "n": n, "mask": sel.tolist(), "struct": repr(D.data_struct(d))}
    return None


def replay(rep):
    print(json.dumps(rep, indent=1, default=str)[:6000])
    return 0
