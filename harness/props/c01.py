"""C01 - the density is independent of the observer's frame.

Theorems: coq/Props/Properties_C01.v: complete for spinless three-body decays (boosts, orthogonal maps,
inversion), and for arbitrary spins the mechanism (Minkowski invariance, D* unitarity removing the
observer's rotation for 2j<=8 and all Euler angles, identical-particle symmetrisation).
Tie:
 (M) spin-0 configurations: the closed-form model is tied layer by layer (C04 layers K/Q/A/D) at p AND at Lambda p;
     since the model value is invariant by theorem, the code's two densities are pinned together;
 (I) arbitrary spins (spin-1/2 weak decay, vector->vector, 4-body parity-conserving cascades, identical particles):
     invariant masses at p and Lambda p tied to the Minkowski model; the code's densities at p and Lambda p certified
     equal (rtol 1e-7), finite and non-negative, one symmetry generator at a time (rotation, boost, rotation+boost,
     inversion, identical-particle exchange);
 (G) layer geometry: hypothesis of C01_cascade_rotation_invariant (SU(2) relation of the helicity rotations under a common
     rotation, azimuth shift of the next vertex, unchanged polar angle) certified by Coq-Interval on the code's angles;
 (S) layer swap_sign: DecayGroup.get_swap_factor = the signature model of Amp/SwapSign.v (vm_compute) for every permutation of
     identical groups of 2, 3, 4 names (fermions and bosons, one and two groups).
Scenario families added after the independent hunt (each is a regression test of a repair in /repo, see build/fix_C01):
 direct three-body node [A->B+C+D] interfering with resonant chains, spinning final particle (declared first / last);
 three identical spin-1/2 particles (all permutations, 3-cycles are even);
 identical particles WITH spin and only one of the equivalent chains listed (the exchange term is the only source of the other).
Excluded from the regular stream by rule: events with a vertex whose daughter is within 1e-6 rad of collinear with the
parent's line of flight (helicity axes degenerate; OPEN finding collinear_subdecay_axes, one fixed reproducer below)."""
import copy
import math
import random

import numpy as np

import ampkit
import common
from qfmt import Rq
from rcases import real_stmt
from props import c04, c03
import amplayers

TECHNIQUE = "Coq proof (Minkowski invariance, Wigner-D unitarity 2j<=8, closed-form invariance) + layered Coq-Interval tie at p and Lambda p + certified metamorphic comparison for spinful cascades"

HEADER = c04.HEADER
RT = c04.RT


def transforms(rnd):
    ax = [rnd.uniform(-1, 1) for _ in range(3)]
    R = ampkit.rotation_matrix(ax, rnd.uniform(-3, 3))
    v = np.array([rnd.uniform(-1, 1) for _ in range(3)]); v = v / np.linalg.norm(v) * rnd.uniform(0.1, 0.9)
    return [("rotation", dict(rot=R)), ("boost", dict(boost=v)), ("rot+boost", dict(rot=R, boost=v)),
            ("inversion", dict(parity=True)), ("inversion+rot+boost", dict(parity=True, rot=R, boost=v))]


def four_body(rnd):
    mf = {"B": 0.14, "C": 0.14, "D": 0.49, "E": 0.49}; M0 = 3.1
    spins = {"A": (1, -1), "B": (0, -1), "C": (0, -1), "D": (0, -1), "E": (0, -1)}
    chains = [{"kind": "22", "R1": ("R1", 1, -1, 0.77, 0.15, ("B", "C")), "R2": ("R2", 1, -1, 1.02, 0.05, ("D", "E"))},
              {"kind": "31", "R": ("Rx", 1, 1, 1.4, 0.2), "S": ("Sx", 1, -1, 0.78, 0.15, ("B", "C")), "third": "D", "fourth": "E"}]
    return ampkit.four_body_config(M0, mf, spins, chains), M0, mf, (("B", "C"), ("D", "E"))


VCASES = []
GCASES = []
GHEADER = ("From Coq Require Import Reals.\nFrom Interval Require Import Tactic.\nFrom TFV Require Import Rot.DHom Amp.CascadeTie.\nOpen Scope R_scope.\n")


def _su2(a, b, g):
    uz = lambda t: np.array([[np.exp(-0.5j * t), 0], [0, np.exp(0.5j * t)]])  # noqa: E731
    c, s_ = math.cos(b / 2), math.sin(b / 2)
    return uz(a) @ np.array([[c, -s_], [s_, c]]) @ uz(g)


def geometry_cases(ctx, rnd, tag, config, cfg, p4, data, nev):
    """hypothesis of C01_cascade_rotation_invariant on the code's own angles: for a common rotation G = Rz(a)Ry(b)Rz(g) of all
    momenta, G * R(alpha1, beta1, 0) = R(alpha1', beta1', 0) * Rz(psi) as SU(2) matrices, where psi is the shift the code applies
    to the azimuth of the next vertex (alpha2' - alpha2, mod 2 pi / sign), and the polar angle of the next vertex is unchanged"""
    a, b, g = rnd.uniform(-3, 3), rnd.uniform(0.2, 2.9), rnd.uniform(-3, 3)
    ca, sa, cb, sb, cg, sg = math.cos(a), math.sin(a), math.cos(b), math.sin(b), math.cos(g), math.sin(g)
    Rz = lambda c, s_: np.array([[c, -s_, 0], [s_, c, 0], [0, 0, 1]])  # noqa: E731
    R = Rz(ca, sa) @ np.array([[cb, 0, sb], [0, 1, 0], [-sb, 0, cb]]) @ Rz(cg, sg)
    q4 = ampkit.lorentz_transform(p4, rot=R)
    d2 = config.data.cal_angle(q4)
    top_name = list(cfg["particle"]["$top"].keys())[0]
    for ch in data["decay"]:
        decs = [k for k in data["decay"][ch] if hasattr(k, "core")]
        tops = [d for d in decs if str(d.core) == top_name]
        if not tops:
            continue
        top = tops[0]
        subs = [d for d in decs if d.core == top.outs[0]]
        if not subs:
            continue
        sub = subs[0]

        def ang(d, dec):
            x = d["decay"][ch][dec][dec.outs[0]]["ang"]
            return [np.array(x[k], dtype=float) for k in ("alpha", "beta", "gamma")]
        A1, A1p, A2, A2p = ang(data, top), ang(d2, top), ang(data, sub), ang(d2, sub)
        for e in range(nev):
            psi = float(A2p[0][e] - A2[0][e])
            M = _su2(a, b, g) @ _su2(A1[0][e], A1[1][e], 0.0)
            N = _su2(A1p[0][e], A1p[1][e], psi)
            if abs(M + N).max() < abs(M - N).max():
                psi += 2 * math.pi  # the other sheet of SU(2): R(.., psi + 2 pi) = - R(.., psi)
                N = -N
            err = float(abs(M - N).max())
            meta = {"layer": "geometry", "config": cfg, "events": {k: v.tolist() for k, v in p4.items()}, "event": e, "chain": str(ch),
                    "rotation_euler": [a, b, g], "first_vertex_angles": [float(A1[0][e]), float(A1[1][e])],
                    "first_vertex_angles_rotated": [float(A1p[0][e]), float(A1p[1][e])], "azimuth_shift_next_vertex": psi,
                    "gamma_first_vertex": [float(A1[2][e]), float(A1p[2][e])], "su2_mismatch": err,
                    "polar_next_vertex": [float(A2[1][e]), float(A2p[1][e])]}
            cid = "G_%s_%s_e%d" % (tag, "".join(ch_ for ch_ in str(top.outs[0]) if ch_.isalnum()), e)
            ok0 = A1[2][e] == 0.0 and A1p[2][e] == 0.0
            GCASES.append((cid, "geometry_ok %s %s %s %s %s %s %s %s %s" % (Rq(1e-11), Rq(a), Rq(b), Rq(g), Rq(float(A1[0][e])), Rq(float(A1[1][e])),
                                                                    Rq(float(A1p[0][e])), Rq(float(A1p[1][e])), Rq(psi)) if ok0 else "False",
                           "geometry_tac", meta))
            GCASES.append((cid + "_pol", "(Rabs (cos %s - cos %s) <= %s)%%R" % (Rq(float(A2p[1][e])), Rq(float(A2[1][e])), Rq(1e-11)), "interval with (i_prec 90)", meta))
            ctx.count("geometry:first_vertex_relation")
            ctx.evaluations += 1
            ctx.distinct.add((tag, "geometry", str(ch), e))


SCASES = []
SHEADER = ("From Coq Require Import List ZArith.\nFrom TFV Require Import Amp.SwapSign.\nImport ListNotations.\n")


def min_abs_sin_beta(d):
    """smallest |sin beta| over all vertices of a cal_angle result (collinearity measure)"""
    best = [1.0]

    def walk(x):
        if isinstance(x, dict):
            for k, v in x.items():
                if k == "ang" and isinstance(v, dict) and "beta" in v:
                    best[0] = min(best[0], float(np.abs(np.sin(np.array(v["beta"], dtype=float))).min()))
                elif k not in ("id_swap", "cp_swap"):
                    walk(v)
    walk(d.get("decay", {}))
    return best[0]


def direct3_config(JB, JA, first):
    """direct node [A->B+C+D] interfering with two resonant chains, B with spin"""
    mf = {"B": 2.1, "C": 1.8, "D": 0.1}; M0 = 4.6
    res = {"R_BC": {"pair": "R_BC", "J": JB, "P": -1, "mass": 4.1, "width": 0.1}, "R_CD": {"pair": "R_CD", "J": 1, "P": -1, "mass": 2.0, "width": 0.1}}
    cfg = ampkit.three_body_config(M0, mf, res, top=(JA, 1), fin={"B": (JB, 1), "C": (0, -1), "D": (0, -1)})
    node = ["B", "C", "D"]
    cfg["decay"]["A"] = ([node] + cfg["decay"]["A"]) if first else (cfg["decay"]["A"] + [node])
    return cfg, M0, mf


def swap_sign_cases(ctx, rnd):
    """DecayGroup.get_swap_factor against the signature model, every permutation of groups of 2..4 names, one and two groups"""
    import itertools
    from tf_pwa.config_loader import ConfigLoader
    for J, ferm in ((0.5, True), (1, False)):
        for groups in ([["B", "C"]], [["B", "C", "D"]], [["B", "C", "D", "E"]], [["B", "C"], ["D", "E"]]):
            names = [n for g in groups for n in g]
            mf = {n: 0.3 for n in "BCDE"}; M0 = 3.1
            spins = {"A": (1, -1)}
            spins.update({n: (J, -1) for n in "BCDE"})  # all four finals carry the spin: integer total, groups declared among them
            chains = [{"kind": "22", "R1": ("R1", 1, -1, 0.9, 0.15, ("B", "C")), "R2": ("R2", 1, -1, 1.0, 0.1, ("D", "E"))}]
            cfg = ampkit.four_body_config(M0, mf, spins, chains, data_opts={"identical_particles": groups})
            dg = ConfigLoader(cfg).get_amplitude().decay_group
            for comb in itertools.product(*[list(itertools.permutations(g)) for g in groups]):
                key = (tuple(names), tuple(comb))
                obs = float(dg.get_swap_factor(key))
                idx = [[list(g).index(n) for n in c] for g, c in zip(groups, comb)]
                cid = "S_%s_%s" % ("f" if ferm else "b", "_".join("".join(c) for c in comb))
                ok = obs in (1.0, -1.0)
                gl = "; ".join("(%s, [%s]%%nat)" % ("true" if ferm else "false", "; ".join(str(i) for i in ix)) for ix in idx)
                SCASES.append((cid, ("groups_factor swap_factor [%s] = (%d)%%Z" % (gl, int(obs))) if ok else "False", "vm_compute; reflexivity",
                               {"layer": "swap_sign", "config": cfg, "identical_particles": groups, "permuted": [list(c) for c in comb],
                                "impl_factor": obs, "fermion": ferm}))
                ctx.count("swap_sign:%s:n=%s" % ("fermion" if ferm else "boson", "+".join(str(len(g)) for g in groups)))
                ctx.evaluations += 1
                ctx.distinct.add(("swap_sign", ferm, tuple(comb)))


def collinear_reproducer(ctx):
    """fixed reproducer of the OPEN finding collinear_subdecay_axes: a sub-decay exactly along the parent's line of flight"""
    from tf_pwa.config_loader import ConfigLoader
    mf = {"B": 2.1, "C": 1.8, "D": 0.1}; M0 = 4.6
    res = {"R_BC": {"pair": "R_BC", "J": 1, "P": 1, "mass": 4.1, "width": 0.1}, "R_BD": {"pair": "R_BD", "J": 1, "P": 1, "mass": 2.4, "width": 0.05},
           "R_CD": {"pair": "R_CD", "J": 1, "P": -1, "mass": 2.0, "width": 0.1}}
    cfg = ampkit.three_body_config(M0, mf, res, top=(1, -1), fin={"B": (1, -1), "C": (1, -1), "D": (0, -1)})
    config = ConfigLoader(cfg); amp = config.get_amplitude(); pars = ampkit.random_params(amp, random.Random(11))

    def two_body(M, m1, m2, n):
        n = np.asarray(n, float); n = n / np.linalg.norm(n)
        p = ampkit._relp(M, m1, m2)
        return np.array([math.sqrt(m1 ** 2 + p ** 2), *(p * n)]), np.array([math.sqrt(m2 ** 2 + p ** 2), *(-p * n)])

    def event(n1, n2, mR=4.1):
        R, D = two_body(M0, mR, mf["D"], n1)
        B, C = two_body(mR, mf["B"], mf["C"], n2)
        beta = R[1:] / R[0]
        return {"B": ampkit._boost(B, beta)[None], "C": ampkit._boost(C, beta)[None], "D": D[None]}

    def dens(ev):
        return float(np.array(amp(config.data.cal_angle(ev)))[0])
    n = (0.3, 0.4, 0.5)
    lim = dens(event(n, (0.3, 0.4 - 1e-6, 0.5))); lim2 = dens(event(n, (0.3, 0.4 - 2e-6, 0.5)))
    at = dens(event(n, n))
    nan_ev = event((1, 1, 1), (1, 1, 1)); at111 = dens(nan_ev)
    bad = (not math.isfinite(at111)) or abs(at / lim - 1) > 1e-4
    ctx.count("known_reproducer:collinear_subdecay_axes:%s" % ("fails" if bad else "passes"))
    ctx.evaluations += 4
    if bad:
        ctx.fail("finite_nonneg", "known_collinear_subdecay",
                 "sub-decay exactly along the line of flight: density %.6g (limit %.6g, at 2e-6 rad %.6g); line of flight (1,1,1): %r" % (at, lim, lim2, at111),
                 site="tf_pwa/angle.py Vector3.cross_unit degenerate fallback (collinear sub-decay)", fingerprint="collinear_subdecay_axes",
                 failing_input={"config": cfg, "params": {k: float(v) for k, v in pars.items()},
                                "events": {k: np.concatenate([event(n, n)[k], nan_ev[k]]).tolist() for k in "BCD"},
                                "density": [at, at111], "continuous_limit_event0": lim})


def metamorphic(ctx, rnd, tag, cfg, p4, cases, parity_ok=True, swap=None, nmass=2, light=False):
    """densities at p and Lambda p on the implementation, certified close; invariant masses tied to the model
    (light: only the finite/non-negative and frame-invariance layers - the vertex, geometry and mass layers are tied on the other scenarios)"""
    from tf_pwa.config_loader import ConfigLoader
    config = ConfigLoader(cfg)
    amp = config.get_amplitude()
    pars = ampkit.random_params(amp, rnd)
    data = config.data.cal_angle(p4)
    if min_abs_sin_beta(data) < 1e-6:  # stated exclusion rule (helicity axes degenerate: OPEN finding collinear_subdecay_axes)
        ctx.count("excluded:collinear_vertex")
        return None
    if light:
        rho = np.array(amp(data)); nev = len(rho); nmass = 0
    else:
        with amplayers.VertexCapture() as cap:
            rho = np.array(amp(data))
        nev = len(rho)
        VCASES.extend(amplayers.vertex_cases(ctx, tag, cap, [0], rnd, max_comp=3, meta0={"config": cfg}))
        geometry_cases(ctx, rnd, tag, config, cfg, p4, data, min(nev, 2))
    meta0 = {"config": cfg, "params": {k: float(v) for k, v in pars.items()}, "events": {k: v.tolist() for k, v in p4.items()}}
    for e in range(nev):
        ok = math.isfinite(rho[e]) and rho[e] >= 0
        cases.append(("F_%s_e%d" % (tag, e), "(0 <= %s)%%R" % Rq(float(rho[e])) if ok else "False", "interval",
                      dict(meta0, layer="finite_nonneg", event=e, impl_density=float(rho[e]))))
    ts = transforms(rnd)
    if swap:
        ts.append(("exchange:%s<->%s" % swap, dict(swap=swap)))
    for name, kw in ts:
        if "inversion" in name and not parity_ok:
            continue
        if "swap" in kw:
            a, b = kw["swap"]
            q4 = dict(p4); q4[a], q4[b] = p4[b], p4[a]
        else:
            q4 = ampkit.lorentz_transform(p4, **kw)
        d2 = config.data.cal_angle(q4)
        rho2 = np.array(amp(d2))
        ctx.count("transform:" + name.split(":")[0])
        ctx.evaluations += nev
        for e in range(nev):
            tol = 1e-7 * max(abs(float(rho[e])), 1e-300)
            meta = dict(meta0, layer="frame_invariance", transform=name, transform_args={k: np.asarray(v).tolist() for k, v in kw.items() if k != "swap"},
                        event=e, density_p=float(rho[e]), density_Lp=float(rho2[e]))
            if not math.isfinite(rho2[e]):
                cases.append(("I_%s_%s_e%d" % (tag, name, e), "False", "interval", meta))
                continue
            cases.append(("I_%s_%s_e%d" % (tag, name.replace("+", "_").replace(":", "_").replace("<->", "_"), e),
                          "(Rabs (%s - %s) <= %s)%%R" % (Rq(float(rho2[e])), Rq(float(rho[e])), Rq(tol)), "interval with (i_prec 90)", meta))
            ctx.distinct.add((tag, name, e))
        # invariant masses of the transformed event: Minkowski model vs the code's mass at Lambda p
        if "swap" not in kw:
            pk = [k for k in d2["particle"].keys() if str(k).startswith("(")][:nmass]
            for k in pk:
                names = [x.strip() for x in str(k).strip("()").split(",")]
                for e in range(min(nev, 2)):
                    tot = "(%s)" % " + ".join("0" for _ in names)
                    vec = [sum(q4[n][e][c] for n in names) for c in range(4)]
                    # sum of the constituents' momenta is formed inside Coq
                    expr = "sqrt (mink4 (%s) (%s))" % (psum(q4, names, e), psum(q4, names, e))
                    cases.append(("M_%s_%s_%s_e%d" % (tag, name.replace("+", "_"), "".join(names), e),
                                  real_stmt(expr, float(np.array(d2["particle"][k]["m"])[e]), rtol=1e-9), RT,
                                  dict(meta0, layer="invariant_mass", transform=name, particle=str(k), event=e)))
    return pars


def permutation_cases(ctx, rnd, tag, cfg, p4, cases):
    """density under every permutation of the momenta of the declared identical particles"""
    import itertools
    from tf_pwa.config_loader import ConfigLoader
    config = ConfigLoader(cfg); amp = config.get_amplitude(); pars = ampkit.random_params(amp, rnd)
    names = cfg["data"]["identical_particles"][0]
    rho = np.array(amp(config.data.cal_angle(p4)))
    meta0 = {"config": cfg, "params": {k: float(v) for k, v in pars.items()}, "events": {k: v.tolist() for k, v in p4.items()}}
    for perm in itertools.permutations(names):
        if list(perm) == list(names):
            continue
        q4 = dict(p4)
        for a, b in zip(names, perm):
            q4[a] = p4[b]
        rho2 = np.array(amp(config.data.cal_angle(q4)))
        ctx.count("transform:permutation")
        ctx.evaluations += len(rho)
        for e in range(len(rho)):
            tol = 1e-8 * abs(float(rho[e]))
            cases.append(("X_%s_%s_e%d" % (tag, "".join(perm), e), "(Rabs (%s - %s) <= %s)%%R" % (Rq(float(rho2[e])), Rq(float(rho[e])), Rq(tol)), "interval with (i_prec 90)",
                          dict(meta0, layer="frame_invariance", transform="exchange %s->%s" % ("".join(names), "".join(perm)), event=e,
                               density_p=float(rho[e]), density_Lp=float(rho2[e]))))
            ctx.distinct.add((tag, perm, e))


def psum(p4, names, e):
    s = c04.P4q(p4[names[0]][e])
    for n in names[1:]:
        s = "(p4add %s %s)" % (s, c04.P4q(p4[n][e]))
    return s


def search(ctx, fails):
    for f in fails:
        m = f.get("input") or {}
        if m.get("layer") == "frame_invariance":
            return {"config": m["config"], "params": m["params"], "events": m["events"], "transform": m["transform"], "transform_args": m.get("transform_args"),
                    "event": m["event"], "density_p": m["density_p"], "density_Lambda_p": m["density_Lp"]}
        if m.get("layer") == "geometry" and (m["su2_mismatch"] > 1e-9 or abs(math.cos(m["polar_next_vertex"][0]) - math.cos(m["polar_next_vertex"][1])) > 1e-9
                                             or m["gamma_first_vertex"] != [0.0, 0.0]):
            return {k: m[k] for k in m if k != "layer"}
        if m.get("layer") == "swap_sign":
            return {k: m[k] for k in m if k != "layer"}
        if m.get("layer") == "finite_nonneg":
            return {"config": m["config"], "params": m["params"], "events": m["events"], "event": m["event"], "density": m["impl_density"]}
    r = c04.search(ctx, fails)
    return r


def run(ctx):
    del VCASES[:]
    del GCASES[:]
    del SCASES[:]
    ctx.extra_targets = ["Amp/Chain.vo", "Amp/CascadeTie.vo", "Amp/SwapSign.vo"]
    rnd = random.Random(ctx.seed * 1000003 + 1)
    ctx.rule = ("spin-0 three-chain configs: closed-form layers at p and at Lambda p for Lambda in {rotation, boost(|v|<=0.9), rot+boost, inversion}; spinful: spin-1/2 weak decay, "
                "vector->vector+2 scalars, vector->3 scalars through all three pairings (spins 1,2,1), 4-body vector->4 scalars via (VV) and (A->V) cascades, identical spin-0 pair, three identical spin-1 and three identical spin-1/2 particles (all permutations), identical spin-1 / spin-1/2 pair with one listed chain, "
                "direct three-body node + resonant chains with a spin-1 / spin-1/2 final particle, three-body node with a decaying daughter (4-body): densities at p vs Lambda p, one generator at a time; get_swap_factor vs signature model for all permutations of 2..4 names; "
                "excluded: events with a vertex within 1e-6 rad of collinear (open finding, fixed reproducer); "
                "distinct = distinct (config, transform, event)")
    common.theorem_stage(ctx)
    quick = ctx.tier == "quick"
    cases = []
    # (M) model-decided: spin-0
    for n in range(1 if quick else 4):
        M0, mf, res = c04.build(rnd, None, 3 if n == 0 else None)
        info = {}
        c04.run_config(ctx, rnd, "m%d_p" % n, M0, mf, res, 2, cases, info=info)
        for name, kw in transforms(rnd)[: (3 if quick else 5)]:
            if name.startswith("inversion+"):
                continue
            q4 = ampkit.lorentz_transform(info["p4"], **kw)
            info2 = {}
            c04.run_config(ctx, rnd, "m%d_%s" % (n, name.replace("+", "_")), M0, mf, res, 2, cases, p4=q4, pars=info["pars"], info=info2)
            ctx.count("model_decided_transform:" + name)
            for e in range(2):
                tol = 1e-7 * float(info["dens"][e])
                cases.append(("MI_m%d_%s_e%d" % (n, name.replace("+", "_"), e),
                              "(Rabs (%s - %s) <= %s)%%R" % (Rq(float(info2["dens"][e])), Rq(float(info["dens"][e])), Rq(tol)), "interval with (i_prec 90)",
                              {"layer": "frame_invariance", "config": info["cfg"], "params": {k: float(v) for k, v in info["pars"].items()},
                               "events": {k: v.tolist() for k, v in info["p4"].items()}, "transform": name, "event": e,
                               "density_p": float(info["dens"][e]), "density_Lp": float(info2["dens"][e])}))
    # (I) spinful configs
    cfgs = c03.configs(rnd, "quick")[1:]
    nev = 2 if quick else 4
    for tag, cfg, M0, mf, _tree in [c for c in cfgs if c[4] is None]:
        p4 = ampkit.gen_events(M0, mf, nev, rnd.randrange(10 ** 6))
        metamorphic(ctx, rnd, tag, cfg, p4, cases)
        ctx.sample({"config_tag": tag, "decay": cfg["decay"]}, cap=8)
    # vector parent -> three pseudoscalars through all three pairings (spins 1, 2, 1): the scope of C01_multi_topology_rotation_invariant
    mf = {"B": 0.14, "C": 0.14, "D": 0.49}; M0 = 3.1
    res = {"R_BC": {"pair": "R_BC", "J": 1, "P": -1, "mass": 0.77, "width": 0.15}, "R_BD": {"pair": "R_BD", "J": 2, "P": 1, "mass": 1.43, "width": 0.1},
           "R_CD": {"pair": "R_CD", "J": 1, "P": -1, "mass": 0.89, "width": 0.05}}
    cfg = ampkit.three_body_config(M0, mf, res, top=(1, -1))
    p4 = ampkit.gen_events(M0, mf, nev, rnd.randrange(10 ** 6))
    metamorphic(ctx, rnd, "vec3s", cfg, p4, cases)
    cfg, M0, mf, tree = four_body(rnd)
    p4 = ampkit.gen_tree_events(tree, mf, M0, nev, rnd.randrange(10 ** 6))
    metamorphic(ctx, rnd, "fourbody", cfg, p4, cases)
    # identical spin-0 particles C, D (same mass), resonance in BC (the code adds the exchanged term)
    mf = {"B": 0.5, "C": 0.14, "D": 0.14}; M0 = 1.9
    res = {"R_BC": {"pair": "R_BC", "J": 1, "P": -1, "mass": 0.9, "width": 0.05}, "R_CD": {"pair": "R_CD", "J": 0, "P": 1, "mass": 0.6, "width": 0.3}}
    cfg = ampkit.three_body_config(M0, mf, res, data_opts={"identical_particles": [["C", "D"]]})
    p4 = ampkit.gen_events(M0, mf, nev, rnd.randrange(10 ** 6))
    metamorphic(ctx, rnd, "identical", cfg, p4, cases, swap=("C", "D"))
    # three identical SPIN-1 particles: the exchanged amplitudes come with helicity-axis transpositions (3-cycles included)
    mf = {"B": 0.3, "C": 0.3, "D": 0.3}; M0 = 2.0
    res = {"R_BC": {"pair": "R_BC", "J": 2, "P": 1, "mass": 1.1, "width": 0.2}}
    cfg = ampkit.three_body_config(M0, mf, res, top=(1, -1), fin={k: (1, -1) for k in "BCD"}, data_opts={"identical_particles": [["B", "C", "D"]]})
    p4 = ampkit.gen_events(M0, mf, nev, rnd.randrange(10 ** 6))
    permutation_cases(ctx, rnd, "identical3", cfg, p4, cases)
    # three identical SPIN-1/2 particles, one listed chain: the signs of the exchanged amplitudes (3-cycles are EVEN) and the frame
    mf = {"B": 0.5, "C": 0.5, "D": 0.5}; M0 = 3.6
    # (R with J^P = 1^- : a 1^+ state does not couple to two identical fermions - L even, S = 1 is symmetric - and the correctly
    # antisymmetrised density is identically zero)
    res = {"R_BC": {"pair": "R_BC", "J": 1, "P": -1, "mass": 1.6, "width": 0.2}}
    cfg = ampkit.three_body_config(M0, mf, res, top=(0.5, 1), fin={k: (0.5, -1) for k in "BCD"}, data_opts={"identical_particles": [["B", "C", "D"]]})
    p4 = ampkit.gen_events(M0, mf, nev, rnd.randrange(10 ** 6))
    permutation_cases(ctx, rnd, "idfermion3", cfg, p4, cases)
    metamorphic(ctx, rnd, "idfermion3", cfg, p4, cases, swap=("B", "D"), light=True)
    # identical particles WITH spin, only one of the equivalent chains listed (A->R+C, R->B+D with B, C identical): the other one
    # exists only as the exchange term, so both must refer the spin of B and C to frames fixed by the particle's own momentum
    for J, JR in ((1, 1), (0.5, 0.5)):
        mf = {"B": 0.7, "C": 0.7, "D": 0.14}; M0 = 3.6
        res = {"R_BD": {"pair": "R_BD", "J": JR, "P": 1, "mass": 1.3, "width": 0.2}}
        cfg = ampkit.three_body_config(M0, mf, res, top=(1, -1), fin={"B": (J, -1), "C": (J, -1), "D": (0, -1)}, data_opts={"identical_particles": [["B", "C"]]})
        p4 = ampkit.gen_events(M0, mf, nev, rnd.randrange(10 ** 6))
        metamorphic(ctx, rnd, "idspin_onechain_J%s" % str(J).replace(".", ""), cfg, p4, cases, swap=("B", "C"), light=True)
    # direct three-body node interfering with resonant chains, spinning final particle; declared first (it is the alignment
    # reference of every final particle) and last (it is aligned to the resonant chains)
    for JB, JA, first in (((1, 1, True), (0.5, 0.5, False)) if quick else ((1, 1, True), (0.5, 0.5, False), (1, 1, False), (0.5, 0.5, True), (1, 2, True))):
        cfg, M0, mf = direct3_config(JB, JA, first)
        p4 = ampkit.gen_events(M0, mf, nev, rnd.randrange(10 ** 6))
        metamorphic(ctx, rnd, "direct3_JB%s_JA%s_%s" % (str(JB).replace(".", ""), str(JA).replace(".", ""), "first" if first else "last"), cfg, p4, cases, light=True)
        ctx.sample({"config_tag": "direct3", "decay": cfg["decay"]}, cap=10)
    # a daughter of the direct three-body node decays further ([A->R1+D+E], R1->B+C), interfering with (R1 R2): the azimuth of the
    # R1 decay has to be measured from the x axis the node gives R1 (the in-plane one).  The node's couplings G_mu are free (no
    # parity relation), so inversion is not asserted for this 4-body decay
    mf = {"B": 0.14, "C": 0.14, "D": 0.49, "E": 0.49}; M0 = 3.1
    for JB in (0, 1):
        cfg = {"data": {"dat_order": ["B", "C", "D", "E"]},
               "decay": {"A": [["R1", "D", "E"], ["R1", "R2"]], "R1": ["B", "C"], "R2": ["D", "E"]},
               "particle": {"$top": {"A": {"J": 1, "P": -1, "mass": M0}},
                            "$finals": {k: {"J": (JB if k == "B" else 0), "P": -1, "mass": mf[k]} for k in "BCDE"},
                            "R1": {"J": 1, "P": -1, "mass": 0.77, "width": 0.15}, "R2": {"J": 1, "P": -1, "mass": 1.02, "width": 0.05}}}
        p4 = ampkit.gen_tree_events((("B", "C"), ("D", "E")), mf, M0, nev, rnd.randrange(10 ** 6))
        metamorphic(ctx, rnd, "node3_sub_JB%d" % JB, cfg, p4, cases, parity_ok=False, light=True)
    swap_sign_cases(ctx, rnd)
    collinear_reproducer(ctx)
    for c in cases[:: max(1, len(cases) // 4)]:
        ctx.sample({"case": c[0], "goal": c[1][:300], "layer": c[3].get("layer")}, cap=12)
    res_ = common.coq_cases(ctx, "c01", HEADER, [c[:3] for c in cases], per_file=8, case_timeout=60)
    res_.update(common.coq_cases(ctx, "c01v", amplayers.HEADER, [c[:3] for c in VCASES], per_file=6, case_timeout=90))
    res_.update(common.coq_cases(ctx, "c01g", GHEADER, [c[:3] for c in GCASES], per_file=2, case_timeout=120))
    res_.update(common.coq_cases(ctx, "c01s", SHEADER, [c[:3] for c in SCASES], per_file=40, case_timeout=60))
    cases = cases + VCASES + GCASES + SCASES
    bad_by_scenario = {}
    for cid, stmt, tac, meta in cases:
        if res_[cid] != "OK":
            key = "%s:%s" % (meta["layer"], cid.split("_e")[0])
            bad_by_scenario[key] = bad_by_scenario.get(key, 0) + 1
            ctx.fail(meta["layer"], cid, "layer %s does not check (%s)" % (meta["layer"], res_[cid]), inp=meta,
                     site="frame:" + meta["layer"] + ":" + str(meta.get("transform", "")), fingerprint=meta["layer"])
    if bad_by_scenario:
        print("C01 failing cases by scenario: " + "; ".join("%s x%d" % kv for kv in sorted(bad_by_scenario.items())), flush=True)
    return common.finish(ctx, search=search, technique=TECHNIQUE, extra_assumptions=[
        "cascades with spin: rotation invariance of one topology is a theorem (C01_cascade_rotation_invariant) whose geometric hypothesis (the SU(2) relation between the first-vertex "
        "angles before/after and the azimuth shift of the next vertex) is certified on the code's own angles (layer geometry); PARTIAL: several topologies interfering (alignment "
        "rotations), boosts (Wigner rotations) and the derivation of the geometric relation from the kinematic model are not theorems: decided by the certified comparison of the "
        "code with itself at p and Lambda p plus the tied layers",
        "tolerance rtol 1e-7 on densities (boosts up to |v|=0.9)"])


def replay(rep):
    return ampkit.replay_failing_input(rep)
